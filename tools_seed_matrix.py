#!/usr/bin/env python3
"""Runs every kept seeded change under /verif/seeded against the check of the
property it breaks (scratch worktree + VERIF_REPO, /repo untouched) and writes
seeded/RESULTS.md and seeded/<id>/meta.json["detection"].  Development aid."""
import concurrent.futures as cf
import hashlib
import json
import os
import subprocess
import sys
from pathlib import Path

SEEDED = Path("/verif/seeded")
SEQ_PROPS = {"C01", "C02", "C03", "C07", "C09", "C10", "C13", "C15", "C18"}
HEAD = subprocess.check_output(["git", "-C", "/repo", "rev-parse", "HEAD"], text=True).strip()


def run_prop(prop, ids):
    wt = f"/tmp/wt/matrix-{prop}"
    subprocess.run(["git", "-C", "/repo", "worktree", "add", "-f", "--detach", wt, HEAD], capture_output=True)
    out = []
    for sid in ids:
        d = SEEDED / sid
        subprocess.run(["git", "-C", wt, "checkout", "-q", "--detach", HEAD], capture_output=True)
        subprocess.run(["git", "-C", wt, "checkout", "--", "."], capture_output=True)
        ap = subprocess.run(["git", "-C", wt, "apply", str(d / "patch.diff")], capture_output=True, text=True)
        if ap.returncode != 0:
            out.append((sid, dict(applies=False, note=ap.stderr[-200:])))
            continue
        env = dict(os.environ, VERIF_REPO=wt)
        p = subprocess.run(["/verif/check", prop, "--tier", "quick"], capture_output=True, text=True, env=env)
        tag = hashlib.sha1(str(Path(wt).resolve()).encode()).hexdigest()[:10]
        evf = Path(f"/verif/.work/alt-{tag}/evidence/{prop}.json")
        det = dict(applies=True, exit=p.returncode,
                   violation_lines=[l for l in p.stdout.splitlines() if l.startswith("VIOLATION")][:3])
        if evf.exists():
            cov = json.loads(evf.read_text())["coverage"]
            broken = cov.get("broken", [])
            det.update(
                correspondence_mismatches=cov.get("correspondence", {}).get("mismatches"),
                oracle_violations_new=sum(1 for l in det["violation_lines"] if "no-failing-input-found" not in l),
                proof_or_translator_broken=[b for b in broken if b.startswith("coq:") or b.startswith("translator")][:4],
            )
        # harvest: the failing case of a caught change becomes a corpus case of the property (run first on
        # every run), so that this class of change is detected whatever the seed
        if prop in SEQ_PROPS and p.returncode == 1:
            rdir = Path(f"/verif/.work/alt-{tag}/evidence/replays")
            n = 0
            for rf in sorted(rdir.glob(f"{prop}-*.json")):
                try:
                    payload = json.loads(rf.read_text())
                except Exception:  # noqa: BLE001
                    continue
                case = payload.get("case")
                if isinstance(case, dict) and "ops" in case and "device" in case and n < 2:
                    out_f = Path(f"/verif/corpus/{prop}/seeded-{sid}-{n}.json")
                    out_f.parent.mkdir(parents=True, exist_ok=True)
                    if not out_f.exists():
                        out_f.write_text(json.dumps(case))
                    n += 1
        caught = p.returncode == 1 and bool(det["violation_lines"])
        det["caught"] = caught
        by = []
        if det.get("proof_or_translator_broken"):
            by.append("proof obligation")
        if det.get("correspondence_mismatches"):
            by.append("correspondence")
        if any("no-failing-input-found" not in l for l in det["violation_lines"]):
            by.append("oracle (failing input)")
        det["caught_by"] = by
        out.append((sid, det))
        subprocess.run(["git", "-C", wt, "checkout", "--", "."], capture_output=True)
    subprocess.run(["git", "-C", "/repo", "worktree", "remove", "--force", wt], capture_output=True)
    return out


def main():
    only = set(sys.argv[1:])
    by_prop = {}
    for d in sorted(SEEDED.iterdir()):
        m = d / "meta.json"
        if not m.exists():
            continue
        meta = json.loads(m.read_text())
        if not meta.get("keep"):
            continue
        prop = meta["property"]
        if only and prop not in only:
            continue
        by_prop.setdefault(prop, []).append(d.name)
    results = {}
    with cf.ThreadPoolExecutor(max_workers=5) as ex:
        for res in ex.map(lambda kv: run_prop(*kv), sorted(by_prop.items())):
            for sid, det in res:
                results[sid] = det
                mp = SEEDED / sid / "meta.json"
                meta = json.loads(mp.read_text())
                meta["detection"] = det
                meta["repo_head_when_run"] = HEAD[:8]
                mp.write_text(json.dumps(meta, indent=1))
                print(sid, det.get("caught"), det.get("caught_by"), flush=True)
    lines = ["# Seeded changes vs the check of the property they break", "",
             f"(/repo HEAD {HEAD[:8]}; quick tier, default seed; scratch worktree + VERIF_REPO)", "",
             "| id | property | what it needs to manifest | caught | by |", "|---|---|---|---|---|"]
    for d in sorted(SEEDED.iterdir()):
        mp = d / "meta.json"
        if not mp.exists():
            continue
        meta = json.loads(mp.read_text())
        det = meta.get("detection")
        if not meta.get("keep") or det is None:
            continue
        needs = str(meta.get("needs", ""))[:160].replace("|", "/").replace("\n", " ")
        if det.get("applies") is False:
            lines.append(f"| {d.name} | {meta['property']} | {needs} | n/a | patch no longer applies at HEAD (the code it edits was changed by a later fix: commit) |")
            continue
        lines.append(f"| {d.name} | {meta['property']} | {needs} | {'yes' if det.get('caught') else 'NO'} | {', '.join(det.get('caught_by', []))} |")
    (SEEDED / "RESULTS.md").write_text("\n".join(lines) + "\n")


if __name__ == "__main__":
    main()
