#!/usr/bin/env python3
"""C04 translator: regenerates from the tree under verification

  Gen/AbsSig.v     SIGNATURES / UNARY_OPERATORS / BINARY_OPERATORS of
                   json/abstract_repr/signatures.py, the parameter lists and
                   constant defaults of the Sequence building methods, of the
                   waveform constructors and of the Pulse constructors /
                   classmethods (what inspect.signature reports), the
                   `op.get(key, default)` defaults the abstract deserializer
                   applies per operation, SUPPORTED_* tables of the legacy coder
  Gen/AbsSchema.v  schemas/sequence-schema.json as a [schema] term

AST / json based, fail-closed: any construct outside the supported fragment
raises (the check then reports a broken tie)."""
from __future__ import annotations

import ast
import json
import math
from pathlib import Path


class Unsupported(Exception):
    pass


def cstr(s: str) -> str:
    if any(ord(c) > 126 or ord(c) < 32 for c in s):
        raise Unsupported(f"non-ascii string {s!r}")
    return '"' + s.replace('"', '""') + '"'


def clist(items) -> str:
    return "[" + "; ".join(items) + "]"


def fhex(x: float) -> str:
    x = float(x)
    if math.isnan(x):
        return "nan"
    if math.isinf(x):
        return "infinity" if x > 0 else "neg_infinity"
    if x == 0.0:
        return "neg_zero" if math.copysign(1.0, x) < 0 else "zero"
    h = x.hex()
    return "(-" + h[1:] + ")%float" if h.startswith("-") else "(" + h + ")%float"


def cjson(v) -> str:
    if v is None:
        return "JNull"
    if isinstance(v, bool):
        return "(JBool %s)" % ("true" if v else "false")
    if isinstance(v, int):
        return "(JInt (%d))" % v
    if isinstance(v, float):
        return "(JFlt %s)" % fhex(v)
    if isinstance(v, str):
        return "(JStr %s)" % cstr(v)
    if isinstance(v, list):
        return "(JArr %s)" % clist(cjson(x) for x in v)
    if isinstance(v, dict):
        return "(JObj %s)" % clist("(%s, %s)" % (cstr(k), cjson(x)) for k, x in v.items())
    raise Unsupported(f"json value {v!r}")


def const_of(node: ast.AST, where: str):
    """constant default values only"""
    if isinstance(node, ast.Constant) and (
        node.value is None or isinstance(node.value, (bool, int, float, str))
    ):
        return node.value
    if isinstance(node, ast.UnaryOp) and isinstance(node.op, ast.USub) and isinstance(node.operand, ast.Constant):
        return -node.operand.value
    raise Unsupported(f"{where}: default value is not a constant: {ast.dump(node)[:80]}")


def str_tuple(node: ast.AST, where: str) -> list[str]:
    if isinstance(node, (ast.Tuple, ast.List)) and all(
        isinstance(e, ast.Constant) and isinstance(e.value, str) for e in node.elts
    ):
        return [e.value for e in node.elts]
    raise Unsupported(f"{where}: expected a tuple of strings")


def find_assign(tree: ast.Module, name: str) -> ast.AST:
    for n in tree.body:
        if isinstance(n, ast.AnnAssign) and isinstance(n.target, ast.Name) and n.target.id == name:
            return n.value
        if isinstance(n, ast.Assign) and any(isinstance(t, ast.Name) and t.id == name for t in n.targets):
            return n.value
    raise Unsupported(f"no top-level assignment to {name}")


# ------------------------------------------------------------ signatures.py
def tr_signatures(repo: Path):
    src = repo / "pulser-core/pulser/json/abstract_repr/signatures.py"
    tree = ast.parse(src.read_text())
    d = find_assign(tree, "SIGNATURES")
    if not isinstance(d, ast.Dict):
        raise Unsupported("SIGNATURES is not a dict literal")
    sigs = []
    for k, v in zip(d.keys, d.values):
        if not (isinstance(k, ast.Constant) and isinstance(k.value, str)):
            raise Unsupported("SIGNATURES key")
        if not (isinstance(v, ast.Call) and isinstance(v.func, ast.Name) and v.func.id == "PulserSignature" and not v.args):
            raise Unsupported(f"SIGNATURES[{k.value}] is not PulserSignature(...)")
        pos, var_pos, keyword, extra = [], None, [], []
        for kw in v.keywords:
            if kw.arg == "pos":
                pos = str_tuple(kw.value, k.value)
            elif kw.arg == "keyword":
                keyword = str_tuple(kw.value, k.value)
            elif kw.arg == "var_pos":
                var_pos = const_of(kw.value, k.value)
                if not (var_pos is None or isinstance(var_pos, str)):
                    raise Unsupported("var_pos")
            elif kw.arg == "extra":
                e = kw.value
                if not (isinstance(e, ast.Call) and isinstance(e.func, ast.Name) and e.func.id == "dict" and not e.args):
                    raise Unsupported("extra is not dict(k=v)")
                for ekw in e.keywords:
                    val = const_of(ekw.value, k.value)
                    if not isinstance(val, str):
                        raise Unsupported("extra value")
                    extra.append((ekw.arg, val))
            else:
                raise Unsupported(f"PulserSignature field {kw.arg}")
        sigs.append((k.value, pos, var_pos, keyword, extra))
    ops = {}
    for nm in ("BINARY_OPERATORS", "UNARY_OPERATORS"):
        dd = find_assign(tree, nm)
        if not isinstance(dd, ast.Dict):
            raise Unsupported(nm)
        names = []
        for k in dd.keys:
            if not (isinstance(k, ast.Constant) and isinstance(k.value, str)):
                raise Unsupported(nm)
            names.append(k.value)
        ops[nm] = names
    # all_pos_args: pos if var_pos is not None else pos + keyword
    for n in ast.walk(tree):
        if isinstance(n, ast.FunctionDef) and n.name == "all_pos_args":
            txt = ast.unparse(n)
            body = [b for b in n.body if not (isinstance(b, ast.Expr) and isinstance(b.value, ast.Constant))]
            want = "if self.var_pos is not None:\n    return self.pos\nreturn (*self.pos, *self.keyword)"
            if "\n".join(ast.unparse(b) for b in body) != want:
                raise Unsupported("PulserSignature.all_pos_args changed:\n" + txt)
            break
    else:
        raise Unsupported("PulserSignature.all_pos_args not found")
    return sigs, ops


# ------------------------------------------------------------ method signatures
def params_of(fn: ast.FunctionDef, where: str, skip_first=True):
    """-> (positional names, var_pos name|None, kw-only names, {name: default})"""
    a = fn.args
    if a.posonlyargs:
        raise Unsupported(f"{where}: positional-only parameters")
    names = [x.arg for x in a.args]
    if skip_first:
        names = names[1:]
    defaults = {}
    nd = len(a.defaults)
    all_names = [x.arg for x in a.args]
    for nm, dv in zip(all_names[len(all_names) - nd:], a.defaults):
        defaults[nm] = const_of(dv, f"{where}.{nm}")
    kwonly = [x.arg for x in a.kwonlyargs]
    for nm, dv in zip(kwonly, a.kw_defaults):
        if dv is not None:
            defaults[nm] = const_of(dv, f"{where}.{nm}")
    return names, (a.vararg.arg if a.vararg else None), kwonly, defaults


SEQ_METHODS = [
    "declare_channel", "target", "target_index", "delay", "add", "add_eom_pulse",
    "enable_eom_mode", "modify_eom_setpoint", "disable_eom_mode", "add_dmm_detuning",
    "align", "phase_shift", "phase_shift_index", "measure", "config_slm_mask",
    "config_detuning_map", "set_magnetic_field",
]


def is_overload(fn: ast.FunctionDef) -> bool:
    return any((isinstance(d, ast.Name) and d.id == "overload") for d in fn.decorator_list)


def tr_sequence(repo: Path):
    src = repo / "pulser-core/pulser/sequence/sequence.py"
    tree = ast.parse(src.read_text())
    cls = next((n for n in tree.body if isinstance(n, ast.ClassDef) and n.name == "Sequence"), None)
    if cls is None:
        raise Unsupported("class Sequence not found")
    out = []
    for m in SEQ_METHODS:
        fns = [n for n in cls.body if isinstance(n, ast.FunctionDef) and n.name == m and not is_overload(n)]
        if len(fns) != 1:
            raise Unsupported(f"Sequence.{m}: {len(fns)} definitions")
        out.append((m,) + params_of(fns[0], "Sequence." + m))
    return out


def tr_classes(repo: Path):
    out = []
    wsrc = repo / "pulser-core/pulser/waveforms.py"
    tree = ast.parse(wsrc.read_text())
    for cname in ["CompositeWaveform", "CustomWaveform", "ConstantWaveform", "RampWaveform",
                  "BlackmanWaveform", "InterpolatedWaveform", "KaiserWaveform"]:
        cls = next((n for n in tree.body if isinstance(n, ast.ClassDef) and n.name == cname), None)
        if cls is None:
            raise Unsupported(cname)
        init = [n for n in cls.body if isinstance(n, ast.FunctionDef) and n.name == "__init__"]
        if len(init) != 1:
            raise Unsupported(cname + ".__init__")
        out.append((cname,) + params_of(init[0], cname))
        for n in cls.body:
            if isinstance(n, ast.FunctionDef) and n.name == "from_max_val":
                out.append((cname + ".from_max_val",) + params_of(n, cname + ".from_max_val"))
    psrc = repo / "pulser-core/pulser/pulse.py"
    tree = ast.parse(psrc.read_text())
    cls = next((n for n in tree.body if isinstance(n, ast.ClassDef) and n.name == "Pulse"), None)
    if cls is None:
        raise Unsupported("Pulse")
    for n in cls.body:
        if isinstance(n, ast.FunctionDef) and n.name in ("__init__", "ConstantDetuning", "ConstantAmplitude", "ArbitraryPhase"):
            nm = "Pulse" if n.name == "__init__" else "Pulse." + n.name
            out.append((nm,) + params_of(n, nm))
    return out


# ------------------------------------------------------------ deserializer defaults
def tr_deser_defaults(repo: Path):
    """(op tag, key, default) for every `op.get(key, default)` inside the
    `op["op"] == tag` branches of _deserialize_operation, and the set of tags"""
    src = repo / "pulser-core/pulser/json/abstract_repr/deserializer.py"
    tree = ast.parse(src.read_text())
    fn = next((n for n in tree.body if isinstance(n, ast.FunctionDef) and n.name == "_deserialize_operation"), None)
    if fn is None:
        raise Unsupported("_deserialize_operation not found")
    out, tags = [], []

    def tag_of(test):
        if (isinstance(test, ast.Compare) and len(test.ops) == 1 and isinstance(test.ops[0], ast.Eq)
                and ast.unparse(test.left) == "op['op']" and isinstance(test.comparators[0], ast.Constant)):
            return test.comparators[0].value
        raise Unsupported("_deserialize_operation: branch test " + ast.unparse(test))

    node = fn.body[0] if not (isinstance(fn.body[0], ast.Expr)) else fn.body[1]
    if not isinstance(node, ast.If):
        raise Unsupported("_deserialize_operation: expected an if-chain")
    while True:
        tag = tag_of(node.test)
        tags.append(tag)
        for stmt in node.body:
            for c in ast.walk(stmt):
                if (isinstance(c, ast.Call) and isinstance(c.func, ast.Attribute) and c.func.attr == "get"
                        and isinstance(c.func.value, ast.Name) and c.func.value.id == "op"):
                    if len(c.args) != 2 or not isinstance(c.args[0], ast.Constant):
                        raise Unsupported("op.get with unexpected arguments")
                    out.append((tag, c.args[0].value, const_of(c.args[1], "op.get")))
        if len(node.orelse) == 1 and isinstance(node.orelse[0], ast.If):
            node = node.orelse[0]
        elif not node.orelse:
            break
        else:
            raise Unsupported("_deserialize_operation: unexpected else branch")
    return out, tags


def tr_supported(repo: Path):
    src = repo / "pulser-core/pulser/json/supported.py"
    tree = ast.parse(src.read_text())
    res = {}
    for nm in ("SUPPORTED_OPERATORS", "SUPPORTED_NUMPY", "SUPPORTED_BUILTINS", "SUPPORTS_SUBMODULE"):
        res[nm] = str_tuple(find_assign(tree, nm), nm)
    return res


# ------------------------------------------------------------ schema
KNOWN_KW = {
    "type", "$ref", "additionalProperties", "properties", "required", "const", "items", "anyOf",
    "enum", "maxItems", "minItems", "description", "$schema", "$id", "definitions",
}


def cschema(s, where: str) -> str:
    if s is True or s == {}:
        return "SAny"
    if not isinstance(s, dict):
        raise Unsupported(f"{where}: schema is {type(s)}")
    bad = set(s) - KNOWN_KW
    if bad:
        raise Unsupported(f"{where}: schema keywords {sorted(bad)}")
    if "$ref" in s:
        if set(s) - {"$ref", "description"}:
            raise Unsupported(f"{where}: $ref with siblings")
        r = s["$ref"]
        if r.startswith("#/definitions/"):
            return "(SRef %s)" % cstr(r[len("#/definitions/"):])
        if r.endswith(".json") and "/" not in r and "#" not in r:
            return "(SExt %s)" % cstr(r)
        raise Unsupported(f"{where}: $ref {r}")
    ty = s.get("type")
    if ty is not None and not isinstance(ty, str):
        raise Unsupported(f"{where}: type {ty}")
    ad = s.get("additionalProperties", True)
    if ad is True:
        ad_t = "AddlAny"
    elif ad is False:
        ad_t = "AddlNone"
    elif isinstance(ad, dict) and set(ad) == {"$ref"} and ad["$ref"].startswith("#/definitions/"):
        ad_t = "(AddlSchema %s)" % cstr(ad["$ref"][len("#/definitions/"):])
    else:
        raise Unsupported(f"{where}: additionalProperties {ad}")
    items = s.get("items")
    if isinstance(items, list):
        raise Unsupported(f"{where}: tuple items")

    def opt(x, f):
        return "None" if x is None else "(Some %s)" % f(x)

    return "(SNode %s %s %s %s %s %s %s %s %s %s)" % (
        opt(ty, cstr),
        opt(s["const"], cjson) if "const" in s else "None",
        opt(s.get("enum"), lambda l: clist(cjson(x) for x in l)),
        clist("(%s, %s)" % (cstr(k), cschema(v, where + "." + k)) for k, v in s.get("properties", {}).items()),
        clist(cstr(r) for r in s.get("required", [])),
        ad_t,
        opt(items, lambda x: cschema(x, where + "[]")),
        clist(cschema(x, where + "|") for x in s.get("anyOf", [])),
        opt(s.get("minItems"), lambda z: "(%d)" % z),
        opt(s.get("maxItems"), lambda z: "(%d)" % z),
    )


def tr_schema(repo: Path):
    p = repo / "pulser-core/pulser/json/abstract_repr/schemas/sequence-schema.json"
    s = json.loads(p.read_text())
    if set(s) - {"$id", "$ref", "$schema", "definitions"}:
        raise Unsupported("sequence schema: unexpected top-level keys")
    defs = []
    for name, sub in s["definitions"].items():
        defs.append("(%s,\n   %s)" % (cstr(name), cschema(sub, name)))
    root = cschema({"$ref": s["$ref"]}, "root")
    return defs, root


HEADER = """(** GENERATED by translate/tr_c04.py from the tree under verification - do not edit *)
From Coq Require Import ZArith List Bool String.
From Coq Require Import PrimFloat.
From PV Require Import Model.Base Model.AbsJson.
Import ListNotations.
Open Scope string_scope.
"""


def main(repo: Path, outdir: Path):
    sigs, ops = tr_signatures(repo)
    meths = tr_sequence(repo)
    classes = tr_classes(repo)
    dd, tags = tr_deser_defaults(repo)
    sup = tr_supported(repo)

    def opt_s(x):
        return "None" if x is None else "(Some %s)" % cstr(x)

    def params_entry(e):
        nm, pos, var, kwonly, defaults = e
        return "(%s, (%s, %s, %s, %s))" % (
            cstr(nm),
            clist(cstr(p) for p in pos),
            opt_s(var),
            clist(cstr(p) for p in kwonly),
            clist("(%s, %s)" % (cstr(k), cjson(v)) for k, v in defaults.items()),
        )

    t = HEADER
    t += "\n(** name -> (pos, var_pos, keyword, extra) *)\n"
    t += "Definition gen_signatures : list (string * (list string * option string * list string * list (string * string))) :=\n  "
    t += clist(
        "\n   (%s, (%s, %s, %s, %s))"
        % (cstr(n), clist(cstr(p) for p in pos), opt_s(vp), clist(cstr(p) for p in kw),
           clist("(%s, %s)" % (cstr(a), cstr(b)) for a, b in extra))
        for n, pos, vp, kw, extra in sigs
    ) + ".\n"
    t += "Definition gen_unary_ops : list string := %s.\n" % clist(cstr(x) for x in ops["UNARY_OPERATORS"])
    t += "Definition gen_binary_ops : list string := %s.\n" % clist(cstr(x) for x in ops["BINARY_OPERATORS"])
    t += "\n(** Sequence method -> (positional parameters, *var, keyword-only, constant defaults) *)\n"
    t += "Definition gen_seq_methods : list (string * (list string * option string * list string * list (string * json))) :=\n  "
    t += clist("\n   " + params_entry(e) for e in meths) + ".\n"
    t += "\n(** constructor / classmethod -> the same, as inspect.signature reports it *)\n"
    t += "Definition gen_cls_params : list (string * (list string * option string * list string * list (string * json))) :=\n  "
    t += clist("\n   " + params_entry(e) for e in classes) + ".\n"
    t += "\n(** defaults the abstract deserializer applies: (operation tag, key, default) *)\n"
    t += "Definition gen_deser_defaults : list (string * string * json) :=\n  "
    t += clist("\n   (%s, %s, %s)" % (cstr(a), cstr(b), cjson(c)) for a, b, c in dd) + ".\n"
    t += "Definition gen_deser_tags : list string := %s.\n" % clist(cstr(x) for x in tags)
    t += "\n(** legacy coder: names json/supported.py accepts *)\n"
    for k, v in sup.items():
        t += "Definition gen_%s : list string := %s.\n" % (k.lower(), clist(cstr(x) for x in v))
    (outdir / "AbsSig.v").write_text(t)

    defs, root = tr_schema(repo)
    s = HEADER
    s += "\nDefinition gen_seq_defs : list (string * schema) :=\n  [" + ";\n   ".join(defs) + "].\n"
    s += "Definition gen_seq_root : schema := %s.\n" % root
    (outdir / "AbsSchema.v").write_text(s)


if __name__ == "__main__":
    import sys

    main(Path(sys.argv[1]), Path(sys.argv[2]))
