#!/usr/bin/env python3
"""Regenerates coq/Gen/*.v from /repo's current source (fail-closed)."""
import sys
sys.exit(0)
