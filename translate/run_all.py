#!/usr/bin/env python3
"""Regenerates coq/Gen/*.v from the current source of the tree under
verification.  usage: run_all.py <repo> <outdir>.  Every translate/tr_*.py
module exposes main(repo: Path, outdir: Path); all are fail-closed: a
construct outside the supported fragment raises and this script exits 1,
which the checks report as a broken tie, never as success."""
import importlib.util
import sys
import traceback
from pathlib import Path

here = Path(__file__).resolve().parent
repo = Path(sys.argv[1] if len(sys.argv) > 1 else "/repo")
out = Path(sys.argv[2] if len(sys.argv) > 2 else "/verif/coq/Gen")
out.mkdir(parents=True, exist_ok=True)
rc = 0
for f in sorted(here.glob("tr_*.py")):
    spec = importlib.util.spec_from_file_location(f.stem, f)
    mod = importlib.util.module_from_spec(spec)
    try:
        spec.loader.exec_module(mod)
        mod.main(repo, out)
    except Exception as e:  # noqa: BLE001
        traceback.print_exc()
        print(f"TRANSLATOR FAILED {f.name}: {e}")
        rc = 1
sys.exit(rc)
