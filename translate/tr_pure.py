"""Regenerates Gen/Pure.v: a Python -> Gallina translation of the small pure
functions of the scheduler (durations, rise / phase-jump / EOM buffer times,
the device's duration check, the EOM phase drift).  `Proofs/PureEq.v` proves
each generated function equal to the hand-written one the sequence model and
all its theorems use, so an edit of the arithmetic, of a comparison or of the
order of the checks in the source breaks a proof obligation.

Supported fragment (anything else raises: fail-closed):
  statements   docstring, assert (kept as a comment: precondition), x = e,
               x += e, if / elif / else, return e, raise T(...), warnings.warn
               (dropped: no effect on the value), `with warnings.catch_warnings():`
               (body kept), `try: x = int(y) except (...): raise ...` with y an
               integer parameter (the handler is unreachable for integers)
  expressions  integer / float literals, module-level float constants, parameters,
               `self.<attr>` chains listed in the function's table, cast(T, e),
               + - * % // on integers, + - * / on floats (an integer operand of a
               float operation is converted exactly like Python does), comparisons,
               `is None` / `is not None`, and / or / not, `a or b` on an optional
               integer, `int(e)`, `max`, `min`, `a if c else b`, calls of other
               translated functions
Python's int is unbounded like Z; `%` and `//` floor like Z.modulo / Z.div.
"""
import ast
from pathlib import Path

ERR = {"ValueError": "EValue", "TypeError": "EType", "RuntimeError": "ERuntime"}


class Unsupported(Exception):
    pass


def fhex(x: float) -> str:
    return f"({float(x).hex()})%float"


class Fn:
    def __init__(self, spec, node, consts, table):
        self.spec = spec
        self.node = node
        self.consts = consts
        self.table = table  # other translated functions: python call text -> (coq name, arg attr list)
        self.notes = []
        self.fresh = 0

    # ---- expressions -------------------------------------------------------------------------
    def chain(self, e):
        """dotted text of a Name/Attribute chain, through cast(T, x)"""
        if isinstance(e, ast.Call) and isinstance(e.func, ast.Name) and e.func.id == "cast" and len(e.args) == 2:
            return self.chain(e.args[1])
        if isinstance(e, ast.Name):
            return e.id
        if isinstance(e, ast.Attribute):
            b = self.chain(e.value)
            return None if b is None else b + "." + e.attr
        return None

    def expr(self, e, env):
        txt = ast.unparse(e)
        if txt in env:  # whole expressions the function's table maps to a parameter
            return env[txt]
        c = self.chain(e)
        if c is not None:  # a name, an attribute chain, possibly through cast(T, x)
            if c in env:
                return env[c]
            if c in self.consts:
                return fhex(self.consts[c]), "float"
            if c == "np.pi":
                import math

                return fhex(math.pi), "float"
            if isinstance(e, ast.Attribute):
                return self.attribute(e, env)
            if isinstance(e, ast.Call):  # cast(T, x)
                return self.expr(e.args[1], env)
            raise Unsupported(f"unknown name {c}")
        if isinstance(e, ast.Attribute):
            return self.attribute(e, env)
        if isinstance(e, ast.Constant):
            if isinstance(e.value, bool):
                return ("true" if e.value else "false"), "bool"
            if isinstance(e.value, int):
                return f"({e.value})%Z", "Z"
            if isinstance(e.value, float):
                return fhex(e.value), "float"
            if isinstance(e.value, str):
                return '""', "str"
            raise Unsupported(f"constant {e.value!r}")
        if isinstance(e, ast.JoinedStr):
            return '""', "str"
        if isinstance(e, ast.BinOp):
            if isinstance(e.op, ast.Add) and (isinstance(e.left, (ast.JoinedStr,)) or isinstance(e.right, ast.JoinedStr)):
                return '""', "str"
            a, ta = self.expr(e.left, env)
            b, tb = self.expr(e.right, env)
            if ta == "str" and tb == "str":
                return '""', "str"
            if ta == "Z" and tb == "Z":
                op = {ast.Add: "+", ast.Sub: "-", ast.Mult: "*", ast.Mod: "mod", ast.FloorDiv: "/"}.get(type(e.op))
                if op is None:
                    raise Unsupported(f"integer operator {type(e.op).__name__}")
                return f"({a} {op} {b})", "Z"
            if {ta, tb} <= {"Z", "float"}:
                if isinstance(e.op, ast.Mod):
                    fa = a if ta == "float" else f"(f_of_Z {a})"
                    fb = b if tb == "float" else f"(f_of_Z {b})"
                    return f"(f_pymod {fa} {fb})", "float"  # Python's float %: sign of the divisor
                op = {ast.Add: "+", ast.Sub: "-", ast.Mult: "*", ast.Div: "/"}.get(type(e.op))
                if op is None:
                    raise Unsupported(f"float operator {type(e.op).__name__}")
                fa = a if ta == "float" else f"(f_of_Z {a})"
                fb = b if tb == "float" else f"(f_of_Z {b})"
                return f"({fa} {op} {fb})%float", "float"
            raise Unsupported(f"operands of types {ta}, {tb}")
        if isinstance(e, ast.UnaryOp) and isinstance(e.op, ast.Not):
            return f"(negb {self.truth(e.operand, env)})", "bool"
        if isinstance(e, ast.UnaryOp) and isinstance(e.op, ast.USub):
            a, ta = self.expr(e.operand, env)
            if ta == "Z":
                return f"(- {a})", "Z"
            raise Unsupported("unary minus on a non-integer")
        if isinstance(e, ast.Compare):
            if len(e.ops) == 2:
                # a < b < c  ==  a < b and b < c   (b is a variable here: evaluated once either way)
                if not isinstance(e.comparators[0], ast.Name):
                    raise Unsupported("chained comparison around a non-variable")
                x = ast.Compare(left=e.left, ops=[e.ops[0]], comparators=[e.comparators[0]])
                y = ast.Compare(left=e.comparators[0], ops=[e.ops[1]], comparators=[e.comparators[1]])
                a, _ = self.expr(x, env)
                b, _ = self.expr(y, env)
                return f"({a} && {b})", "bool"
            if len(e.ops) != 1:
                raise Unsupported("chained comparison")
            op, r = e.ops[0], e.comparators[0]
            if isinstance(op, (ast.Is, ast.IsNot)):
                if not (isinstance(r, ast.Constant) and r.value is None):
                    raise Unsupported("`is` with something other than None")
                a, ta = self.expr(e.left, env)
                if not ta.startswith("opt"):
                    raise Unsupported(f"`is None` on a non-optional ({ta})")
                none = f"(match {a} with None => true | Some _ => false end)"
                return (none if isinstance(op, ast.Is) else f"(negb {none})"), "bool"
            a, ta = self.expr(e.left, env)
            b, tb = self.expr(r, env)
            if {ta, tb} <= {"Z", "float"} and "float" in (ta, tb):
                fn = {ast.Lt: "f_lt", ast.LtE: "f_le", ast.Gt: "f_gt", ast.GtE: "f_ge", ast.Eq: "f_eq", ast.NotEq: "f_ne"}.get(type(op))
                fa = a if ta == "float" else ("zero" if a == "(0)%Z" else f"(f_of_Z {a})")
                fb = b if tb == "float" else ("zero" if b == "(0)%Z" else f"(f_of_Z {b})")
                return f"({fn} {fa} {fb})", "bool"
            if ta == "Z" and tb == "Z":
                sym = {ast.Lt: "<?", ast.LtE: "<=?", ast.Gt: ">?", ast.GtE: ">=?", ast.Eq: "=?"}.get(type(op))
                if sym:
                    return f"({a} {sym} {b})", "bool"
                if isinstance(op, ast.NotEq):
                    return f"(negb ({a} =? {b}))", "bool"
            raise Unsupported(f"comparison {type(op).__name__} on {ta}, {tb}")
        if isinstance(e, ast.BoolOp):
            if isinstance(e.op, ast.Or) and len(e.values) == 2:
                a, ta = self.expr(e.values[0], env)
                if ta == "optZ":
                    b, tb = self.expr(e.values[1], env)
                    if tb != "Z":
                        raise Unsupported("`x or y` with y not an integer")
                    v = self.var("v")
                    return f"(match {a} with Some {v} => if negb ({v} =? 0) then {v} else {b} | None => {b} end)", "Z"
            parts = []
            cur = dict(env)
            closers = 0
            out = ""
            # `X is not None and rest`: rest sees X as its value
            for i, v in enumerate(e.values):
                last = i == len(e.values) - 1
                if (
                    isinstance(e.op, ast.And)
                    and not last
                    and isinstance(v, ast.Compare)
                    and len(v.ops) == 1
                    and isinstance(v.ops[0], ast.IsNot)
                    and isinstance(v.comparators[0], ast.Constant)
                    and v.comparators[0].value is None
                ):
                    c = self.chain(v.left)
                    a, ta = self.expr(v.left, cur)
                    if not ta.startswith("opt"):
                        raise Unsupported("`is not None` on a non-optional")
                    x = self.var(c.split(".")[-1])
                    out += f"(match {a} with None => false | Some {x} => "
                    closers += 1
                    cur[c] = (x, ta[3:])
                    continue
                parts.append(self.truth(v, cur))
            sym = " && " if isinstance(e.op, ast.And) else " || "
            return out + "(" + sym.join(parts) + ")" + " end)" * closers, "bool"
        if isinstance(e, ast.IfExp):
            t = e.test
            # `a if X is None else b` / `a if X is not None else b`: the branch where X is set sees its value
            if isinstance(t, ast.Compare) and len(t.ops) == 1 and isinstance(t.ops[0], (ast.Is, ast.IsNot)) and isinstance(t.comparators[0], ast.Constant) and t.comparators[0].value is None:
                c = self.chain(t.left)
                a, ta = self.expr(t.left, env)
                if not ta.startswith("opt"):
                    raise Unsupported("`is None` on a non-optional")
                x = self.var(c.split(".")[-1])
                env2 = dict(env)
                env2[c] = (x, ta[3:])
                none_e, some_e = (e.body, e.orelse) if isinstance(t.ops[0], ast.Is) else (e.orelse, e.body)
                n, tn = self.expr(none_e, env)
                s, ts = self.expr(some_e, env2)
                if tn != ts:
                    raise Unsupported("conditional expression with branches of different types")
                return f"(match {a} with None => {n} | Some {x} => {s} end)", tn
            c = self.truth(t, env)
            a, ta = self.expr(e.body, env)
            b, tb = self.expr(e.orelse, env)
            if ta != tb:
                raise Unsupported("conditional expression with branches of different types")
            return f"(if {c} then {a} else {b})", ta
        if isinstance(e, ast.Call):
            fn = self.chain(e.func)
            if fn == "cast" and len(e.args) == 2 and not e.keywords:
                return self.expr(e.args[1], env)  # typing.cast is the identity
            if fn == "int" and len(e.args) == 1 and not e.keywords:
                a, ta = self.expr(e.args[0], env)
                if ta == "Z":
                    return a, "Z"
                if ta == "float":
                    return f"(gen_py_int {a})", "Z"
                raise Unsupported(f"int() of {ta}")
            if fn in ("max", "min") and len(e.args) == 2 and not e.keywords:
                a, ta = self.expr(e.args[0], env)
                b, tb = self.expr(e.args[1], env)
                if ta == tb == "Z":
                    return f"(Z.{fn} {a} {b})", "Z"
                raise Unsupported(f"{fn} on {ta}, {tb}")
            if fn is None and ast.unparse(e.func) in self.table and not e.keywords:
                name, attrs, rty = self.table[ast.unparse(e.func)]
                args = [self.expr_of_chain(at, env)[0] for at in attrs]
                return f"({name} {' '.join(args)})", rty
            if fn in self.table and not e.keywords:
                name, attrs, rty = self.table[fn]
                base = fn.rsplit(".", 1)[0]
                args = []
                for at in attrs:
                    a, _ = self.expr_of_chain(base + "." + at, env)
                    args.append(a)
                for x in e.args:
                    a, ta = self.expr(x, env)
                    args.append(a)
                return f"({name} {' '.join(args)})", rty
            raise Unsupported(f"call of {fn}")
        raise Unsupported(f"expression {type(e).__name__}")

    # ---- objects of the schedule (slots, channel schedules) --------------------------------------
    def attribute(self, e, env):
        raise Unsupported(f"attribute {ast.unparse(e)}")

    def for_loop(self, s, env, nxt):
        raise Unsupported("for-loop")

    def expr_of_chain(self, c, env):
        if c in env:
            return env[c]
        raise Unsupported(f"unknown name {c}")

    def truth(self, e, env):
        a, ta = self.expr(e, env)
        if ta == "bool":
            return a
        if ta == "optfloat":
            v = self.var("b")
            return f"(match {a} with Some {v} => f_ne {v} zero | None => false end)"
        if ta == "optZ":
            v = self.var("b")
            return f"(match {a} with Some {v} => negb ({v} =? 0) | None => false end)"
        if ta == "Z":
            return f"(negb ({a} =? 0))"
        raise Unsupported(f"truth value of {ta}")

    def var(self, hint):
        self.fresh += 1
        return f"{hint}_{self.fresh}"

    # ---- statements --------------------------------------------------------------------------
    def wrap(self, v):
        return f"Ok {v}" if self.spec["ret"].startswith("res ") else v

    def block(self, stmts, env, rest=None):
        """value of running `stmts` and then `rest` (a thunk giving the value of what follows)"""
        if not stmts:
            if rest is not None:
                return rest(env)
            if getattr(self, "loops", None):
                return self.loops[-1][1](env)
            if self.spec["ret"] == "res unit":
                return "Ok tt"
            raise Unsupported("function may end without returning a value")
        s, tail = stmts[0], stmts[1:]
        nxt = lambda env2: self.block(tail, env2, rest)  # noqa: E731
        if isinstance(s, ast.Expr) and isinstance(s.value, ast.Constant) and isinstance(s.value.value, str):
            return nxt(env)
        if isinstance(s, ast.Expr) and isinstance(s.value, ast.Call) and self.chain(s.value.func) in ("warnings.warn", "warnings.simplefilter"):
            return nxt(env)
        if isinstance(s, ast.Expr) and isinstance(s.value, ast.Call) and ast.unparse(s.value.func) in self.table:
            a, ta = self.expr(s.value, env)
            if ta != "res unit" or not self.spec["ret"].startswith("res "):
                raise Unsupported("statement-level call of a function that returns a value")
            er = self.var("err")
            return f"match {a} with\n  | Err {er} => Err {er}\n  | Ok _ =>\n  {nxt(env)}\n  end"
        if isinstance(s, ast.Assert):
            self.notes.append("precondition (assert): " + ast.unparse(s.test))
            return nxt(env)
        if isinstance(s, ast.Return):
            if getattr(self, "loops", None):
                if len(self.loops[-1]) < 3 or s.value is None:
                    raise Unsupported("return inside a loop that also carries variables")
                a, ta = self.expr(s.value, env)
                want = self.spec["ret"][4:] if self.spec["ret"].startswith("res ") else self.spec["ret"]
                if COQTY.get(ta, ta) != want:
                    raise Unsupported(f"return of {ta}, expected {want}")
                return f"Some {a}"
            if s.value is None:
                return self.wrap("tt")
            a, ta = self.expr(s.value, env)
            want = self.spec["ret"][4:] if self.spec["ret"].startswith("res ") else self.spec["ret"]
            if ta == "res " + want and self.spec["ret"].startswith("res "):
                return a
            if ta != want:
                raise Unsupported(f"return of {ta}, expected {want}")
            return self.wrap(a)
        if isinstance(s, ast.Raise):
            if not self.spec["ret"].startswith("res "):
                raise Unsupported("raise in a function declared total")
            t = s.exc.func.id if isinstance(s.exc, ast.Call) and isinstance(s.exc.func, ast.Name) else (s.exc.id if isinstance(s.exc, ast.Name) else None)
            if t not in ERR:
                raise Unsupported(f"raise of {t}")
            return f"Err {ERR[t]}"
        if (
            isinstance(s, ast.Assign)
            and len(s.targets) == 1
            and isinstance(s.targets[0], ast.Attribute)
            and ast.unparse(s.targets[0]) == self.spec.get("result_attr")
            and not tail
            and rest is None
        ):
            # a setter: the function's value is the new value of that attribute
            a, ta = self.expr(s.value, env)
            if COQTY.get(ta, ta) != self.spec["ret"]:
                raise Unsupported(f"attribute set to a {ta}, expected {self.spec['ret']}")
            return a
        if isinstance(s, ast.Assign) and len(s.targets) == 1 and isinstance(s.targets[0], ast.Name):
            a, ta = self.expr(s.value, env)
            if ta == "str":
                return nxt(env)  # messages do not influence the value
            x = s.targets[0].id
            if ta in ("arr", "boolarr"):
                env2 = dict(env)
                env2[x] = (a, ta)
                return nxt(env2)
            env2 = dict(env)
            env2[x] = (x, ta)
            return f"let {x} := {a} in\n  {nxt(env2)}"
        if isinstance(s, ast.AugAssign) and isinstance(s.target, ast.Name) and isinstance(s.op, (ast.Add, ast.Sub)):
            x = s.target.id
            if x not in env or env[x][1] != "Z":
                raise Unsupported("augmented assignment to a non-integer local")
            a, ta = self.expr(s.value, env)
            if ta != "Z":
                raise Unsupported("augmented assignment of a non-integer")
            op = "+" if isinstance(s.op, ast.Add) else "-"
            return f"let {x} := ({env[x][0]} {op} {a}) in\n  {nxt(env)}"
        if isinstance(s, ast.If):
            c = self.truth(s.test, env)
            a = self.block(s.body, env, nxt)
            b = self.block(s.orelse, env, nxt)
            return f"if {c}\n  then ({a})\n  else ({b})"
        if isinstance(s, ast.Break):
            if not getattr(self, "loops", None):
                raise Unsupported("break outside a loop")
            return self.loops[-1][0](env)
        if isinstance(s, ast.Continue):
            if not getattr(self, "loops", None):
                raise Unsupported("continue outside a loop")
            return self.loops[-1][1](env)
        if isinstance(s, ast.For):
            return self.for_loop(s, env, nxt)
        if isinstance(s, ast.With):
            if len(s.items) != 1 or self.chain(s.items[0].context_expr.func if isinstance(s.items[0].context_expr, ast.Call) else s.items[0].context_expr) != "warnings.catch_warnings":
                raise Unsupported("with-statement other than warnings.catch_warnings()")
            return self.block(s.body, env, nxt)
        if isinstance(s, ast.Try):
            # try: x = int(y)  except (...): raise ...     with y an integer: the handler is unreachable
            ok = (
                len(s.body) == 1
                and isinstance(s.body[0], ast.Assign)
                and isinstance(s.body[0].value, ast.Call)
                and self.chain(s.body[0].value.func) == "int"
                and not s.orelse
                and not s.finalbody
                and all(len(h.body) == 1 and isinstance(h.body[0], ast.Raise) for h in s.handlers)
            )
            if not ok:
                raise Unsupported("try-statement other than the int() cast guard")
            a, ta = self.expr(s.body[0].value.args[0], env)
            if ta != "Z":
                raise Unsupported("int() cast guard on a non-integer")
            self.notes.append("the TypeError guard around int(duration) is unreachable for integer durations (the model's domain)")
            return self.block(s.body, env, nxt)
        raise Unsupported(f"statement {type(s).__name__}")

    def definition(self):
        sp = self.spec
        env = {}
        for py, (cq, ty) in sp["params"].items():
            env[py] = (cq, ty)
        seen = []
        for py, (cq, ty) in sp["params"].items():
            if cq not in [c for c, _ in seen]:
                seen.append((cq, ty))
        tyc = COQTY
        body = self.block(self.node.body, env)
        ps = " ".join(f"({c} : {tyc[t]})" for c, t in seen)
        notes = "".join(f"(* {n} *)\n" for n in dict.fromkeys(self.notes))
        return f"(** {sp['file']} : {sp['qual']} *)\n{notes}Definition {sp['coq']} {ps} : {sp['ret']} :=\n  {body}.\n"


def find(tree, qual):
    cls, fn = qual.split(".")
    for n in tree.body:
        if isinstance(n, ast.ClassDef) and n.name == cls:
            for m in n.body:
                if isinstance(m, ast.FunctionDef) and m.name == fn:
                    return m
    raise Unsupported(f"{qual} not found")


SPECS = [
    dict(file="pulser-core/pulser/channels/base_channel.py", qual="Channel.validate_duration", coq="gen_validate_duration", ret="res Z",
         params={"self.min_duration": ("min_duration", "Z"), "self.max_duration": ("max_duration", "optZ"),
                 "self.clock_period": ("clock_period", "Z"), "duration": ("duration", "Z")}),
    dict(file="pulser-core/pulser/sequence/_schedule.py", qual="_ChannelSchedule.adjust_duration", coq="gen_adjust_duration", ret="res Z",
         params={"self.channel_obj.min_duration": ("min_duration", "Z"), "self.channel_obj.max_duration": ("max_duration", "optZ"),
                 "self.channel_obj.clock_period": ("clock_period", "Z"), "duration": ("duration", "Z")},
         calls={"self.channel_obj.validate_duration": ("gen_validate_duration", ["min_duration", "max_duration", "clock_period"], "res Z")}),
    dict(file="pulser-core/pulser/channels/base_channel.py", qual="Channel.rise_time", coq="gen_rise_time", ret="Z",
         params={"self.mod_bandwidth": ("mod_bandwidth", "optfloat")}, refine_truthy=["self.mod_bandwidth"]),
    dict(file="pulser-core/pulser/channels/eom.py", qual="BaseEOM.rise_time", coq="gen_eom_rise_time", ret="Z",
         params={"self.mod_bandwidth": ("mod_bandwidth", "float")}),
    dict(file="pulser-core/pulser/channels/base_channel.py", qual="Channel.phase_jump_time", coq="gen_phase_jump_time", ret="Z",
         params={"self.rise_time": ("rise_time", "Z"), "self.custom_phase_jump_time": ("custom_phase_jump_time", "optZ")}),
    dict(file="pulser-core/pulser/channels/base_channel.py", qual="Channel._eom_buffer_time", coq="gen_eom_buffer_time", ret="Z",
         params={"self.rise_time": ("rise_time", "Z"), "self.eom_config.custom_buffer_time": ("custom_buffer_time", "optZ")}),
    dict(file="pulser-core/pulser/sequence/_schedule.py", qual="_Schedule._check_duration", coq="gen_check_duration", ret="res unit",
         params={"self.max_duration": ("max_duration", "optZ"), "t": ("t", "Z"), "block_over_max_duration": ("block_over_max_duration", "bool")}),
    dict(file="pulser-core/pulser/sequence/_basis_ref.py", qual="_QubitRef.update_last_used", coq="gen_update_last_used", ret="Z",
         result_attr="self.last_used", params={"self.last_used": ("last_used", "Z"), "new_t": ("new_t", "Z")}),
    dict(file="pulser-core/pulser/sequence/_basis_ref.py", qual="_PhaseTracker._format", coq="gen_phase_format", ret="float",
         params={"phi": ("phi", "float")}),
    dict(file="pulser-core/pulser/sequence/_schedule.py", qual="_PhaseDriftParams.calc_phase_drift", coq="gen_calc_phase_drift", ret="float",
         params={"self.drift_rate": ("drift_rate", "float"), "self.ti": ("ti", "Z"), "tf": ("tf", "Z")}),
]


def module_consts(tree):
    out = {}
    for n in tree.body:
        if isinstance(n, ast.Assign) and len(n.targets) == 1 and isinstance(n.targets[0], ast.Name) and isinstance(n.value, ast.Constant) and isinstance(n.value.value, float):
            out[n.targets[0].id] = n.value.value
    return out


def imported_consts(repo, tree, trees):
    """float constants imported by name from other pulser modules (e.g. MODBW_TO_TR)"""
    out = {}
    for n in tree.body:
        if isinstance(n, ast.ImportFrom) and n.module and n.module.startswith("pulser"):
            p = repo / "pulser-core" / (n.module.replace(".", "/") + ".py")
            if p.exists():
                t = trees.setdefault(str(p), ast.parse(p.read_text()))
                mc = module_consts(t)
                for a in n.names:
                    if a.name in mc:
                        out[a.asname or a.name] = mc[a.name]
    return out


def main(repo: Path, out: Path):
    trees = {}
    defs = []
    for sp in SPECS:
        p = repo / sp["file"]
        tree = trees.setdefault(str(p), ast.parse(p.read_text()))
        consts = dict(imported_consts(repo, tree, trees))
        consts.update(module_consts(tree))
        node = find(tree, sp["qual"])
        fn = Fn(sp, node, consts, sp.get("calls", {}))
        if sp.get("refine_truthy"):
            # `if self.x:` on an optional float: inside the branch x is its value
            fn = TruthyFn(sp, node, consts, sp.get("calls", {}))
        try:
            defs.append(fn.definition())
        except Unsupported as e:
            raise ValueError(f"translator cannot express {sp['qual']} ({sp['file']}): {e}") from e
    (out / "Pure.v").write_text(
        "(** GENERATED by translate/tr_pure.py from the scheduler's pure functions - do not edit. *)\n"
        "From Coq Require Import ZArith Bool.\nFrom Coq Require Import PrimFloat.\nFrom PV Require Import Model.Base.\nOpen Scope Z_scope.\n\n"
        "Definition gen_py_int (x : float) : Z := match f_trunc x with Some z => z | None => 0 end.\n\n" + "\n".join(defs)
    )
    main_loops(repo, out)
    main_arrays(repo, out)
    main_slot(repo, out)
    main_state(repo, out)


class TruthyFn(Fn):
    def block(self, stmts, env, rest=None):
        if stmts and isinstance(stmts[0], ast.If):
            s = stmts[0]
            c = self.chain(s.test)
            if c in self.spec.get("refine_truthy", []) and c in env and env[c][1] == "optfloat":
                a, _ = env[c]
                x = self.var(c.split(".")[-1])
                env2 = dict(env)
                env2[c] = (x, "float")
                tail = stmts[1:]
                nxt = lambda e2: Fn.block(self, tail, e2, rest)  # noqa: E731
                yes = self.block(s.body, env2, nxt)
                no = self.block(s.orelse, env, nxt)
                return f"match {a} with\n  | Some {x} => if f_ne {x} zero then ({yes}) else ({no})\n  | None => ({no})\n  end"
        return Fn.block(self, stmts, env, rest)


COQTY = {"Z": "Z", "optZ": "option Z", "float": "float", "optfloat": "option float", "bool": "bool",
         "listZ": "list Z", "slot": "slot", "listslot": "list slot", "chan": "chan", "listchan": "list chan", "chanobj": "chan"}


class LoopFn(Fn):
    """adds: objects of the schedule (time slots, channel schedules, as the records of Model/Sched.v,
    whose slot lists are stored latest-first, i.e. already in the order of `slots[::-1]`) and
    `for` loops with break / continue, translated to structurally recursive Fixpoints over the list"""

    CHOBJ = ("self.channel_obj", "this_chobj")

    def __init__(self, *a):
        super().__init__(*a)
        self.loops = []
        self.aux = []
        self.bound = []  # (coq name, type) of let-bound / element variables in scope

    def attribute(self, e, env):
        o, to = self.expr(e.value, env)
        a = e.attr
        tab = {
            ("slot", "tf"): (f"(s_tf {o})", "Z"),
            ("slot", "ti"): (f"(s_ti {o})", "Z"),
            ("slot", "targets"): (f"(s_tg {o})", "listZ"),
            ("slot", "type"): (o, "slottype"),
            ("chan", "channel_obj"): (o, "chanobj"),
            ("chanobj", "rise_time"): (f"(c_rise (ch_cfg {o}))", "Z"),
        }
        if (to, a) in tab:
            return tab[(to, a)]
        raise Unsupported(f"attribute .{a} of a {to}")

    def expr(self, e, env):
        if ast.unparse(e) in env:
            return env[ast.unparse(e)]
        # isinstance(op.type, Pulse)
        if isinstance(e, ast.Call) and isinstance(e.func, ast.Name) and e.func.id == "isinstance" and len(e.args) == 2:
            o, to = self.expr(e.args[0], env)
            if to == "slottype" and isinstance(e.args[1], ast.Name) and e.args[1].id == "Pulse":
                return f"(is_pulse {o})", "bool"
            raise Unsupported("isinstance other than (slot.type, Pulse)")
        # op.type.fall_time(<the slot's own channel object>, in_eom_mode=b)
        if isinstance(e, ast.Call) and isinstance(e.func, ast.Attribute) and e.func.attr == "fall_time":
            o, to = self.expr(e.func.value, env)
            if to != "slottype" or len(e.args) != 1 or ast.unparse(e.args[0]) not in self.CHOBJ:
                raise Unsupported("fall_time on something other than a slot's pulse with its own channel object")
            kws = {k.arg: k.value for k in e.keywords}
            if set(kws) != {"in_eom_mode"}:
                raise Unsupported("fall_time without exactly the in_eom_mode keyword")
            b = self.truth(kws["in_eom_mode"], env)
            p = self.var("p")
            return f"(match s_kind {o} with KPulse {p} => pfall {b} {p} | _ => 0 end)", "Z"
        # slot.type == "target"
        if isinstance(e, ast.Compare) and len(e.ops) == 1 and isinstance(e.ops[0], ast.Eq) and isinstance(e.comparators[0], ast.Constant) and isinstance(e.comparators[0].value, str):
            o, to = self.expr(e.left, env)
            if to == "slottype" and e.comparators[0].value == "target":
                return f"(is_target {o})", "bool"
            raise Unsupported("comparison with a string other than slot.type == 'target'")
        # self.is_detuned_delay(slot.type)
        if isinstance(e, ast.Call) and isinstance(e.func, ast.Attribute) and e.func.attr == "is_detuned_delay" and len(e.args) == 1 and not e.keywords:
            o, to = self.expr(e.args[0], env)
            if to != "slottype":
                raise Unsupported("is_detuned_delay of something other than a slot's type")
            p_ = self.var("p")
            return f"(match s_kind {o} with KPulse {p_} => p_dd {p_} | _ => false end)", "bool"
        # ch_schedule.in_eom_mode() / self[ch].in_eom_mode()
        if isinstance(e, ast.Call) and isinstance(e.func, ast.Attribute) and e.func.attr == "in_eom_mode" and not e.args and not e.keywords:
            o, to = self.expr(e.func.value, env)
            if to != "chan":
                raise Unsupported("in_eom_mode() of a non-channel")
            return f"(in_eom {o})", "bool"
        # a & b on target sets: used for its truth value
        if isinstance(e, ast.BinOp) and isinstance(e.op, ast.BitAnd):
            a, ta = self.expr(e.left, env)
            b, tb = self.expr(e.right, env)
            if ta == tb == "listZ":
                return f"(intersects {a} {b})", "bool"
            raise Unsupported("& on non-target-sets")
        return super().expr(e, env)

    def truth(self, e, env):
        a, ta = self.expr(e, env)
        if ta == "bool":
            return a
        return super().truth(e, env)

    def block(self, stmts, env, rest=None):
        # remember let-bound locals (they may be needed by an inner loop's Fixpoint)
        if stmts and isinstance(stmts[0], ast.Assign) and len(stmts[0].targets) == 1 and isinstance(stmts[0].targets[0], ast.Name):
            a, ta = self.expr(stmts[0].value, env)
            if ta != "str":
                x = stmts[0].targets[0].id
                if (x, ta) not in self.bound:
                    self.bound = self.bound + [(x, ta)]
        return super().block(stmts, env, rest)

    def assigned(self, stmts):
        out = []
        for n in stmts:
            for m in ast.walk(n):
                if isinstance(m, ast.Assign):
                    out += [t.id for t in m.targets if isinstance(t, ast.Name)]
                if isinstance(m, ast.AugAssign) and isinstance(m.target, ast.Name):
                    out.append(m.target.id)
        return list(dict.fromkeys(out))

    def for_loop(self, s, env, nxt):
        if s.orelse:
            raise Unsupported("for-else")
        it, tgt = s.iter, s.target
        idx = None
        if isinstance(it, ast.Call) and isinstance(it.func, ast.Name) and it.func.id == "enumerate" and len(it.args) == 1:
            if not (isinstance(tgt, ast.Tuple) and len(tgt.elts) == 2 and all(isinstance(x, ast.Name) for x in tgt.elts)):
                raise Unsupported("enumerate without (i, x) target")
            idx, tgt, it = tgt.elts[0].id, tgt.elts[1], it.args[0]
        env_l = dict(env)
        lst = self.var("l")
        rest_l = self.var("r")
        if isinstance(it, ast.Call) and ast.unparse(it) == "self.items()":
            # for ch, ch_schedule in self.items(): the channel schedules in declaration order
            if not (isinstance(tgt, ast.Tuple) and len(tgt.elts) == 2 and all(isinstance(x, ast.Name) for x in tgt.elts)):
                raise Unsupported("items() without (name, schedule) target")
            src, ts = self.expr(it, env)
            if ts != "listchan":
                raise Unsupported("self.items() is not mapped to the list of channel schedules")
            el = self.var("c")
            k, v = tgt.elts[0].id, tgt.elts[1].id
            env_l[k] = (f"(ch_name {el})", "Z")
            env_l[v] = (el, "chan")
            env_l[f"self[{k}]"] = (el, "chan")
            elty = "chan"
        elif isinstance(it, ast.Subscript) and ast.unparse(it.slice) == "::-1" and isinstance(tgt, ast.Name):
            # for op in X[::-1]: X's slots, latest first (the order the model stores them in)
            base_txt = ast.unparse(it.value)
            if ast.unparse(it) in env:
                src, ts = env[ast.unparse(it)]
            else:
                o, to = self.expr(it.value, env)
                if to != "chan":
                    raise Unsupported(f"reversed iteration over a {to}")
                src, ts = f"(ch_slots {o})", "listslot"
            if ts != "listslot":
                raise Unsupported("reversed iteration over something other than slots")
            el = self.var("op")
            env_l[tgt.id] = (el, "slot")
            elty = "slot"
        else:
            raise Unsupported(f"iteration over {ast.unparse(it)}")
        carried = [x for x in self.assigned(s.body) if x in env]
        if any(isinstance(m, ast.Return) for n in s.body for m in ast.walk(n)):
            # a search loop: `return x` inside, nothing carried; the Fixpoint returns an option
            if carried or idx:
                raise Unsupported("return inside a loop that also carries variables")
            seen = []
            for py, (cq, ty) in self.spec["params"].items():
                if cq not in [c for c, _ in seen]:
                    seen.append((cq, ty))
            self.nloops = getattr(self, "nloops", 0) + 1
            name = f"{self.spec['coq']}_loop{self.nloops}"
            self.loops.append((lambda e2: "None", lambda e2: f"({name} {' '.join(c for c, _ in seen)} {rest_l})", "search"))
            saved_elems = getattr(self, "elems", [])
            self.elems = saved_elems + [(el, elty)]
            body = self.block(s.body, env_l, None)
            self.loops.pop()
            self.elems = saved_elems
            want = self.spec["ret"][4:] if self.spec["ret"].startswith("res ") else self.spec["ret"]
            self.aux.append(
                f"Fixpoint {name} {' '.join(f'({c} : {COQTY[t]})' for c, t in seen)} ({lst} : list {COQTY[elty]}) {{struct {lst}}} : option {want} :=\n"
                f"  match {lst} with\n  | nil => None\n  | cons {el} {rest_l} =>\n  {body}\n  end.\n"
            )
            v = self.var("found")
            return f"match ({name} {' '.join(c for c, _ in seen)} {src}) with\n  | Some {v} => {self.wrap(v)}\n  | None => {nxt(env)}\n  end"
        if idx:
            carried = [idx] + carried
            env_l[idx] = (idx, "Z")
        if not carried:
            raise Unsupported("loop without effect")
        ctys = ["Z" if x == idx else env[x][1] for x in carried]
        for t in ctys:
            if t not in ("Z", "bool"):
                raise Unsupported(f"loop-carried variable of type {t}")
        # everything in scope that the body may mention: function parameters, bound locals, outer elements
        seen = []
        for py, (cq, ty) in self.spec["params"].items():
            if cq not in [c for c, _ in seen]:
                seen.append((cq, ty))
        outer = [(c, t) for c, t in self.bound if c not in carried and c not in [x for x, _ in seen]]
        outer += [(c, t) for c, t in getattr(self, "elems", []) if c not in [x for x, _ in outer]]
        self.nloops = getattr(self, "nloops", 0) + 1
        name = f"{self.spec['coq']}_loop{self.nloops}"
        fixed = seen + outer
        tup = lambda e2: carried[0] if len(carried) == 1 else "(" + ", ".join(e2[x][0] for x in carried) + ")"  # noqa: E731
        cur = lambda e2: " ".join(f"({e2[x][0]})" if not e2[x][0].isidentifier() else e2[x][0] for x in carried)  # noqa: E731

        def brk(e2):
            return e2[carried[0]][0] if len(carried) == 1 else "(" + ", ".join(e2[x][0] for x in carried) + ")"

        def cont(e2):
            vals = []
            for x in carried:
                v = e2[x][0]
                vals.append(f"({v} + 1)" if x == idx else (v if v.isidentifier() else f"({v})"))
            return f"({name} {' '.join(c for c, _ in fixed)} {' '.join(vals)} {rest_l})"

        for x in carried:
            env_l[x] = (x, "Z" if x == idx else env[x][1])
        saved_bound, saved_elems = self.bound, getattr(self, "elems", [])
        self.elems = saved_elems + [(el, elty)]
        self.loops.append((brk, cont))
        body = self.block(s.body, env_l, None)
        self.loops.pop()
        self.bound, self.elems = saved_bound, saved_elems
        rty = COQTY[ctys[0]] if len(carried) == 1 else "(" + " * ".join(COQTY[t] for t in ctys) + ")"
        self.aux.append(
            f"Fixpoint {name} {' '.join(f'({c} : {COQTY[t]})' for c, t in fixed)} "
            f"{' '.join(f'({x} : {COQTY[t]})' for x, t in zip(carried, ctys))} ({lst} : list {COQTY[elty]}) {{struct {lst}}} : {rty} :=\n"
            f"  match {lst} with\n  | nil => {brk(env_l)}\n  | cons {el} {rest_l} =>\n  {body}\n  end.\n"
        )
        init = " ".join("(0)%Z" if x == idx else (env[x][0] if env[x][0].isidentifier() else f"({env[x][0]})") for x in carried)
        call = f"({name} {' '.join(c for c, _ in fixed)} {init} {src})"
        env2 = dict(env)
        pat = carried[0] if len(carried) == 1 else "'(" + ", ".join(carried) + ")"
        for x, t in zip(carried, ctys):
            env2[x] = (x, t)
        return f"let {pat} := {call} in\n  {nxt(env2)}"

    def definition(self):
        d = super().definition()
        return "\n".join(self.aux) + ("\n" if self.aux else "") + d


class ArrFn(Fn):
    """adds numpy reductions over sample arrays, read through the SUMMARY of the array the sequence
    model is given (maximum, minimum, maximum of the absolute value, average; for detuning-map
    weights: maximum and sum).  Rules (each an identity for arrays without NaN):
      np.any(X > c) = (max X > c)      np.any(X < c) = (min X < c)
      max/min (f(X)) = f (max/min X)   for the non-decreasing f = round(., 6)
      max (|X|) = max-abs X
    A reduction the summary does not determine raises (fail-closed)."""

    def isinst_true(self, e, env):
        return isinstance(e, ast.Call) and isinstance(e.func, ast.Name) and e.func.id == "isinstance" and ast.unparse(e.args[0]) in self.spec.get("objects", [])

    def expr(self, e, env):
        txt = ast.unparse(e)
        if txt in env:
            return env[txt]
        if self.isinst_true(e, env):
            return "true", "bool"  # the model's domain: the argument is a Pulse
        if isinstance(e, ast.Call):
            f = ast.unparse(e.func)
            if isinstance(e.func, ast.Attribute) and e.func.attr == "as_array":
                return self.expr(e.func.value, env)
            if f == "np.abs" and len(e.args) == 1:
                a, ta = self.expr(e.args[0], env)
                if ta != "arr" or "absmax" not in a:
                    raise Unsupported("np.abs of something whose largest absolute value is not in the summary")
                return {"max": a["absmax"], "absmax": a["absmax"]}, "arr"
            if f in ("np.round", "pm.round"):
                dec = None
                if len(e.args) == 2 and isinstance(e.args[1], ast.Constant):
                    dec = e.args[1].value
                for k in e.keywords:
                    if k.arg == "decimals" and isinstance(k.value, ast.Constant):
                        dec = k.value.value
                if dec != 6:
                    raise Unsupported("rounding to other than 6 decimals")
                a, ta = self.expr(e.args[0], env)
                if ta != "arr":
                    raise Unsupported("round of a non-array")
                return {k: f"(f_round6 {v})" for k, v in a.items() if k in ("max", "min", "absmax")}, "arr"
            if f == "np.any" and len(e.args) == 1:
                a, ta = self.expr(e.args[0], env)
                if ta != "boolarr":
                    raise Unsupported("np.any of something other than a comparison of an array")
                return a, "bool"
            if f in ("np.min", "np.max", "np.average", "np.sum") and len(e.args) == 1:
                a, ta = self.expr(e.args[0], env)
                k = {"np.min": "min", "np.max": "max", "np.average": "avg", "np.sum": "sum"}[f]
                if ta != "arr" or k not in a:
                    raise Unsupported(f"{f} of something whose {k} is not in the summary")
                return a[k], "float"
        if isinstance(e, ast.Compare) and len(e.ops) == 1:
            a, ta = self.expr(e.left, env)
            if ta == "arr":
                b, tb = self.expr(e.comparators[0], env)
                if tb == "Z":
                    b, tb = ("zero" if b == "(0)%Z" else f"(f_of_Z {b})"), "float"
                if tb != "float":
                    raise Unsupported("array compared with a non-scalar")
                if isinstance(e.ops[0], ast.Gt) and "max" in a:
                    return f"(f_gt {a['max']} {b})", "boolarr"
                if isinstance(e.ops[0], ast.Lt) and "min" in a:
                    return f"(f_lt {a['min']} {b})", "boolarr"
                raise Unsupported("array comparison the summary does not determine")
        return super().expr(e, env)

    def definition(self):
        sp = self.spec
        env = {}
        for py, (cq, ty) in sp["params"].items():
            env[py] = (cq, ty)
        for py, summ in sp.get("arrays", {}).items():
            env[py] = (dict(summ), "arr")
        seen = []
        for py, (cq, ty) in sp["params"].items():
            if cq not in [c for c, _ in seen]:
                seen.append((cq, ty))
        for py, summ in sp.get("arrays", {}).items():
            for v in summ.values():
                if v not in [c for c, _ in seen]:
                    seen.append((v, "float"))
        body = self.block(self.node.body, env)
        ps = " ".join(f"({c} : {COQTY[t]})" for c, t in seen)
        notes = "".join(f"(* {n} *)\n" for n in dict.fromkeys(self.notes))
        return f"(** {sp['file']} : {sp['qual']} *)\n{notes}Definition {sp['coq']} {ps} : {sp['ret']} :=\n  {body}.\n"


ARR_SPECS = [
    dict(file="pulser-core/pulser/channels/base_channel.py", qual="Channel.validate_pulse", coq="gen_validate_pulse", ret="res unit",
         objects=["pulse"],
         params={"self.max_amp": ("max_amp", "optfloat"), "self.max_abs_detuning": ("max_abs_detuning", "optfloat"),
                 "self.min_avg_amp": ("min_avg_amp", "float")},
         arrays={"pulse.amplitude.samples": {"max": "amp_max", "avg": "amp_avg"},
                 "pulse.detuning.samples": {"absmax": "det_absmax"}}),
    dict(file="pulser-core/pulser/channels/dmm.py", qual="DMM.validate_pulse", coq="gen_validate_pulse_dmm", ret="res unit",
         objects=["pulse"],
         params={"self.max_amp": ("max_amp", "optfloat"), "self.max_abs_detuning": ("max_abs_detuning", "optfloat"),
                 "self.min_avg_amp": ("min_avg_amp", "float"), "amp_max": ("amp_max", "float"), "amp_avg": ("amp_avg", "float"),
                 "det_absmax": ("det_absmax", "float"),
                 "self.bottom_detuning": ("bottom_detuning", "optfloat"), "self.total_bottom_detuning": ("total_bottom_detuning", "optfloat")},
         arrays={"pulse.detuning.samples": {"max": "det_max", "min": "det_min"},
                 "detuning_map.weights": {"max": "w_max", "sum": "w_sum"}},
         calls={"super().validate_pulse": ("gen_validate_pulse", ["self.max_amp", "self.max_abs_detuning", "self.min_avg_amp", "amp_max", "amp_avg", "det_absmax"], "res unit")}),
]


def main_arrays(repo: Path, out: Path):
    trees = {}
    defs = []
    for sp in ARR_SPECS:
        p = repo / sp["file"]
        tree = trees.setdefault(str(p), ast.parse(p.read_text()))
        node = find(tree, sp["qual"])
        fn = ArrFn(sp, node, {}, sp.get("calls", {}))
        try:
            defs.append(fn.definition())
        except Unsupported as e:
            raise ValueError(f"translator cannot express {sp['qual']} ({sp['file']}): {e}") from e
    (out / "PureLimits.v").write_text(
        "(** GENERATED by translate/tr_pure.py from Channel.validate_pulse / DMM.validate_pulse - do not edit.\n"
        "    numpy reductions are read through the sample summary the model is given (see translate/tr_pure.py, ArrFn). *)\n"
        "From Coq Require Import ZArith Bool.\nFrom Coq Require Import PrimFloat.\nFrom PV Require Import Model.Base.\nOpen Scope Z_scope.\n\n" + "\n".join(defs)
    )


class SlotFn(LoopFn):
    """adds what _Schedule.make_next_pulse_slot needs: a local helper function (inlined at its
    calls), `max(a, *xs)`, an optional drift record, `try: x = <search>() ... except RuntimeError:
    pass`, assignments from calls that may raise, bool-as-int in a product, the rebuilt Pulse
    (only its phase matters here: Pulse.__init__ stores phase % 2pi), and the returned time slot as
    the triple (ti, tf, phase of the scheduled pulse)."""

    CHOBJ = LoopFn.CHOBJ + ("ch_obj",)

    def __init__(self, *a):
        super().__init__(*a)
        self.localfuns = {}
        self.ret_override = None

    def custom_call(self, e, env):
        f = ast.unparse(e.func)
        if f not in ("self._find_add_delay", "self[channel].last_pulse_slot", "self[channel].adjust_duration", "self._check_duration"):
            return None
        kws = {k.arg: k.value for k in e.keywords}
        c, _ = env["self[channel]"]
        if f == "self._find_add_delay" and len(e.args) == 3 and ast.unparse(e.args[1]) == "channel" and ast.unparse(e.args[2]) == "protocol":
            t0_ = self.expr(e.args[0], env)[0]
            wfa = env["protocol == 'wait-for-all'"][0]
            return f"(gen_find_add_delay {env['self.items()'][0]} {t0_} {env['channel'][0]} (s_tg {env['self[channel][-1]'][0]}) {wfa})", "Z"
        args = [self.expr(a, env)[0] for a in e.args]
        if f == "self[channel].last_pulse_slot" and not args and set(kws) == {"ignore_detuned_delay"}:
            return f"(gen_last_pulse_slot (ch_slots {c}) {self.truth(kws['ignore_detuned_delay'], env)})", "res slot"
        if f == "self[channel].adjust_duration" and len(args) == 1 and not kws:
            return f"(gen_adjust_duration (c_min (ch_cfg {c})) (c_max (ch_cfg {c})) (c_clock (ch_cfg {c})) {args[0]})", "res Z"
        if f == "self._check_duration" and len(args) == 2 and not kws:
            return f"(gen_check_duration {env['self.max_duration'][0]} {args[0]} {args[1]})", "res unit"
        return None

    def attribute(self, e, env):
        o, to = self.expr(e.value, env)
        if (to, e.attr) == ("slottype", "phase"):
            p_ = self.var("p")
            return f"(match s_kind {o} with KPulse {p_} => p_phase {p_} | _ => zero end)", "float"
        if (to, e.attr) == ("chanobj", "phase_jump_time"):
            return f"(c_pj (ch_cfg {o}))", "Z"
        return super().attribute(e, env)

    def expr(self, e, env):
        if ast.unparse(e) in env:
            return env[ast.unparse(e)]
        if isinstance(e, ast.Call):
            f = ast.unparse(e.func)
            if f == "pm.AbstractArray" and len(e.args) == 1 and not e.keywords:
                return self.expr(e.args[0], env)
            if f in self.localfuns and not e.keywords:
                fn = self.localfuns[f]
                if len(fn.args.args) != len(e.args):
                    raise Unsupported("local function called with another number of arguments")
                env2 = dict(env)
                for a, v in zip(fn.args.args, e.args):
                    env2[a.arg] = self.expr(v, env)
                saved = self.ret_override, self.loops
                self.ret_override, self.loops = "any", []
                body = self.block(fn.body, env2)
                t = self.last_ret_type
                self.ret_override, self.loops = saved
                return f"({body})", t
            if f == "max" and any(isinstance(a, ast.Starred) for a in e.args):
                if len(e.args) != 2 or not isinstance(e.args[1], ast.Starred):
                    raise Unsupported("max with a starred argument other than max(a, *xs)")
                a, ta = self.expr(e.args[0], env)
                xs, tx = self.expr(e.args[1].value, env)
                if ta != "Z" or tx != "listZ":
                    raise Unsupported("max(a, *xs) on non-integers")
                return f"(fold_left Z.max {xs} {a})", "Z"
            if isinstance(e.func, ast.Attribute) and e.func.attr == "calc_phase_drift" and len(e.args) == 1:
                d, td = self.expr(e.func.value, env)
                if td != "drift":
                    raise Unsupported("calc_phase_drift of a possibly missing drift record")
                a, ta = self.expr(e.args[0], env)
                return f"(gen_calc_phase_drift (dr_rate {d}) (dr_ti {d}) {a})", "float"
            r = self.custom_call(e, env)
            if r is not None:
                return r
        if isinstance(e, ast.IfExp):
            # `a if X else b` with X optional: like `a if X is not None else b`
            c = ast.unparse(e.test)
            if c in env and env[c][1].startswith("opt"):
                a, ta = env[c]
                x = self.var(c.split(".")[-1])
                env2 = dict(env)
                env2[c] = (x, ta[3:])
                s_, ts = self.expr(e.body, env2)
                n_, tn = self.expr(e.orelse, env)
                if {ts, tn} == {"float", "Z"}:
                    conv = lambda v: "zero" if v == "(0)%Z" else f"(f_of_Z {v})"  # noqa: E731
                    s_, n_ = (s_ if ts == "float" else conv(s_)), (n_ if tn == "float" else conv(n_))
                    ts = tn = "float"
                if ts != tn:
                    raise Unsupported("conditional expression with branches of different types")
                return f"(match {a} with None => {n_} | Some {x} => {s_} end)", ts
        if isinstance(e, ast.BinOp) and isinstance(e.op, ast.Mult):
            a, ta = self.expr(e.left, env)
            b, tb = self.expr(e.right, env)
            if ta == "Z" and tb == "bool":
                return f"({a} * (if {b} then 1 else 0))", "Z"  # True == 1, False == 0
        return super().expr(e, env)

    def block(self, stmts, env, rest=None):
        if stmts:
            s, tail = stmts[0], stmts[1:]
            nxt = lambda env2: self.block(tail, env2, rest)  # noqa: E731
            if isinstance(s, ast.FunctionDef):
                self.localfuns[s.name] = s
                return nxt(env)
            if isinstance(s, ast.Return) and self.ret_override == "any":
                a, ta = self.expr(s.value, env)
                self.last_ret_type = ta
                return a
            if isinstance(s, ast.Return) and isinstance(s.value, ast.Call) and ast.unparse(s.value.func) == "_TimeSlot":
                a = s.value.args
                if len(a) != 4 or ast.unparse(a[0]) != "pulse" or ast.unparse(a[3]) != "last.targets":
                    raise Unsupported("time slot built from something other than (pulse, ti, tf, last.targets)")
                ti, t1 = self.expr(a[1], env)
                tf, t2 = self.expr(a[2], env)
                if (t1, t2) != ("Z", "Z"):
                    raise Unsupported("non-integer slot times")
                return f"Ok ({ti}, {tf}, {env['pulse.phase'][0]})"
            if isinstance(s, ast.Assign) and len(s.targets) == 1 and isinstance(s.targets[0], ast.Name):
                x = s.targets[0].id
                if x == "pulse" and isinstance(s.value, ast.Call) and ast.unparse(s.value.func) == "Pulse":
                    kws = {k.arg: k.value for k in s.value.keywords}
                    if s.value.args or set(kws) != {"amplitude", "detuning", "phase", "post_phase_shift"} or any(
                        ast.unparse(kws[k]) != "pulse." + k for k in ("amplitude", "detuning", "post_phase_shift")):
                        raise Unsupported("Pulse rebuilt with something other than a new phase")
                    ph, tp = self.expr(kws["phase"], env)
                    if tp != "float":
                        raise Unsupported("non-float phase")
                    y = self.var("pulse_phase")
                    env2 = dict(env)
                    env2["pulse.phase"] = (y, "float")
                    return f"let {y} := (gen_phase_format {ph}) in\n  {nxt(env2)}"
                if isinstance(s.value, ast.Call):
                    a, ta = self.expr(s.value, env)
                    if ta.startswith("res ") and ta != "res unit":
                        if not self.spec["ret"].startswith("res "):
                            raise Unsupported("call that may raise in a total function")
                        er = self.var("err")
                        env2 = dict(env)
                        env2[x] = (x, {"Z": "Z", "slot": "slot"}[ta[4:]])
                        return f"match {a} with\n  | Err {er} => Err {er}\n  | Ok {x} =>\n  {nxt(env2)}\n  end"
            if isinstance(s, ast.Expr) and isinstance(s.value, ast.Call):
                r = None
                try:
                    r = self.custom_call(s.value, env)
                except KeyError:
                    r = None
                if r is not None and r[1] == "res unit":
                    er = self.var("err")
                    return f"match {r[0]} with\n  | Err {er} => Err {er}\n  | Ok _ =>\n  {nxt(env)}\n  end"
            if isinstance(s, ast.Try):
                ok = (
                    s.body
                    and isinstance(s.body[0], ast.Assign)
                    and isinstance(s.body[0].value, ast.Call)
                    and len(s.handlers) == 1
                    and isinstance(s.handlers[0].type, ast.Name)
                    and s.handlers[0].type.id == "RuntimeError"
                    and len(s.handlers[0].body) == 1
                    and isinstance(s.handlers[0].body[0], ast.Pass)
                    and not s.orelse
                    and not s.finalbody
                )
                if ok:
                    a, ta = self.expr(s.body[0].value, env)
                    if ta == "res slot":
                        # only the search can raise (RuntimeError: nothing found); the rest of the
                        # try body must be free of calls that may raise
                        for st_ in s.body[1:]:
                            for m in ast.walk(st_):
                                if isinstance(m, ast.Call) and self.custom_call_safe(m, env):
                                    raise Unsupported("a second call that may raise inside the try body")
                        x = s.body[0].targets[0].id
                        env2 = dict(env)
                        env2[x] = (x, "slot")
                        after = lambda e3: self.block(tail, e3, rest)  # noqa: E731
                        found = self.block(s.body[1:], env2, after)
                        return f"match {a} with\n  | Err _ => ({after(env)})\n  | Ok {x} => ({found})\n  end"
        return super().block(stmts, env, rest)

    def custom_call_safe(self, m, env):
        try:
            r = self.custom_call(m, env)
        except Exception:  # noqa: BLE001
            return False
        return r is not None and r[1].startswith("res ")

    def definition(self):
        sp = self.spec
        env = {}
        for py, (cq, ty) in sp["params"].items():
            env[py] = (cq, ty)
        for py, (cq, ty) in sp.get("exprs", {}).items():
            env[py] = (cq, ty)
        seen = []
        for py, (cq, ty) in sp["params"].items():
            if cq not in [c for c, _ in seen]:
                seen.append((cq, ty))
        tyc = dict(COQTY, optdrift="option drift", drift="drift")
        body = self.block(self.node.body, env)
        ps = " ".join(f"({c} : {tyc[t]})" for c, t in seen)
        notes = "".join(f"(* {n} *)\n" for n in dict.fromkeys(self.notes))
        return "\n".join(self.aux) + f"(** {sp['file']} : {sp['qual']} *)\n{notes}Definition {sp['coq']} {ps} : {sp['ret']} :=\n  {body}.\n"


SLOT_SPECS = [
    dict(file="pulser-core/pulser/sequence/_schedule.py", qual="_Schedule.make_next_pulse_slot", coq="gen_make_next_pulse_slot",
         ret="res (Z * Z * float)",
         params={"self.items()": ("chs", "listchan"), "self[channel]": ("c", "chan"), "self[channel][-1]": ("last", "slot"),
                 "channel": ("channel", "Z"), "phase_barrier_ts": ("phase_barrier_ts", "listZ"),
                 "nodelay": ("nodelay", "bool"), "protocol == 'wait-for-all'": ("wfa", "bool"),
                 "phase_drift_params": ("phase_drift_params", "optdrift"),
                 "pulse.phase": ("pulse_phase", "float"), "pulse.duration": ("pulse_duration", "Z"),
                 "self.max_duration": ("max_duration", "optZ"), "block_over_max_duration": ("block_over_max_duration", "bool")},
         exprs={"protocol != 'no-delay'": ("(negb nodelay)", "bool")}),
]


def main_slot(repo: Path, out: Path):
    trees = {}
    defs = []
    for sp in SLOT_SPECS:
        p = repo / sp["file"]
        tree = trees.setdefault(str(p), ast.parse(p.read_text()))
        node = find(tree, sp["qual"])
        fn = SlotFn(sp, node, {}, {})
        try:
            defs.append(fn.definition())
        except Unsupported as e:
            raise ValueError(f"translator cannot express {sp['qual']} ({sp['file']}): {e}") from e
    (out / "PureSlot.v").write_text(
        "(** GENERATED by translate/tr_pure.py from _Schedule.make_next_pulse_slot - do not edit.\n"
        "    The scheduled slot is returned as (ti, tf, phase of the scheduled pulse). *)\n"
        "From Coq Require Import ZArith Bool List.\nFrom Coq Require Import PrimFloat.\n"
        "From PV Require Import Model.Base Model.Sched Gen.Pure Gen.PureLoops.\nOpen Scope Z_scope.\n\n" + "\n".join(defs)
    )


class StateFn(SlotFn):
    """the state-changing methods of _Schedule, translated into the state-and-exception monad of
    Model/Sched.v (`SM`): every read of `self[ch]` / `self[ch][-1]` is a read of the CURRENT state
    (bound afresh for each statement), `slots.append(_TimeSlot(..))` is `append_slot`, a call that
    may raise is bound with `lift`, a call of another scheduler method is sequenced.  Pulses the
    scheduler builds itself (`Pulse.ConstantPulse(d, 0.0, det_off, phase)`) are the model's
    `mk_dd_pulse`, whose fall times are keyed by the instant at which the pulse starts."""

    def __init__(self, *a):
        super().__init__(*a)
        self.pre = []
        self.memo = {}

    # -- reads of the current state
    def expr(self, e, env):
        k = id(e)
        if k in self.memo:
            return self.memo[k]
        r = self.expr_(e, env)
        self.memo[k] = r
        return r

    def expr_(self, e, env):
        txt = ast.unparse(e)
        if txt in env:
            return env[txt]
        if isinstance(e, ast.Subscript) and isinstance(e.value, ast.Name) and e.value.id == "self" and isinstance(e.slice, ast.Name):
            n, tn = self.expr(e.slice, env)
            if tn != "Z":
                raise Unsupported("self[x] with x not a channel name")
            c = self.var("c")
            self.pre.append(f"{c} <- the_chan {n} ;;")
            return c, "chan"
        if (isinstance(e, ast.Subscript) and ast.unparse(e.slice) == "-1" and isinstance(e.value, ast.Subscript)
                and isinstance(e.value.value, ast.Name) and e.value.value.id == "self" and isinstance(e.value.slice, ast.Name)):
            n, tn = self.expr(e.value.slice, env)
            sl = self.var("sl")
            self.pre.append(f"{sl} <- last_slot {n} ;;")
            return sl, "slot"
        if isinstance(e, ast.Attribute) and e.attr == "targets":
            o, to = self.expr(e.value, env)
            if to == "slot":
                return f"(s_tg {o})", "listZ"
        if isinstance(e, ast.Attribute) and e.attr == "slots":
            o, to = self.expr(e.value, env)
            if to == "chan":
                return f"(ch_slots {o})", "listslot"
        if isinstance(e, ast.Call):
            f = e.func
            # self[ch].channel_obj.validate_duration(x) / self[ch].adjust_duration(x): may raise -> bound
            if isinstance(f, ast.Attribute) and f.attr in ("validate_duration", "adjust_duration") and len(e.args) == 1 and not e.keywords:
                o, to = self.expr(f.value, env)
                if (f.attr, to) not in (("validate_duration", "chanobj"), ("adjust_duration", "chan")):
                    raise Unsupported(f"{f.attr} of a {to}")
                a, ta = self.expr(e.args[0], env)
                g = "gen_validate_duration" if f.attr == "validate_duration" else "gen_adjust_duration"
                v = self.var("v")
                self.pre.append(f"{v} <- lift ({g} (c_min (ch_cfg {o})) (c_max (ch_cfg {o})) (c_clock (ch_cfg {o})) {a}) ;;")
                return v, "Z"
            if isinstance(f, ast.Attribute) and f.attr == "get_duration" and not e.args:
                o, to = self.expr(f.value, env)
                if to != "chan":
                    raise Unsupported("get_duration of a non-channel")
                kws = {k.arg: k.value for k in e.keywords}
                fall = self.truth(kws["include_fall_time"], env) if "include_fall_time" in kws else "false"
                return f"(gen_get_duration (ch_slots {o}) (c_rise (ch_cfg {o})) (in_eom {o}) {fall})", "Z"
            if ast.unparse(f) == "self.get_duration" and len(e.args) == 1 and not e.keywords:
                # _Schedule.get_duration(channel): that channel's own duration, without fall time
                n, _ = self.expr(e.args[0], env)
                c = self.var("c")
                self.pre.append(f"{c} <- the_chan {n} ;;")
                return f"(gen_get_duration (ch_slots {c}) (c_rise (ch_cfg {c})) (in_eom {c}) false)", "Z"
            if isinstance(f, ast.Attribute) and f.attr == "last_target" and not e.args and not e.keywords:
                o, to = self.expr(f.value, env)
                if to != "chan":
                    raise Unsupported("last_target of a non-channel")
                return f"(gen_last_target (ch_slots {o}))", "Z"
            if ast.unparse(f) == "self._get_last_pulse_phase" and len(e.args) == 1:
                n, _ = self.expr(e.args[0], env)
                c = self.var("c")
                self.pre.append(f"{c} <- the_chan {n} ;;")
                return f"(last_pulse_phase {c})", "float"
            if ast.unparse(f) == "Pulse.ConstantPulse" and len(e.args) == 4 and ast.unparse(e.args[1]) == "0.0":
                d, td = self.expr(e.args[0], env)
                doff, t2 = self.expr(e.args[2], env)
                ph, t3 = self.expr(e.args[3], env)
                if (td, t2, t3) != ("Z", "float", "float"):
                    raise Unsupported("ConstantPulse with unexpected argument types")
                return (d, doff, ph), "ddpulse"
            if ast.unparse(f) == "np.clip" and len(e.args) == 3:
                a = [self.expr(x, env) for x in e.args]
                if any(t != "Z" for _, t in a):
                    raise Unsupported("np.clip on non-integers")
                return f"(Zclip {a[0][0]} {a[1][0]} {a[2][0]})", "Z"
            if ast.unparse(f) == "set" and len(e.args) == 1:
                return self.expr(e.args[0], env)
        if isinstance(e, ast.Attribute) and e.attr == "detuning_off" and ast.unparse(e.value).endswith(".eom_blocks[-1]"):
            o, to = self.expr(e.value.value.value, env)
            if to != "chan":
                raise Unsupported("eom_blocks of a non-channel")
            b = self.var("b")
            return (f"(match ch_eoms {o} with cons {b} _ => eb_doff {b} | nil => zero end)"), "float"
        if isinstance(e, ast.Compare) and len(e.ops) == 1 and isinstance(e.ops[0], ast.Eq):
            a, ta = self.expr(e.left, env)
            if ta == "listZ":
                b, tb = self.expr(e.comparators[0], env)
                if tb == "listZ":
                    return f"(list_Z_eqb {a} {b})", "bool"
        return super().expr(e, env)

    def attribute(self, e, env):
        o, to = self.expr(e.value, env)
        tab = {("chanobj", "min_retarget_interval"): f"(c_minret (ch_cfg {o}))", ("chanobj", "fixed_retarget_t"): f"(c_fixret (ch_cfg {o}))",
               ("slot", "ti"): f"(s_ti {o})"}
        if (to, e.attr) in tab:
            return tab[(to, e.attr)], "Z"
        if (to, e.attr) == ("chanobj", "_eom_buffer_time"):
            return f"(eom_buffer_time (ch_cfg {o}))", "Z"
        if (to, e.attr) == ("chanobj", "eom_config"):
            return f"(c_eom (ch_cfg {o}))", "opteom"
        if (to, e.attr) == ("eom", "custom_buffer_time"):
            # the model keeps bool(custom_buffer_time); only its truth value is used here
            return f"(e_custom {o})", "bool"
        return super().attribute(e, env)

    def truth(self, e, env):
        if isinstance(e, ast.BoolOp) and isinstance(e.op, ast.And) and len(e.values) == 2:
            a, ta = self.expr(e.values[0], env)
            if ta == "opteom":  # `cfg and cfg.x`: a dataclass instance is truthy
                x = self.var("ec")
                env2 = dict(env)
                env2[ast.unparse(e.values[0])] = (x, "eom")
                self.memo = {}
                b = self.truth(e.values[1], env2)
                return f"(match {a} with Some {x} => {b} | None => false end)"
        a, ta = self.expr(e, env)
        if ta == "listslot":
            return f"(match {a} with nil => false | cons _ _ => true end)"
        if ta == "bool":
            return a
        return super().truth(e, env)

    def with_pre(self, code):
        pre, self.pre = self.pre, []
        return "\n  ".join(pre + [code])

    def slot_term(self, call, env):
        a = call.args
        if len(a) != 4:
            raise Unsupported("_TimeSlot with other than 4 arguments")
        ti, t1 = self.expr(a[1], env)
        tf, t2 = self.expr(a[2], env)
        tg, t3 = self.expr(a[3], env)
        if (t1, t2, t3) != ("Z", "Z", "listZ"):
            raise Unsupported("_TimeSlot with unexpected argument types")
        if isinstance(a[0], ast.Constant) and a[0].value in ("delay", "target"):
            k = "KDelay" if a[0].value == "delay" else "KTarget"
        else:
            v, tv = self.expr(a[0], env)
            if tv != "ddpulse":
                raise Unsupported("_TimeSlot of something other than 'delay', 'target' or a pulse built here")
            d, doff, ph = v
            k = f"KPulse (mk_dd_pulse e {env.get('channel', env.get('channel_id'))[0]} {ti} {d} {ph} {doff})"
        return f"{{| s_kind := {k}; s_ti := {ti}; s_tf := {tf}; s_tg := {tg} |}}"

    def sblock(self, stmts, env, rest=None):
        if not stmts:
            return rest(env) if rest is not None else "ret tt"
        s, tail = stmts[0], stmts[1:]
        nxt = lambda env2: self.sblock(tail, env2, rest)  # noqa: E731
        self.pre = []
        self.memo = {}
        if isinstance(s, ast.Expr) and isinstance(s.value, ast.Constant) and isinstance(s.value.value, str):
            return nxt(env)
        if isinstance(s, ast.Return) and s.value is None:
            return "ret tt"
        if (isinstance(s, ast.Assign) and len(s.targets) == 1 and isinstance(s.targets[0], ast.Name)
                and not (isinstance(s.value, ast.Call) and ast.unparse(s.value.func) == "_EOMSettings")):
            x = s.targets[0].id
            if isinstance(s.value, ast.Call) and ast.unparse(s.value.func) == "self.make_next_pulse_slot":
                args = [ast.unparse(a) for a in s.value.args]
                if args != ["pulse", "channel", "phase_barrier_ts", "protocol", "phase_drift_params", "True"]:
                    raise Unsupported("make_next_pulse_slot called with other arguments")
                env2 = dict(env)
                env2[x] = (x, "slot")
                return f"{x} <- make_next_pulse_slot e pulse channel phase_barrier_ts protocol phase_drift_params true ;;\n  {nxt(env2)}"
            a, ta = self.expr(s.value, env)
            env2 = dict(env)
            if ta in ("ddpulse",):
                env2[x] = (a, ta)
                pre, self.pre = self.pre, []
                return "\n  ".join(pre + [nxt(env2)])
            if ta in ("slot", "chan", "chanobj") and a.isidentifier():
                env2[x] = (a, ta)
                pre, self.pre = self.pre, []
                return "\n  ".join(pre + [nxt(env2)])
            env2[x] = (x, ta)
            code = self.with_pre(f"let {x} := {a} in")
            return code + "\n  " + nxt(env2)
        if isinstance(s, ast.Expr) and isinstance(s.value, ast.Call):
            c = s.value
            f = ast.unparse(c.func)
            if f == "self._check_duration":
                t, _ = self.expr(c.args[0], env)
                blk = self.truth(c.args[1], env) if len(c.args) > 1 else "true"  # default block_over_max_duration=True
                return self.with_pre(f"lift (gen_check_duration (en_max e) {t} {blk}) ;;;") + "\n  " + nxt(env)
            if f in ("self.add_delay", "self.wait_for_fall") and not c.keywords:
                args = [self.expr(a, env)[0] for a in c.args]
                name = {"self.add_delay": "gen_add_delay", "self.wait_for_fall": "gen_wait_for_fall"}[f]
                return self.with_pre(f"{name} e {' '.join(args)} ;;;") + "\n  " + nxt(env)
            if f.endswith(".slots.append") and len(c.args) == 1:
                o, to = self.expr(c.func.value.value, env)
                if to != "chan":
                    raise Unsupported("append to the slots of a non-channel")
                arg = c.args[0]
                if isinstance(arg, ast.Call) and ast.unparse(arg.func) == "_TimeSlot":
                    term = self.slot_term(arg, env)
                else:
                    term, tt_ = self.expr(arg, env)
                    if tt_ != "slot":
                        raise Unsupported("append of a non-slot")
                # the channel whose slots are appended to is named by the subscript
                nm, _ = self.expr(c.func.value.value.slice, env)
                self.pre = [p_ for p_ in self.pre if not p_.startswith(o + " <-")]
                return self.with_pre(f"append_slot {nm} {term} ;;;") + "\n  " + nxt(env)
        # self[ch].eom_blocks[-1].tf = E   : the open EOM block is closed at E
        if (isinstance(s, ast.Assign) and len(s.targets) == 1 and isinstance(s.targets[0], ast.Attribute) and s.targets[0].attr == "tf"
                and ast.unparse(s.targets[0].value).endswith(".eom_blocks[-1]")):
            nm, _ = self.expr(s.targets[0].value.value.value.slice, env)
            v, tv = self.expr(s.value, env)
            if tv != "Z":
                raise Unsupported("EOM block closed at a non-integer")
            c = self.var("c")
            return self.with_pre(f"(fun s_ => (upd_chan {nm} (fun {c} => close_eom {c} {v}) s_, Ok tt)) ;;;") + "\n  " + nxt(env)
        # eom_settings = _EOMSettings(...)
        if (isinstance(s, ast.Assign) and len(s.targets) == 1 and isinstance(s.targets[0], ast.Name) and isinstance(s.value, ast.Call)
                and ast.unparse(s.value.func) == "_EOMSettings"):
            kws = {k.arg: k.value for k in s.value.keywords}
            if s.value.args or set(kws) != {"rabi_freq", "detuning_on", "detuning_off", "ti", "switching_beams"}:
                raise Unsupported("_EOMSettings with other fields")
            vals = {k: self.expr(kws[k], env) for k in ("rabi_freq", "detuning_on", "detuning_off", "ti")}
            if [vals[k][1] for k in ("rabi_freq", "detuning_on", "detuning_off", "ti")] != ["float", "float", "float", "Z"]:
                raise Unsupported("_EOMSettings with unexpected field types")
            term = ("{| eb_rabi := %s; eb_don := %s; eb_doff := %s; eb_ti := %s; eb_tf := None |}"
                    % tuple(vals[k][0] for k in ("rabi_freq", "detuning_on", "detuning_off", "ti")))
            env2 = dict(env)
            env2[s.targets[0].id] = (term, "eomblk")
            pre, self.pre = self.pre, []
            return "\n  ".join(pre + [nxt(env2)])
        if isinstance(s, ast.Expr) and isinstance(s.value, ast.Call):
            c_ = s.value
            f_ = ast.unparse(c_.func)
            if f_.endswith(".eom_blocks.append") and len(c_.args) == 1:
                nm, _ = self.expr(c_.func.value.value.slice, env)
                v, tv = self.expr(c_.args[0], env)
                if tv != "eomblk":
                    raise Unsupported("append of something other than EOM settings built here")
                c = self.var("c")
                return self.with_pre(f"(fun s_ => (upd_chan {nm} (fun {c} => set_eoms {c} ({v} :: ch_eoms {c})) s_, Ok tt)) ;;;") + "\n  " + nxt(env)
            if f_ == "self.add_pulse":
                kws = {k.arg: ast.unparse(k.value) for k in c_.keywords}
                if len(c_.args) != 2 or kws != {"phase_barrier_ts": "[0]", "protocol": "'no-delay'"}:
                    raise Unsupported("add_pulse called with other than (pulse, channel, phase_barrier_ts=[0], protocol='no-delay')")
                v, tv = self.expr(c_.args[0], env)
                nm, _ = self.expr(c_.args[1], env)
                if tv != "ddpulse":
                    raise Unsupported("add_pulse of a pulse not built here")
                d, doff, ph = v
                sl = self.var("sl")
                # with 'no-delay' and the barrier 0 the pulse starts where the channel ends now
                self.pre.append(f"{sl} <- last_slot {nm} ;;")
                return self.with_pre(f"gen_add_pulse e (mk_dd_pulse e {nm} (s_tf {sl}) {d} {ph} {doff}) {nm} [0] 1 None ;;;") + "\n  " + nxt(env)
        if isinstance(s, ast.If):
            c = self.truth(s.test, env)
            pre, self.pre = self.pre, []
            a = self.sblock(s.body, env, nxt)
            b = self.sblock(s.orelse, env, nxt)
            return "\n  ".join(pre + [f"if {c}\n  then ({a})\n  else ({b})"])
        raise Unsupported(f"statement {type(s).__name__}: {ast.unparse(s)[:60]}")

    def definition(self):
        sp = self.spec
        env = {}
        for py, (cq, ty) in sp["params"].items():
            env[py] = (cq, ty)
        tyc = dict(COQTY, optdrift="option drift", env="env", pulse="pulse")
        ps = " ".join(f"({c} : {tyc[t]})" for c, t in sp["sig"])
        self.fresh = 0
        body = self.sblock(self.node.body, env)
        return f"(** {sp['file']} : {sp['qual']} *)\nDefinition {sp['coq']} {ps} : SM unit :=\n  {body}.\n"


STATE_SPECS = [
    dict(file="pulser-core/pulser/sequence/_schedule.py", qual="_Schedule.add_delay", coq="gen_add_delay",
         sig=[("e", "env"), ("duration", "Z"), ("channel", "Z")], params={"duration": ("duration", "Z"), "channel": ("channel", "Z")}),
    dict(file="pulser-core/pulser/sequence/_schedule.py", qual="_Schedule.wait_for_fall", coq="gen_wait_for_fall",
         sig=[("e", "env"), ("channel", "Z")], params={"channel": ("channel", "Z")}),
    dict(file="pulser-core/pulser/sequence/_schedule.py", qual="_Schedule.add_pulse", coq="gen_add_pulse",
         sig=[("e", "env"), ("pulse", "pulse"), ("channel", "Z"), ("phase_barrier_ts", "listZ"), ("protocol", "Z"), ("phase_drift_params", "optdrift")],
         params={"channel": ("channel", "Z")}),
    dict(file="pulser-core/pulser/sequence/_schedule.py", qual="_Schedule.disable_eom", coq="gen_disable_eom",
         sig=[("e", "env"), ("channel_id", "Z"), ("_skip_buffer", "bool")],
         params={"channel_id": ("channel_id", "Z"), "_skip_buffer": ("_skip_buffer", "bool")}),
    dict(file="pulser-core/pulser/sequence/_schedule.py", qual="_Schedule.enable_eom", coq="gen_enable_eom",
         sig=[("e", "env"), ("channel_id", "Z"), ("amp_on", "float"), ("detuning_on", "float"), ("detuning_off", "float"), ("_skip_wait_for_fall", "bool")],
         # no caller passes _skip_buffer to enable_eom: it is the constant False here
         params={"channel_id": ("channel_id", "Z"), "amp_on": ("amp_on", "float"), "detuning_on": ("detuning_on", "float"),
                 "detuning_off": ("detuning_off", "float"), "_skip_wait_for_fall": ("_skip_wait_for_fall", "bool"),
                 "_skip_buffer": ("false", "bool"), "switching_beams": ("tt", "unit")}),
    dict(file="pulser-core/pulser/sequence/_schedule.py", qual="_Schedule.add_target", coq="gen_add_target",
         sig=[("e", "env"), ("qubits_set", "listZ"), ("channel", "Z")], params={"channel": ("channel", "Z"), "qubits_set": ("qubits_set", "listZ")}),
]


def main_state(repo: Path, out: Path):
    trees = {}
    defs = []
    for sp in STATE_SPECS:
        p = repo / sp["file"]
        tree = trees.setdefault(str(p), ast.parse(p.read_text()))
        node = find(tree, sp["qual"])
        fn = StateFn(sp, node, {}, {})
        try:
            defs.append(fn.definition())
        except Unsupported as e:
            raise ValueError(f"translator cannot express {sp['qual']} ({sp['file']}): {e}") from e
    (out / "PureState.v").write_text(
        "(** GENERATED by translate/tr_pure.py from the state-changing methods of _Schedule - do not edit.\n"
        "    They live in the state-and-exception monad SM of Model/Sched.v. *)\n"
        "From Coq Require Import ZArith Bool List.\nFrom Coq Require Import PrimFloat.\n"
        "From PV Require Import Model.Base Model.Sched Gen.Pure Gen.PureLoops.\nImport ListNotations.\nOpen Scope Z_scope.\nOpen Scope monad_scope.\n\n" + "\n".join(defs)
    )


LOOP_SPECS = [
    dict(file="pulser-core/pulser/sequence/_schedule.py", qual="_ChannelSchedule.last_target", coq="gen_last_target", ret="Z",
         params={"self.slots[::-1]": ("slots", "listslot")}),
    dict(file="pulser-core/pulser/sequence/_schedule.py", qual="_ChannelSchedule.last_pulse_slot", coq="gen_last_pulse_slot", ret="res slot",
         params={"self.slots[::-1]": ("slots", "listslot"), "ignore_detuned_delay": ("ignore_detuned_delay", "bool")}),
    dict(file="pulser-core/pulser/sequence/_schedule.py", qual="_ChannelSchedule.get_duration", coq="gen_get_duration", ret="Z",
         params={"self.slots[::-1]": ("slots", "listslot"), "self.channel_obj.rise_time": ("rise_time", "Z"),
                 "self.in_eom_mode()": ("in_eom_mode", "bool"), "include_fall_time": ("include_fall_time", "bool")}),
    dict(file="pulser-core/pulser/sequence/_schedule.py", qual="_Schedule._find_add_delay", coq="gen_find_add_delay", ret="Z",
         params={"self.items()": ("chs", "listchan"), "t0": ("t0", "Z"), "channel": ("channel", "Z"),
                 "self[channel][-1].targets": ("tg", "listZ"), "protocol == 'wait-for-all'": ("wfa", "bool")}),
]


def main_loops(repo: Path, out: Path):
    trees = {}
    defs = []
    for sp in LOOP_SPECS:
        p = repo / sp["file"]
        tree = trees.setdefault(str(p), ast.parse(p.read_text()))
        node = find(tree, sp["qual"])
        fn = LoopFn(sp, node, {}, {})
        try:
            defs.append(fn.definition())
        except Unsupported as e:
            raise ValueError(f"translator cannot express {sp['qual']} ({sp['file']}): {e}") from e
    (out / "PureLoops.v").write_text(
        "(** GENERATED by translate/tr_pure.py from the scheduler's backwards scans - do not edit.\n"
        "    Time slots and channel schedules are the records of Model/Sched.v; a channel's slots are\n"
        "    stored latest-first there, which is the order of `slots[::-1]` in the source. *)\n"
        "From Coq Require Import ZArith Bool List.\nFrom PV Require Import Model.Base Model.Sched.\nOpen Scope Z_scope.\n\n" + "\n".join(defs)
    )


if __name__ == "__main__":
    import sys

    main(Path(sys.argv[1] if len(sys.argv) > 1 else "/repo"), Path(sys.argv[2] if len(sys.argv) > 2 else "/verif/coq/Gen"))
