"""Regenerates Gen/Pure.v: a Python -> Gallina translation of the small pure
functions of the scheduler (durations, rise / phase-jump / EOM buffer times,
the device's duration check, the EOM phase drift).  `Proofs/PureEq.v` proves
each generated function equal to the hand-written one the sequence model and
all its theorems use, so an edit of the arithmetic, of a comparison or of the
order of the checks in the source breaks a proof obligation.

Supported fragment (anything else raises: fail-closed):
  statements   docstring, assert (kept as a comment: precondition), x = e,
               x += e, if / elif / else, return e, raise T(...), warnings.warn
               (dropped: no effect on the value), `with warnings.catch_warnings():`
               (body kept), `try: x = int(y) except (...): raise ...` with y an
               integer parameter (the handler is unreachable for integers)
  expressions  integer / float literals, module-level float constants, parameters,
               `self.<attr>` chains listed in the function's table, cast(T, e),
               + - * % // on integers, + - * / on floats (an integer operand of a
               float operation is converted exactly like Python does), comparisons,
               `is None` / `is not None`, and / or / not, `a or b` on an optional
               integer, `int(e)`, `max`, `min`, `a if c else b`, calls of other
               translated functions
Python's int is unbounded like Z; `%` and `//` floor like Z.modulo / Z.div.
"""
import ast
from pathlib import Path

ERR = {"ValueError": "EValue", "TypeError": "EType", "RuntimeError": "ERuntime"}


class Unsupported(Exception):
    pass


def fhex(x: float) -> str:
    return f"({float(x).hex()})%float"


class Fn:
    def __init__(self, spec, node, consts, table):
        self.spec = spec
        self.node = node
        self.consts = consts
        self.table = table  # other translated functions: python call text -> (coq name, arg attr list)
        self.notes = []
        self.fresh = 0

    # ---- expressions -------------------------------------------------------------------------
    def chain(self, e):
        """dotted text of a Name/Attribute chain, through cast(T, x)"""
        if isinstance(e, ast.Call) and isinstance(e.func, ast.Name) and e.func.id == "cast" and len(e.args) == 2:
            return self.chain(e.args[1])
        if isinstance(e, ast.Name):
            return e.id
        if isinstance(e, ast.Attribute):
            b = self.chain(e.value)
            return None if b is None else b + "." + e.attr
        return None

    def expr(self, e, env):
        c = self.chain(e)
        if c is not None:  # a name, an attribute chain, possibly through cast(T, x)
            if c in env:
                return env[c]
            if c in self.consts:
                return fhex(self.consts[c]), "float"
            raise Unsupported(f"unknown name {c}")
        if isinstance(e, ast.Constant):
            if isinstance(e.value, bool):
                return ("true" if e.value else "false"), "bool"
            if isinstance(e.value, int):
                return f"({e.value})%Z", "Z"
            if isinstance(e.value, float):
                return fhex(e.value), "float"
            if isinstance(e.value, str):
                return '""', "str"
            raise Unsupported(f"constant {e.value!r}")
        if isinstance(e, ast.JoinedStr):
            return '""', "str"
        if isinstance(e, ast.BinOp):
            if isinstance(e.op, ast.Add) and (isinstance(e.left, (ast.JoinedStr,)) or isinstance(e.right, ast.JoinedStr)):
                return '""', "str"
            a, ta = self.expr(e.left, env)
            b, tb = self.expr(e.right, env)
            if ta == "str" and tb == "str":
                return '""', "str"
            if ta == "Z" and tb == "Z":
                op = {ast.Add: "+", ast.Sub: "-", ast.Mult: "*", ast.Mod: "mod", ast.FloorDiv: "/"}.get(type(e.op))
                if op is None:
                    raise Unsupported(f"integer operator {type(e.op).__name__}")
                return f"({a} {op} {b})", "Z"
            if {ta, tb} <= {"Z", "float"}:
                op = {ast.Add: "+", ast.Sub: "-", ast.Mult: "*", ast.Div: "/"}.get(type(e.op))
                if op is None:
                    raise Unsupported(f"float operator {type(e.op).__name__}")
                fa = a if ta == "float" else f"(f_of_Z {a})"
                fb = b if tb == "float" else f"(f_of_Z {b})"
                return f"({fa} {op} {fb})%float", "float"
            raise Unsupported(f"operands of types {ta}, {tb}")
        if isinstance(e, ast.UnaryOp) and isinstance(e.op, ast.Not):
            return f"(negb {self.truth(e.operand, env)})", "bool"
        if isinstance(e, ast.UnaryOp) and isinstance(e.op, ast.USub):
            a, ta = self.expr(e.operand, env)
            if ta == "Z":
                return f"(- {a})", "Z"
            raise Unsupported("unary minus on a non-integer")
        if isinstance(e, ast.Compare):
            if len(e.ops) != 1:
                raise Unsupported("chained comparison")
            op, r = e.ops[0], e.comparators[0]
            if isinstance(op, (ast.Is, ast.IsNot)):
                if not (isinstance(r, ast.Constant) and r.value is None):
                    raise Unsupported("`is` with something other than None")
                a, ta = self.expr(e.left, env)
                if not ta.startswith("opt"):
                    raise Unsupported(f"`is None` on a non-optional ({ta})")
                none = f"(match {a} with None => true | Some _ => false end)"
                return (none if isinstance(op, ast.Is) else f"(negb {none})"), "bool"
            a, ta = self.expr(e.left, env)
            b, tb = self.expr(r, env)
            if ta == "Z" and tb == "Z":
                sym = {ast.Lt: "<?", ast.LtE: "<=?", ast.Gt: ">?", ast.GtE: ">=?", ast.Eq: "=?"}.get(type(op))
                if sym:
                    return f"({a} {sym} {b})", "bool"
                if isinstance(op, ast.NotEq):
                    return f"(negb ({a} =? {b}))", "bool"
            raise Unsupported(f"comparison {type(op).__name__} on {ta}, {tb}")
        if isinstance(e, ast.BoolOp):
            if isinstance(e.op, ast.Or) and len(e.values) == 2:
                a, ta = self.expr(e.values[0], env)
                if ta == "optZ":
                    b, tb = self.expr(e.values[1], env)
                    if tb != "Z":
                        raise Unsupported("`x or y` with y not an integer")
                    v = self.var("v")
                    return f"(match {a} with Some {v} => if negb ({v} =? 0) then {v} else {b} | None => {b} end)", "Z"
            parts = []
            cur = dict(env)
            closers = 0
            out = ""
            # `X is not None and rest`: rest sees X as its value
            for i, v in enumerate(e.values):
                last = i == len(e.values) - 1
                if (
                    isinstance(e.op, ast.And)
                    and not last
                    and isinstance(v, ast.Compare)
                    and len(v.ops) == 1
                    and isinstance(v.ops[0], ast.IsNot)
                    and isinstance(v.comparators[0], ast.Constant)
                    and v.comparators[0].value is None
                ):
                    c = self.chain(v.left)
                    a, ta = self.expr(v.left, cur)
                    if not ta.startswith("opt"):
                        raise Unsupported("`is not None` on a non-optional")
                    x = self.var(c.split(".")[-1])
                    out += f"(match {a} with None => false | Some {x} => "
                    closers += 1
                    cur[c] = (x, ta[3:])
                    continue
                parts.append(self.truth(v, cur))
            sym = " && " if isinstance(e.op, ast.And) else " || "
            return out + "(" + sym.join(parts) + ")" + " end)" * closers, "bool"
        if isinstance(e, ast.IfExp):
            t = e.test
            # `a if X is None else b` / `a if X is not None else b`: the branch where X is set sees its value
            if isinstance(t, ast.Compare) and len(t.ops) == 1 and isinstance(t.ops[0], (ast.Is, ast.IsNot)) and isinstance(t.comparators[0], ast.Constant) and t.comparators[0].value is None:
                c = self.chain(t.left)
                a, ta = self.expr(t.left, env)
                if not ta.startswith("opt"):
                    raise Unsupported("`is None` on a non-optional")
                x = self.var(c.split(".")[-1])
                env2 = dict(env)
                env2[c] = (x, ta[3:])
                none_e, some_e = (e.body, e.orelse) if isinstance(t.ops[0], ast.Is) else (e.orelse, e.body)
                n, tn = self.expr(none_e, env)
                s, ts = self.expr(some_e, env2)
                if tn != ts:
                    raise Unsupported("conditional expression with branches of different types")
                return f"(match {a} with None => {n} | Some {x} => {s} end)", tn
            c = self.truth(t, env)
            a, ta = self.expr(e.body, env)
            b, tb = self.expr(e.orelse, env)
            if ta != tb:
                raise Unsupported("conditional expression with branches of different types")
            return f"(if {c} then {a} else {b})", ta
        if isinstance(e, ast.Call):
            fn = self.chain(e.func)
            if fn == "int" and len(e.args) == 1 and not e.keywords:
                a, ta = self.expr(e.args[0], env)
                if ta == "Z":
                    return a, "Z"
                if ta == "float":
                    return f"(gen_py_int {a})", "Z"
                raise Unsupported(f"int() of {ta}")
            if fn in ("max", "min") and len(e.args) == 2 and not e.keywords:
                a, ta = self.expr(e.args[0], env)
                b, tb = self.expr(e.args[1], env)
                if ta == tb == "Z":
                    return f"(Z.{fn} {a} {b})", "Z"
                raise Unsupported(f"{fn} on {ta}, {tb}")
            if fn in self.table and not e.keywords:
                name, attrs, rty = self.table[fn]
                base = fn.rsplit(".", 1)[0]
                args = []
                for at in attrs:
                    a, _ = self.expr_of_chain(base + "." + at, env)
                    args.append(a)
                for x in e.args:
                    a, ta = self.expr(x, env)
                    args.append(a)
                return f"({name} {' '.join(args)})", rty
            raise Unsupported(f"call of {fn}")
        raise Unsupported(f"expression {type(e).__name__}")

    def expr_of_chain(self, c, env):
        if c in env:
            return env[c]
        raise Unsupported(f"unknown name {c}")

    def truth(self, e, env):
        a, ta = self.expr(e, env)
        if ta == "bool":
            return a
        if ta == "optfloat":
            v = self.var("b")
            return f"(match {a} with Some {v} => f_ne {v} zero | None => false end)"
        if ta == "optZ":
            v = self.var("b")
            return f"(match {a} with Some {v} => negb ({v} =? 0) | None => false end)"
        if ta == "Z":
            return f"(negb ({a} =? 0))"
        raise Unsupported(f"truth value of {ta}")

    def var(self, hint):
        self.fresh += 1
        return f"{hint}_{self.fresh}"

    # ---- statements --------------------------------------------------------------------------
    def wrap(self, v):
        return f"Ok {v}" if self.spec["ret"].startswith("res ") else v

    def block(self, stmts, env, rest=None):
        """value of running `stmts` and then `rest` (a thunk giving the value of what follows)"""
        if not stmts:
            if rest is not None:
                return rest(env)
            if self.spec["ret"] == "res unit":
                return "Ok tt"
            raise Unsupported("function may end without returning a value")
        s, tail = stmts[0], stmts[1:]
        nxt = lambda env2: self.block(tail, env2, rest)  # noqa: E731
        if isinstance(s, ast.Expr) and isinstance(s.value, ast.Constant) and isinstance(s.value.value, str):
            return nxt(env)
        if isinstance(s, ast.Expr) and isinstance(s.value, ast.Call) and self.chain(s.value.func) in ("warnings.warn", "warnings.simplefilter"):
            return nxt(env)
        if isinstance(s, ast.Assert):
            self.notes.append("precondition (assert): " + ast.unparse(s.test))
            return nxt(env)
        if isinstance(s, ast.Return):
            if s.value is None:
                return self.wrap("tt")
            a, ta = self.expr(s.value, env)
            want = self.spec["ret"][4:] if self.spec["ret"].startswith("res ") else self.spec["ret"]
            if ta == "res " + want and self.spec["ret"].startswith("res "):
                return a
            if ta != want:
                raise Unsupported(f"return of {ta}, expected {want}")
            return self.wrap(a)
        if isinstance(s, ast.Raise):
            if not self.spec["ret"].startswith("res "):
                raise Unsupported("raise in a function declared total")
            t = s.exc.func.id if isinstance(s.exc, ast.Call) and isinstance(s.exc.func, ast.Name) else (s.exc.id if isinstance(s.exc, ast.Name) else None)
            if t not in ERR:
                raise Unsupported(f"raise of {t}")
            return f"Err {ERR[t]}"
        if isinstance(s, ast.Assign) and len(s.targets) == 1 and isinstance(s.targets[0], ast.Name):
            a, ta = self.expr(s.value, env)
            if ta == "str":
                return nxt(env)  # messages do not influence the value
            x = s.targets[0].id
            env2 = dict(env)
            env2[x] = (x, ta)
            return f"let {x} := {a} in\n  {nxt(env2)}"
        if isinstance(s, ast.AugAssign) and isinstance(s.target, ast.Name) and isinstance(s.op, (ast.Add, ast.Sub)):
            x = s.target.id
            if x not in env or env[x][1] != "Z":
                raise Unsupported("augmented assignment to a non-integer local")
            a, ta = self.expr(s.value, env)
            if ta != "Z":
                raise Unsupported("augmented assignment of a non-integer")
            op = "+" if isinstance(s.op, ast.Add) else "-"
            return f"let {x} := ({env[x][0]} {op} {a}) in\n  {nxt(env)}"
        if isinstance(s, ast.If):
            c = self.truth(s.test, env)
            a = self.block(s.body, env, nxt)
            b = self.block(s.orelse, env, nxt)
            return f"if {c}\n  then ({a})\n  else ({b})"
        if isinstance(s, ast.With):
            if len(s.items) != 1 or self.chain(s.items[0].context_expr.func if isinstance(s.items[0].context_expr, ast.Call) else s.items[0].context_expr) != "warnings.catch_warnings":
                raise Unsupported("with-statement other than warnings.catch_warnings()")
            return self.block(s.body, env, nxt)
        if isinstance(s, ast.Try):
            # try: x = int(y)  except (...): raise ...     with y an integer: the handler is unreachable
            ok = (
                len(s.body) == 1
                and isinstance(s.body[0], ast.Assign)
                and isinstance(s.body[0].value, ast.Call)
                and self.chain(s.body[0].value.func) == "int"
                and not s.orelse
                and not s.finalbody
                and all(len(h.body) == 1 and isinstance(h.body[0], ast.Raise) for h in s.handlers)
            )
            if not ok:
                raise Unsupported("try-statement other than the int() cast guard")
            a, ta = self.expr(s.body[0].value.args[0], env)
            if ta != "Z":
                raise Unsupported("int() cast guard on a non-integer")
            self.notes.append("the TypeError guard around int(duration) is unreachable for integer durations (the model's domain)")
            return self.block(s.body, env, nxt)
        raise Unsupported(f"statement {type(s).__name__}")

    def definition(self):
        sp = self.spec
        env = {}
        for py, (cq, ty) in sp["params"].items():
            env[py] = (cq, ty)
        seen = []
        for py, (cq, ty) in sp["params"].items():
            if cq not in [c for c, _ in seen]:
                seen.append((cq, ty))
        tyc = {"Z": "Z", "optZ": "option Z", "float": "float", "optfloat": "option float", "bool": "bool"}
        body = self.block(self.node.body, env)
        ps = " ".join(f"({c} : {tyc[t]})" for c, t in seen)
        notes = "".join(f"(* {n} *)\n" for n in dict.fromkeys(self.notes))
        return f"(** {sp['file']} : {sp['qual']} *)\n{notes}Definition {sp['coq']} {ps} : {sp['ret']} :=\n  {body}.\n"


def find(tree, qual):
    cls, fn = qual.split(".")
    for n in tree.body:
        if isinstance(n, ast.ClassDef) and n.name == cls:
            for m in n.body:
                if isinstance(m, ast.FunctionDef) and m.name == fn:
                    return m
    raise Unsupported(f"{qual} not found")


SPECS = [
    dict(file="pulser-core/pulser/channels/base_channel.py", qual="Channel.validate_duration", coq="gen_validate_duration", ret="res Z",
         params={"self.min_duration": ("min_duration", "Z"), "self.max_duration": ("max_duration", "optZ"),
                 "self.clock_period": ("clock_period", "Z"), "duration": ("duration", "Z")}),
    dict(file="pulser-core/pulser/sequence/_schedule.py", qual="_ChannelSchedule.adjust_duration", coq="gen_adjust_duration", ret="res Z",
         params={"self.channel_obj.min_duration": ("min_duration", "Z"), "self.channel_obj.max_duration": ("max_duration", "optZ"),
                 "self.channel_obj.clock_period": ("clock_period", "Z"), "duration": ("duration", "Z")},
         calls={"self.channel_obj.validate_duration": ("gen_validate_duration", ["min_duration", "max_duration", "clock_period"], "res Z")}),
    dict(file="pulser-core/pulser/channels/base_channel.py", qual="Channel.rise_time", coq="gen_rise_time", ret="Z",
         params={"self.mod_bandwidth": ("mod_bandwidth", "optfloat")}, refine_truthy=["self.mod_bandwidth"]),
    dict(file="pulser-core/pulser/channels/eom.py", qual="BaseEOM.rise_time", coq="gen_eom_rise_time", ret="Z",
         params={"self.mod_bandwidth": ("mod_bandwidth", "float")}),
    dict(file="pulser-core/pulser/channels/base_channel.py", qual="Channel.phase_jump_time", coq="gen_phase_jump_time", ret="Z",
         params={"self.rise_time": ("rise_time", "Z"), "self.custom_phase_jump_time": ("custom_phase_jump_time", "optZ")}),
    dict(file="pulser-core/pulser/channels/base_channel.py", qual="Channel._eom_buffer_time", coq="gen_eom_buffer_time", ret="Z",
         params={"self.rise_time": ("rise_time", "Z"), "self.eom_config.custom_buffer_time": ("custom_buffer_time", "optZ")}),
    dict(file="pulser-core/pulser/sequence/_schedule.py", qual="_Schedule._check_duration", coq="gen_check_duration", ret="res unit",
         params={"self.max_duration": ("max_duration", "optZ"), "t": ("t", "Z"), "block_over_max_duration": ("block_over_max_duration", "bool")}),
    dict(file="pulser-core/pulser/sequence/_schedule.py", qual="_PhaseDriftParams.calc_phase_drift", coq="gen_calc_phase_drift", ret="float",
         params={"self.drift_rate": ("drift_rate", "float"), "self.ti": ("ti", "Z"), "tf": ("tf", "Z")}),
]


def module_consts(tree):
    out = {}
    for n in tree.body:
        if isinstance(n, ast.Assign) and len(n.targets) == 1 and isinstance(n.targets[0], ast.Name) and isinstance(n.value, ast.Constant) and isinstance(n.value.value, float):
            out[n.targets[0].id] = n.value.value
    return out


def imported_consts(repo, tree, trees):
    """float constants imported by name from other pulser modules (e.g. MODBW_TO_TR)"""
    out = {}
    for n in tree.body:
        if isinstance(n, ast.ImportFrom) and n.module and n.module.startswith("pulser"):
            p = repo / "pulser-core" / (n.module.replace(".", "/") + ".py")
            if p.exists():
                t = trees.setdefault(str(p), ast.parse(p.read_text()))
                mc = module_consts(t)
                for a in n.names:
                    if a.name in mc:
                        out[a.asname or a.name] = mc[a.name]
    return out


def main(repo: Path, out: Path):
    trees = {}
    defs = []
    for sp in SPECS:
        p = repo / sp["file"]
        tree = trees.setdefault(str(p), ast.parse(p.read_text()))
        consts = dict(imported_consts(repo, tree, trees))
        consts.update(module_consts(tree))
        node = find(tree, sp["qual"])
        fn = Fn(sp, node, consts, sp.get("calls", {}))
        if sp.get("refine_truthy"):
            # `if self.x:` on an optional float: inside the branch x is its value
            fn = TruthyFn(sp, node, consts, sp.get("calls", {}))
        try:
            defs.append(fn.definition())
        except Unsupported as e:
            raise ValueError(f"translator cannot express {sp['qual']} ({sp['file']}): {e}") from e
    (out / "Pure.v").write_text(
        "(** GENERATED by translate/tr_pure.py from the scheduler's pure functions - do not edit. *)\n"
        "From Coq Require Import ZArith Bool.\nFrom Coq Require Import PrimFloat.\nFrom PV Require Import Model.Base.\nOpen Scope Z_scope.\n\n"
        "Definition gen_py_int (x : float) : Z := match f_trunc x with Some z => z | None => 0 end.\n\n" + "\n".join(defs)
    )


class TruthyFn(Fn):
    def block(self, stmts, env, rest=None):
        if stmts and isinstance(stmts[0], ast.If):
            s = stmts[0]
            c = self.chain(s.test)
            if c in self.spec.get("refine_truthy", []) and c in env and env[c][1] == "optfloat":
                a, _ = env[c]
                x = self.var(c.split(".")[-1])
                env2 = dict(env)
                env2[c] = (x, "float")
                tail = stmts[1:]
                nxt = lambda e2: Fn.block(self, tail, e2, rest)  # noqa: E731
                yes = self.block(s.body, env2, nxt)
                no = self.block(s.orelse, env, nxt)
                return f"match {a} with\n  | Some {x} => if f_ne {x} zero then ({yes}) else ({no})\n  | None => ({no})\n  end"
        return Fn.block(self, stmts, env, rest)


if __name__ == "__main__":
    import sys

    main(Path(sys.argv[1] if len(sys.argv) > 1 else "/repo"), Path(sys.argv[2] if len(sys.argv) > 2 else "/verif/coq/Gen"))
