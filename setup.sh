#!/bin/bash
# Offline build of the Coq development (regenerates Gen/ from the tree first).
# Succeeds iff the dependency closure of every claimed property's Props/Cxx.v built.
cd /verif
R="${VERIF_REPO:-/repo}"
export PYTHONPATH="$R/pulser-core:$R/pulser-simulation:/verif"
export PYTHONHASHSEED=0
/venv/bin/python - <<'PY'
import json, sys
from harness import common
ok, log = common.coq_build()
print(log[-3000:])
claimed = [c["property_id"] for c in json.load(open("/verif/MANIFEST.json"))["checks"]]
missing = [p for p in claimed if not common.coq_file_ok(f"Props/{p}.v")]
if missing:
    print("NOT BUILT:", missing)
sys.exit(1 if missing else 0)
PY
