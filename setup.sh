#!/bin/bash
# Offline build of the Coq development (regenerates Gen/ from the tree first).
cd /verif
R="${VERIF_REPO:-/repo}"
export PYTHONPATH="$R/pulser-core:$R/pulser-simulation:/verif"
export PYTHONHASHSEED=0
/venv/bin/python - <<'PY'
import sys
from harness import common
ok, log = common.coq_build()
print(log[-4000:])
sys.exit(0 if ok else 1)
PY
