#!/bin/bash
# Offline build of the Coq development (regenerates Gen/ from /repo first).
cd /verif
export PYTHONPATH=/repo/pulser-core:/repo/pulser-simulation:/verif
export PYTHONHASHSEED=0
/venv/bin/python - <<'PY'
import sys
from harness import common
ok, log = common.coq_build()
print(log[-4000:])
sys.exit(0 if ok else 1)
PY
