(** Canonical snapshots of the sequence model as [sv] values; the Python
    harness renders the implementation's state in exactly the same shape. *)
From Coq Require Import ZArith List Bool.
From Coq Require Import Uint63 FloatOps SpecFloat PrimFloat.
From PV Require Import Model.Base Model.Sched Model.Seq.
Import ListNotations.
Open Scope Z_scope.

Definition snap_pulse (p : pulse) : sv :=
  SL [SZ (p_dur p); SF (p_phase p); SF (p_post p); SB (p_dd p);
      SL (map SF (p_sum p))].

Definition snap_slot (s : slot) : sv :=
  match s_kind s with
  | KTarget => SL [SZ 0; SZ (s_ti s); SZ (s_tf s); SL (map SZ (s_tg s))]
  | KDelay => SL [SZ 1; SZ (s_ti s); SZ (s_tf s); SL (map SZ (s_tg s))]
  | KPulse p => SL [SZ 2; SZ (s_ti s); SZ (s_tf s); SL (map SZ (s_tg s)); snap_pulse p]
  end.

Definition snap_eom (b : eomblk) : sv :=
  SL [SF (eb_rabi b); SF (eb_don b); SF (eb_doff b); SZ (eb_ti b); sv_opt SZ (eb_tf b)].

Definition snap_chan_light (c : chan) : sv :=
  SL [SZ (ch_name c); SZ (ch_id c);
      SZ (Z.of_nat (length (ch_slots c)));
      SL (match ch_slots c with s :: _ => [snap_slot s] | [] => [] end);
      SZ (Z.of_nat (length (ch_eoms c)));
      SL (match ch_eoms c with b :: _ => [snap_eom b] | [] => [] end)].

Definition snap_chan_full (c : chan) : sv :=
  SL [SZ (ch_name c); SZ (ch_id c);
      SL (map snap_slot (rev (ch_slots c)));
      SL (map snap_eom (rev (ch_eoms c)))].

Definition snap_ref_light (x : Z * qref) : sv :=
  SL [SZ (fst x); SF (r_last_phase (snd x)); SZ (r_last_time (snd x));
      SZ (r_used (snd x)); SZ (Z.of_nat (length (r_times (snd x))))].

Definition snap_ref_full (x : Z * qref) : sv :=
  SL [SZ (fst x); SL (map SZ (rev (r_times (snd x))));
      SL (map SF (rev (r_phases (snd x)))); SZ (r_used (snd x))].

Definition snap_flags (s : seq) : sv :=
  SL [SB (q_inxy s); SB (q_inising s);
      SZ (match q_measured s with Some b => b | None => -1 end);
      SB (q_empty s); SZ (Z.of_nat (length (q_log s)))].

Definition snap_light (s : seq) : sv :=
  SL [SL (map snap_chan_light (q_sched s));
      SL (map (fun b => SL [SZ (fst b); SL (map snap_ref_light (snd b))]) (q_refs s));
      snap_flags s].

Definition snap_full (s : seq) : sv :=
  SL [SL (map snap_chan_full (q_sched s));
      SL (map (fun b => SL [SZ (fst b); SL (map snap_ref_full (snd b))]) (q_refs s));
      snap_flags s].

Definition snap_outcome (r : res sv) : sv :=
  match r with
  | Ok x => SL [SZ 0; x]
  | Err e => SL [SZ (err_code e)]
  end.

(** the whole trace of a case: per call (outcome, light snapshot), then the
    full final snapshot *)
Fixpoint trace_from (v : senv) (s : seq) (ops : list op) : list sv :=
  match ops with
  | [] => [snap_full s]
  | o :: r =>
      let '(s', out) := step v s o in
      SL [snap_outcome out; snap_light s'] :: trace_from v s' r
  end.

Definition trace (v : senv) (ops : list op) : sv := SL (trace_from v seq0 ops).

(** index of the first differing element of two traces (for diagnostics) *)
Fixpoint first_diff_from (i : Z) (a b : list sv) : Z :=
  match a, b with
  | x :: r, y :: t => if sv_eqb x y then first_diff_from (i + 1) r t else i
  | [], [] => -1
  | _, _ => i
  end.
Definition first_diff (a b : sv) : Z :=
  match a, b with
  | SL x, SL y => first_diff_from 0 x y
  | _, _ => if sv_eqb a b then -1 else 0
  end.
