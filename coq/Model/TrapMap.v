(** C19 - canonical trap numbering; registers, maps and layouts agree.

    Executable model of
      pulser/register/_coordinates.py   (CoordsCollection: rounding, lexsort, hash input)
      pulser/register/traps.py          (Traps.__init__, traps_dict, get_traps_from_coordinates)
      pulser/register/register_layout.py (define_register, define_detuning_map, make_mappable_register)
      pulser/register/base_register.py  (_validate_layout, define_detuning_map)
      pulser/register/mappable_reg.py   (MappableRegister.__init__, build_register)
      pulser/register/weight_maps.py    (WeightMap.__init__, sorted_weights, get_qubit_weight_map, hash input)

    The model is written once, in a Section over the scalar coordinate type
    [N] and the weight type [W]; it follows the statement order of the Python
    code (validation order decides which exception is seen).  It is
    instantiated with IEEE doubles (bit-exact; runs against the implementation
    in the correspondence check) at the end of this file and with integers on
    a decimal grid in Proofs/TrapMapProps.v (where the order laws hold and
    the theorems are closed).  No proofs here. *)
From Coq Require Import ZArith List Bool.
From Coq Require Import Uint63 FloatOps SpecFloat PrimFloat.
From PV Require Import Model.Base.
Import ListNotations.
Open Scope Z_scope.

(** * Generic list helpers (Python list / dict behaviour) *)

Fixpoint znth {A} (l : list A) (i : Z) {struct l} : option A :=
  match l with
  | [] => None
  | a :: r => if i =? 0 then Some a else if i <? 0 then None else znth r (i - 1)
  end.

Definition zlen {A} (l : list A) : Z := Z.of_nat (length l).

Fixpoint zmem (z : Z) (l : list Z) : bool :=
  match l with [] => false | a :: r => (a =? z) || zmem z r end.

(** [len(set(l)) != len(l)] for a list of ints / strings *)
Fixpoint zhas_dup (l : list Z) : bool :=
  match l with [] => false | a :: r => zmem a r || zhas_dup r end.

Definition zsubset (a b : list Z) : bool := forallb (fun x => zmem x b) a.

(** order-preserving removal of later duplicates: the key order of a Python
    dict comprehension whose keys repeat *)
Fixpoint zdedup_from (seen : list Z) (l : list Z) : list Z :=
  match l with
  | [] => []
  | a :: r => if zmem a seen then zdedup_from seen r else a :: zdedup_from (a :: seen) r
  end.
Definition zdedup (l : list Z) : list Z := zdedup_from [] l.

Fixpoint zassoc {A} (k : Z) (l : list (Z * A)) : option A :=
  match l with
  | [] => None
  | (k', v) :: r => if k' =? k then Some v else zassoc k r
  end.

Fixpoint zrange_from (i : Z) (n : nat) : list Z :=
  match n with O => [] | S m => i :: zrange_from (i + 1) m end.

Fixpoint all_some {A} (l : list (option A)) : option (list A) :=
  match l with
  | [] => Some []
  | None :: _ => None
  | Some a :: r => match all_some r with Some r' => Some (a :: r') | None => None end
  end.

Section TrapMap.
  Variable N : Type.                  (* a scalar coordinate (um) *)
  Variable nlt : N -> N -> bool.      (* [<]  (np.lexsort comparison) *)
  Variable neq : N -> N -> bool.      (* [==] (tuple / np.unique / ndarray comparison) *)
  Variable nrnd : N -> N.             (* [np.round(., COORD_PRECISION)] *)
  Variable nclose : N -> N -> bool.   (* [np.isclose(trap, pos, atol=10**-COORD_PRECISION)] *)
  Variable W : Type.                  (* a weight *)
  Variable w0 : W.                    (* 0.0 *)
  Variable wadd : W -> W -> W.
  Variable wok : W -> bool.           (* 0 <= w <= 1 *)

  Definition coord := list N.

  (** lexicographic [<]: ascending x, then y, then z.  np.lexsort with keys
      (z, y, x) is a stable sort under exactly this comparison: a later key
      decides only where no earlier key is [<] either way. *)
  Fixpoint clt (a b : coord) : bool :=
    match a, b with
    | x :: a', y :: b' =>
        if nlt x y then true else if nlt y x then false else clt a' b'
    | _, _ => false
    end.

  Fixpoint ceq (a b : coord) : bool :=
    match a, b with
    | [], [] => true
    | x :: a', y :: b' => neq x y && ceq a' b'
    | _, _ => false
    end.

  Fixpoint cclose (t p : coord) : bool :=
    match t, p with
    | [], [] => true
    | x :: t', y :: p' => nclose x y && cclose t' p'
    | _, _ => false
    end.

  Definition crnd (c : coord) : coord := map nrnd c.

  (** ** Stable sorting (np.lexsort).  [sort_c] sorts bare coordinates,
      [sort_p] sorts coordinates carrying a payload (the weight, or the
      original position); Proofs/TrapMapSort.v shows
      [map fst (sort_p l) = sort_c (map fst l)]. *)
  Fixpoint insert_c (x : coord) (l : list coord) : list coord :=
    match l with
    | [] => [x]
    | y :: r => if clt y x then y :: insert_c x r else x :: y :: r
    end.
  Definition sort_c (l : list coord) : list coord := fold_right insert_c [] l.

  Section Payload.
    Context {A : Type}.
    Fixpoint insert_p (x : coord * A) (l : list (coord * A)) : list (coord * A) :=
      match l with
      | [] => [x]
      | y :: r => if clt (fst y) (fst x) then y :: insert_p x r else x :: y :: r
      end.
    Definition sort_p (l : list (coord * A)) : list (coord * A) :=
      fold_right insert_p [] l.
  End Payload.

  (** ** Traps.__init__ *)

  (** shape of [np.asarray(coords, dtype=float)]: a 2-d array with 2 or 3
      columns, else ValueError (ragged input, empty input, wrong width) *)
  Definition shape_dim (l : list coord) : option Z :=
    match l with
    | [] => None
    | c :: r =>
        let d := zlen c in
        if forallb (fun c' => zlen c' =? d) r && ((d =? 2) || (d =? 3))
        then Some d else None
    end.

  (** [len(np.unique(coords_arr, axis=0)) != shape[0]]; NB on the coordinates
      as given, i.e. before rounding *)
  Fixpoint cmem (c : coord) (l : list coord) : bool :=
    match l with [] => false | a :: r => ceq a c || cmem c r end.
  Fixpoint chas_dup (l : list coord) : bool :=
    match l with [] => false | a :: r => cmem a r || chas_dup r end.

  Record layout := mkLayout { ldim : Z; lsorted : list coord }.

  Definition sorted_coords (l : list coord) : list coord := sort_c (map crnd l).

  (** [_calc_sorting_order]: the permutation (original positions, in sorted
      order) *)
  Definition sorting_order (l : list coord) : list Z :=
    map snd (sort_p (combine (map crnd l) (zrange_from 0 (length l)))).

  Definition traps_new (l : list coord) : res layout :=
    match shape_dim l with
    | None => Err EValue
    | Some d =>
        if chas_dup l then Err EValue
        else Ok (mkLayout d (sorted_coords l))
    end.

  Definition n_traps (L : layout) : Z := zlen (lsorted L).

  (** what is fed to sha256: [bytes(dimensionality)] then the sorted rounded
      coordinates row by row ([tobytes]) *)
  Definition layout_hash_input (L : layout) : Z * list N :=
    (ldim L, concat (lsorted L)).

  (** ** Traps.get_traps_from_coordinates.  [_coords_to_traps] is a dict
      built in trap order from [tuple(coord)] keys: a later trap with an equal
      key replaces an earlier one. *)
  Fixpoint find_last_from (i : Z) (key : coord) (l : list coord) (acc : option Z) : option Z :=
    match l with
    | [] => acc
    | c :: r => find_last_from (i + 1) key r (if ceq c key then Some i else acc)
    end.
  Definition trap_of_key (L : layout) (key : coord) : option Z :=
    find_last_from 0 key (lsorted L) None.

  Definition same_len (l : list coord) : bool :=
    match l with
    | [] => true
    | c :: r => forallb (fun c' => zlen c' =? zlen c) r
    end.

  Definition lookup (L : layout) (cs : list coord) : res (list Z) :=
    if negb (same_len cs) then Err EValue      (* np.array(ragged) *)
    else match all_some (map (fun c => trap_of_key L (crnd c)) cs) with
         | Some ids => Ok ids
         | None => Err EValue
         end.

  (** ** RegisterLayout.define_register (+ Register.__init__ and
      BaseRegister._validate_layout).  Qubit ids are integer codes; the
      default ids "q0", "q1", ... are the codes 0, 1, ... *)
  Record register := mkReg {
    rdim : Z;
    rqubits : list (Z * coord);    (* declared order *)
    rtraps : list Z                (* _layout_info.trap_ids *)
  }.

  Definition in_range (L : layout) (i : Z) : bool := (0 <=? i) && (i <? n_traps L).

  Definition cne_any (a b : coord) : bool := negb (ceq a b).

  Definition define_register (L : layout) (ids qids : list Z) : res register :=
    if zhas_dup ids then Err EValue
    else if negb (forallb (in_range L) ids) then Err EValue
    else if negb (match qids with [] => true | _ => negb (zhas_dup qids) end) then Err EValue
    else if negb (match qids with [] => true | _ => zlen qids =? zlen ids end) then Err EValue
    else
      let names := match qids with [] => zrange_from 0 (length ids) | _ => qids end in
      match all_some (map (znth (lsorted L)) ids) with
      | None => Err EIndex
      | Some cs =>
          let qubits := combine names cs in
          match qubits with
          | [] => Err EValue                    (* empty qubit dictionary *)
          | _ =>
              (* _validate_layout *)
              if zhas_dup ids then Err EValue
              else if negb (zlen ids =? zlen qubits) then Err EValue
              else if existsb (fun qi => match znth (lsorted L) (snd qi) with
                                         | Some t => cne_any (snd (fst qi)) t
                                         | None => true end)
                              (combine qubits ids)
              then Err EValue
              else if forallb (fun q => zlen (snd q) =? ldim L) qubits
              then Ok (mkReg (ldim L) qubits ids)
              else Err EValue
          end
      end.

  (** ** BaseRegister.__init__(qubits, layout=L, trap_ids=ids) for Register /
      Register3D: [_validate_layout].  The register keeps the coordinates as
      given (not rounded) and compares them with [!=] against the layout's
      rounded traps; [trap_coords[trap_id]] is numpy indexing (a negative id
      counts from the end, an id past the end raises IndexError). *)
  Definition pyindex {A} (l : list A) (i : Z) : option A :=
    if i <? 0 then znth l (i + zlen l) else znth l i.

  Fixpoint validate_pairs (S : list coord) (l : list (coord * Z)) : option err :=
    match l with
    | [] => None
    | (c, i) :: r =>
        match pyindex S i with
        | None => Some EIndex
        | Some t => if cne_any c t then Some EValue else validate_pairs S r
        end
    end.

  Definition register_on_layout (L : layout) (qubits : list (Z * coord)) (ids : list Z) : res register :=
    match qubits with
    | [] => Err EValue
    | q0 :: _ =>
        let cs := map snd qubits in
        if negb (same_len cs) then Err EValue            (* np.vstack of ragged rows *)
        else if negb (ldim L =? zlen (snd q0)) then Err EValue
        else if zhas_dup ids then Err EValue
        else if negb (zlen ids =? zlen qubits) then Err EValue
        else match validate_pairs (lsorted L) (combine cs ids) with
             | Some e => Err e
             | None => Ok (mkReg (ldim L) qubits ids)
             end
    end.

  (** ** MappableRegister *)
  Definition mappable_new (L : layout) (decl : list Z) : res (list Z) :=
    if n_traps L <? zlen decl then Err EValue else Ok decl.

  (** [qubits] is a dict (keys unique) given in insertion order *)
  Definition build_register (L : layout) (decl : list Z) (chosen : list (Z * Z)) : res register :=
    let keys := map fst chosen in
    if negb (zsubset keys decl) then Err EValue
    else
      let first := firstn (length keys) decl in
      if negb (zsubset keys first && zsubset first keys) then Err EValue
      else
        let ordered := filter (fun q => zmem q keys) (zdedup decl) in
        match all_some (map (fun q => zassoc q chosen) ordered) with
        | None => Err EKey
        | Some traps => define_register L traps ordered
        end.

  (** ** WeightMap / DetuningMap *)
  Record wmap := mkWmap { wdim : Z; wsorted : list (coord * W) }.

  Definition wmap_new (cs : list coord) (ws : list W) : res wmap :=
    match shape_dim cs with
    | None => Err EValue
    | Some d =>
        if chas_dup cs then Err EValue
        else if negb (zlen cs =? zlen ws) then Err EValue
        else if negb (forallb wok ws) then Err EValue
        else Ok (mkWmap d (sort_p (combine (map crnd cs) ws)))
    end.

  Definition wmap_hash_input (m : wmap) : Z * list N * list W :=
    (wdim m, concat (map fst (wsorted m)), map snd (wsorted m)).

  (** [np.sum] of the selected weights (a (k,1) array with k < 8: a plain
      left-to-right loop started from 0.0; a lone [-0.0] comes back as [0.0]) *)
  Definition wsum (l : list W) : W := fold_left wadd l w0.

  Definition qubit_weight (m : wmap) (pos : coord) : W :=
    wsum (map snd (filter (fun tw => cclose (fst tw) pos) (wsorted m))).

  (** RegisterLayout.define_detuning_map: [itemgetter( *keys )(traps_dict)]
      raises TypeError without keys and returns a bare coordinate (not a
      tuple of coordinates) for a single key, which Traps.__init__ rejects *)
  Definition layout_detuning_map (L : layout) (kws : list (Z * W)) : res wmap :=
    let keys := map fst kws in
    if negb (forallb (in_range L) keys) then Err EValue
    else match keys with
         | [] => Err EType
         | [_] => Err EValue
         | _ =>
             match all_some (map (znth (lsorted L)) keys) with
             | None => Err EKey
             | Some cs => wmap_new cs (map snd kws)
             end
         end.

  (** BaseRegister.define_detuning_map *)
  Definition register_detuning_map (R : register) (kws : list (Z * W)) : res wmap :=
    let keys := map fst kws in
    if negb (zsubset keys (map fst (rqubits R))) then Err EValue
    else match keys with
         | [] => Err EValue                     (* np.vstack([]) *)
         | _ =>
             match all_some (map (fun q => zassoc q (rqubits R)) keys) with
             | None => Err EKey
             | Some cs => wmap_new cs (map snd kws)
             end
         end.
End TrapMap.

Arguments mkLayout {N}.
Arguments ldim {N}.
Arguments lsorted {N}.
Arguments mkReg {N}.
Arguments rdim {N}.
Arguments rqubits {N}.
Arguments rtraps {N}.
Arguments mkWmap {N W}.
Arguments wdim {N W}.
Arguments wsorted {N W}.

(** * The IEEE-double instance (bit-exact; this is what runs against /repo) *)

(** [10 ** (-COORD_PRECISION)] and numpy's default [rtol] *)
Definition f_atol : float := 0x1.0c6f7a0b5ed8dp-20%float.
Definition f_rtol : float := 0x1.4f8b588e368f1p-17%float.

Definition f_finite (x : float) : bool :=
  match Prim2SF x with S754_nan | S754_infinity _ => false | _ => true end.

(** numpy.isclose(a, b, rtol, atol):
    [(abs(a - b) <= atol + rtol * abs(b)) & isfinite(b) | (a == b)] *)
Definition f_isclose (a b : float) : bool :=
  (f_le (abs (a - b)) (f_atol + f_rtol * abs b)%float && f_finite b) || f_eq a b.

Definition f_wok (w : float) : bool := f_ge w zero && f_le w one.

Definition Fclt := clt float f_lt.
Definition Fceq := ceq float f_eq.
Definition Fcrnd := crnd float f_round6.
Definition Fsorted_coords := sorted_coords float f_lt f_round6.
Definition Fsorting_order := sorting_order float f_lt f_round6.
Definition Ftraps_new := traps_new float f_lt f_eq f_round6.
Definition Flookup := lookup float f_eq f_round6.
Definition Fdefine_register := define_register float f_eq.
Definition Fregister_on_layout := register_on_layout float f_eq.
Definition Fmappable_new := mappable_new float.
Definition Fbuild_register := build_register float f_eq.
Definition Fwmap_new := wmap_new float f_lt f_eq f_round6 float f_wok.
Definition Fqubit_weight := qubit_weight float f_isclose float zero PrimFloat.add.
Definition Flayout_detuning_map := layout_detuning_map float f_lt f_eq f_round6 float f_wok.
Definition Fregister_detuning_map := register_detuning_map float f_lt f_eq f_round6 float f_wok.
Definition Flayout_hash_input := layout_hash_input float.
Definition Fwmap_hash_input := @wmap_hash_input float float.

(** * Encoding of results as [sv], and the case runner *)

Definition sv_coord (c : list float) : sv := SL (map SF c).
Definition sv_coords (l : list (list float)) : sv := SL (map sv_coord l).
Definition sv_zs (l : list Z) : sv := SL (map SZ l).

Definition sv_res {A} (f : A -> sv) (r : res A) : sv :=
  match r with
  | Ok a => SL [SZ 0; f a]
  | Err e => SL [SZ 1; SZ (err_code e)]
  end.

Definition sv_layout (L : layout float) : sv :=
  SL [SZ (ldim L); sv_coords (lsorted L)].

Definition sv_register (R : register float) : sv :=
  SL [SZ (rdim R);
      SL (map (fun q => SL [SZ (fst q); sv_coord (snd q)]) (rqubits R));
      sv_zs (rtraps R)].

Definition sv_wmap (m : wmap float float) : sv :=
  SL [SZ (wdim m); sv_coords (map fst (wsorted m)); SL (map SF (map snd (wsorted m)))].

Definition fl_biteq (a b : list float) : bool :=
  (Nat.eqb (length a) (length b)) && forallb (fun p => f_biteq (fst p) (snd p)) (combine a b).

(** [==] of two layouts: equal sha256 inputs (bytes) *)
Definition Flayout_eqb (a b : layout float) : bool :=
  (ldim a =? ldim b) && fl_biteq (concat (lsorted a)) (concat (lsorted b)).
Definition Fwmap_eqb (a b : wmap float float) : bool :=
  (wdim a =? wdim b)
  && fl_biteq (concat (map fst (wsorted a))) (concat (map fst (wsorted b)))
  && fl_biteq (map snd (wsorted a)) (map snd (wsorted b)).

Record tcase := mkCase {
  t_coords : list (list float);     (* layout A, as given *)
  t_coords2 : list (list float);    (* layout B (a permutation / perturbation of A) *)
  t_ids : list Z;                   (* define_register( *ids, qubit_ids=qids ) on A *)
  t_qids : list Z;
  t_lookup : list (list float);     (* A.get_traps_from_coordinates( *t_lookup ) *)
  t_decl : list Z;                  (* MappableRegister(A, *decl) *)
  t_chosen : list (Z * Z);          (* .build_register({qid: trap}) *)
  t_wcoords : list (list float);    (* DetuningMap(wcoords, weights) *)
  t_weights : list float;
  t_wcoords2 : list (list float);   (* the same map given in another order *)
  t_weights2 : list float;
  t_wpos : list (list float);       (* qubit positions for get_qubit_weight_map *)
  t_ldm : list (Z * float);         (* A.define_detuning_map({trap: w}) *)
  t_rdm : list (Z * float);         (* reg.define_detuning_map({qid: w}) *)
  t_direct : list (Z * list float); (* Register({qid: coord}, layout=A, trap_ids=dids) *)
  t_dids : list Z
}.

Definition opt_reg_coords (r : res (register float)) : list (list float) :=
  match r with Ok R => map snd (rqubits R) | Err _ => [] end.

Definition run_case (c : tcase) : sv :=
  let A := Ftraps_new (t_coords c) in
  let B := Ftraps_new (t_coords2 c) in
  let reg := rbind A (fun L => Fdefine_register L (t_ids c) (t_qids c)) in
  let mreg := rbind A (fun L =>
                rbind (Fmappable_new L (t_decl c)) (fun d => Fbuild_register L d (t_chosen c))) in
  let wm := Fwmap_new (t_wcoords c) (t_weights c) in
  let wm2 := Fwmap_new (t_wcoords2 c) (t_weights2 c) in
  let ldm := rbind A (fun L => Flayout_detuning_map L (t_ldm c)) in
  let rdm := rbind reg (fun R => Fregister_detuning_map R (t_rdm c)) in
  let weights_at (m : res (wmap float float)) (ps : list (list float)) : sv :=
    sv_res (fun m => SL (map (fun p => SF (Fqubit_weight m p)) ps)) m in
  SL [ sv_res sv_layout A;
       SL (map SZ (match A with Ok _ => Fsorting_order (t_coords c) | Err _ => [] end));
       sv_res sv_layout B;
       SB (match A, B with Ok a, Ok b => Flayout_eqb a b | _, _ => false end);
       sv_res sv_register reg;
       sv_res sv_zs (rbind reg (fun R => rbind A (fun L => Flookup L (map snd (rqubits R)))));
       sv_res sv_zs (rbind A (fun L => Flookup L (t_lookup c)));
       sv_res sv_register mreg;
       sv_res sv_wmap wm;
       sv_res sv_wmap wm2;
       SB (match wm, wm2 with Ok a, Ok b => Fwmap_eqb a b | _, _ => false end);
       weights_at wm (t_wpos c);
       weights_at wm2 (t_wpos c);
       sv_res sv_wmap ldm;
       weights_at ldm (opt_reg_coords reg);
       sv_res sv_wmap rdm;
       weights_at rdm (opt_reg_coords reg);
       (* static_hash() = sha256 of [layout_hash_input] / [wmap_hash_input],
          evaluated by the harness on the implementation's own values *)
       SB true;
       SB true;
       sv_res sv_register (rbind A (fun L => Fregister_on_layout L (t_direct c) (t_dids c))) ].

(** position of the first differing component (for debugging a mismatch) *)
Definition first_diff (a b : sv) : Z :=
  match a, b with
  | SL x, SL y =>
      (fix go (i : Z) (l1 l2 : list sv) : Z :=
         match l1, l2 with
         | [], [] => -1
         | a1 :: r1, a2 :: r2 => if sv_eqb a1 a2 then go (i + 1) r1 r2 else i
         | _, _ => i
         end) 0 x y
  | _, _ => if sv_eqb a b then -1 else 0
  end.

(** * The exact instance: integer coordinates on a decimal sub-grid.
    A coordinate [z] stands for [z / sub] micro-units (i.e. [z * 1e-6 / sub]
    um); rounding to 6 decimals is rounding to a multiple of [sub], half to
    even (what np.round does in exact arithmetic). *)
Definition zgrid_rnd (sub z : Z) : Z :=
  let q := z / sub in
  let r := z mod sub in
  sub * (if 2 * r <? sub then q
         else if sub <? 2 * r then q + 1
         else if Z.even q then q else q + 1).

(** within the absolute tolerance 1e-6 (no relative term) *)
Definition zgrid_close (sub a b : Z) : bool := Z.abs (a - b) <=? sub.

(** * Witness evaluators for the refuted statements (IEEE instance) *)

(** define a register from [ids] on the layout built from [l], then look its
    coordinates up again *)
Definition F_roundtrip (l : list (list float)) (ids : list Z) : option (list Z) :=
  match Ftraps_new l with
  | Ok L =>
      match Fdefine_register L ids [] with
      | Ok R => match Flookup L (map snd (rqubits R)) with Ok got => Some got | Err _ => None end
      | Err _ => None
      end
  | Err _ => None
  end.

Definition F_layouts_equal (l l' : list (list float)) : option bool :=
  match Ftraps_new l, Ftraps_new l' with
  | Ok a, Ok b => Some (Flayout_eqb a b)
  | _, _ => None
  end.

(** the sorted rounded coordinates of two layouts are pairwise [==] *)
Definition F_same_coordinates (l l' : list (list float)) : bool :=
  match Ftraps_new l, Ftraps_new l' with
  | Ok a, Ok b =>
      (Nat.eqb (length (lsorted a)) (length (lsorted b)))
      && forallb (fun p => Fceq (fst p) (snd p)) (combine (lsorted a) (lsorted b))
  | _, _ => false
  end.

Definition F_wmaps_equal (cs : list (list float)) (ws : list float)
                         (cs' : list (list float)) (ws' : list float) : option bool :=
  match Fwmap_new cs ws, Fwmap_new cs' ws' with
  | Ok a, Ok b => Some (Fwmap_eqb a b)
  | _, _ => None
  end.

Definition F_weight_at (cs : list (list float)) (ws : list float) (pos : list float) : option float :=
  match Fwmap_new cs ws with
  | Ok m => Some (Fqubit_weight m pos)
  | Err _ => None
  end.

Definition w_near_tie : list (list float) :=
  [[zero; zero]; [zero; 0x1.ad7f29abcaf48p-22]; [0x1.4p+2; 0x1.4p+2]]%float.   (* (0,0) (0,4e-7) (5,5) *)
Definition w_negzero_a : list (list float) :=
  [[(-0x1.12e0be826d695p-30)%float; zero]; [0x1.4p+2; 0x1.4p+2]%float].         (* (-1e-9,0) (5,5) *)
Definition w_negzero_b : list (list float) :=
  [[zero; zero]; [0x1.4p+2; 0x1.4p+2]]%float.                                    (* (0,0) (5,5) *)
Definition w_rtol_traps : list (list float) :=
  [[0x1.9p+5; zero]; [0x1.90009d495182bp+5; zero]]%float.                        (* (50,0) (50.0003,0) *)
Definition w_rtol_weights : list float := [0x1p-1; 0x1.6666666666666p-1]%float.  (* 0.5 0.7 *)
