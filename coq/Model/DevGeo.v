(** C12 - executable model of the geometric acceptance logic of Pulser devices
    (pulser/devices/_device_datacls.py: validate_register, validate_layout,
    validate_layout_filling, _validate_coords, __post_init__), of the
    device-aware register constructors (register.py: max_connectivity;
    _patterns.py: triangular_hex) and of the greedy trap generation
    (_layout_gen.py: generate_trap_coordinates).

    Decisions are IEEE-754 double decisions, modelled bit-exactly with
    PrimFloat: scipy's pdist/cdist compute sqrt(((0+d0*d0)+d1*d1)+d2*d2) and
    np.linalg.norm(axis=1) computes sqrt((x0*x0+x1*x1)+x2*x2) (checked on 4e5
    random inputs).  Statement order follows the code.  No proofs here. *)
From Coq Require Import ZArith List Bool.
From Coq Require Import Uint63 FloatOps SpecFloat PrimFloat.
From PV Require Import Model.Base.
Import ListNotations.
Open Scope Z_scope.

(** * Points and distances *)
Definition pt := list float.

Fixpoint sqacc (s : float) (a b : pt) : float :=
  match a, b with
  | x :: a', y :: b' => let d := (x - y)%float in sqacc (s + d * d)%float a' b'
  | _, _ => s
  end.
(** scipy.spatial.distance.pdist / cdist, euclidean *)
Definition dist (a b : pt) : float := PrimFloat.sqrt (sqacc zero a b).

Fixpoint nrmacc (s : float) (a : pt) : float :=
  match a with
  | x :: a' => nrmacc (s + x * x)%float a'
  | [] => s
  end.
(** np.linalg.norm(., axis=1) of one row *)
Definition norm (a : pt) : float := PrimFloat.sqrt (nrmacc zero a).

(** 10 ** (-COORD_PRECISION) = 1e-06 *)
Definition f_eps : float := 0x1.0c6f7a0b5ed8dp-20%float.

(** * The geometric parameters of a device *)
Record gdev := {
  g_virtual : bool;          (* VirtualDevice: max_atom_num / max_radial_distance optional *)
  g_dim : Z;
  g_min_dist : float;
  g_max_atoms : option Z;
  g_max_radial : option Z;
  g_max_fill : float;
  g_min_traps : Z;
  g_max_traps : option Z
}.

(** * Outcomes *)
Inductive gerr :=
| GType                                   (* TypeError *)
| GDimPos (d : Z)                         (* DimensionPositionsTooHighError(invalid) *)
| GAtoms (n : Z)                          (* AtomsNumberError(invalid) *)
| GDist (kind : Z) (pairs : list (Z * Z)) (* DistanceError(kind, invalid) *)
| GRadius (kind : Z) (ids : list Z)       (* RadiusError(kind, invalid) *)
| GDimLayout (d : Z)                      (* DimensionTooHighError(invalid) *)
| GTrapsLow (n : Z)                       (* TrapsNumberTooLowError(invalid) *)
| GTrapsHigh (n : Z)                      (* TrapsNumberTooHighError(invalid) *)
| GQubits (n mx : Z)                      (* QubitsNumberError(invalid, max) *)
| GWrap (e : gerr).                       (* PulserValueError("...incompatible register layout") from e *)

Inductive gres := GOk | GErr (e : gerr).

Definition KATOMS : Z := 0.
Definition KTRAPS : Z := 1.

(** ** _validate_atom_distance *)
Definition invalid_dist (mind d : float) : bool :=
  f_lt (d - mind)%float (- f_eps)%float || f_lt d f_eps.

Fixpoint pairs_from (mind : float) (i j : Z) (p : pt) (rest : list pt) : list (Z * Z) :=
  match rest with
  | [] => []
  | q :: r =>
      if invalid_dist mind (dist p q)
      then (i, j) :: pairs_from mind i (j + 1) p r
      else pairs_from mind i (j + 1) p r
  end.

(** np.argwhere(invalid & triu(k=1)): row-major order *)
Fixpoint bad_pairs (mind : float) (i : Z) (l : list pt) : list (Z * Z) :=
  match l with
  | [] => []
  | p :: r => pairs_from mind i (i + 1) p r ++ bad_pairs mind (i + 1) r
  end.

(** ** _validate_radial_distance *)
Definition too_far (R : Z) (p : pt) : bool := f_gt (norm p) (f_of_Z R).

Fixpoint far_ids (R : Z) (i : Z) (l : list pt) : list Z :=
  match l with
  | [] => []
  | p :: r => if too_far R p then i :: far_ids R (i + 1) r else far_ids R (i + 1) r
  end.

Definition zlen {A} (l : list A) : Z := Z.of_nat (length l).

(** ** _validate_coords *)
Definition validate_coords (dv : gdev) (kind : Z) (pts : list pt) : gres :=
  (* atom number: only for atoms, skipped when optional and undefined *)
  match (if kind =? KATOMS
         then match g_max_atoms dv with
              | None => if g_virtual dv then GOk else GErr GType
              | Some m => if m <? zlen pts then GErr (GAtoms (zlen pts)) else GOk
              end
         else GOk) with
  | GErr e => GErr e
  | GOk =>
      match bad_pairs (g_min_dist dv) 0 pts with
      | (_ :: _) as bp => GErr (GDist kind bp)
      | [] =>
          match g_max_radial dv with
          | None => if g_virtual dv then GOk else GErr GType
          | Some R =>
              match far_ids R 0 pts with
              | (_ :: _) as ids => GErr (GRadius kind ids)
              | [] => GOk
              end
          end
      end
  end.

(** ** layouts *)
Record glayout := {
  l_is_layout : bool;       (* isinstance(layout, RegisterLayout) *)
  l_dim : Z;
  l_traps : list pt         (* traps_dict values: sorted, rounded coordinates *)
}.

Definition validate_layout (dv : gdev) (ly : glayout) : gres :=
  if negb (l_is_layout ly) then GErr GType
  else if g_dim dv <? l_dim ly then GErr (GDimLayout (l_dim ly))
  else if zlen (l_traps ly) <? g_min_traps dv then GErr (GTrapsLow (zlen (l_traps ly)))
  else if (match g_max_traps dv with Some m => m <? zlen (l_traps ly) | None => false end)
       then GErr (GTrapsHigh (zlen (l_traps ly)))
  else validate_coords dv KTRAPS (l_traps ly).

(** int(number_of_traps * max_layout_filling) *)
Definition max_qubits (dv : gdev) (n_traps : Z) : Z :=
  match f_trunc (f_of_Z n_traps * g_max_fill dv)%float with
  | Some z => z
  | None => 0
  end.

Definition validate_filling (dv : gdev) (n_qubits n_traps : Z) : gres :=
  let mq := max_qubits dv n_traps in
  if mq <? n_qubits then GErr (GQubits n_qubits mq) else GOk.

(** ** validate_register *)
Record greg := {
  r_is_reg : bool;            (* isinstance(register, BaseRegister) *)
  r_dim : Z;
  r_pts : list pt;            (* register.qubits values, declaration order *)
  r_layout : option glayout
}.

Definition validate_register (dv : gdev) (rg : greg) : gres :=
  if negb (r_is_reg rg) then GErr GType
  else if g_dim dv <? r_dim rg then GErr (GDimPos (r_dim rg))
  else match validate_coords dv KATOMS (r_pts rg) with
       | GErr e => GErr e
       | GOk =>
           match r_layout rg with
           | None => GOk
           | Some ly =>
               match validate_layout dv ly with
               | GErr e => GErr (GWrap e)
               | GOk => validate_filling dv (zlen (r_pts rg)) (zlen (l_traps ly))
               end
           end
       end.

(** validate_layout_filling(register) *)
Definition validate_filling_reg (dv : gdev) (rg : greg) : gres :=
  match r_layout rg with
  | None => GErr GType
  | Some ly => validate_filling dv (zlen (r_pts rg)) (zlen (l_traps ly))
  end.

(** Sequence(MappableRegister(layout, *ids), device) *)
Definition validate_mappable (dv : gdev) (ly : glayout) (n_ids : Z) : gres :=
  match validate_layout dv ly with
  | GErr e => GErr e
  | GOk => validate_filling dv n_ids (zlen (l_traps ly))
  end.

(** ** encoding of outcomes as [sv] (shared with the Python side) *)
Fixpoint sv_gerr (e : gerr) : sv :=
  match e with
  | GType => SL [SZ 1]
  | GDimPos d => SL [SZ 2; SZ d]
  | GAtoms n => SL [SZ 3; SZ n]
  | GDist k ps => SL [SZ 4; SZ k; SL (map (fun p => SL [SZ (fst p); SZ (snd p)]) ps)]
  | GRadius k ids => SL [SZ 5; SZ k; SL (map SZ ids)]
  | GDimLayout d => SL [SZ 6; SZ d]
  | GTrapsLow n => SL [SZ 7; SZ n]
  | GTrapsHigh n => SL [SZ 8; SZ n]
  | GQubits n m => SL [SZ 9; SZ n; SZ m]
  | GWrap e' => SL [SZ 10; sv_gerr e']
  end.
Definition sv_gres (r : gres) : sv :=
  match r with GOk => SL [SZ 0] | GErr e => sv_gerr e end.

(** * Device construction: BaseDevice.__post_init__ (geometry-related part) *)
Inductive ival := INone | IInt (z : Z) | IFlt (f : float).

Record dparams := {
  p_virtual : bool;
  p_dim : Z;
  p_ryd : ival;
  p_min_dist : ival;
  p_max_atoms : ival;
  p_max_radial : ival;
  p_max_seq : ival;
  p_max_runs : ival;
  p_min_traps : ival;
  p_max_traps : ival;
  p_max_fill : float;
  p_opt_fill : option float;
  p_slm : bool;
  p_n_dmm : Z
}.

Inductive derr :=
| DDimChoice            (* DimensionChoiceError *)
| DRydType              (* TypeError: Rydberg level has to be an int *)
| DRydLevel             (* RydbergLevelError *)
| DNone (param : Z)     (* TypeError: can't be None *)
| DIntType (param : Z)  (* TypeError: must be of type int *)
| DRange (param : Z)    (* ValueError: must be greater than (or equal to) zero *)
| DMaxFill              (* ValueError *)
| DOptFill              (* OptimalLayoutFillingError *)
| DTrapsOrder           (* MaxNumberOfTrapsError *)
| DTrapsAtoms (m : Z)   (* PulserValueError: layout supports at most m atoms *)
| DSlm.                 (* PulserValueError: one DMM should be defined *)

Inductive dres := DOk | DErr (e : derr).

(** parameter indices, in the order of the loop in __post_init__ *)
Definition P_MIN_DIST := 0. Definition P_MAX_ATOMS := 1. Definition P_MAX_RADIAL := 2.
Definition P_MAX_SEQ := 3. Definition P_MAX_RUNS := 4. Definition P_MIN_TRAPS := 5.
Definition P_MAX_TRAPS := 6.

(** is the parameter allowed to be None for this class? *)
Definition optional_param (virtual : bool) (param : Z) : bool :=
  (virtual && ((param =? P_MAX_ATOMS) || (param =? P_MAX_RADIAL)))
  || (param =? P_MAX_SEQ) || (param =? P_MAX_RUNS) || (param =? P_MAX_TRAPS).

Definition check_param (virtual : bool) (param : Z) (v : ival) : dres :=
  match v with
  | INone => if optional_param virtual param then DOk else DErr (DNone param)
  | IInt z =>
      if param =? P_MIN_DIST then (if 0 <=? z then DOk else DErr (DRange param))
      else (if 0 <? z then DOk else DErr (DRange param))
  | IFlt f =>
      if param =? P_MIN_DIST then (if f_ge f zero then DOk else DErr (DRange param))
      else DErr (DIntType param)
  end.

Definition dbind (r : dres) (k : dres) : dres :=
  match r with DOk => k | DErr e => DErr e end.

Definition ival_Z (v : ival) : option Z := match v with IInt z => Some z | _ => None end.

Definition post_init (p : dparams) : dres :=
  dbind (if (p_dim p =? 2) || (p_dim p =? 3) then DOk else DErr DDimChoice)
  (dbind (match p_ryd p with
          | IInt z => if (49 <? z) && (z <? 101) then DOk else DErr DRydLevel
          | _ => DErr DRydType
          end)
  (dbind (check_param (p_virtual p) P_MIN_DIST (p_min_dist p))
  (dbind (check_param (p_virtual p) P_MAX_ATOMS (p_max_atoms p))
  (dbind (check_param (p_virtual p) P_MAX_RADIAL (p_max_radial p))
  (dbind (check_param (p_virtual p) P_MAX_SEQ (p_max_seq p))
  (dbind (check_param (p_virtual p) P_MAX_RUNS (p_max_runs p))
  (dbind (check_param (p_virtual p) P_MIN_TRAPS (p_min_traps p))
  (dbind (check_param (p_virtual p) P_MAX_TRAPS (p_max_traps p))
  (dbind (if f_lt zero (p_max_fill p) && f_le (p_max_fill p) one then DOk else DErr DMaxFill)
  (dbind (match p_opt_fill p with
          | None => DOk
          | Some o => if f_lt zero o && f_le o (p_max_fill p) then DOk else DErr DOptFill
          end)
  (dbind (match ival_Z (p_max_traps p), ival_Z (p_min_traps p) with
          | Some mx, Some mn =>
              if mx <? mn then DErr DTrapsOrder
              else match ival_Z (p_max_atoms p) with
                   | Some ma =>
                       match f_trunc (p_max_fill p * f_of_Z mx)%float with
                       | Some cap => if cap <? ma then DErr (DTrapsAtoms cap) else DOk
                       | None => DOk
                       end
                   | None => DOk
                   end
          | _, _ => DOk
          end)
         (if p_slm p && (p_n_dmm p =? 0) then DErr DSlm else DOk)))))))))))).

Definition sv_dres (r : dres) : sv :=
  match r with
  | DOk => SL [SZ 0]
  | DErr DDimChoice => SL [SZ 1]
  | DErr DRydType => SL [SZ 2]
  | DErr DRydLevel => SL [SZ 3]
  | DErr (DNone q) => SL [SZ 4; SZ q]
  | DErr (DIntType q) => SL [SZ 5; SZ q]
  | DErr (DRange q) => SL [SZ 6; SZ q]
  | DErr DMaxFill => SL [SZ 7]
  | DErr DOptFill => SL [SZ 8]
  | DErr DTrapsOrder => SL [SZ 9]
  | DErr (DTrapsAtoms m) => SL [SZ 10; SZ m]
  | DErr DSlm => SL [SZ 11]
  end.

(** * triangular_hex and Register.max_connectivity *)

(** ranges: [zrange lo n] = [lo; lo+1; ...; lo+n-1] *)
Fixpoint zrange_nat (lo : Z) (n : nat) : list Z :=
  match n with O => [] | S k => lo :: zrange_nat (lo + 1) k end.
Definition zrange (lo cnt : Z) : list Z := zrange_nat lo (Z.to_nat cnt).

(** the skeleton shared by the float instance (what the code computes) and
    the Eisenstein-integer instance (what the theorems are about): [mk layer
    side atom] builds one point, [small] are the six literal points used for
    n < 7, [org] the origin. *)
Section HexGen.
  Context {A : Type}.
  Variable mk : Z -> Z -> Z -> A.
  Variable org : A.
  Variable small : list A.

  Definition full_layer (layer : Z) : list A :=
    flat_map (fun side => map (fun atom => mk layer side atom) (zrange 1 layer)) (zrange 0 6).

  Definition full_layers (layers : Z) : list A :=
    flat_map full_layer (zrange 1 layers).

  (** sides_order = [0, 3, 1, 4, 2, 5] *)
  Definition sides_order (side : Z) : Z :=
    if side =? 0 then 0 else if side =? 1 then 3 else if side =? 2 then 1
    else if side =? 3 then 4 else if side =? 4 then 2 else 5.

  Definition partial_layer (layer per_side extra : Z) : list A :=
    flat_map (fun side =>
                map (fun atom => mk layer side atom)
                    (zrange 1 (if sides_order side <? extra then per_side + 1 else per_side)))
             (zrange 0 6).

  Definition hex_gen (layers n : Z) : list A :=
    if n <? 7 then firstn (Z.to_nat n) small
    else
      let left := n - 1 - (layers * layers + layers) * 3 in
      org :: full_layers layers
          ++ (if 0 <? left then partial_layer (layers + 1) (left / 6) (left mod 6) else []).
End HexGen.

(** layers = int((-3.0 + np.sqrt(9 + 12 * (n_points - 1))) / 6.0) *)
Definition f_three : float := 0x1.8p+1%float.
Definition f_six : float := 0x1.8p+2%float.
Definition hex_layers (n : Z) : Z :=
  match f_trunc ((PrimFloat.sqrt (f_of_Z (9 + 12 * (n - 1))) - f_three) / f_six)%float with
  | Some z => z
  | None => 0
  end.

(** ** Eisenstein-integer instance: the point a + b*w, w = exp(i pi/3), i.e.
    (x, y) = (a + b/2, b*sqrt(3)/2). *)
Definition epoint := (Z * Z)%type.
Definition e_start (side : Z) : epoint :=
  if side =? 0 then (-1, 0) else if side =? 1 then (-1, 1) else if side =? 2 then (0, 1)
  else if side =? 3 then (1, 0) else if side =? 4 then (1, -1) else (0, -1).
Definition e_delta (side : Z) : epoint :=
  if side =? 0 then (0, 1) else if side =? 1 then (1, 0) else if side =? 2 then (1, -1)
  else if side =? 3 then (0, -1) else if side =? 4 then (-1, 0) else (-1, 1).
Definition e_mk (layer side atom : Z) : epoint :=
  (fst (e_start side) * layer + atom * fst (e_delta side),
   snd (e_start side) * layer + atom * snd (e_delta side)).
Definition e_small : list epoint := [(0, 0); (-1, 1); (0, 1); (1, 0); (1, -1); (0, -1)].
Definition hex_eis (n : Z) : list epoint := hex_gen e_mk (0, 0) e_small (hex_layers n) n.

(** squared length, in units of spacing^2, of the Eisenstein integer (a, b) *)
Definition e_norm (p : epoint) : Z := fst p * fst p + fst p * snd p + snd p * snd p.
Definition e_sub (p q : epoint) : epoint := (fst p - fst q, snd p - snd q).

(** ** float instance: exactly the arithmetic of _patterns.triangular_hex *)
Definition f_crest : float := 0x1.bb67ae8584caap-1%float.   (* np.sqrt(3) / 2.0 *)
Definition f_half : float := 0x1p-1%float.
Definition fx_start (side : Z) : float :=
  if side =? 0 then (- one)%float else if side =? 1 then (- f_half)%float else if side =? 2 then f_half
  else if side =? 3 then one else if side =? 4 then f_half else (- f_half)%float.
Definition fy_start (side : Z) : float :=
  if side =? 0 then zero else if side =? 1 then f_crest else if side =? 2 then f_crest
  else if side =? 3 then zero else if side =? 4 then (- f_crest)%float else (- f_crest)%float.
Definition fx_delta (side : Z) : float :=
  if side =? 0 then f_half else if side =? 1 then one else if side =? 2 then f_half
  else if side =? 3 then (- f_half)%float else if side =? 4 then (- one)%float else (- f_half)%float.
Definition fy_delta (side : Z) : float :=
  if side =? 0 then f_crest else if side =? 1 then zero else if side =? 2 then (- f_crest)%float
  else if side =? 3 then (- f_crest)%float else if side =? 4 then zero else f_crest.
Definition f_mk (layer side atom : Z) : pt :=
  [ (fx_start side * f_of_Z layer + f_of_Z atom * fx_delta side)%float;
    (fy_start side * f_of_Z layer + f_of_Z atom * fy_delta side)%float ].
Definition f_small : list pt :=
  [ [zero; zero]; [(- f_half)%float; f_crest]; [f_half; f_crest]; [one; zero];
    [f_half; (- f_crest)%float]; [(- f_half)%float; (- f_crest)%float] ].
Definition hex_float (n : Z) : list pt := hex_gen f_mk [zero; zero] f_small (hex_layers n) n.

(** the float image of an Eisenstein point (used to state that both instances
    describe the same points) *)
Definition e_to_x2 (p : epoint) : Z := 2 * fst p + snd p.   (* 2x, an integer *)

(** ** Register.max_connectivity(n_qubits, device, spacing) *)
Inductive mcres :=
| MCValue (site : Z)     (* ValueError: 1 = n < 1, 2 = n > max_atom_num, 3 = spacing < min *)
| MCNotImpl              (* NotImplementedError: spacing <= 0 *)
| MCOk (pts : list pt).

Definition max_connectivity (dv : gdev) (n : Z) (spacing : option float) : mcres :=
  if n <? 1 then MCValue 1
  else if (match g_max_atoms dv with Some m => m <? n | None => false end) then MCValue 2
  else
    let sp := match spacing with None => Some (g_min_dist dv)
                            | Some s => if f_lt s (g_min_dist dv) then None else Some s end in
    match sp with
    | None => MCValue 3
    | Some s =>
        if f_le s zero then MCNotImpl
        else MCOk (map (fun p => map (fun c => (c * s)%float) p) (hex_float n))
    end.

Definition sv_pts (l : list pt) : sv := SL (map (fun p => SL (map SF p)) l).
Definition sv_mcres (r : mcres) : sv :=
  match r with
  | MCValue s => SL [SZ 1; SZ s]
  | MCNotImpl => SL [SZ 2]
  | MCOk pts => SL [SZ 0; sv_pts pts]
  end.

(** * generate_trap_coordinates: the greedy selection *)

(** np.ceil(x).astype(int), exact *)
Definition f_ceilZ (x : float) : option Z :=
  match f_to_me x with
  | Some (m, e) => Some (if 0 <=? e then m * 2 ^ e else - ((- m) / 2 ^ (- e)))
  | None => None
  end.
(** np.round(x).astype(int) *)
Definition f_roundZ (x : float) : option Z := f_trunc (f_rint x).

Definition oZ (o : option Z) : Z := match o with Some z => z | None => 0 end.

(** the two trap counts computed before the loop *)
Definition lg_min_traps (n_seeds : Z) (max_fill : float) (min_traps : Z) : Z :=
  Z.max (oZ (f_ceilZ (f_of_Z n_seeds / max_fill)%float)) min_traps.

Definition lg_target (n_seeds : Z) (max_fill : float) (opt_fill : option float)
           (min_traps : Z) (max_traps : option Z) : Z :=
  let opt := match opt_fill with
             | Some o => if f_eq o zero then max_fill else o   (* `optimal or max` *)
             | None => max_fill end in
  let t := Z.max (oZ (f_roundZ (f_of_Z n_seeds / opt)%float)) (lg_min_traps n_seeds max_fill min_traps) in
  match max_traps with
  | Some m => if m =? 0 then t else Z.min t m               (* `if max_traps:` *)
  | None => t
  end.

(** The loop, over an abstract type of candidate points: [far c t] is
    "candidate c is further than min_trap_dist from trap t", [key c] is the
    distance of c to the closest seed. *)
Section Greedy.
  Context {P : Type}.
  Variable far : P -> P -> bool.
  Variable key : P -> float.

  (** np.argmin over the candidates still in the region: first minimum *)
  Fixpoint argmin_from (best : P) (l : list P) : P :=
    match l with
    | [] => best
    | c :: r => if f_lt (key c) (key best) then argmin_from c r else argmin_from best r
    end.

  (** [region] = the candidates still allowed; returns the traps added, in order *)
  Fixpoint greedy (fuel : nat) (region : list P) : list P :=
    match fuel with
    | O => []
    | S k =>
        match region with
        | [] => []                                    (* `if not np.any(region_left): break` *)
        | c :: r =>
            let s := argmin_from c r in
            s :: greedy k (filter (fun x => far x s) region)
        end
    end.
End Greedy.

Definition min_key (seeds : list pt) (c : pt) : float :=
  match seeds with
  | [] => infinity
  | s :: r => fold_left (fun m t => let d := dist c t in if f_lt d m then d else m) r (dist c s)
  end.

Inductive lgres := LGRuntime (missing : Z) | LGOk (traps : list pt).

Definition gen_traps (mesh seeds : list pt) (min_dist max_fill : float) (opt_fill : option float)
           (min_traps : Z) (max_traps : option Z) : lgres :=
  let n := zlen seeds in
  let mt := lg_min_traps n max_fill min_traps in
  let target := lg_target n max_fill opt_fill min_traps max_traps in
  let far := fun c t => f_gt (dist c t) min_dist in
  let region := filter (fun c => forallb (far c) seeds) mesh in
  let added := greedy far (min_key seeds) (Z.to_nat (target - n)) region in
  let traps := seeds ++ added in
  if zlen traps <? mt then LGRuntime (mt - zlen traps) else LGOk traps.

Definition sv_lgres (r : lgres) : sv :=
  match r with
  | LGRuntime m => SL [SZ 1; SZ m]
  | LGOk t => SL [SZ 0; sv_pts t]
  end.
