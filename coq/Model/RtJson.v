(** C17 - Python values, Python [==], and the generic dataclass codec.

    [pv] is the universe of the Python values that take part in the abstract
    representation: both *instance snapshots* (an object is a [PDict] of its
    dataclass fields in field order, preceded by a ["__class__"] pseudo key)
    and *JSON* (what [json.loads(x.to_abstract_repr())] returns).  Tuples and
    lists are both [PList]; a complex number is [PCx] (it only occurs on the
    instance side: JSON has [{"real":..,"imag":..}] dictionaries instead).

    The second half is the generic machinery used by every
    [_to_abstract_repr] / [_deserialize_*] pair in Pulser: pop the optional
    keys whose value [==] the dataclass default on one side, fall back to the
    dataclass default when the key is missing on the other.  No proofs here. *)
From Coq Require Import ZArith List Bool String Ascii.
From Coq Require Import Uint63 FloatOps SpecFloat PrimFloat.
From PV Require Import Model.Base.
Import ListNotations.
Open Scope string_scope.
Open Scope Z_scope.

Inductive pv :=
| PNone
| PBool (b : bool)
| PInt (z : Z)
| PFlt (f : float)
| PCx (re im : float)
| PStr (s : string)
| PList (l : list pv)
| PDict (kvs : list (string * pv)).

Definition kvs := list (string * pv).

(** ** Encoding into [sv] (for the comparison with the implementation) *)
Fixpoint codes (s : string) : list sv :=
  match s with
  | EmptyString => []
  | String c r => SZ (Z.of_N (N_of_ascii c)) :: codes r
  end.

Fixpoint sv_of_pv (v : pv) : sv :=
  match v with
  | PNone => SL [SZ 0]
  | PBool b => SL [SZ 1; SB b]
  | PInt z => SL [SZ 2; SZ z]
  | PFlt f => SL [SZ 3; SF f]
  | PCx a b => SL [SZ 4; SF a; SF b]
  | PStr s => SL [SZ 5; SL (codes s)]
  | PList l => SL [SZ 6; SL (map sv_of_pv l)]
  | PDict d =>
      SL [SZ 7;
          SL ((fix go (l : list (string * pv)) : list sv :=
                 match l with
                 | [] => []
                 | (k, x) :: r => SL [SL (codes k); sv_of_pv x] :: go r
                 end) d)]
  end.

Definition sv_of_opt (o : option pv) : sv :=
  match o with None => SL [] | Some v => SL [sv_of_pv v] end.

(** ** Association lists = Python dicts with insertion order *)
Fixpoint get (k : string) (l : kvs) : option pv :=
  match l with
  | [] => None
  | (k', v) :: r => if String.eqb k k' then Some v else get k r
  end.

Definition has_key (k : string) (l : kvs) : bool :=
  match get k l with Some _ => true | None => false end.

(** [d.pop(k, None)] *)
Fixpoint remove_key (k : string) (l : kvs) : kvs :=
  match l with
  | [] => []
  | (k', v) :: r =>
      if String.eqb k k' then remove_key k r else (k', v) :: remove_key k r
  end.

(** [d[k] = v]: in place if the key exists, appended otherwise *)
Fixpoint set_key (k : string) (v : pv) (l : kvs) : kvs :=
  match l with
  | [] => [(k, v)]
  | (k', v') :: r =>
      if String.eqb k k' then (k', v) :: r else (k', v') :: set_key k v r
  end.

Definition mem_s (k : string) (l : list string) : bool :=
  existsb (String.eqb k) l.

Fixpoint nodup_s (l : list string) : bool :=
  match l with
  | [] => true
  | a :: r => negb (mem_s a r) && nodup_s r
  end.

Definition keys (l : kvs) : list string := map fst l.

(** ** Python truthiness and [==] *)
Definition truthy (v : pv) : bool :=
  match v with
  | PNone => false
  | PBool b => b
  | PInt z => negb (z =? 0)
  | PFlt f => negb (f_eq f zero)            (* nan is truthy *)
  | PCx a b => negb (f_eq a zero && f_eq b zero)
  | PStr s => negb (String.eqb s "")
  | PList l => match l with [] => false | _ => true end
  | PDict d => match d with [] => false | _ => true end
  end.

(** exact comparison of a Python int with a float (no rounding of the int) *)
Definition int_flt_eq (z : Z) (f : float) : bool :=
  match f_to_me f with
  | Some (m, e) => if 0 <=? e then z =? m * 2 ^ e else z * 2 ^ (- e) =? m
  | None => false
  end.

Inductive num := NInt (z : Z) | NFlt (f : float) | NCx (a b : float).

Definition num_of (v : pv) : option num :=
  match v with
  | PBool b => Some (NInt (if b then 1 else 0))
  | PInt z => Some (NInt z)
  | PFlt f => Some (NFlt f)
  | PCx a b => Some (NCx a b)
  | _ => None
  end.

Definition num_eq (a b : num) : bool :=
  match a, b with
  | NInt x, NInt y => x =? y
  | NInt x, NFlt f | NFlt f, NInt x => int_flt_eq x f
  | NFlt f, NFlt g => f_eq f g
  | NCx a b, NCx c d => f_eq a c && f_eq b d
  | NCx a b, NFlt f | NFlt f, NCx a b => f_eq a f && f_eq b zero
  | NCx a b, NInt x | NInt x, NCx a b => int_flt_eq x a && f_eq b zero
  end.

(** Python [a == b] on the values that occur here.  Instances (dataclasses
    with [eq=True]) are [PDict]s that carry their class under ["__class__"]:
    dict equality (same keys, equal values, order irrelevant) then coincides
    with the dataclass [__eq__]. *)
Fixpoint pyeq (a b : pv) {struct a} : bool :=
  match a, b with
  | PNone, PNone => true
  | PStr s, PStr t => String.eqb s t
  | PList x, PList y =>
      (fix go (l1 : list pv) (l2 : list pv) {struct l1} : bool :=
         match l1, l2 with
         | [], [] => true
         | a1 :: r1, b1 :: r2 => pyeq a1 b1 && go r1 r2
         | _, _ => false
         end) x y
  | PDict x, PDict y =>
      Nat.eqb (List.length x) (List.length y)
      && (fix go (l1 : list (string * pv)) : bool :=
            match l1 with
            | [] => true
            | (k, v) :: r =>
                match get k y with
                | Some w => pyeq v w && go r
                | None => false
                end
            end) x
  | _, _ =>
      match num_of a, num_of b with
      | Some n, Some m => num_eq n m
      | _, _ => false
      end
  end.

(** ** Dataclass field tables (regenerated from the source in Gen/RtTables.v) *)
Record fdesc := mkF {
  f_name : string;
  f_init : bool;                 (* dataclasses.Field.init *)
  f_default : option pv          (* default / default_factory(), if any *)
}.
Definition table := list fdesc.

Definition names (t : table) : list string := map f_name t.

Fixpoint find_f (k : string) (t : table) : option fdesc :=
  match t with
  | [] => None
  | f :: r => if String.eqb k (f_name f) then Some f else find_f k r
  end.

(** [get_dataclass_defaults(fields)[k]] *)
Definition default_of (t : table) (k : string) : option pv :=
  match find_f k t with Some f => f_default f | None => None end.

Definition has_default (t : table) (k : string) : bool :=
  match default_of t k with Some _ => true | None => false end.

(** [for p in opt: if params[p] == defaults[p]: params.pop(p, None)]
    ([strict]: a missing [params[p]] is a KeyError, as in the channel and EOM
    encoders; the device encoder tests [p in params] first).  A missing
    [defaults[p]] is always a KeyError. *)
Fixpoint pop_defaults (strict : bool) (t : table) (opt : list string)
         (params : kvs) : option kvs :=
  match opt with
  | [] => Some params
  | p :: r =>
      match get p params with
      | None => if strict then None else pop_defaults strict t r params
      | Some v =>
          match default_of t p with
          | None => None
          | Some d =>
              if pyeq v d then pop_defaults strict t r (remove_key p params)
              else pop_defaults strict t r params
          end
      end
  end.

(** [cls(kwargs=params)] for a dataclass: unexpected keyword -> TypeError,
    missing required argument -> TypeError; fields with [init=False] take
    their default.  Result: the attribute dictionary in field order.
    ([__post_init__] validation is not part of this model.) *)
Definition init_names (t : table) : list string :=
  map f_name (filter f_init t).

Fixpoint construct_fields (t : table) (params : kvs) : option kvs :=
  match t with
  | [] => Some []
  | f :: r =>
      let v :=
        if f_init f then
          match get (f_name f) params with
          | Some v => Some v
          | None => f_default f
          end
        else f_default f in
      match v, construct_fields r params with
      | Some v, Some rest => Some ((f_name f, v) :: rest)
      | _, _ => None
      end
  end.

Definition construct (cls : string) (t : table) (params : kvs) : option pv :=
  if forallb (fun k => mem_s k (init_names t)) (keys params) then
    match construct_fields t params with
    | Some a => Some (PDict (("__class__", PStr cls) :: a))
    | None => None
    end
  else None.

(** The decoders' field loop
    [[
      for param in fields:
          use_default = param.name not in obj and param.name in defaults
          if param.init and param.name not in skip and not use_default:
              params[param.name] = obj[param.name]          # KeyError
    ]] *)
Fixpoint field_loop (t_all : table) (t : table) (skip : list string)
         (obj : kvs) (conv : string -> pv -> option pv) : option kvs :=
  match t with
  | [] => Some []
  | f :: r =>
      let k := f_name f in
      let use_default := negb (has_key k obj) && has_default t_all k in
      if f_init f && negb (mem_s k skip) && negb use_default then
        match get k obj with
        | None => None
        | Some v =>
            match conv k v, field_loop t_all r skip obj conv with
            | Some v', Some rest => Some ((k, v') :: rest)
            | _, _ => None
            end
        end
      else field_loop t_all r skip obj conv
  end.

(** instance accessors *)
Definition attrs_of (v : pv) : kvs :=
  match v with PDict (_ :: a) => a | _ => [] end.
Definition class_of (v : pv) : string :=
  match v with
  | PDict ((_, PStr c) :: _) => c
  | _ => ""
  end.
Definition attr (k : string) (v : pv) : pv :=
  match get k (attrs_of v) with Some x => x | None => PNone end.

Definition as_list (v : pv) : option (list pv) :=
  match v with PList l => Some l | _ => None end.
Definition as_dict (v : pv) : option kvs :=
  match v with PDict d => Some d | _ => None end.

Fixpoint mapM {A B} (f : A -> option B) (l : list A) : option (list B) :=
  match l with
  | [] => Some []
  | a :: r =>
      match f a, mapM f r with
      | Some b, Some rest => Some (b :: rest)
      | _, _ => None
      end
  end.

(** decimal rendering of a small natural number ([f"dmm_{i}"]) *)
Definition digit (n : nat) : ascii := ascii_of_nat (48 + n).
Fixpoint dec_str_fuel (fuel n : nat) (acc : string) : string :=
  match fuel with
  | O => acc
  | S fu =>
      let acc' := String (digit (Nat.modulo n 10)) acc in
      if Nat.ltb n 10 then acc' else dec_str_fuel fu (Nat.div n 10) acc'
  end.
Definition dec_str (n : nat) : string := dec_str_fuel (S n) n "".

(** ** JSON image of a value ([AbstractReprEncoder.default] for complex
    numbers; tuples are already lists here) and [_convert_complex] *)
Definition enc_cx (a b : float) : pv :=
  if f_eq b zero then PFlt a
  else PDict [("real", PFlt a); ("imag", PFlt b)].

Fixpoint enc_json (v : pv) : pv :=
  match v with
  | PCx a b => enc_cx a b
  | PList l => PList (map enc_json l)
  | PDict d =>
      PDict ((fix go (l : list (string * pv)) : list (string * pv) :=
                match l with
                | [] => []
                | (k, x) :: r => (k, enc_json x) :: go r
                end) d)
  | _ => v
  end.

(** Python: [obj["real"] + 1j * obj["imag"]] for floats [re], [im]:
    [1j * im = (0*im - 1*0) + (0*0 + 1*im) j], then
    [re + c = (re + c.real) + (0 + c.imag) j]. *)
Definition cx_restore (re im : float) : float * float :=
  let pr := (zero * im - one * zero)%float in
  let pi := (zero * zero + one * im)%float in
  ((re + pr)%float, (zero + pi)%float).

Definition flt_of (v : pv) : option float :=
  match v with
  | PFlt f => Some f
  | PInt z => Some (f_of_Z z)
  | PBool b => Some (if b then one else zero)
  | _ => None
  end.

(** [obj.keys() == {"real", "imag"}] *)
Definition is_cx_dict (d : list (string * pv)) : bool :=
  match d with
  | [(k1, _); (k2, _)] =>
      (String.eqb k1 "real" && String.eqb k2 "imag")
      || (String.eqb k1 "imag" && String.eqb k2 "real")
  | _ => false
  end.

Fixpoint convert_complex (v : pv) : pv :=
  match v with
  | PList l => PList (map convert_complex l)
  | PDict d =>
      if is_cx_dict d then
        match get "real" d, get "imag" d with
        | Some r, Some i =>
            match flt_of r, flt_of i with
            | Some re, Some im =>
                let '(a, b) := cx_restore re im in PCx a b
            | _, _ => PNone   (* TypeError in Python; never reached on schema-valid input *)
            end
        | _, _ => PNone
        end
      else
        PDict ((fix go (l : list (string * pv)) : list (string * pv) :=
                  match l with
                  | [] => []
                  | (k, x) :: r => (k, convert_complex x) :: go r
                  end) d)
  | _ => v
  end.
