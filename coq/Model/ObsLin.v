(** C20 model, part 1: states, operators and the default observables of
    [pulser.backend.default_observables] / [pulser_simulation.qutip_op] /
    [pulser_simulation.qutip_state], over an abstract commutative ring with an
    involution (complex conjugation).  Vectors and matrices are functions on
    indices with the dimension passed explicitly; every sum is a finite
    recursion.  Definitions only; the laws are proved in Proofs/ObsLinP.v.

    Naming: "code formula" = what the Python computes (statement by statement);
    "definition" ([def_...]) = what the property says the value must be. *)
From Coq Require Import List Arith Bool ZArith.
Import ListNotations.

Section ObsLin.
Variable R : Type.
Variables r0 r1 : R.
Variables radd rmul : R -> R -> R.
Variable rconj : R -> R.

Fixpoint sumn (n : nat) (f : nat -> R) : R :=
  match n with O => r0 | S k => radd (sumn k f) (f k) end.

Definition vec := nat -> R.
Definition mat := nat -> nat -> R.

Definition delta (i j : nat) : R := if Nat.eqb i j then r1 else r0.
Definition mzero : mat := fun _ _ => r0.
Definition madd (A B : mat) : mat := fun i j => radd (A i j) (B i j).
Definition mscale (c : R) (A : mat) : mat := fun i j => rmul c (A i j).
Definition mmul (D : nat) (A B : mat) : mat :=
  fun i j => sumn D (fun k => rmul (A i k) (B k j)).
Definition mvec (D : nat) (A : mat) (v : vec) : vec :=
  fun i => sumn D (fun k => rmul (A i k) (v k)).
Definition dag (A : mat) : mat := fun i j => rconj (A j i).
Definition inner (D : nat) (u v : vec) : R :=
  sumn D (fun k => rmul (rconj (u k)) (v k)).
Definition trace (D : nat) (A : mat) : R := sumn D (fun k => A k k).
Definition outer (u : vec) : mat := fun i j => rmul (u i) (rconj (u j)).
Definition nrm2 (z : R) : R := rmul z (rconj z).

(** A [QutipState] holds a ket or a density matrix. *)
Inductive state := Ket (v : vec) | Dm (M : mat).
Definition rho_of (s : state) : mat :=
  match s with Ket v => outer v | Dm M => M end.

(** [QutipOperator.apply_to]: [H * psi], and [H * rho * H.dag()] for operators. *)
Definition apply_to (D : nat) (H : mat) (s : state) : state :=
  match s with
  | Ket v => Ket (mvec D H v)
  | Dm M => Dm (mmul D (mmul D H M) (dag H))
  end.

(** [QutipOperator.expect] = [qutip.expect]: [psi.dag() A psi] / [tr(A rho)]. *)
Definition expect (D : nat) (A : mat) (s : state) : R :=
  match s with
  | Ket v => inner D v (mvec D A v)
  | Dm M => trace D (mmul D A M)
  end.

(** [QutipState.overlap] before [.real]: [Qobj.overlap] (Hilbert-Schmidt with
    projection of kets when one side is an operator), squared modulus for two
    kets. *)
Definition overlap (D : nat) (a b : state) : R :=
  match a, b with
  | Ket u, Ket v => nrm2 (inner D u v)
  | Ket u, Dm M => trace D (mmul D (outer u) M)
  | Dm M, Ket v => trace D (mmul D (dag M) (outer v))
  | Dm A, Dm B => trace D (mmul D (dag A) B)
  end.

(** ** Operators from their representation ([_from_operator_repr]) *)

(** base-[d] digits of index [k] for [n] qudits, leftmost = most significant,
    as in [qutip.tensor] and [State.get_basis_state_from_index]
    ([np.base_repr(index, d).zfill(n)]) *)
Fixpoint digs (d n k : nat) : list nat :=
  match n with
  | O => []
  | S m => (k / d ^ m) :: digs d m (k mod d ^ m)
  end.
Definition digit (d n q k : nat) : nat := nth q (digs d n k) 0.

(** [qutip.tensor] of a list of [d x d] matrices *)
Fixpoint kronl (d : nat) (Ms : list mat) : mat :=
  match Ms with
  | [] => fun _ _ => r1
  | M :: rest =>
      fun i j =>
        let r := d ^ length rest in
        rmul (M (i / r) (j / r)) (kronl d rest (i mod r) (j mod r))
  end.

(** a [QuditOp]: [(ket index, bra index, coefficient)] for each ["ij"] key *)
Definition quditop := list (nat * nat * R).
Definition build_qudit_op (q : quditop) : mat :=
  fun a b =>
    fold_right
      (fun e acc =>
         match e with
         | (i, j, c) => radd (if Nat.eqb a i && Nat.eqb b j then c else r0) acc
         end)
      r0 q.

Fixpoint set_nth {A} (l : list A) (k : nat) (x : A) : list A :=
  match l, k with
  | [], _ => []
  | _ :: t, O => x :: t
  | h :: t, S k' => h :: set_nth t k' x
  end.

(** a [TensorOp]: qudit operators with the qudits they act on *)
Definition tensorop := list (quditop * list nat).
Definition tensor_factors (n : nat) (t : tensorop) : list mat :=
  fold_left
    (fun fs e =>
       match e with
       | (q, inds) => fold_left (fun fs' i => set_nth fs' i (build_qudit_op q)) inds fs
       end)
    t (repeat delta n).

Definition fullop := list (R * tensorop).
Definition from_repr (d n : nat) (ops : fullop) : mat :=
  fold_left
    (fun acc e => match e with (c, t) => madd acc (mscale c (kronl d (tensor_factors n t))) end)
    ops mzero.

(** [CorrelationMatrix._get_number_operator]: [{one one: 1.0}] on the qudits [S] *)
Definition numop (d n one : nat) (S : list nat) : mat :=
  from_repr d n [(r1, [([(one, one, r1)], S)])].

(** ** States from amplitudes ([_from_state_amplitudes]) *)
Definition index_of (d : nat) (bs : list nat) : nat :=
  fold_left (fun acc x => acc * d + x) bs 0.
Definition from_amps (d : nat) (amps : list (list nat * R)) : vec :=
  fun k =>
    fold_right
      (fun e acc => match e with (bs, a) => radd (if Nat.eqb (index_of d bs) k then a else r0) acc end)
      r0 amps.
(** the documented tensor-product construction, entry by entry: the product
    over the qudits of the factor entries at the digits of the two indices *)
Fixpoint prod_factors (fs : list mat) (a b : list nat) : R :=
  match fs, a, b with
  | M :: fs', x :: a', y :: b' => rmul (M x y) (prod_factors fs' a' b')
  | _, _, _ => r1
  end.

(** ** The default observables: code formulas *)
Definition obs_expect (D : nat) (A : mat) (s : state) : R := expect D A s.
Definition obs_occupation (d n one : nat) (s : state) (i : nat) : R :=
  expect (d ^ n) (numop d n one [i]) s.
(** [frozenset((i, j))] has one element when [i = j] *)
Definition pair_set (i j : nat) : list nat := if Nat.eqb i j then [i] else [i; j].
Definition obs_correlation (d n one : nat) (s : state) (i j : nat) : R :=
  expect (d ^ n) (numop d n one (pair_set i j)) s.
(** the identity as the observables build it:
    [from_operator_repr(operations=[(1.0, [])])] *)
Definition ident_op (d n : nat) : mat := from_repr d n [(r1, [])].
(** [EnergySecondMoment]: [identity.expect(hamiltonian.apply_to(state))]
    (the code then takes the real part) *)
Definition obs_m2 (d n : nat) (H : mat) (s : state) : R :=
  expect (d ^ n) (ident_op d n) (apply_to (d ^ n) H s).
(** [EnergyVariance]: [second_moment - energy * energy] *)
Definition obs_variance (rsub : R -> R -> R) (d n : nat) (H : mat) (s : state) : R :=
  rsub (obs_m2 d n H s) (rmul (expect (d ^ n) H s) (expect (d ^ n) H s)).
Definition obs_fidelity (D : nat) (target s : state) : R := overlap D target s.

(** ** The definitions the property refers to *)
Definition def_expect (D : nat) (A : mat) (rho : mat) : R := trace D (mmul D rho A).
Definition def_m2 (D : nat) (H : mat) (rho : mat) : R := trace D (mmul D rho (mmul D H H)).
Definition def_variance (rsub : R -> R -> R) (D : nat) (H : mat) (rho : mat) : R :=
  rsub (def_m2 D H rho) (rmul (def_expect D H rho) (def_expect D H rho)).
Definition def_occupation (d n one : nat) (rho : mat) (i : nat) : R :=
  sumn (d ^ n) (fun k => if Nat.eqb (digit d n i k) one then rho k k else r0).
Definition def_correlation (d n one : nat) (rho : mat) (i j : nat) : R :=
  sumn (d ^ n)
    (fun k => if Nat.eqb (digit d n i k) one && Nat.eqb (digit d n j k) one then rho k k else r0).
(** fidelity with a pure target: [<psi| rho |psi>] *)
Definition def_fidelity (D : nat) (psi : vec) (rho : mat) : R := inner D psi (mvec D rho psi).

Definition hermitian (D : nat) (A : mat) : Prop :=
  forall i j, i < D -> j < D -> rconj (A j i) = A i j.

End ObsLin.
