(** Executable model of the sampler:
      [_ChannelSchedule.get_samples]            (pulser/sequence/_schedule.py:147)
      [ChannelSamples.extend_duration]          (pulser/sampler/samples.py:152)
      [SequenceSamples.to_nested_dict]          (pulser/sampler/samples.py:521)
      [_Schedule.find_slm_mask_times]           (pulser/sequence/_schedule.py:317)
      [WeightMap.get_qubit_weight_map]          (pulser/register/weight_maps.py:76)
    The model is written once over an abstract number type [T] with [zero],
    [one], [add], [mul] (no law is assumed by any definition); it is
    instantiated with [PrimFloat] for the bit-exact correspondence with /repo
    and its theorems (Proofs/Sampler*.v) hold for every instance.
    The input is a schedule with explicit sample lists per pulse (the waveform
    samples, the fall times and the is-detuned-delay flag of each pulse are
    oracle inputs read from the implementation's objects).  No proofs here. *)
From Coq Require Import ZArith List Bool.
From Coq Require Import Uint63 FloatOps SpecFloat PrimFloat.
From PV Require Import Model.Base.
Import ListNotations.
Open Scope Z_scope.

Section Sampler.
Variable T : Type.
Variable zero one : T.
Variable add mul : T -> T -> T.

(** * Arrays (numpy 1-d arrays as lists) *)
Definition nthz (l : list T) (t : Z) : T :=
  if t <? 0 then zero else nth (Z.to_nat t) l zero.
Definition lenz (l : list T) : Z := Z.of_nat (length l).
Definition zeros (n : Z) : list T := repeat zero (Z.to_nat n).

(** [arr[k : k+len xs] += xs] (numpy requires the slice to have the length of
    [xs]; the model truncates at the end of [arr] instead of raising - the
    well-formedness predicate [wf_chan] below excludes that case). *)
Fixpoint sadd (arr : list T) (skip : nat) (xs : list T) : list T :=
  match arr with
  | [] => []
  | a :: r =>
      match skip with
      | S k => a :: sadd r k xs
      | O => match xs with
             | [] => arr
             | x :: xr => add a x :: sadd r O xr
             end
      end
  end.

(** [arr[k:] = v] with Python's treatment of a negative start. *)
Definition set_from (arr : list T) (k : Z) (v : T) : list T :=
  let n := length arr in
  let k' := if k <? 0 then Z.to_nat (Z.max 0 (Z.of_nat n + k)) else Z.to_nat k in
  firstn k' arr ++ repeat v (n - k')%nat.

(** [dst[skip : skip+cnt] = f dst[..] src[..]] pointwise ([dst[a:b] += src[a:b]]
    for arrays of equal length; slices clip at the end of the arrays). *)
Fixpoint accr (f : T -> T -> T) (dst src : list T) (skip cnt : nat) : list T :=
  match dst, src with
  | d :: dr, s :: sr =>
      match skip with
      | S k => d :: accr f dr sr k cnt
      | O => match cnt with
             | O => dst
             | S n => f d s :: accr f dr sr O n
             end
      end
  | _, _ => dst
  end.

(** * Schedules *)
Record pulse := mkPulse {
  p_amp : list T;        (* pulse.amplitude.samples *)
  p_det : list T;        (* pulse.detuning.samples *)
  p_phase : T;           (* pulse.phase *)
  p_dd : bool;           (* _ChannelSchedule.is_detuned_delay(pulse) *)
  p_fall_std : Z;        (* pulse.fall_time(channel, in_eom_mode=False): oracle *)
  p_fall_eom : Z         (* pulse.fall_time(channel, in_eom_mode=True): oracle *)
}.

Inductive skind := KTarget | KDelay | KPulse (p : pulse).

Record slot := mkSlot {
  s_kind : skind; s_ti : Z; s_tf : Z; s_tg : list Z
}.

Record eomb := mkEom { e_ti : Z; e_tf : option Z; e_off : T }.

Record chan := mkChan {
  c_slots : list slot;        (* Python list order *)
  c_eom : list eomb;
  c_pjt : Z;                  (* channel_obj.phase_jump_time *)
  c_global : bool;            (* addressing == "Global" *)
  c_basis : Z;                (* 0 ground-rydberg, 1 digital, 2 XY *)
  c_dmm : bool;
  c_w : list (Z * T)          (* DMM: get_qubit_weight_map; [] otherwise *)
}.

(** a pulse slot ([s for s in self.slots if isinstance(s.type, Pulse)]) *)
Record pslot := mkPS { ps_p : pulse; ps_ti : Z; ps_tf : Z; ps_tg : list Z }.

Definition pslots_of (l : list slot) : list pslot :=
  flat_map (fun s => match s_kind s with
                     | KPulse p => [mkPS p (s_ti s) (s_tf s) (s_tg s)]
                     | _ => []
                     end) l.

(** [_ChannelSchedule.get_duration()] (no fall time): end of the last slot *)
Definition duration (c : chan) : Z := last (map s_tf (c_slots c)) 0.

Definition eom_end (c : chan) (b : eomb) : Z :=
  match e_tf b with Some tf => tf | None => duration c end.

(** [in_eom_mode(time_slot)] *)
Definition in_eom (c : chan) (ti : Z) : bool :=
  existsb (fun b => (e_ti b <=? ti) && (ti <? eom_end c b)) (c_eom c).

(** ** get_samples *)
Definition amp_of (c : chan) : list T :=
  fold_left (fun arr s => sadd arr (Z.to_nat (ps_ti s)) (p_amp (ps_p s)))
            (pslots_of (c_slots c)) (zeros (duration c)).
Definition det_of (c : chan) : list T :=
  fold_left (fun arr s => sadd arr (Z.to_nat (ps_ti s)) (p_det (ps_p s)))
            (pslots_of (c_slots c)) (zeros (duration c)).

(** The phase loop.  The Python looks back from every pulse that is not a
    detuned delay for the nearest earlier pulse that is not a detuned delay;
    the accumulator carries the end of that pulse instead. *)
Definition phase_step (pjt : Z) (st : list T * option Z) (s : pslot)
  : list T * option Z :=
  if p_dd (ps_p s) then st
  else
    let t_start := match snd st with
                   | Some tf => Z.max (ps_ti s - pjt) tf
                   | None => 0
                   end in
    (set_from (fst st) t_start (p_phase (ps_p s)), Some (ps_tf s)).
Definition phase_of (c : chan) : list T :=
  fst (fold_left (phase_step (c_pjt c)) (pslots_of (c_slots c))
                 (zeros (duration c), None)).

(** [_PulseTargetSlot]s: pulse slots with the end extended by the fall time,
    but never into the next pulse *)
Record xslot := mkXS { xs_ti : Z; xs_tf : Z; xs_tg : list Z }.

Definition fall_of (c : chan) (s : pslot) : Z :=
  if in_eom c (ps_ti s) then p_fall_eom (ps_p s) else p_fall_std (ps_p s).

Fixpoint ext_slots (c : chan) (l : list pslot) : list xslot :=
  match l with
  | [] => []
  | s :: r =>
      let fall := fall_of c s in
      let tf := ps_tf s + match r with
                          | n :: _ => Z.min fall (ps_ti n - ps_tf s)
                          | [] => fall
                          end in
      mkXS (ps_ti s) tf (ps_tg s) :: ext_slots c r
  end.

Record csamples := mkCS {
  cs_amp : list T; cs_det : list T; cs_phase : list T;
  cs_slots : list xslot;
  cs_open_off : option T;     (* Some detuning_off iff the last EOM block is open *)
  cs_init_tg : list Z         (* initial_targets *)
}.

Definition open_off (c : chan) : option T :=
  match rev (c_eom c) with
  | b :: _ => match e_tf b with None => Some (e_off b) | Some _ => None end
  | [] => None
  end.

Definition init_targets (c : chan) : list Z :=
  match filter (fun s => match s_kind s with KTarget => true | _ => false end)
               (c_slots c) with
  | s :: _ => s_tg s
  | [] => []
  end.

Definition get_samples (c : chan) : csamples :=
  mkCS (amp_of c) (det_of c) (phase_of c)
       (ext_slots c (pslots_of (c_slots c))) (open_off c) (init_targets c).

(** ** extend_duration ([None] = ValueError) *)
Definition extend (cs : csamples) (n : Z) : option csamples :=
  let ext := n - lenz (cs_amp cs) in
  if ext <? 0 then None
  else
    let k := Z.to_nat ext in
    let fdet := match cs_open_off cs with Some o => o | None => zero end in
    Some (mkCS (cs_amp cs ++ repeat zero k)
               (cs_det cs ++ repeat fdet k)
               (cs_phase cs ++ repeat (last (cs_phase cs) zero) k)
               (cs_slots cs) (cs_open_off cs) (cs_init_tg cs)).

(** [SequenceSamples.extend_duration]: the samples of every channel extended,
    in order ([None] = one of them raised) *)
Fixpoint extend_all (css : list csamples) (n : Z) : option (list csamples) :=
  match css with
  | [] => Some []
  | cs :: r =>
      match extend cs n, extend_all r n with
      | Some c, Some r' => Some (c :: r')
      | _, _ => None
      end
  end.

(** * Well-formed channel timelines (what C02 gives for reachable schedules;
      evaluated on every schedule met by the correspondence) *)
Fixpoint wf_pslots (from : Z) (l : list pslot) : bool :=
  match l with
  | [] => true
  | s :: r =>
      (from <=? ps_ti s) && (ps_ti s <=? ps_tf s)
      && (lenz (p_amp (ps_p s)) =? ps_tf s - ps_ti s)
      && (lenz (p_det (ps_p s)) =? ps_tf s - ps_ti s)
      && wf_pslots (ps_tf s) r
  end.
Definition wf_chan (c : chan) : bool :=
  wf_pslots 0 (pslots_of (c_slots c))
  && forallb (fun s => ps_tf s <=? duration c) (pslots_of (c_slots c))
  && (0 <=? c_pjt c).

(** * The SLM mask (XY mode): [_Schedule.find_slm_mask_times] *)
Definition first_real_pulse (c : chan) : option (Z * Z) :=
  match filter (fun s => negb (p_dd (ps_p s))) (pslots_of (c_slots c)) with
  | s :: _ => Some (ps_ti s, ps_tf s)
  | [] => None
  end.
Definition find_mask_times (chans : list chan) : option (Z * Z) :=
  fold_left
    (fun acc c =>
       if negb (c_global c) || c_dmm c then acc
       else match first_real_pulse c with
            | None => acc
            | Some (ti, tf) =>
                match acc with
                | Some (mi, _) => if ti <? mi then Some (ti, tf) else acc
                | None => Some (ti, tf)
                end
            end)
    chans None.

Definition memz (x : Z) (l : list Z) : bool := existsb (Z.eqb x) l.

Definition in_xy (chans : list chan) : bool :=
  existsb (fun c => c_basis c =? 2) chans.

(** [_SlmMask] as [sample()] builds it, restricted to what [to_nested_dict]
    reads: the mask only acts on XY channels.  In Ising mode the mask is
    realised by a DMM channel, which is sampled like any other channel. *)
Definition slm_mask (chans : list chan) (mask : list Z) : list Z * Z :=
  if in_xy chans then
    match mask, find_mask_times chans with
    | _ :: _, Some (_, tf) => (mask, tf)
    | _, _ => ([], 0)
    end
  else ([], 0).

(** * to_nested_dict *)
Inductive key := KG (b : Z) | KL (b q : Z).
Definition key_eqb (a b : key) : bool :=
  match a, b with
  | KG x, KG y => x =? y
  | KL x q, KL y r => (x =? y) && (q =? r)
  | _, _ => false
  end.

Record qty := mkQ { q_amp : list T; q_det : list T; q_phase : list T }.
Definition zq (N : Z) : qty := mkQ (zeros N) (zeros N) (zeros N).
Definition ndict := list (key * qty).

Fixpoint look (d : ndict) (k : key) : option qty :=
  match d with
  | [] => None
  | (k', q) :: r => if key_eqb k k' then Some q else look r k
  end.
Definition lookd (N : Z) (d : ndict) (k : key) : qty :=
  match look d k with Some q => q | None => zq N end.

(** [d[k] = f(d[k])] on a defaultdict *)
Fixpoint upd (N : Z) (d : ndict) (k : key) (f : qty -> qty) : ndict :=
  match d with
  | [] => [(k, f (zq N))]
  | (k', q) :: r =>
      if key_eqb k k' then (k', f q) :: r else (k', q) :: upd N r k f
  end.

(** [d[..][qty][a:b] += cs.qty[a:b]] for the three quantities *)
Definition qacc_plain (skip cnt : nat) (cs : csamples) (q : qty) : qty :=
  mkQ (accr add (q_amp q) (cs_amp cs) skip cnt)
      (accr add (q_det q) (cs_det cs) skip cnt)
      (accr add (q_phase q) (cs_phase cs) skip cnt).
(** the same with [cs.det[a:b] * det_weight_map[t]] *)
Definition qacc_w (skip cnt : nat) (w : T) (cs : csamples) (q : qty) : qty :=
  mkQ (accr add (q_amp q) (cs_amp cs) skip cnt)
      (accr (fun d s => add d (mul s w)) (q_det q) (cs_det cs) skip cnt)
      (accr add (q_phase q) (cs_phase cs) skip cnt).

Fixpoint assocz (l : list (Z * T)) (q : Z) : option T :=
  match l with
  | [] => None
  | (k, v) :: r => if k =? q then Some v else assocz r q
  end.
(** [det_weight_map[t]]: the detuning-map weight for a DMM (defaultdict(int)),
    1.0 for every other channel *)
Definition weight (c : chan) (q : Z) : T :=
  if c_dmm c then match assocz (c_w c) q with Some w => w | None => zero end
  else one.

Definition set_minus (a b : list Z) : list Z :=
  filter (fun x => negb (memz x b)) a.

Definition is_global_branch (all_local : bool) (c : chan) : bool :=
  c_global c && negb all_local && negb (c_dmm c).

(** start of the local slice for target [t] of an extended slot *)
Definition slot_start (c : chan) (mt : list Z) (mend : Z) (s : xslot) (t : Z) : Z :=
  if (c_basis c =? 2) && memz t mt then Z.max (xs_ti s) mend else xs_ti s.

(** the body of the loop over channels.  The result type is kept optional
    ([None] = an exception): before /repo commit 568e94cf the global branch
    raised IndexError on [cs.slots[0]] for a channel without pulses; the code
    now reads [if start_t == 0 or not cs.slots: continue], and
    [Proofs/SamplerNested.nested_total] shows that [None] is never produced. *)
Definition chan_step (all_local : bool) (N : Z) (mt : list Z) (mend : Z)
           (d : ndict) (ccs : chan * csamples) : option ndict :=
  let (c, cs) := ccs in
  let b := c_basis c in
  if is_global_branch all_local c then
    let start := if b =? 2 then mend else 0 in
    let d1 := upd N d (KG b) (qacc_plain (Z.to_nat start) (Z.to_nat N) cs) in
    if start =? 0 then Some d1
    else match cs_slots cs with
         | [] => Some d1
         | s0 :: _ =>
             Some (fold_left
                     (fun d t => upd N d (KL b t) (qacc_plain O (Z.to_nat start) cs))
                     (set_minus (xs_tg s0) mt) d1)
         end
  else
    let d0 := match cs_slots cs with
              | [] => fold_left (fun d t => upd N d (KL b t) (fun q => q))
                                (cs_init_tg cs) d
              | _ => d
              end in
    Some (fold_left
            (fun d s =>
               fold_left
                 (fun d t =>
                    let ti := slot_start c mt mend s t in
                    upd N d (KL b t)
                        (qacc_w (Z.to_nat ti) (Z.to_nat (xs_tf s - ti)) (weight c t) cs))
                 (xs_tg s) d)
            (cs_slots cs) d0).

Fixpoint fold_opt {A B} (f : A -> B -> option A) (l : list B) (a : A) : option A :=
  match l with
  | [] => Some a
  | x :: r => match f a x with Some a' => fold_opt f r a' | None => None end
  end.

Definition max_duration (css : list csamples) : Z :=
  fold_left (fun m cs => Z.max m (lenz (cs_amp cs))) css 0.

(** [cs = samples.extend_duration(max) if samples.duration != max else samples] *)
Definition ext_to (N : Z) (cs : csamples) : csamples :=
  if lenz (cs_amp cs) =? N then cs
  else match extend cs N with Some cs' => cs' | None => cs end.

Definition prepared (chans : list chan) (N : Z) : ndict :=
  if in_xy chans then [(KG 2, zq N)] else [].

Definition nested (all_local : bool) (chans : list chan) (mask : list Z)
  : option ndict :=
  let css := map get_samples chans in
  let N := max_duration css in
  let (mt, mend) := slm_mask chans mask in
  fold_opt (chan_step all_local N mt mend)
           (combine chans (map (ext_to N) css)) (prepared chans N).

(** * get_qubit_weight_map, generic part: the weight of an atom is the sum of
      the weights of the traps that match its position *)
Definition weight_sum (matches : list bool) (weights : list T) : T :=
  fold_left (fun (acc : T) (mw : bool * T) =>
               if fst mw then add acc (snd mw) else acc)
            (combine matches weights) zero.

End Sampler.

(** * Float instance (what runs against /repo) *)
Definition f_isclose (x y : float) : bool :=
  (* np.isclose(x, y, atol=10**-6) with the default rtol=1e-5 *)
  f_le (abs (x - y)) (0x1.0c6f7a0b5ed8dp-20 + 0x1.4f8b588e368f1p-17 * abs y)%float
  || f_eq x y.

Fixpoint f_allclose (a b : list float) : bool :=
  match a, b with
  | x :: r, y :: s => f_isclose x y && f_allclose r s
  | _, _ => true
  end.

(** traps: (coordinates, weight) in the order of [sorted_coords] *)
Definition f_weight_of (traps : list (list float * float)) (pos : list float) : float :=
  weight_sum float PrimFloat.zero PrimFloat.add
             (map (fun tr => f_allclose (fst tr) pos) traps) (map snd traps).

Definition f_weight_map (traps : list (list float * float))
           (qubits : list (Z * list float)) : list (Z * float) :=
  map (fun qp => (fst qp, f_weight_of traps (snd qp))) qubits.

Definition fone : float := 0x1p+0%float.
Definition fpulse := pulse float.
Definition fchan := chan float.
Definition FP := mkPulse float.
Definition FS := mkSlot float.
Definition FE := mkEom float.
Definition FC := mkChan float.
Definition FK := KPulse float.
Definition FT := KTarget float.
Definition FD := KDelay float.

Definition f_get_samples := get_samples float PrimFloat.zero PrimFloat.add.
Definition f_extend := extend float PrimFloat.zero.
Definition f_extend_all := extend_all float PrimFloat.zero.
Definition f_nested := nested float PrimFloat.zero fone PrimFloat.add PrimFloat.mul.
Definition f_wf_chan := wf_chan float.
Definition f_slm_mask := slm_mask float.

(** ** Rendering as [sv] (run-length encoded arrays, bit equality) *)
Fixpoint unrle (l : list (float * Z)) : list float :=
  match l with
  | [] => []
  | (v, n) :: r => repeat v (Z.to_nat n) ++ unrle r
  end.

Fixpoint rle_go (cur : float) (n : Z) (l : list float) : list sv :=
  match l with
  | [] => [SL [SF cur; SZ n]]
  | x :: r => if f_biteq x cur then rle_go cur (n + 1) r
              else SL [SF cur; SZ n] :: rle_go x 1 r
  end.
Definition rle (l : list float) : sv :=
  match l with [] => SL [] | x :: r => SL (rle_go x 1 r) end.

Definition sv_Zs (l : list Z) : sv := SL (map SZ l).

Definition sv_xslot (s : xslot) : sv :=
  SL [SZ (xs_ti s); SZ (xs_tf s); sv_Zs (xs_tg s)].

Definition sv_cs (cs : csamples float) : sv :=
  SL [rle (cs_amp float cs); rle (cs_det float cs); rle (cs_phase float cs);
      SL (map sv_xslot (cs_slots float cs)); sv_Zs (cs_init_tg float cs)].

Definition sv_arrs (o : option (csamples float)) : sv :=
  match o with
  | None => SL []
  | Some cs => SL [rle (cs_amp float cs); rle (cs_det float cs); rle (cs_phase float cs)]
  end.

Definition sv_qty (o : option (qty float)) : sv :=
  match o with
  | None => SL []
  | Some q => SL [rle (q_amp float q); rle (q_det float q); rle (q_phase float q)]
  end.

(** canonical listing of a nested dict: for each basis 0..2 the global entry,
    then for each basis and each atom (in the given order) the local entry *)
Definition sv_nested (qids : list Z) (o : option (ndict float)) : sv :=
  match o with
  | None => SB false
  | Some d =>
      SL [SL (map (fun b => sv_qty (look float d (KG b))) [0; 1; 2]);
          SL (map (fun b => SL (map (fun q => sv_qty (look float d (KL b q))) qids))
                  [0; 1; 2])]
  end.

(** where two renderings differ (debugging aid for the correspondence) *)
Fixpoint sv_diff_path (a b : sv) {struct a} : list Z :=
  match a, b with
  | SL x, SL y =>
      (fix go (i : Z) (l1 l2 : list sv) {struct l1} : list Z :=
         match l1, l2 with
         | [], [] => []
         | a1 :: r1, a2 :: r2 =>
             if sv_eqb a1 a2 then go (i + 1) r1 r2 else i :: sv_diff_path a1 a2
         | _, _ => [i; -1]
         end) 0 x y
  | _, _ => if sv_eqb a b then [] else [-2]
  end.

(** everything the correspondence compares for one sequence *)
Definition f_render (chans : list fchan) (mask qids : list Z) (ext_ok ext_bad : Z) : sv :=
  let css := map f_get_samples chans in
  SL [SB (forallb f_wf_chan chans);
      SL (map sv_cs css);
      (let m := f_slm_mask chans mask in SL [sv_Zs (fst m); SZ (snd m)]);
      SL (map (fun cs => sv_arrs (f_extend cs ext_ok)) css);
      SL (map (fun cs => SB (match f_extend cs ext_bad with None => true | Some _ => false end)) css);
      (* SequenceSamples.extend_duration(max_duration), twice *)
      (let N := max_duration float css in
       match f_extend_all css N with
       | Some c1 => match f_extend_all c1 N with
                    | Some c2 => SL (map (fun c => sv_arrs (Some c)) c2)
                    | None => SB false
                    end
       | None => SB false
       end);
      sv_nested qids (f_nested false chans mask);
      sv_nested qids (f_nested true chans mask);
      SL (map (fun c => SL (map (fun qw => SL [SZ (fst qw); SF (snd qw)]) (c_w float c))) chans)].
