(** C08 - glue for the correspondence: runs a whole case (template calls,
    then a list of builds) on Model/Param.v with a call-recording concrete
    builder, and renders what the implementation run also renders. *)
From Coq Require Import ZArith List Bool.
From Coq Require Import PrimFloat.
From PV Require Import Model.Base Model.Param.
Import ListNotations.
Open Scope Z_scope.

Definition err_of (c : Z) : err :=
  if c =? 1 then EValue else if c =? 2 then EType else if c =? 3 then ERuntime
  else if c =? 4 then EIndex else if c =? 5 then ENotImpl else if c =? 6 then EKey
  else if c =? 7 then EZeroDiv else EOther.

(** oracle tables for the functions numpy computes *)
Definition ofun_tab (tab : list (Z * float * float)) (op : Z) (x : float) : float :=
  match find (fun e => (fst (fst e) =? op) && f_biteq (snd (fst e)) x) tab with
  | Some e => snd e
  | None => nan
  end.
Definition opow_tab (tab : list (float * float * float)) (x y : float) : float :=
  match find (fun e => f_biteq (fst (fst e)) x && f_biteq (snd (fst e)) y) tab with
  | Some e => snd e
  | None => nan
  end.

(** heap construction in creation order (ParamObj.__init__ collects variables) *)
Inductive hdef := DVar (n : Z) | DItem (n : Z) (k : key) | DObj (cls : Z) (args : list parg).
Definition heap_of (defs : list hdef) : heap :=
  fold_left (fun h d => h ++ [match d with
                              | DVar n => HVar n
                              | DItem n k => HItem n k
                              | DObj cls args => HObj (new_obj h cls args)
                              end]) defs [].

(** the recording builder *)
Definition Srec := list ccall.
Definition rec_step (fail : option (Z * Z)) (s : Srec) (c : ccall) : res Srec :=
  match fail with
  | Some (k, e) => if Z.of_nat (length s) =? k then Err (err_of e) else Ok (s ++ [c])
  | None => Ok (s ++ [c])
  end.
(** [_set_register]'s own check (a targeted qubit without a trap) depends on
    the template's schedule: oracle, like the failures of concrete calls *)
Definition rec_setreg (fail : option (Z * Z)) (s : Srec) (reg : list (Z * Z)) : res Srec :=
  match fail with
  | Some (k, e) =>
      if Z.of_nat (length s) =? k then Err (err_of e)
      else Ok (s ++ [(C_SETREG, map (fun p => VO CLS_LIST [VN (NI (fst p)); VN (NI (snd p))]) reg)])
  | None => Ok (s ++ [(C_SETREG, map (fun p => VO CLS_LIST [VN (NI (fst p)); VN (NI (snd p))]) reg)])
  end.
Definition tmpl_step (tout : Z) (s : Srec) (c : ccall) : res Srec :=
  if tout =? 0 then Ok (s ++ [c]) else Err (err_of tout).
Definition tmpl_pcheck (tout : Z) (_ _ : list pcall) (_ : pcall) : res unit :=
  if tout =? 0 then Ok tt else Err (err_of tout).

Definition res_code {A} (r : res A) : Z := match r with Ok _ => 0 | Err e => err_code e end.

(** template: every issued call comes with the outcome the implementation
    showed for the part of the call the parametrized layer does not decide *)
Fixpoint run_tmpl (t : tmpl Srec) (h : heap) (ops : list (icall * Z)) : tmpl Srec * list Z :=
  match ops with
  | [] => (t, [])
  | (ic, tout) :: r =>
      let '(t1, res1) := tstep Srec (tmpl_step tout) (tmpl_pcheck tout) t h ic in
      let '(t2, outs) := run_tmpl t1 h r in
      (t2, res_code res1 :: outs)
  end.

Definition larg_sv (a : larg) : sv :=
  match a with LLit v => value_sv v | LRef id => SL [SB true; SZ (Z.of_nat id)] end.
Definition parg_sv (a : parg) : sv :=
  match a with
  | ALit v => value_sv v
  | ARef id => SL [SB true; SZ (Z.of_nat id)]
  | AList l => SL [SZ CLS_LIST; SL (map larg_sv l)]
  end.
Definition pcall_sv (c : pcall) : sv := SL [SZ (pc_name c); SL (map parg_sv (pc_args c))].
Definition ccall_sv (c : ccall) : sv := SL [SZ (fst c); SL (map value_sv (snd c))].

Record bspec := mkB {
  b_qubits : option (list (Z * Z));
  b_env : list (Z * list num);
  b_fail : option (Z * Z) }.

Section Run.
  Variable ofun : Z -> float -> float.
  Variable opow : float -> float -> float.

  Fixpoint run_builds (t : tmpl Srec) (mp : option (list Z * Z)) (ps : pstate) (bs : list bspec)
    : list sv :=
    match bs with
    | [] => []
    | b :: r =>
        let '(ps', res1) := build ofun opow Srec (rec_step (b_fail b)) (rec_setreg (b_fail b)) t [] mp ps
                                  (b_qubits b) (b_env b) in
        SL [SZ (res_code res1);
            SL (match res1 with Ok s => map ccall_sv s | Err _ => [] end)]
        :: run_builds t mp ps' r
    end.

  Definition find_sv (mp : option (list Z * Z)) (ids : list Z) : sv :=
    match mp with
    | None => SL []
    | Some (declared, _) =>
        match find_indices declared ids with
        | Ok l => SL [SZ 0; SL (map SZ l)]
        | Err e => SL [SZ (err_code e); SL []]
        end
    end.

  Definition run_case (decl : list Z) (vs : vstore) (defs : list hdef) (ops : list (icall * Z))
             (mp : option (list Z * Z)) (bs : list bspec) (finds : list (list Z)) : sv :=
    let h := heap_of defs in
    let '(t, outs) := run_tmpl (mkTmpl Srec true [] [] [] decl) h ops in
    SL [SL (map SZ outs);
        SL (map pcall_sv (t_calls Srec t));
        SL (map pcall_sv (t_tobuild Srec t));
        SB (t_building Srec t);
        SL (run_builds t mp (mkPs vs h) bs);
        SL (map (find_sv mp) finds)].
End Run.
