(** Specification-side functions of the C06 theorems: the property statement
    ("the value at each nanosecond is the sum of the pulses scheduled at that
    time"; "each atom receives exactly the pulses that target it") written as
    direct, executable definitions over a schedule.  No proofs here. *)
From Coq Require Import ZArith List Bool.
From PV Require Import Model.Base Model.Sampler.
Import ListNotations.
Open Scope Z_scope.

Section Spec.
Variable T : Type.
Variable zero one : T.
Variable add mul : T -> T -> T.

Notation pslot := (pslot T).
Notation chan := (chan T).
Notation csamples := (csamples T).

(** pulse slot [s] is scheduled at time [t] *)
Definition covers (s : pslot) (t : Z) : bool :=
  (ps_ti T s <=? t) && (t <? ps_tf T s).

(** the first pulse slot scheduled at [t] (the only one on a well-formed timeline) *)
Definition find_cover (l : list pslot) (t : Z) : option pslot :=
  find (fun s => covers s t) l.

(** sum, in schedule order, of the samples [g] of the pulses whose samples
    extend over [t] *)
Definition sum_at (g : pulse T -> list T) (l : list pslot) (t : Z) (acc : T) : T :=
  fold_left
    (fun acc s =>
       if (ps_ti T s <=? t) && (t <? ps_ti T s + lenz T (g (ps_p T s)))
       then add acc (nthz T zero (g (ps_p T s)) (t - ps_ti T s)) else acc)
    l acc.

(** * The per-atom view *)
Inductive sel := Amp | Det | Phase.

Definition cs_get (s : sel) (cs : csamples) : list T :=
  match s with Amp => cs_amp T cs | Det => cs_det T cs | Phase => cs_phase T cs end.
Definition q_get (s : sel) (q : qty T) : list T :=
  match s with Amp => q_amp T q | Det => q_det T q | Phase => q_phase T q end.

(** what one (slot, target) pair of a channel adds to an atom's entry *)
Definition cval (s : sel) (c : chan) (cs : csamples) (q : Z) (t : Z) : T :=
  match s with
  | Det => mul (nthz T zero (cs_det T cs) t) (weight T zero one c q)
  | _ => nthz T zero (cs_get s cs) t
  end.

Definition in_slice (lo n t : Z) : bool :=
  (Z.max 0 lo <=? t) && (t <? Z.max 0 lo + Z.max 0 n).

(** contributions, in code order, of channel [c] (with its samples [cs]
    extended to the common duration) to the local entry of atom [q] on basis
    [b], quantity [s], at time [t] *)
Definition contrib_local (all_local : bool) (mt : list Z) (mend : Z)
           (b q : Z) (s : sel) (t : Z) (ccs : chan * csamples) : list T :=
  let (c, cs) := ccs in
  if negb (c_basis T c =? b) then []
  else if is_global_branch T all_local c then
    let start := if b =? 2 then mend else 0 in
    if start =? 0 then []
    else match cs_slots T cs with
         | [] => []
         | s0 :: _ =>
             flat_map (fun t' => if (t' =? q) && in_slice 0 start t
                                 then [nthz T zero (cs_get s cs) t] else [])
                      (set_minus (xs_tg s0) mt)
         end
  else
    flat_map
      (fun sl =>
         flat_map
           (fun t' =>
              let ti := slot_start T c mt mend sl t' in
              if (t' =? q) && in_slice ti (xs_tf sl - ti) t
              then [cval s c cs q t] else [])
           (xs_tg sl))
      (cs_slots T cs).

(** contributions to the global entry of basis [b] *)
Definition contrib_global (all_local : bool) (mend : Z)
           (b : Z) (s : sel) (t : Z) (N : Z) (ccs : chan * csamples) : list T :=
  let (c, cs) := ccs in
  if negb (c_basis T c =? b) then []
  else if is_global_branch T all_local c then
    let start := if b =? 2 then mend else 0 in
    if in_slice start N t then [nthz T zero (cs_get s cs) t] else []
  else [].

(** * The sequence-level quantities [to_nested_dict] works with *)
Definition seq_css (chans : list chan) : list csamples :=
  map (get_samples T zero add) chans.
(** [self.max_duration] *)
Definition seq_N (chans : list chan) : Z := max_duration T (seq_css chans).
(** each channel with its samples extended to the common duration *)
Definition seq_ext (chans : list chan) : list (chan * csamples) :=
  combine chans (map (ext_to T zero (seq_N chans)) (seq_css chans)).

End Spec.
