(** Reading of the regenerated decorator table (Gen/Api.v) and the typestate
    of the sequence model.  Definitions only. *)
From Coq Require Import ZArith List Bool String.
From PV Require Import Model.Base Model.Sched Model.Seq Gen.Api.
Import ListNotations.
Open Scope string_scope.

Fixpoint lookup (m : string) (t : list (string * (list string * list string)))
  : option (list string * list string) :=
  match t with
  | [] => None
  | (k, v) :: r => if String.eqb k m then Some v else lookup m r
  end.

Definition decorators (m : string) : list string :=
  match lookup m api_table with Some (d, _) => d | None => [] end.
Definition delegates (m : string) : list string :=
  match lookup m api_table with Some (_, c) => c | None => [] end.
Definition has (d : string) (l : list string) : bool := existsb (String.eqb d) l.

(** methods whose whole body is one call to a private helper *)
Definition pure_delegate (m : string) : option string :=
  if String.eqb m "target" then Some "_target"
  else if String.eqb m "target_index" then Some "_target"
  else if String.eqb m "delay" then Some "_delay"
  else None.

(** refused once the sequence is measured, as the source says *)
Definition src_blocked (m : string) : bool :=
  has "block_if_measured" (decorators m)
  || match pure_delegate m with
     | Some d => has d (delegates m) && has "block_if_measured" (decorators d)
     | None => false
     end.

(** inspection calls refused while the sequence is parametrized *)
Definition src_screened : list string :=
  map fst (filter (fun r => has "screen" (fst (snd r))) api_table).

(** calls recorded in the log of successful calls *)
Definition src_stored (m : string) : bool :=
  has "store" (decorators m) || has "verify_parametrization" (decorators m).

(** the public method an operation of the model stands for *)
Definition op_method (o : op) : string :=
  match o with
  | ODeclare _ _ _ => "declare_channel"
  | OTarget _ _ => "target"
  | OTargetIndex _ _ => "target_index"
  | ODelay _ _ _ => "delay"
  | OAdd _ _ _ => "add"
  | OAlign _ _ => "align"
  | OPhaseShift _ _ _ => "phase_shift"
  | OPhaseShiftIndex _ _ _ => "phase_shift_index"
  | OEnableEom _ _ _ _ _ _ => "enable_eom_mode"
  | OModifyEom _ _ _ _ _ _ => "modify_eom_setpoint"
  | ODisableEom _ _ => "disable_eom_mode"
  | OAddEom _ _ _ _ _ _ => "add_eom_pulse"
  | OMeasure _ => "measure"
  | OConfigDetMap _ _ => "config_detuning_map"
  | OAddDmm _ _ _ => "add_dmm_detuning"
  | OSetMag _ _ _ => "set_magnetic_field"
  | QDuration _ _ => "get_duration"
  | QEstimate _ _ _ => "estimate_added_delay"
  | QPhaseRef _ _ => "current_phase_ref"
  | QInEom _ => "is_in_eom_mode"
  | QAvailable => "available_channels"
  end.

(** operations of the model that can change a timeline *)
Definition timeline_op (o : op) : bool :=
  match o with
  | ODeclare _ _ _ | OTarget _ _ | OTargetIndex _ _ | ODelay _ _ _ | OAdd _ _ _
  | OAlign _ _ | OEnableEom _ _ _ _ _ _ | OModifyEom _ _ _ _ _ _ | ODisableEom _ _
  | OAddEom _ _ _ _ _ _ | OMeasure _ | OConfigDetMap _ _ | OAddDmm _ _ _ => true
  | _ => false
  end.

(** the channel an operation acts on *)
Definition op_channel (o : op) : option Z :=
  match o with
  | OTarget _ n | OTargetIndex _ n | ODelay _ n _ | OAdd _ n _ | OEnableEom n _ _ _ _ _
  | OModifyEom n _ _ _ _ _ | ODisableEom n _ | OAddEom n _ _ _ _ _ | OAddDmm _ n _ => Some n
  | _ => None
  end.
