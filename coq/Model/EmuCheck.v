(** C11 - the comparison of one implementation observation with the model,
    evaluated inside Coq by the generated cases files.  No proofs here. *)
From Coq Require Import ZArith List Bool.
From Coq Require Import Uint63 FloatOps SpecFloat PrimFloat.
From PV Require Import Model.Base Model.Emu Model.EmuHist.
Import ListNotations.
Open Scope Z_scope.

(** absolute tolerance on a probability: 1e-12 *)
Definition tol_inv : Z := 1000000000000.

Definition f_list_eqb (a b : list float) : bool :=
  sv_eqb (SL (map SF a)) (SL (map SF b)).

Definition res_floats_eqb (a b : res (list float)) : bool :=
  match a, b with
  | Ok x, Ok y => f_list_eqb x y
  | Err e, Err f => err_code e =? err_code f
  | _, _ => false
  end.

Definition err_of_code (c : Z) : err :=
  if c =? 1 then EValue else if c =? 2 then EType else if c =? 3 then ERuntime
  else if c =? 4 then EIndex else if c =? 5 then ENotImpl else if c =? 6 then EKey
  else if c =? 7 then EZeroDiv else EOther.

Inductive echeck :=
(** QutipResult._weights: [impl] = normalised weights over [unit] or an error code *)
| CWeights (meas d : Z) (n : nat) (matching : bool) (unit : Z) (probs : list Z)
           (impl : list Z + Z)
(** QutipState.bitstring_probabilities: [impl] in dictionary order *)
| CBitprobs (d : Z) (n : nat) (eig : list Z) (one : option Z) (cutoff unit : Z)
            (probs : list Z) (impl : list (Z * Z) + Z)
(** CoherentResults.sample_state (dense counts) *)
| CSampleLegacy (n : nat) (weights us : list float) (eps eps_p : float)
                (flip_us : list float) (impl : list Z)
(** QutipState.sample (dense counts) *)
| CSampleV2 (n : nat) (keys : list Z) (probs us : list float) (pfp pfn : float)
            (flip_us : list float) (impl : list Z)
(** QutipEmulator.set_evaluation_times and the result labels *)
| CEvalLegacy (rate : float) (T : Z) (v : evspec) (impl : list float + Z)
              (labels : list float)
(** QutipBackendV2.__init__: evaluation times held by the wrapped emulator *)
| CEvalV2 (rate : float) (T : Z) (default : option (list float)) (extra : list float)
          (impl : list float + Z)
(** pulser.math.multinomial.multinomial with the uniform draws supplied
    (boundary draws equal to a cumulative sum included) *)
| CMultinomial (probs us : list float) (impl : list Z)
(** SimulationResults._get_index_from_time *)
| CIndex (t tol : float) (times : list float) (impl : Z + Z)
(** the bad-atom map observed on one emulator after each step of a
    configuration history (constructor first) *)
| CHist (n : nat) (ops : list hop) (observed : list (list bool))
(** EmulationConfig creation (1 ok / error code) and re-creation *)
| CConfig (d : detimes) (first second : Z).

Definition run_check (c : echeck) : bool :=
  match c with
  | CWeights meas d n matching unit probs impl =>
      match weights_raw meas d n matching unit probs, impl with
      | Ok ws, inl x =>
          weights_close tol_inv unit ws x
          && zlist_eqb (support ws) (support x)
      | Err e, inr code => err_code e =? code
      | _, _ => false
      end
  | CBitprobs d n eig one cutoff unit probs impl =>
      match v2_bitprobs_res d n eig one cutoff probs, impl with
      | Ok m, inl x =>
          (* nothing above the cutoff: an empty dictionary on both sides *)
          if snd m =? 0 then match fst m, x with [], [] => true | _, _ => false end
          else bitprobs_close tol_inv unit m x
      | Err e, inr code => err_code e =? code
      | _, _ => false
      end
  | CSampleLegacy n weights us eps eps_p flip_us impl =>
      sortedb PrimFloat.ltb (cumsum PrimFloat.add weights)
      && zlist_eqb (sample_state_legacy n weights us eps eps_p flip_us) impl
  | CSampleV2 n keys probs us pfp pfn flip_us impl =>
      sortedb PrimFloat.ltb (cumsum PrimFloat.add probs)
      && zlist_eqb (sample_v2 n keys probs us pfp pfn flip_us) impl
  | CEvalLegacy rate T v impl labels =>
      let m := set_evaluation_times rate T v in
      match m, impl with
      | Ok ts, inl x => f_list_eqb ts x && f_list_eqb (eval_labels T ts) labels
      | Err e, inr code => err_code e =? code
      | _, _ => false
      end
  | CEvalV2 rate T default extra impl =>
      match v2_eval_times rate T default extra, impl with
      | Ok ts, inl x => f_list_eqb ts x
      | Err e, inr code => err_code e =? code
      | _, _ => false
      end
  | CMultinomial probs us impl =>
      sortedb PrimFloat.ltb (cumsum PrimFloat.add probs)
      && zlist_eqb (multinomial PrimFloat.ltb PrimFloat.add probs us) impl
  | CIndex t tol times impl =>
      match index_from_time t tol times, impl with
      | Ok k, inl x => k =? x
      | Err e, inr code => err_code e =? code
      | _, _ => false
      end
  | CHist n ops observed =>
      forallb2 (fun a b => forallb2 Bool.eqb a b) (trace_hist n hist_init ops) observed
  | CConfig d first second =>
      let code r := match r with Ok _ => 1 | Err e => - err_code e end in
      (code (config_init d) =? first) && (code (config_recreate d) =? second)
  end.

Definition run_case (cs : list echeck) : sv := SB (forallb run_check cs).

(** index of the first failing check of a case (diagnostics) *)
Fixpoint first_bad (k : Z) (cs : list echeck) : Z :=
  match cs with
  | [] => -1
  | c :: r => if run_check c then first_bad (k + 1) r else k
  end.
