(** C14 - executable model of Pulser's output modulation.

    Part 1 (generic number type [T], only operations, no laws): circular
    convolution, zero / edge padding, Python slicing, [Channel.modulate].
    The definitions are instantiated with [PrimFloat] for the correspondence
    check and with an abstract ordered ring in Proofs/ModulLaws.v.

    Part 2 ([PrimFloat], bit exact given the modulated array):
    [Channel.calc_modulation_buffer], [Waveform.modulation_buffers],
    [Waveform.modulated_samples], [Pulse.fall_time].

    Part 3 (integers): lengths and success/failure of
    [ChannelSamples.modulate] and [sampler.sample(modulation=True)].

    What is NOT modelled: that numpy's FFT with the Gaussian transfer function
    of [Channel.apply_modulation] is the circular convolution with a kernel;
    the kernel (impulse response) enters as an oracle input.  No proofs here. *)
From Coq Require Import ZArith List Bool Arith.
From Coq Require Import Uint63 FloatOps SpecFloat PrimFloat.
From PV Require Import Model.Base Model.Sched Model.Chan.
Import ListNotations.

(** * Part 1: generic signals *)
Section Signal.
  Variable T : Type.
  Variable t0 : T.
  Variables tadd tmul : T -> T -> T.

  (** [sumn n f = f 0 + ... + f (n-1)] *)
  Fixpoint sumn (n : nat) (f : nat -> T) : T :=
    match n with
    | O => t0
    | S k => tadd (sumn k f) (f k)
    end.

  Fixpoint lsum (l : list T) : T :=
    match l with
    | [] => t0
    | a :: r => tadd a (lsum r)
    end.

  (** circular index [(n - j) mod N] for [n, j < N] *)
  Definition cidx (N n j : nat) : nat := ((n + N - j) mod N)%nat.

  (** circular convolution of the signal [x] (as a function) with the kernel
      [w] (weight by circular offset), period [N] *)
  Definition cconvf (w : nat -> T) (N : nat) (x : nat -> T) (n : nat) : T :=
    sumn N (fun j => tmul (x j) (w (cidx N n j))).

  Definition sig_of (l : list T) : nat -> T := fun j => nth j l t0.

  Definition cconv (w : nat -> T) (x : list T) : list T :=
    let N := length x in
    map (cconvf w N (sig_of x)) (seq 0 N).

  (** [np.pad(x, p)] (constant zeros) and [np.pad(x, p, mode="edge")] *)
  Definition pad0 (p : nat) (x : list T) : list T :=
    repeat t0 p ++ x ++ repeat t0 p.

  Definition pad_edge (p : nat) (x : list T) : list T :=
    match x with
    | [] => []
    | a :: _ => repeat a p ++ x ++ repeat (last x a) p
    end.

  (** Python slicing [l[start:stop]] (step 1), [None] as [stop] is [py_from] *)
  Definition py_norm (len i : Z) : Z :=
    if (i <? 0)%Z then Z.max 0 (i + len) else Z.min i len.

  Definition py_slice {A} (l : list A) (start stop : Z) : list A :=
    let n := Z.of_nat (length l) in
    let a := py_norm n start in
    let b := py_norm n stop in
    firstn (Z.to_nat (b - a)) (skipn (Z.to_nat a) l).

  Definition py_from {A} (l : list A) (start : Z) : list A :=
    let n := Z.of_nat (length l) in
    skipn (Z.to_nat (py_norm n start)) l.

  (** [Channel.modulate(input_samples, keep_ends, eom)].
      [has_bw]: truthiness of [mod_bandwidth]; [tr]: [Channel.rise_time];
      [etr]: [eom_config.rise_time] when the channel has an EOM;
      [kern eom N]: the impulse response of [apply_modulation] for the
      selected bandwidth on [N] samples (oracle). *)
  Definition chan_modulate (has_bw : bool) (tr : nat) (etr : option nat)
             (kern : bool -> nat -> nat -> T)
             (x : list T) (keep_ends eom : bool) : res (list T) :=
    let go (e : bool) (pad : nat) : res (list T) :=
        if keep_ends then
          match x with
          | [] => if (pad + tr =? 0)%nat then Ok [] else Err EValue
          | _ =>
              let s := pad_edge (pad + tr) x in
              let m := cconv (kern e (length s)) s in
              Ok (py_slice m (Z.of_nat tr) (- Z.of_nat tr))
          end
        else
          let s := pad0 pad x in
          Ok (cconv (kern e (length s)) s) in
    if eom then
      match etr with
      | None => Err EType
      | Some p => go true p
      end
    else if negb has_bw then Ok x
    else go false tr.

  (** length of the result, as integer arithmetic only *)
  Definition chan_modulate_len (has_bw : bool) (tr : Z) (etr : option Z)
             (n : Z) (keep_ends eom : bool) : res Z :=
    let go (pad : Z) : res Z :=
        if keep_ends then
          if (n =? 0)%Z then (if (pad + tr =? 0)%Z then Ok 0%Z else Err EValue)
          else
            let m := (n + 2 * (pad + tr))%Z in
            Ok (py_norm m (- tr) - py_norm m tr)%Z
        else Ok (n + 2 * pad)%Z in
    if eom then
      match etr with
      | None => Err EType
      | Some p => go p
      end
    else if negb has_bw then Ok n
    else go tr.
End Signal.

Arguments py_slice {A} l start stop.
Arguments py_from {A} l start.

(** * Part 2: buffers and fall time (bit-exact on the modulated array) *)

(** [abs(samples - mod_samples) <= max_allowed_diff], element-wise; a size
    mismatch is a numpy broadcasting [ValueError] *)
Fixpoint diffs_ok (thr : float) (s m : list float) : res (list bool) :=
  match s, m with
  | [], [] => Ok []
  | a :: s', b :: m' =>
      match diffs_ok thr s' m' with
      | Ok r => Ok (f_le (abs (a - b)) thr :: r)
      | Err e => Err e
      end
  | _, _ => Err EValue
  end.

(** first index holding [true] ([np.argwhere(l)[0][0]]) *)
Fixpoint first_true (l : list bool) : option nat :=
  match l with
  | [] => None
  | true :: _ => Some O
  | false :: r => match first_true r with Some k => Some (S k) | None => None end
  end.

(** last index holding [true] ([np.argwhere(l)[-1][0]]) *)
Fixpoint last_true (l : list bool) : option nat :=
  match l with
  | [] => None
  | b :: r =>
      match last_true r with
      | Some k => Some (S k)
      | None => if b then Some O else None
      end
  end.

Definition f_thr_default : float := 0x1.47ae147ae147bp-7%float.   (* 1e-2 *)

(** [Channel.calc_modulation_buffer(input, mod, max_allowed_diff, eom)] given
    the rise time [tr] the code selects *)
Definition calc_buffers (tr : nat) (thr : float) (input modl : list float)
  : res (nat * nat) :=
  match diffs_ok thr (pad0 float zero tr input) modl with
  | Err e => Err e
  | Ok diffs =>
      let head := py_slice diffs 0 (Z.of_nat tr) in
      let tail := py_from diffs (- Z.of_nat tr) in
      let start := match last_true head with
                   | Some i => (tr - i - 1)%nat
                   | None => tr
                   end in
      let stop := match first_true tail with
                  | Some i => i
                  | None => tr
                  end in
      Ok (start, stop)
  end.

(** [Waveform.modulation_buffers(channel, eom)]; [modl] is what
    [channel.modulate(samples, eom=eom)] returned *)
Definition modulation_buffers (has_bw : bool) (tr : nat) (etr : option nat)
           (eom : bool) (input modl : list float) : res (nat * nat) :=
  if negb has_bw then Ok (O, O)
  else if eom then
    match etr with
    | None => Err EType
    | Some p => calc_buffers p f_thr_default input modl
    end
  else calc_buffers tr f_thr_default input modl.

(** [Waveform.modulated_samples(channel, eom)]: the buffers are those of the
    STANDARD modulation ([modulation_buffers(channel)] is called without
    [eom]) and the trim uses the channel's rise time, also when [eom] *)
Definition modulated_samples (tr : nat) (bufs : nat * nat) (modl : list float)
  : list float :=
  let '(start, stop) := bufs in
  py_slice modl (Z.of_nat tr - Z.of_nat start)
           (Z.of_nat (length modl) - Z.of_nat tr + Z.of_nat stop).

(** [Pulse.fall_time(channel, in_eom_mode)] from the end buffers of the
    amplitude and detuning waveforms *)
Definition fall_time (tr : nat) (etr : option nat) (in_eom : bool)
           (end_amp end_det : nat) : res nat :=
  if in_eom then
    match etr with
    | None => Err EOther        (* AttributeError: eom_config is None *)
    | Some p => Ok (p + Nat.max end_amp end_det)%nat
    end
  else Ok (tr + Nat.max end_amp end_det)%nat.

(** * Part 3: lengths of modulated channel samples *)

(** [Channel._eom_buffer_mod_bandwidth] and the constructor check that
    [dataclasses.replace(channel, mod_bandwidth=...)] re-runs *)
Definition f_half_ms : float := 0x1.0624dd2f1a9fcp-10%float.   (* 1e-3 *)
Definition eom_buffer_bw (buffer_time : Z) : float :=
  (MODBW_TO_TR / (f_of_Z buffer_time / f_of_Z 2 * f_half_ms))%float.
Definition bw_constructible (bw : float) : bool :=
  negb (f_le bw zero) && negb (f_gt bw (MODBW_TO_TR * f_1e3)%float).

Record msched := {
  ms_d : Z;                  (* ChannelSamples.duration = get_duration() *)
  ms_D : Z;                  (* get_duration(include_fall_time=True) *)
  ms_bw : option float;      (* channel.mod_bandwidth *)
  ms_eom : option (float * Z);  (* (eom bandwidth, Channel._eom_buffer_time) *)
  ms_blocks : Z              (* len(eom_blocks) *)
}.

Definition ms_has_bw (m : msched) : bool :=
  match ms_bw m with Some b => f_ne b zero | None => false end.

(** [ChannelSamples.modulate(channel_obj, max_duration)] followed by the
    slice [0:max_duration]: lengths of (amp, det, phase) *)
Definition samples_modulate_len (m : msched) : res (Z * Z * Z) :=
  let d := ms_d m in
  let tr := rise_time (ms_bw m) in
  let cut (n : Z) : Z := Z.min n (Z.max 0 (ms_D m)) in
  if (0 <? ms_blocks m)%Z then
    match ms_eom m with
    | None => Err EOther
    | Some (ebw, bt) =>
        let etr := rise_time (Some ebw) in
        if negb (bw_constructible (eom_buffer_bw bt)) then Err ENotImpl
        else if (d =? 0)%Z then Err EValue
        else
          let n := (d + 2 * Z.max tr etr)%Z in
          Ok (cut n, cut n, cut n)
    end
  else
    match chan_modulate_len (ms_has_bw m) tr None d false false with
    | Err e => Err e
    | Ok na =>
        match chan_modulate_len (ms_has_bw m) tr None d true false with
        | Err e => Err e
        | Ok nd =>
            (* phase: np.pad(phase, (0, na - d), mode="edge") *)
            if (d =? 0)%Z && negb (na - d =? 0)%Z then Err EValue
            else Ok (cut na, cut nd, cut na)
        end
    end.
