(** Executable model of [pulser/sequence/sequence.py] (non-parametrized
    building calls and queries) on top of [Model.Sched].  Statement order
    follows the Python code, decorators outermost first, and a raising call
    keeps whatever it had already mutated.  No proofs here. *)
From Coq Require Import ZArith List Bool.
From Coq Require Import Uint63 FloatOps SpecFloat PrimFloat.
From PV Require Import Model.Base Model.Sched.
Import ListNotations.
Open Scope Z_scope.
Open Scope monad_scope.

(** * Static environment *)
Record device := {
  d_chans : list (Z * ccfg);      (* channel id -> channel *)
  d_dmms : list (Z * ccfg);       (* dmm id -> DMM *)
  d_maxseq : option Z;
  d_reusable : bool;
  d_slm : bool
}.

Record senv := {
  v_dev : device;
  v_qids : list Z;                (* register.qubit_ids, declared order *)
  v_maps : list (Z * (float * float));   (* detuning map id -> (max w, sum w) *)
  v_oracle : list (Z * Z * (Z * Z))
}.

Definition env_of (v : senv) : env :=
  {| en_max := d_maxseq (v_dev v); en_oracle := v_oracle v |}.

Fixpoint assoc {A} (k : Z) (l : list (Z * A)) : option A :=
  match l with
  | [] => None
  | (k', a) :: r => if k' =? k then Some a else assoc k r
  end.

Definition memZ (x : Z) (l : list Z) : bool := existsb (Z.eqb x) l.
Definition subsetZ (a b : list Z) : bool := forallb (fun x => memZ x b) a.

(** * Phase references *)
Record qref := {
  r_times : list Z;        (* newest first *)
  r_phases : list float;   (* newest first *)
  r_used : Z
}.
Definition qref0 : qref := {| r_times := [0]; r_phases := [f_mod2pi zero]; r_used := 0 |}.
Definition r_last_phase (r : qref) : float := hd zero (r_phases r).
Definition r_last_time (r : qref) : Z := hd 0 (r_times r).

(** _PhaseTracker.__setitem__ restricted to what _QubitRef does: the time is
    always [r_used], which is >= every recorded time *)
Definition increment_phase (r : qref) (phi : float) : qref :=
  let ph := f_mod2pi (r_last_phase r + phi)%float in
  if memZ (r_used r) (r_times r) then
    (* overwrite the entry recorded at that time *)
    let fix upd (ts : list Z) (ps : list float) : list float :=
        match ts, ps with
        | t :: tr, p :: pr => if t =? r_used r then ph :: pr else p :: upd tr pr
        | _, _ => ps
        end in
    {| r_times := r_times r; r_phases := upd (r_times r) (r_phases r); r_used := r_used r |}
  else
    {| r_times := r_used r :: r_times r; r_phases := ph :: r_phases r; r_used := r_used r |}.

Definition update_last_used (r : qref) (t : Z) : qref :=
  {| r_times := r_times r; r_phases := r_phases r; r_used := Z.max (r_used r) t |}.

(** * User-level pulse descriptor (what the model is told about a Pulse) *)
Record upulse := {
  u_dur : Z;
  u_ext : bool;        (* both waveforms support change_duration *)
  u_phase : float;     (* pulse.phase (already reduced by Pulse.__init__) *)
  u_post : float;      (* pulse.post_phase_shift (already reduced) *)
  u_amax : float;      (* max of the non-NaN amplitude samples, -inf if none *)
  u_dabsmax : float;   (* max of the non-NaN |detuning| samples, -inf if none *)
  u_avg : float;       (* np.average(amplitude samples) *)
  u_dmax : float;      (* max of the non-NaN detuning samples, -inf if none *)
  u_dmin : float;      (* np.min(detuning samples) (NaN propagates) *)
  u_dd : bool;
  u_sum : list float  (* summary of the adjusted pulse's samples *)
}.

(** Channel.validate_pulse *)
Definition validate_pulse (c : ccfg) (u : upulse) : res unit :=
  if match c_maxamp c with Some m => f_gt (u_amax u) m | None => false end
  then Err EValue
  else if match c_maxdet c with
          | Some m => f_gt (f_round6 (u_dabsmax u)) m
          | None => false end
  then Err EValue
  else if f_lt zero (u_avg u) && f_lt (u_avg u) (c_minavg c)
  then Err EValue
  else Ok tt.

(** DMM.validate_pulse (after the base-class checks) *)
Definition validate_pulse_dmm (c : ccfg) (w : float * float) (u : upulse) : res unit :=
  rbind (validate_pulse c u) (fun _ =>
  if f_gt (f_round6 (u_dmax u)) zero then Err EValue
  else
    let mn := f_round6 (u_dmin u) in
    if match c_bottom c with
       | Some b => f_lt (fst w * mn)%float b
       | None => false end
    then Err EValue
    else if match c_totbottom c with
            | Some b => f_lt (snd w * mn)%float b
            | None => false end
    then Err EValue
    else Ok tt).

(** * Sequence state *)
Inductive op :=
| ODeclare (name chid : Z) (init : option (list Z))
| OTarget (qs : list Z) (ch : Z)
| OTargetIndex (idx : list Z) (ch : Z)
| ODelay (d : Z) (ch : Z) (at_rest : bool)
| OAdd (u : upulse) (ch : Z) (proto : Z)
| OAlign (chs : list Z) (at_rest : bool)
| OPhaseShift (phi : float) (qs : list Z) (basis : Z)
| OPhaseShiftIndex (phi : float) (idx : list Z) (basis : Z)
| OEnableEom (ch : Z) (amp_on det_on opt_off det_off : float) (correct : bool)
| OModifyEom (ch : Z) (amp_on det_on opt_off det_off : float) (correct : bool)
| ODisableEom (ch : Z) (correct : bool)
| OAddEom (ch d : Z) (phase post : float) (proto : Z) (correct : bool)
| OMeasure (basis : Z)
| OConfigDetMap (mapid dmm : Z)
| OAddDmm (u : upulse) (ch : Z) (proto : Z)
| OSetMag (bx by_ bz : float)
(* read-only queries *)
| QDuration (ch : option Z) (fall : bool)
| QEstimate (u : upulse) (ch : Z) (proto : Z)
| QPhaseRef (q basis : Z)
| QInEom (ch : Z)
| QAvailable.

Record seq := {
  q_sched : sched;
  q_refs : list (Z * list (Z * qref));   (* basis -> qubit -> ref, insertion order *)
  q_inxy : bool;
  q_inising : bool;
  q_mag : option (float * float * float);
  q_measured : option Z;
  q_empty : bool;
  q_log : list op                        (* _calls[1:], NEWEST FIRST *)
}.

Definition seq0 : seq :=
  {| q_sched := []; q_refs := []; q_inxy := false; q_inising := false;
     q_mag := None; q_measured := None; q_empty := true; q_log := [] |}.

Definition QM := M seq.

Definition set_sched (s : seq) (x : sched) : seq :=
  {| q_sched := x; q_refs := q_refs s; q_inxy := q_inxy s; q_inising := q_inising s;
     q_mag := q_mag s; q_measured := q_measured s; q_empty := q_empty s; q_log := q_log s |}.
Definition set_refs (s : seq) (x : list (Z * list (Z * qref))) : seq :=
  {| q_sched := q_sched s; q_refs := x; q_inxy := q_inxy s; q_inising := q_inising s;
     q_mag := q_mag s; q_measured := q_measured s; q_empty := q_empty s; q_log := q_log s |}.
Definition set_inxy (s : seq) (x : bool) : seq :=
  {| q_sched := q_sched s; q_refs := q_refs s; q_inxy := x; q_inising := q_inising s;
     q_mag := q_mag s; q_measured := q_measured s; q_empty := q_empty s; q_log := q_log s |}.
Definition set_inising (s : seq) (x : bool) : seq :=
  {| q_sched := q_sched s; q_refs := q_refs s; q_inxy := q_inxy s; q_inising := x;
     q_mag := q_mag s; q_measured := q_measured s; q_empty := q_empty s; q_log := q_log s |}.
Definition set_mag (s : seq) (x : option (float * float * float)) : seq :=
  {| q_sched := q_sched s; q_refs := q_refs s; q_inxy := q_inxy s; q_inising := q_inising s;
     q_mag := x; q_measured := q_measured s; q_empty := q_empty s; q_log := q_log s |}.
Definition set_measured (s : seq) (x : option Z) : seq :=
  {| q_sched := q_sched s; q_refs := q_refs s; q_inxy := q_inxy s; q_inising := q_inising s;
     q_mag := q_mag s; q_measured := x; q_empty := q_empty s; q_log := q_log s |}.
Definition set_empty (s : seq) (x : bool) : seq :=
  {| q_sched := q_sched s; q_refs := q_refs s; q_inxy := q_inxy s; q_inising := q_inising s;
     q_mag := q_mag s; q_measured := q_measured s; q_empty := x; q_log := q_log s |}.
Definition set_log (s : seq) (x : list op) : seq :=
  {| q_sched := q_sched s; q_refs := q_refs s; q_inxy := q_inxy s; q_inising := q_inising s;
     q_mag := q_mag s; q_measured := q_measured s; q_empty := q_empty s; q_log := x |}.

(** run a schedule-level computation on the sequence's schedule *)
Definition onsched {A} (m : SM A) : QM A :=
  fun s => match m (q_sched s) with
           | (x, r) => (set_sched s x, r)
           end.

Definition modify (f : seq -> seq) : QM unit := fun s => (f s, Ok tt).
Definition guard (b : bool) (e : err) : QM unit :=
  if b then fail e else ret tt.
Definition log_call (o : op) : QM unit :=
  modify (fun s => set_log s (o :: q_log s)).

(** decorators *)
Definition block_if_measured : QM unit :=
  s <- get ;;
  match q_measured s with Some _ => fail ERuntime | None => ret tt end.
Definition mark_non_empty : QM unit := modify (fun s => set_empty s false).

(** name classes: user names < 900; user names that start with "dmm_" are
    coded 900..999; generated DMM names are >= 1000 *)
Definition name_is_dmm_like (n : Z) : bool := 900 <=? n.

(** declared_channels (non-parametrized: exactly the schedule keys) *)
Definition declared (n : Z) : QM chan :=
  s <- get ;;
  match find_chan n (q_sched s) with
  | Some c => ret c
  | None => fail EValue
  end.

(** Sequence._validate_channel *)
Definition validate_channel (n : Z) (block_eom : bool) : QM chan :=
  c <- declared n ;;
  guard (block_eom && in_eom c) ERuntime ;;;
  ret c.

(** references *)
Definition get_ref (s : seq) (basis q : Z) : option qref :=
  match assoc basis (q_refs s) with
  | Some l => assoc q l
  | None => None
  end.

Fixpoint upd_assoc {A} (k : Z) (f : A -> A) (l : list (Z * A)) : list (Z * A) :=
  match l with
  | [] => []
  | (k', a) :: r => if k' =? k then (k', f a) :: r else (k', a) :: upd_assoc k f r
  end.

Definition upd_ref (basis q : Z) (f : qref -> qref) : QM unit :=
  modify (fun s => set_refs s (upd_assoc basis (upd_assoc q f) (q_refs s))).

Fixpoint mapM_ {S A} (f : A -> M S unit) (l : list A) : M S unit :=
  match l with
  | [] => ret tt
  | a :: r => f a ;;; mapM_ f r
  end.

(** Sequence._phase_shift (non-index, concrete phi) *)
Definition phase_shift_ (v : senv) (phi : float) (qs : list Z) (basis : Z) : QM unit :=
  s <- get ;;
  match assoc basis (q_refs s) with
  | None => fail EValue
  | Some _ =>
      let tg := match qs with [] => v_qids v | _ => qs end in
      guard (negb (subsetZ tg (v_qids v))) EValue ;;;
      mapM_ (fun q => upd_ref basis q (fun r => increment_phase r phi)) tg
  end.

(** index -> id with Python list indexing (negative indices allowed) *)
Definition index_ids (v : senv) (idx : list Z) : res (list Z) :=
  let n := Z.of_nat (length (v_qids v)) in
  fold_right (fun i acc =>
    rbind acc (fun l =>
      if (i <? - n) || (n <=? i) then Err EIndex
      else Ok (nth (Z.to_nat (if i <? 0 then i + n else i)) (v_qids v) 0 :: l)))
    (Ok []) idx.

(** sorted, duplicate-free list from a list (Python set semantics) *)
Fixpoint insert_sorted (x : Z) (l : list Z) : list Z :=
  match l with
  | [] => [x]
  | y :: r => if x <? y then x :: l else if x =? y then l else y :: insert_sorted x r
  end.
Definition to_set (l : list Z) : list Z := fold_right insert_sorted [] l.

Definition all_same_phase (s : seq) (basis : Z) (qs : list Z) : bool :=
  match qs with
  | [] => false
  | q0 :: _ =>
      match get_ref s basis q0 with
      | None => false
      | Some r0 =>
          forallb (fun q => match get_ref s basis q with
                            | Some r => f_eq (r_last_phase r) (r_last_phase r0)
                            | None => false end) qs
      end
  end.

(** Sequence._target *)
Definition target_ (v : senv) (ids : res (list Z)) (nq : Z) (n : Z) : QM unit :=
  block_if_measured ;;;
  c <- validate_channel n true ;;
  guard (nq =? 0) EValue ;;;
  guard (negb (c_local (ch_cfg c))) EValue ;;;
  guard (match c_maxtg (ch_cfg c) with Some m => nq >? m | None => false end) EValue ;;;
  ids <- lift ids ;;
  let ids := to_set ids in
  guard (negb (subsetZ ids (v_qids v))) EValue ;;;
  s <- get ;;
  guard (negb (all_same_phase s (c_basis (ch_cfg c)) ids)) EValue ;;;
  onsched (add_target (env_of v) ids n).

(** Sequence._delay *)
Definition delay_ (v : senv) (d n : Z) (at_rest : bool) : QM unit :=
  block_if_measured ;;;
  _ <- validate_channel n false ;;
  (if at_rest then onsched (wait_for_fall (env_of v) n) else ret tt) ;;;
  if d =? 0 then ret tt
  else onsched (add_delay (env_of v) d n).

(** Sequence._validate_and_adjust_pulse *)
Definition validate_and_adjust (v : senv) (c : chan) (u : upulse) (phase_ref : option float)
  : res pulse :=
  rbind (if c_dmm (ch_cfg c) then
           match ch_map c with
           | Some m => match assoc m (v_maps v) with
                       | Some w => validate_pulse_dmm (ch_cfg c) w u
                       | None => Err EKey end
           | None => Err EKey
           end
         else validate_pulse (ch_cfg c) u) (fun _ =>
  rbind (validate_duration (ch_cfg c) (u_dur u)) (fun d' =>
  let ph := match phase_ref with
            | Some r => if f_ne r zero then (u_phase u + r)%float else (u_phase u + zero)%float
            | None => (u_phase u + zero)%float
            end in
  if negb (d' =? u_dur u) && negb (u_ext u) then Err EType
  else Ok {| p_dur := d'; p_phase := f_mod2pi ph; p_post := f_mod2pi (u_post u);
             p_fstd := 0; p_feom := 0; p_dd := u_dd u; p_sum := u_sum u;
             p_amax := u_amax u |})).

Definition valid_proto (p : Z) : bool := (0 <=? p) && (p <=? 2).

(** the common front part of _add and estimate_added_delay *)
Definition add_prepare (v : senv) (u : upulse) (n : Z)
  : QM (chan * slot * pulse * list Z) :=
  c <- declared n ;;
  last <- onsched (last_slot n) ;;
  s <- get ;;
  let basis := c_basis (ch_cfg c) in
  guard (negb (c_dmm (ch_cfg c)) && negb (all_same_phase s basis (s_tg last))) EValue ;;;
  let pref := if c_dmm (ch_cfg c) then None
              else match s_tg last with
                   | q :: _ => option_map r_last_phase (get_ref s basis q)
                   | [] => None end in
  p <- lift (validate_and_adjust v c u pref) ;;
  let barriers := map (fun q => match get_ref s basis q with
                                | Some r => r_last_time r | None => 0 end) (s_tg last) in
  ret (c, last, p, barriers).

(** Sequence._add (non-parametrized; SLM-mask follow-up not modelled here) *)
Definition add_ (v : senv) (u : upulse) (n : Z) (proto : Z) (dp : option drift) : QM unit :=
  guard (negb (valid_proto proto)) EValue ;;;
  x <- add_prepare v u n ;;
  let '(c, last, p, barriers) := x in
  let basis := c_basis (ch_cfg c) in
  onsched (add_pulse (env_of v) p n barriers proto dp) ;;;
  new <- onsched (last_slot n) ;;
  mapM_ (fun q => upd_ref basis q (fun r => update_last_used r (s_tf new))) (s_tg last) ;;;
  let total := match dp with
               | Some d => (p_post p - calc_phase_drift d (s_ti new))%float
               | None => p_post p
               end in
  if f_ne total zero then phase_shift_ v total (s_tg last) basis else ret tt.

(** Sequence._get_last_eom_pulse_phase_drift *)
Definition last_eom_drift (c : chan) : drift :=
  match ch_eoms c with
  | b :: _ =>
      let lp := match last_pulse_slot true (ch_slots c) with
                | Some (sl, _) => s_tf sl | None => 0 end in
      {| dr_rate := (- eb_doff b)%float; dr_ti := Z.max (eb_ti b) lp |}
  | [] => {| dr_rate := zero; dr_ti := 0 |}
  end.

(** availability of a device channel / DMM id (Sequence.available_channels) *)
Definition occupied (s : seq) (id : Z) : bool :=
  existsb (fun c => ch_id c =? id) (q_sched s).

Definition available (v : senv) (s : seq) (id : Z) (cfg : ccfg) : bool :=
  if negb (q_inxy s) && negb (q_inising s) then true
  else
    (negb (occupied s id) || d_reusable (v_dev v))
    && (if q_inxy s then (c_basis cfg =? 2) || c_dmm cfg
        else negb (c_basis cfg =? 2)).

Definition default_mag : float * float * float :=
  (zero, zero, 0x1.ep+4%float).   (* (0.0, 0.0, 30.0) *)

(** Sequence.set_magnetic_field *)
Definition set_magnetic_field (b : float * float * float) : QM unit :=
  s <- get ;;
  (if negb (q_inxy s) then
     guard (match q_sched s with [] => false | _ => true end) EValue ;;;
     modify (fun s => set_inxy s true)
   else guard (negb (q_empty s)) EValue) ;;;
  let '(bx, by_, bz) := b in
  (* np.linalg.norm(v) == 0.0  <->  every component is (+-)0 or the squares
     underflow; the generator only uses 0 or values of magnitude >= 1e-3 *)
  guard (f_eq bx zero && f_eq by_ zero && f_eq bz zero) EValue ;;;
  modify (fun s => set_mag s (Some b)) ;;;
  log_call (OSetMag bx by_ bz).

Definition new_chan (name id : Z) (cfg : ccfg) (m : option Z) : chan :=
  {| ch_name := name; ch_id := id; ch_cfg := cfg; ch_slots := []; ch_eoms := [];
     ch_wait := false; ch_map := m |}.

Definition ensure_basis (v : senv) (basis : Z) : QM unit :=
  modify (fun s =>
    match assoc basis (q_refs s) with
    | Some _ => s
    | None => set_refs s (q_refs s ++ [(basis, map (fun q => (q, qref0)) (v_qids v))])
    end).

Definition all_qids_sorted (v : senv) : list Z := to_set (v_qids v).

(** Sequence.declare_channel *)
Definition declare_channel (v : senv) (name chid : Z) (init : option (list Z)) : QM unit :=
  block_if_measured ;;;
  guard (name_is_dmm_like name) EValue ;;;
  s <- get ;;
  guard (match find_chan name (q_sched s) with Some _ => true | None => false end) EValue ;;;
  match assoc chid (d_chans (v_dev v)) with
  | None => fail EValue
  | Some cfg =>
      guard (negb (available v s chid cfg)) EValue ;;;
      (if c_basis cfg =? 2 then
         (if negb (q_inxy s) then set_magnetic_field default_mag else ret tt) ;;;
         modify (fun s => set_inxy s true)
       else modify (fun s => set_inising s true)) ;;;
      modify (fun s => set_sched s (q_sched s ++ [new_chan name chid cfg None])) ;;;
      ensure_basis v (c_basis cfg) ;;;
      (if negb (c_local cfg) then
         onsched (append_slot name {| s_kind := KTarget; s_ti := -1; s_tf := 0;
                                      s_tg := all_qids_sorted v |})
       else match init with
            | Some qs => target_ v (Ok qs) (Z.of_nat (length (to_set qs))) name
            | None => ret tt
            end) ;;;
      log_call (ODeclare name chid init)
  end.

(** generated DMM names: dmm id [d] (codes >= 1000, multiples of 100) used for
    the k-th time is named d + k *)
Definition dmm_count (s : seq) (dmm : Z) : Z :=
  Z.of_nat (length (filter (fun c => ch_id c =? dmm) (q_sched s))).

(** Sequence._config_detuning_map *)
Definition config_detuning_map (v : senv) (mapid dmm : Z) : QM unit :=
  match assoc dmm (d_dmms (v_dev v)) with
  | None => fail EValue
  | Some cfg =>
      s <- get ;;
      guard (q_inxy s) EValue ;;;
      guard (negb (available v s dmm cfg)) EValue ;;;
      modify (fun s => set_inising s true) ;;;
      s <- get ;;
      let name := dmm + dmm_count s dmm in
      (* generated names are fresh in Python by construction ("dmm_" names are
         reserved); the model states it as an explicit, never-failing guard *)
      guard (match find_chan name (q_sched s) with Some _ => true | None => false end) EKey ;;;
      modify (fun s => set_sched s (q_sched s ++ [new_chan name dmm cfg (Some mapid)])) ;;;
      ensure_basis v 0 ;;;
      onsched (append_slot name {| s_kind := KTarget; s_ti := -1; s_tf := 0;
                                   s_tg := all_qids_sorted v |})
  end.

(** constant pulses the Sequence builds itself (EOM on/off pulses) *)
Definition const_upulse (d : Z) (amp det phase post : float) : upulse :=
  {| u_dur := d; u_ext := true; u_phase := f_mod2pi phase; u_post := f_mod2pi post;
     u_amax := amp; u_dabsmax := abs det; u_avg := amp; u_dmax := det; u_dmin := det;
     u_dd := f_eq amp zero; u_sum := [amp; amp; det; det] |}.

(** Sequence._process_eom_parameters (the chosen detuning_off is an oracle
    input here; its computation is modelled in Model.Eom) *)
Definition process_eom_parameters (c : chan) (amp_on det_on det_off : float) : res unit :=
  if f_lt amp_on zero then Err EValue
  else
    rbind (validate_pulse (ch_cfg c)
             (const_upulse (c_min (ch_cfg c)) amp_on det_on zero zero)) (fun _ =>
    validate_pulse (ch_cfg c)
             (const_upulse (c_min (ch_cfg c)) zero det_off zero zero)).

Definition chan_duration (n : Z) (fall : bool) : QM Z :=
  c <- declared n ;;
  ret (ch_duration c fall).

(** Sequence.enable_eom_mode *)
Definition enable_eom_mode (v : senv) (n : Z) (amp_on det_on opt_off det_off : float)
           (correct : bool) : QM unit :=
  block_if_measured ;;;
  c <- declared n ;;
  guard (in_eom c) ERuntime ;;;
  guard (match c_eom (ch_cfg c) with None => true | Some _ => false end) EType ;;;
  lift (process_eom_parameters c amp_on det_on det_off) ;;;
  ti <- chan_duration n true ;;
  let dp := {| dr_rate := (- det_off)%float; dr_ti := ti |} in
  onsched (enable_eom (env_of v) n amp_on det_on det_off false) ;;;
  (if correct then
     b <- onsched (last_slot n) ;;
     phase_shift_ v (- (calc_phase_drift dp (s_tf b)))%float (s_tg b) (c_basis (ch_cfg c))
   else ret tt) ;;;
  log_call (OEnableEom n amp_on det_on det_off det_off correct).

(** Sequence.modify_eom_setpoint *)
Definition modify_eom_setpoint (v : senv) (n : Z) (amp_on det_on opt_off det_off : float)
           (correct : bool) : QM unit :=
  block_if_measured ;;;
  c <- declared n ;;
  guard (negb (in_eom c)) ERuntime ;;;
  lift (process_eom_parameters c amp_on det_on det_off) ;;;
  onsched (disable_eom (env_of v) n true) ;;;
  c1 <- declared n ;;
  let old := last_eom_drift c1 in
  ti <- chan_duration n false ;;
  let new := {| dr_rate := (- det_off)%float; dr_ti := ti |} in
  onsched (enable_eom (env_of v) n amp_on det_on det_off true) ;;;
  (if correct then
     b <- onsched (last_slot n) ;;
     phase_shift_ v
       (- (calc_phase_drift old (s_ti b) + calc_phase_drift new (s_tf b)))%float
       (s_tg b) (c_basis (ch_cfg c))
   else ret tt) ;;;
  log_call (OModifyEom n amp_on det_on det_off det_off correct).

(** Sequence.disable_eom_mode (body, inside store + block_if_measured) *)
Definition disable_eom_mode (v : senv) (n : Z) (correct : bool) : QM unit :=
  block_if_measured ;;;
  c <- declared n ;;
  guard (negb (in_eom c)) ERuntime ;;;
  onsched (disable_eom (env_of v) n false) ;;;
  (if correct then
     c1 <- declared n ;;
     let tf := match ch_eoms c1 with
               | b :: _ => match eb_tf b with Some t => t | None => 0 end
               | [] => 0 end in
     let dp := last_eom_drift c1 in
     l <- onsched (last_slot n) ;;
     phase_shift_ v (- (calc_phase_drift dp tf))%float (s_tg l) (c_basis (ch_cfg c1))
   else ret tt) ;;;
  log_call (ODisableEom n correct).

(** Sequence.add_eom_pulse *)
Definition add_eom_pulse (v : senv) (n d : Z) (phase post : float) (proto : Z)
           (correct : bool) : QM unit :=
  block_if_measured ;;;
  c <- declared n ;;
  guard (negb (in_eom c)) ERuntime ;;;
  guard (d <=? 0) EValue ;;;
  match ch_eoms c with
  | [] => fail EOther
  | b :: _ =>
      let u := const_upulse d (eb_rabi b) (eb_don b) phase post in
      guard (f_lt (eb_rabi b) zero) EValue ;;;
      let dp := if correct then Some (last_eom_drift c) else None in
      add_ v u n proto dp ;;;
      mark_non_empty ;;;
      log_call (OAddEom n d phase post proto correct)
  end.

(** Sequence.align *)
Fixpoint nodupZ (l : list Z) : bool :=
  match l with
  | [] => true
  | x :: r => negb (memZ x r) && nodupZ r
  end.

Definition align (v : senv) (chs : list Z) (at_rest : bool) : QM unit :=
  block_if_measured ;;;
  s <- get ;;
  guard (negb (forallb (fun n => match find_chan n (q_sched s) with
                                 | Some _ => true | None => false end) chs)) EValue ;;;
  guard (negb (nodupZ chs)) EValue ;;;
  guard (Z.of_nat (length chs) <? 2) EValue ;;;
  let last_ts := map (fun n => match find_chan n (q_sched s) with
                               | Some c => (n, ch_duration c at_rest)
                               | None => (n, 0) end) chs in
  let tf := fold_left (fun a x => Z.max a (snd x)) last_ts 0 in
  mapM_ (fun n : Z =>
           c <- declared n ;;
           let delta := tf - ch_duration c false in
           if delta >? 0 then
             d <- lift (adjust_duration (ch_cfg c) delta) ;;
             delay_ v d n false
           else ret tt) chs ;;;
  log_call (OAlign chs at_rest).

(** Sequence.measure *)
Definition supported_basis (v : senv) (b : Z) : bool :=
  existsb (fun x => c_basis (snd x) =? b) (d_chans (v_dev v)).

Definition measure (v : senv) (basis : Z) : QM unit :=
  block_if_measured ;;;
  s <- get ;;
  guard (negb (if q_inxy s then basis =? 2
               else supported_basis v basis && negb (basis =? 2))) EValue ;;;
  modify (fun s => set_measured s (Some basis)) ;;;
  log_call (OMeasure basis).

(** Sequence.estimate_added_delay *)
Definition estimate_added_delay (v : senv) (u : upulse) (n : Z) (proto : Z) : QM Z :=
  _ <- declared n ;;
  guard (negb (valid_proto proto)) EValue ;;;
  x <- add_prepare v u n ;;
  let '(c, last, p, barriers) := x in
  sl <- onsched (make_next_pulse_slot (env_of v) p n barriers proto None false) ;;
  ret (s_ti sl - s_tf last).

Definition unit_sv : sv := SL [].

(** * One building call or query *)
Definition step_m (v : senv) (o : op) : QM sv :=
  match o with
  | ODeclare name chid init => declare_channel v name chid init ;;; ret unit_sv
  | OTarget qs n =>
      target_ v (Ok qs) (Z.of_nat (length (to_set qs))) n ;;;
      log_call o ;;; ret unit_sv
  | OTargetIndex idx n =>
      target_ v (index_ids v idx) (Z.of_nat (length (to_set idx))) n ;;;
      log_call o ;;; ret unit_sv
  | ODelay d n at_rest => delay_ v d n at_rest ;;; log_call o ;;; ret unit_sv
  | OAdd u n proto =>
      block_if_measured ;;;
      c <- validate_channel n true ;;
      guard (c_dmm (ch_cfg c)) EValue ;;;
      add_ v u n proto None ;;;
      mark_non_empty ;;; log_call o ;;; ret unit_sv
  | OAlign chs at_rest => align v chs at_rest ;;; ret unit_sv
  | OPhaseShift phi qs basis => phase_shift_ v phi (to_set qs) basis ;;; log_call o ;;; ret unit_sv
  | OPhaseShiftIndex phi idx basis =>
      s <- get ;;
      match assoc basis (q_refs s) with
      | None => fail EValue
      | Some _ =>
          ids <- lift (match idx with [] => Ok [] | _ => index_ids v idx end) ;;
          phase_shift_ v phi (to_set ids) basis ;;; log_call o ;;; ret unit_sv
      end
  | OEnableEom n a d oo doff correct => enable_eom_mode v n a d oo doff correct ;;; ret unit_sv
  | OModifyEom n a d oo doff correct => modify_eom_setpoint v n a d oo doff correct ;;; ret unit_sv
  | ODisableEom n correct => disable_eom_mode v n correct ;;; ret unit_sv
  | OAddEom n d ph po proto correct => add_eom_pulse v n d ph po proto correct ;;; ret unit_sv
  | OMeasure b => measure v b ;;; ret unit_sv
  | OConfigDetMap m dmm =>
      block_if_measured ;;; config_detuning_map v m dmm ;;; log_call o ;;; ret unit_sv
  | OAddDmm u n proto =>
      block_if_measured ;;;
      c <- validate_channel n false ;;
      guard (negb (c_dmm (ch_cfg c))) EValue ;;;
      add_ v u n proto None ;;;
      mark_non_empty ;;; log_call o ;;; ret unit_sv
  | OSetMag bx by_ bz => set_magnetic_field (bx, by_, bz) ;;; ret unit_sv
  | QDuration ch fall =>
      s <- get ;;
      match ch with
      | Some n => _ <- declared n ;; ret tt
      | None => ret tt
      end ;;;
      z <- lift (sched_duration (q_sched s) ch fall) ;;
      ret (SZ z)
  | QEstimate u n proto => z <- estimate_added_delay v u n proto ;; ret (SZ z)
  | QPhaseRef q basis =>
      s <- get ;;
      guard (negb (memZ q (v_qids v))) EValue ;;;
      match get_ref s basis q with
      | Some r => ret (SF (r_last_phase r))
      | None => fail EValue
      end
  | QInEom n => c <- declared n ;; ret (SB (in_eom c))
  | QAvailable =>
      s <- get ;;
      ret (SL (map (fun x => SZ (fst x))
                   (filter (fun x => available v s (fst x) (snd x))
                           (d_chans (v_dev v) ++ d_dmms (v_dev v)))))
  end.

Definition step (v : senv) (s : seq) (o : op) : seq * res sv := step_m v o s.

Definition run (v : senv) (ops : list op) : seq :=
  fold_left (fun s o => fst (step v s o)) ops seq0.
