(** C11 - the badly-prepared-atom map of one [Hamiltonian] object through a
    history of (re)configurations and runs (hamiltonian.py [set_config],
    [_update_noise]; simulation.py [run] / [_noisy_runs], state-preparation
    errors as the only stochastic noise).  The uniform draws are inputs.
    Definitions only. *)
From Coq Require Import ZArith List Bool.
From Coq Require Import Uint63 FloatOps SpecFloat PrimFloat.
From PV Require Import Model.Base Model.Emu.
Import ListNotations.
Open Scope Z_scope.

(** the projection of a NoiseModel that the bad-atom logic reads *)
Record hcfg := { h_spam : bool; h_eta : float }.

(** ["SPAM" in noise_types and state_prep_error > 0] *)
Definition prep (c : hcfg) : bool := h_spam c && PrimFloat.ltb zero (h_eta c).

Record hstate := { s_cfg : hcfg; s_bad : list bool }.

(** [np.random.uniform(size=n) < eta] *)
Definition draw (eta : float) (us : list float) : list bool :=
  map (fun u => PrimFloat.ltb u eta) us.

Definition all_good (n : nat) : list bool := repeat false n.

Definition code_of (b : list bool) : Z :=
  undigits 2 (map (fun x : bool => if x then 1 else 0) b).
Definition bools_of (n : nat) (c : Z) : list bool :=
  map (fun d => d =? 1) (digits 2 n c).

(** what the code does with the configuration string under numpy >= 2:
    [np.array(list("010")).astype(bool)] casts every NON-EMPTY string to True
    (numpy 1 parsed the digits), so every character, "0" included, reads True *)
Definition str_truth (d : Z) : bool := true.
Definition loaded_of (n : nat) (c : Z) : list bool := map str_truth (digits 2 n c).

(** the configuration loaded last by [_noisy_runs]: the last entry of
    [Counter(...).most_common()] = stable sort by decreasing count of the
    first-occurrence order *)
Definition last_common (c : list (Z * Z)) : option (Z * Z) :=
  fold_left (fun best kv =>
               match best with
               | None => Some kv
               | Some b => if snd kv <=? snd b then Some kv else best
               end) c None.

Inductive hop :=
(** [Hamiltonian.set_config(c)] (constructor, [set_config], [add_config],
    [reset_config]) with the draw [_update_noise] takes when [prep c] *)
| HSetConfig (c : hcfg) (us : list float)
(** [QutipEmulator.run()] with the draws of [_noisy_runs] (one per run) *)
| HRun (rus : list (list float)).

Definition step (n : nat) (st : hstate) (op : hop) : hstate :=
  match op with
  | HSetConfig c us =>
      (* if not (SPAM and eta > 0): every atom is well prepared *)
      let bad1 := if prep c then s_bad st else all_good n in
      (* _construct_hamiltonian -> _update_noise *)
      let bad2 := if prep c then draw (h_eta c) us else bad1 in
      {| s_cfg := c; s_bad := bad2 |}
  | HRun rus =>
      if prep (s_cfg st) then
        (* Monte-Carlo path: the drawn configurations are loaded one by one *)
        match last_common (counter (map (fun us => code_of (draw (h_eta (s_cfg st)) us)) rus)) with
        | Some kv => {| s_cfg := s_cfg st; s_bad := loaded_of n (fst kv) |}
        | None => st
        end
      else st (* single run, nothing is drawn *)
  end.

(** the bad-atom maps after each operation *)
Fixpoint trace_hist (n : nat) (st : hstate) (ops : list hop) : list (list bool) :=
  match ops with
  | [] => []
  | op :: r => let st' := step n st op in s_bad st' :: trace_hist n st' r
  end.

Definition hist_init : hstate := {| s_cfg := {| h_spam := false; h_eta := zero |}; s_bad := [] |}.

Definition run_hist (n : nat) (ops : list hop) : hstate := fold_left (step n) ops hist_init.
