(** C04 - JSON values, Python-dict style association lists and a validator for
    the JSON-Schema (draft-07) subset used by Pulser's sequence schema.
    Executable definitions only. *)
From Coq Require Import ZArith List Bool String Ascii.
From Coq Require Import PrimFloat.
From PV Require Import Model.Base.
Import ListNotations.
Open Scope Z_scope.
Open Scope string_scope.

Inductive json :=
| JNull
| JBool (b : bool)
| JInt (z : Z)
| JFlt (f : float)
| JStr (s : string)
| JArr (l : list json)
| JObj (kvs : list (string * json)).

(** ** Python [dict] as an insertion-ordered association list *)
Section Dict.
  Context {A : Type}.

  Fixpoint dget (k : string) (d : list (string * A)) : option A :=
    match d with
    | [] => None
    | (k', v) :: r => if String.eqb k k' then Some v else dget k r
    end.

  (** [d[k] = v]: overwrite in place if present, append otherwise *)
  Fixpoint dset (k : string) (v : A) (d : list (string * A)) : list (string * A) :=
    match d with
    | [] => [(k, v)]
    | (k', v') :: r =>
        if String.eqb k k' then (k', v) :: r else (k', v') :: dset k v r
    end.

  (** [d.update(kvs)] *)
  Definition dupdate (d kvs : list (string * A)) : list (string * A) :=
    fold_left (fun acc kv => dset (fst kv) (snd kv) acc) kvs d.

  (** [d.pop(k, None)] *)
  Fixpoint ddel (k : string) (d : list (string * A)) : list (string * A) :=
    match d with
    | [] => []
    | (k', v) :: r => if String.eqb k k' then r else (k', v) :: ddel k r
    end.

  Definition dhas (k : string) (d : list (string * A)) : bool :=
    match dget k d with Some _ => true | None => false end.
End Dict.

Definition str_in (s : string) (l : list string) : bool :=
  existsb (String.eqb s) l.

(** ** Equality of documents, insensitive to the order of object keys.
    ([1] and [1.0] are different documents: Python's json keeps the
    distinction and so does the deserializer's behaviour.) *)
Fixpoint json_eqb (a b : json) {struct a} : bool :=
  match a, b with
  | JNull, JNull => true
  | JBool x, JBool y => Bool.eqb x y
  | JInt x, JInt y => Z.eqb x y
  | JFlt x, JFlt y => f_biteq x y
  | JStr x, JStr y => String.eqb x y
  | JArr x, JArr y =>
      (fix go (l1 l2 : list json) {struct l1} : bool :=
         match l1, l2 with
         | [], [] => true
         | a1 :: r1, a2 :: r2 => json_eqb a1 a2 && go r1 r2
         | _, _ => false
         end) x y
  | JObj x, JObj y =>
      Nat.eqb (List.length x) (List.length y) &&
      (fix go (l1 : list (string * json)) {struct l1} : bool :=
         match l1 with
         | [] => true
         | (k, v) :: r1 =>
             match dget k y with
             | Some w => json_eqb v w && go r1
             | None => false
             end
         end) x
  | _, _ => false
  end.

(** ** JSON-Schema subset: type, const, enum, properties, required,
    additionalProperties, items, anyOf, minItems, maxItems, $ref. *)
Inductive addl :=
| AddlAny                      (* keyword absent *)
| AddlNone                     (* additionalProperties: false *)
| AddlSchema (n : string).     (* additionalProperties: {"$ref": n} *)

Inductive schema :=
| SAny                                      (* {} / true *)
| SRef (name : string)                      (* "#/definitions/<name>" *)
| SExt (file : string)                      (* "<file>.json": another schema file *)
| SNode (ty : option string)
        (cst : option json)
        (enm : option (list json))
        (props : list (string * schema))
        (req : list string)
        (ad : addl)
        (items : option schema)
        (anyof : list schema)
        (minI maxI : option Z).

Definition f_is_integral (f : float) : bool :=
  match f_trunc f with
  | Some z => f_eq (f_of_Z z) f
  | None => false
  end.

(** jsonschema's type checks (a bool is not a number) *)
Definition type_ok (ty : string) (j : json) : bool :=
  match j with
  | JNull => String.eqb ty "null"
  | JBool _ => String.eqb ty "boolean"
  | JInt _ => String.eqb ty "number" || String.eqb ty "integer"
  | JFlt f => String.eqb ty "number" || (String.eqb ty "integer" && f_is_integral f)
  | JStr _ => String.eqb ty "string"
  | JArr _ => String.eqb ty "array"
  | JObj _ => String.eqb ty "object"
  end.

(** jsonschema compares const/enum values with Python [==] after excluding
    bool/number confusion; only strings and null occur in Pulser's schemas *)
Definition lit_eqb (a b : json) : bool :=
  match a, b with
  | JInt x, JFlt y | JFlt y, JInt x => f_eq (f_of_Z x) y
  | _, _ => json_eqb a b
  end.

Definition opt_all {A} (o : option A) (p : A -> bool) : bool :=
  match o with None => true | Some a => p a end.

Section Valid.
  Variable defs : list (string * schema).
  (** budget for chains of $ref / anyOf between two descents into the
      document; descents are structural on the document *)
  Variable chase : nat.

  Fixpoint valid (j : json) {struct j} : nat -> schema -> bool :=
    fix go (f : nat) (s : schema) {struct f} : bool :=
      match f with
      | O => false
      | S f' =>
          match s with
          | SAny => true
          | SExt _ => true
          | SRef n =>
              match dget n defs with
              | Some s' => go f' s'
              | None => false
              end
          | SNode ty cst enm props req ad items anyof minI maxI =>
              opt_all ty (fun t => type_ok t j)
              && opt_all cst (fun c => lit_eqb c j)
              && opt_all enm (fun l => existsb (fun c => lit_eqb c j) l)
              && (match anyof with [] => true | _ => existsb (go f') anyof end)
              && match j with
                 | JObj kvs =>
                     forallb (fun r => dhas r kvs) req
                     && forallb
                          (fun kv =>
                             match dget (fst kv) props with
                             | Some ps => valid (snd kv) chase ps
                             | None =>
                                 match ad with
                                 | AddlAny => true
                                 | AddlNone => false
                                 | AddlSchema n => valid (snd kv) chase (SRef n)
                                 end
                             end) kvs
                 | JArr l =>
                     opt_all minI (fun m => Z.leb m (Z.of_nat (List.length l)))
                     && opt_all maxI (fun m => Z.leb (Z.of_nat (List.length l)) m)
                     && match items with
                        | Some si => forallb (fun x => valid x chase si) l
                        | None => true
                        end
                 | _ => true
                 end
          end
      end.
End Valid.
