(** C08 - the parametrized layer of Pulser, executable model (no proofs here).

    Mirrors, statement by statement:
      pulser/parametrized/variable.py   (Variable._assign/_clear/build, VariableItem.build)
      pulser/parametrized/paramobj.py   (ParamObj.__init__ variable collection, ParamObj.build cache)
      pulser/sequence/_decorators.py    (verify_variable, verify_parametrization, store)
      pulser/sequence/sequence.py       (declare_channel's log discipline, Sequence.build)
      pulser/register/mappable_reg.py   (MappableRegister.build_register)

    Python objects that are shared and mutated (Variables, ParamObj caches) live
    in a store ([pstate]); a Parametrized object is a heap index, so sharing of
    one ParamObj between several stored calls is represented exactly.

    Numerics: arithmetic the code performs through numpy on float64/int64 is
    modelled bit-exactly (PrimFloat / Z); transcendental functions and float
    [pow] are oracle functions (Section variables). *)
From Coq Require Import ZArith List Bool Lia.
From Coq Require Import PrimFloat.
From PV Require Import Model.Base.
Import ListNotations.
Open Scope Z_scope.

(** * Numbers and values *)

Inductive num := NI (z : Z) | NF (f : float).

(** [VN] 0-d array / Python scalar, [VA] 1-d array, [VS] string-like atom
    (channel name, qubit id, protocol ...; [VS (-1)] is Python's [None]),
    [VO] structured object (built waveform / pulse / literal list). *)
Inductive value :=
| VN (n : num)
| VA (l : list num)
| VS (c : Z)
| VO (cls : Z) (args : list value).

Definition VNone : value := VS (-1).

Definition num_sv (n : num) : sv := match n with NI z => SZ z | NF f => SF f end.

Fixpoint value_sv (v : value) : sv :=
  match v with
  | VN n => num_sv n
  | VA l => SL [SB true; SL (map num_sv l)]
  | VS c => SL [SB false; SZ c]
  | VO cls args => SL [SZ cls; SL (map value_sv args)]
  end.

Definition num_f (n : num) : float := match n with NI z => f_of_Z z | NF f => f end.

Definition f_floor (x : float) : float :=
  let r := f_rint x in if f_gt r x then (r - 1)%float else r.
(* ceil x = - floor (- x): keeps the sign of zero results (np.ceil(-0.6) = -0.0) *)
Definition f_ceil (x : float) : float := (- f_floor (- x))%float.

Fixpoint mapM {A B} (f : A -> res B) (l : list A) : res (list B) :=
  match l with
  | [] => Ok []
  | a :: r => match f a with
              | Err e => Err e
              | Ok b => match mapM f r with Err e => Err e | Ok br => Ok (b :: br) end
              end
  end.

Fixpoint zipM {A B C} (f : A -> B -> res C) (l1 : list A) (l2 : list B) : res (list C) :=
  match l1, l2 with
  | [], [] => Ok []
  | a :: r1, b :: r2 =>
      match f a b with
      | Err e => Err e
      | Ok c => match zipM f r1 r2 with Err e => Err e | Ok cr => Ok (c :: cr) end
      end
  | _, _ => Err EValue   (* operands could not be broadcast together *)
  end.

(** operator codes *)
Definition OP_NEG := 0.   Definition OP_ABS := 1.   Definition OP_CEIL := 2.
Definition OP_FLOOR := 3. Definition OP_RINT := 4.  Definition OP_SQRT := 5.
(* 6 exp, 7 log2, 8 log, 9 sin, 10 cos, 11 tan, 12 tanh : oracle functions *)
Definition OP_ADD := 20.  Definition OP_SUB := 21.  Definition OP_MUL := 22.
Definition OP_DIV := 23.  Definition OP_POW := 24.  Definition OP_MOD := 25.

(** class codes (constructors applied by ParamObj.build) *)
Definition CLS_CONST := 100.  Definition CLS_RAMP := 101.  Definition CLS_BLACKMAN := 102.
Definition CLS_PULSE := 110.  Definition CLS_CAMP := 112.  Definition CLS_CDET := 113.
Definition CLS_OPAQUE := 150. (* literal waveform of another class: [VS idx; duration; has_negative] *)
Definition CLS_LIST := 90.    (* literal Python list / tuple *)
Definition CLS_UNBUILT := 91. (* a Parametrized object handed over without being built *)

Section Arith.
  (** oracle inputs: numpy's transcendental functions and float power *)
  Variable ofun : Z -> float -> float.
  Variable opow : float -> float -> float.

  Definition un_num (op : Z) (n : num) : res num :=
    if op =? OP_NEG then Ok (match n with NI z => NI (- z) | NF f => NF (- f)%float end)
    else if op =? OP_ABS then Ok (match n with NI z => NI (Z.abs z) | NF f => NF (abs f) end)
    else if op =? OP_CEIL then Ok (match n with NI z => NI z | NF f => NF (f_ceil f) end)
    else if op =? OP_FLOOR then Ok (match n with NI z => NI z | NF f => NF (f_floor f) end)
    else if op =? OP_RINT then Ok (match n with NI z => NI z | NF f => NF (f_rint f) end)
    else if op =? OP_SQRT then Ok (NF (sqrt (num_f n)))
    else if (6 <=? op) && (op <=? 12) then Ok (NF (ofun op (num_f n)))
    else Err EOther.

  Definition bin_num (op : Z) (a b : num) : res num :=
    match a, b with
    | NI x, NI y =>
        if op =? OP_ADD then Ok (NI (x + y))
        else if op =? OP_SUB then Ok (NI (x - y))
        else if op =? OP_MUL then Ok (NI (x * y))
        else if op =? OP_DIV then Ok (NF (f_of_Z x / f_of_Z y)%float)
        else if op =? OP_POW then (if y <? 0 then Err EValue else Ok (NI (x ^ y)))
        else if op =? OP_MOD then Ok (NI (if y =? 0 then 0 else x mod y))
        else Err EOther
    | _, _ =>
        let x := num_f a in let y := num_f b in
        if op =? OP_ADD then Ok (NF (x + y)%float)
        else if op =? OP_SUB then Ok (NF (x - y)%float)
        else if op =? OP_MUL then Ok (NF (x * y)%float)
        else if op =? OP_DIV then Ok (NF (x / y)%float)
        else if op =? OP_POW then Ok (NF (opow x y))
        else if op =? OP_MOD then Ok (NF (f_pymod x y))
        else Err EOther
    end.

  Definition un_val (op : Z) (v : value) : res value :=
    match v with
    | VN n => match un_num op n with Ok r => Ok (VN r) | Err e => Err e end
    | VA l => match mapM (un_num op) l with Ok r => Ok (VA r) | Err e => Err e end
    | _ => Err EType
    end.

  Definition bin_val (op : Z) (a b : value) : res value :=
    match a, b with
    | VN x, VN y => match bin_num op x y with Ok r => Ok (VN r) | Err e => Err e end
    | VN x, VA l => match mapM (bin_num op x) l with Ok r => Ok (VA r) | Err e => Err e end
    | VA l, VN y => match mapM (fun x => bin_num op x y) l with Ok r => Ok (VA r) | Err e => Err e end
    | VA [x], VA l => match mapM (bin_num op x) l with Ok r => Ok (VA r) | Err e => Err e end
    | VA l, VA [y] => match mapM (fun x => bin_num op x y) l with Ok r => Ok (VA r) | Err e => Err e end
    | VA l1, VA l2 => match zipM (bin_num op) l1 l2 with Ok r => Ok (VA r) | Err e => Err e end
    | _, _ => Err EType
    end.

  (** ** Constructors of the waveform / pulse classes *)

  (** [_cast_check(int, x)] on a built argument *)
  Definition cast_int (v : value) : res Z :=
    match v with
    | VN (NI z) => Ok z
    | VN (NF f) => match f_trunc f with Some z => Ok z | None => Err EType end
    | _ => Err EType
    end.
  Definition cast_float (v : value) : res float :=
    match v with
    | VN n => Ok (num_f n)
    | _ => Err EType
    end.

  (** Waveform.__init__ : duration *)
  Definition wf_duration (v : value) : res Z :=
    match cast_int v with
    | Err e => Err e
    | Ok d => if d <=? 0 then Err EValue else Ok d
    end.

  Definition is_wf (v : value) : bool :=
    match v with
    | VO cls _ => (100 <=? cls) && (cls <=? 102) || (cls =? CLS_OPAQUE)
    | _ => false
    end.

  (** duration of a built waveform *)
  Definition wf_dur_of (v : value) : res Z :=
    match v with
    | VO cls (VN (NI d) :: _) =>
        if (100 <=? cls) && (cls <=? 102) then Ok d else Err EOther
    | VO cls [VS _; VN (NI d); _] => if cls =? CLS_OPAQUE then Ok d else Err EOther
    | _ => Err EOther   (* AttributeError *)
    end.

  (** [np.any(samples < 0)] of a built waveform *)
  Definition wf_has_neg (v : value) : bool :=
    match v with
    | VO cls [_; VN (NF a)] =>
        (* constant value / blackman area *)
        f_lt a zero
    | VO cls [VN (NI d); VN (NF a); VN (NF b)] =>
        (* ramp: samples = clip(slope * t + start, min, max); a NaN end point or
           a single sample (slope = x/0) makes every sample NaN; infinite end
           points make [inf * 0] and [inf - inf] appear *)
        if PrimFloat.is_nan a || PrimFloat.is_nan b then false
        else if d <? 2 then false
        else if PrimFloat.is_infinity a then false      (* inf - inf: every sample NaN *)
        else if PrimFloat.is_infinity b then f_lt b zero (* sample 0 is NaN, the others are b *)
        else f_lt a zero || f_lt b zero
    | VO cls [VS _; _; VN (NI n)] => negb (n =? 0)
    | _ => false
    end.

  Definition mk_const (d : Z) (x : float) : value := VO CLS_CONST [VN (NI d); VN (NF x)].

  Definition mk_pulse (amp det phase post : value) : res value :=
    if negb (is_wf amp && is_wf det) then Err EType
    else match wf_dur_of amp, wf_dur_of det with
         | Ok da, Ok dd =>
             if negb (da =? dd) then Err EValue
             else if wf_has_neg amp then Err EValue
             else
               match (match phase with
                      | VN n => Ok (VN (NF (f_mod2pi (num_f n))))
                      | VA [n] => Ok (VA [NF (f_mod2pi (num_f n))])
                      | _ => Err EType
                      end) with
               | Err e => Err e
               | Ok ph =>
                   match cast_float post with
                   | Err e => Err e
                   | Ok p => Ok (VO CLS_PULSE [amp; det; ph; VN (NF (f_mod2pi p))])
                   end
               end
         | _, _ => Err EOther
         end.


  Definition construct_const (d : Z) (x : value) : res value :=
    match cast_float x with
    | Err e => Err e
    | Ok x' => Ok (mk_const d x')
    end.

  Definition construct (cls : Z) (args : list value) : res value :=
    if cls =? CLS_CONST then
      match args with
      | [d; x] => match wf_duration d with
                  | Err e => Err e
                  | Ok d' => construct_const d' x
                  end
      | _ => Err EType
      end
    else if cls =? CLS_RAMP then
      match args with
      | [d; a; b] =>
          match wf_duration d with
          | Err e => Err e
          | Ok d' => match cast_float a with
                     | Err e => Err e
                     | Ok a' => match cast_float b with
                                | Err e => Err e
                                | Ok b' => Ok (VO CLS_RAMP [VN (NI d'); VN (NF a'); VN (NF b')])
                                end
                     end
          end
      | _ => Err EType
      end
    else if cls =? CLS_BLACKMAN then
      match args with
      | [d; a] => match wf_duration d with
                  | Err e => Err e
                  | Ok d' => match cast_float a with
                             | Err e => Err e
                             | Ok a' => Ok (VO CLS_BLACKMAN [VN (NI d'); VN (NF a')])
                             end
                  end
      | _ => Err EType
      end
    else if cls =? CLS_PULSE then
      match args with
      | [amp; det; ph; post] => mk_pulse amp det ph post
      | _ => Err EType
      end
    else if cls =? CLS_CAMP then
      (* Pulse.ConstantAmplitude(amplitude, detuning_wf, phase, post) *)
      match args with
      | [a; det; ph; post] =>
          match wf_dur_of det with
          | Err e => Err e
          | Ok d => match construct_const d a with
                    | Err e => Err e
                    | Ok awf => mk_pulse awf det ph post
                    end
          end
      | _ => Err EType
      end
    else if cls =? CLS_CDET then
      match args with
      | [amp; dt; ph; post] =>
          match wf_dur_of amp with
          | Err e => Err e
          | Ok d => match construct_const d dt with
                    | Err e => Err e
                    | Ok dwf => mk_pulse amp dwf ph post
                    end
          end
      | _ => Err EType
      end
    else Err EOther.

  (** what [obj] applied to the built arguments computes in ParamObj.build *)
  Definition apply_cls (cls : Z) (args : list value) : res value :=
    if cls <? 20 then
      match args with [a] => un_val cls a | _ => Err EType end
    else if cls <? 100 then
      match args with [a; b] => bin_val cls a b | _ => Err EType end
    else construct cls args.

  (** * Variables (variable.py) *)

  Record var := mkVar {
    v_name : Z; v_int : bool; v_size : Z; v_count : Z; v_val : option (list num) }.
  Definition vstore := list var.

  Fixpoint vlookup (vs : vstore) (name : Z) : option var :=
    match vs with
    | [] => None
    | v :: r => if v_name v =? name then Some v else vlookup r name
    end.

  Fixpoint vupdate (vs : vstore) (name : Z) (f : var -> var) : vstore :=
    match vs with
    | [] => []
    | v :: r => if v_name v =? name then f v :: r else v :: vupdate r name f
    end.

  (** [np.asarray(value, dtype)] *)
  Definition cast_num (to_int : bool) (n : num) : res num :=
    match to_int, n with
    | true, NI z => Ok (NI z)
    | true, NF f => match f_trunc f with Some z => Ok (NI z) | None => Err EValue end
    | false, n => Ok (NF (num_f n))
    end.

  (** Variable._assign: validation first, then value and [_count + 1] *)
  Definition v_assign (vs : vstore) (name : Z) (l : list num) : vstore * res unit :=
    match vlookup vs name with
    | None => (vs, Err EKey)
    | Some v =>
        match mapM (cast_num (v_int v)) l with
        | Err e => (vs, Err e)
        | Ok l' =>
            if negb (Z.of_nat (length l') =? v_size v) then (vs, Err EValue)
            else (vupdate vs name (fun v => mkVar (v_name v) (v_int v) (v_size v) (v_count v + 1) (Some l')),
                  Ok tt)
        end
    end.

  Definition v_clear (vs : vstore) (name : Z) : vstore :=
    vupdate vs name (fun v => mkVar (v_name v) (v_int v) (v_size v) (v_count v + 1) None).

  Definition var_build (vs : vstore) (name : Z) : res (list num) :=
    match vlookup vs name with
    | Some v => match v_val v with Some l => Ok l | None => Err EValue end
    | None => Err EValue
    end.

  Inductive key := KI (i : Z) | KL (l : list Z).

  Definition arr_index (l : list num) (i : Z) : res num :=
    let n := Z.of_nat (length l) in
    let j := if i <? 0 then i + n else i in
    if (j <? 0) || (n <=? j) then Err EIndex
    else match nth_error l (Z.to_nat j) with Some x => Ok x | None => Err EIndex end.

  (** VariableItem.build: [self.var.build()[self.key]] *)
  Definition item_build (vs : vstore) (name : Z) (k : key) : res value :=
    match var_build vs name with
    | Err e => Err e
    | Ok l =>
        match k with
        | KI i => match arr_index l i with Ok x => Ok (VN x) | Err e => Err e end
        | KL is => match mapM (arr_index l) is with Ok xs => Ok (VA xs) | Err e => Err e end
        end
    end.

  (** * ParamObj heap (paramobj.py) *)

  (** an argument of a stored call or of a ParamObj: a concrete value, a
      Parametrized object (heap index), or a literal list some of whose
      elements are Parametrized objects *)
  Inductive larg := LLit (v : value) | LRef (id : nat).
  Inductive parg := ALit (v : value) | ARef (id : nat) | AList (l : list larg).

  Record pobj := mkPobj {
    po_cls : Z;
    po_args : list parg;
    po_vars : list Z;            (* keys of [_variables], insertion order *)
    po_inst : option value;      (* [_instance] *)
    po_state : list (Z * Z) }.   (* [_vars_state] *)

  Inductive hnode := HVar (name : Z) | HItem (name : Z) (k : key) | HObj (o : pobj).
  Definition heap := list hnode.

  Definition node_vars (h : heap) (id : nat) : list Z :=
    match nth_error h id with
    | Some (HVar n) => [n]
    | Some (HItem n _) => [n]
    | Some (HObj o) => po_vars o
    | None => []
    end.

  Definition zmem (x : Z) (l : list Z) : bool := existsb (Z.eqb x) l.

  (** dict.update: keep first occurrence order *)
  Fixpoint union_vars (acc : list Z) (l : list Z) : list Z :=
    match l with
    | [] => acc
    | x :: r => if zmem x acc then union_vars acc r else union_vars (acc ++ [x]) r
    end.

  (** ParamObj.__init__ only looks at top-level arguments *)
  Definition arg_vars (h : heap) (a : parg) : list Z :=
    match a with ARef i => node_vars h i | _ => [] end.

  Definition new_obj (h : heap) (cls : Z) (args : list parg) : pobj :=
    mkPobj cls args (fold_left (fun acc a => union_vars acc (arg_vars h a)) args []) None [].

  Definition counts (vs : vstore) (names : list Z) : list (Z * Z) :=
    map (fun n => (n, match vlookup vs n with Some v => v_count v | None => -1 end)) names.

  Fixpoint state_eqb (a b : list (Z * Z)) : bool :=
    match a, b with
    | [], [] => true
    | (x, c) :: r, (y, d) :: s => (x =? y) && (c =? d) && state_eqb r s
    | _, _ => false
    end.

  Fixpoint set_node (h : heap) (id : nat) (n : hnode) : heap :=
    match h, id with
    | [], _ => []
    | _ :: r, O => n :: r
    | x :: r, S i => x :: set_node r i n
    end.

  Definition set_state (h : heap) (id : nat) (st : list (Z * Z)) : heap :=
    match nth_error h id with
    | Some (HObj o) => set_node h id (HObj (mkPobj (po_cls o) (po_args o) (po_vars o) (po_inst o) st))
    | _ => h
    end.

  Definition set_inst (h : heap) (id : nat) (v : value) : heap :=
    match nth_error h id with
    | Some (HObj o) => set_node h id (HObj (mkPobj (po_cls o) (po_args o) (po_vars o) (Some v) (po_state o)))
    | _ => h
    end.

  (** a literal list is handed over as is; Parametrized elements stay unbuilt *)
  Definition larg_raw (a : larg) : value :=
    match a with LLit v => v | LRef id => VO CLS_UNBUILT [VS (Z.of_nat id)] end.

  (** [arg.build() if isinstance(arg, Parametrized) else arg], left to right *)
  Fixpoint build_args (rec : heap -> nat -> heap * res value) (h : heap) (args : list parg)
    : heap * res (list value) :=
    match args with
    | [] => (h, Ok [])
    | a :: r =>
        let '(h1, ra) :=
          match a with
          | ALit v => (h, Ok v)
          | ARef id => rec h id
          | AList l => (h, Ok (VO CLS_LIST (map larg_raw l)))
          end in
        match ra with
        | Err e => (h1, Err e)
        | Ok v => let '(h2, rr) := build_args rec h1 r in
                  match rr with
                  | Err e => (h2, Err e)
                  | Ok vs => (h2, Ok (v :: vs))
                  end
        end
    end.

  (** ParamObj.build / Variable.build / VariableItem.build.  The cache state is
      written BEFORE the arguments are built, as in the code. *)
  Fixpoint pbuild (fuel : nat) (vs : vstore) (h : heap) (id : nat) : heap * res value :=
    match fuel with
    | O => (h, Err EOther)
    | S fuel' =>
        match nth_error h id with
        | None => (h, Err EOther)
        | Some (HVar name) =>
            (h, match var_build vs name with Ok l => Ok (VA l) | Err e => Err e end)
        | Some (HItem name k) => (h, item_build vs name k)
        | Some (HObj o) =>
            let st := counts vs (po_vars o) in
            if state_eqb st (po_state o) then
              (h, Ok (match po_inst o with Some v => v | None => VNone end))
            else
              let h1 := set_state h id st in
              let '(h2, rargs) := build_args (pbuild fuel' vs) h1 (po_args o) in
              match rargs with
              | Err e => (h2, Err e)
              | Ok vals =>
                  match apply_cls (po_cls o) vals with
                  | Err e => (h2, Err e)
                  | Ok v => (set_inst h2 id v, Ok v)
                  end
              end
        end
    end.

  (** ** The pure meaning of a Parametrized object under an assignment *)

  Fixpoint eval_args (rec : nat -> res value) (deep : bool) (args : list parg) : res (list value) :=
    match args with
    | [] => Ok []
    | a :: r =>
        match (match a with
               | ALit v => Ok v
               | ARef id => rec id
               | AList l =>
                   if deep then
                     match mapM (fun x => match x with LLit v => Ok v | LRef id => rec id end) l with
                     | Ok vs => Ok (VO CLS_LIST vs)
                     | Err e => Err e
                     end
                   else Ok (VO CLS_LIST (map larg_raw l))
               end) with
        | Err e => Err e
        | Ok v => match eval_args rec deep r with
                  | Err e => Err e
                  | Ok vs => Ok (v :: vs)
                  end
        end
    end.

  Fixpoint peval (fuel : nat) (vs : vstore) (h : heap) (id : nat) : res value :=
    match fuel with
    | O => Err EOther
    | S fuel' =>
        match nth_error h id with
        | None => Err EOther
        | Some (HVar name) => match var_build vs name with Ok l => Ok (VA l) | Err e => Err e end
        | Some (HItem name k) => item_build vs name k
        | Some (HObj o) =>
            match eval_args (peval fuel' vs h) false (po_args o) with
            | Err e => Err e
            | Ok vals => apply_cls (po_cls o) vals
            end
        end
    end.

  (** references point backwards, so [S id] steps of fuel are enough *)
  Definition eval (vs : vstore) (h : heap) (id : nat) : res value := peval (S id) vs h id.

  Definition parg_refs (a : parg) : list nat :=
    match a with
    | ALit _ => []
    | ARef i => [i]
    | AList l => flat_map (fun x => match x with LRef i => [i] | LLit _ => [] end) l
    end.

  (** * Stored calls and the template (sequence/_decorators.py, sequence.py) *)

  Definition ccall := (Z * list value)%type.       (* a call with concrete arguments *)
  Record pcall := mkPcall { pc_name : Z; pc_args : list parg }.

  (** call names *)
  Definition C_DECLARE := 1.  Definition C_TARGET := 2.  Definition C_TARGET_INDEX := 3.
  Definition C_SETREG := 0.

  (** variables reachable from an argument the way [verify_variable] walks it
      (Parametrized itself, or Parametrized elements of an iterable) *)
  Definition parg_vars (h : heap) (a : parg) : list Z := flat_map (node_vars h) (parg_refs a).
  Definition call_vars (h : heap) (c : pcall) : list Z := flat_map (parg_vars h) (pc_args c).
  Definition parg_param (a : parg) : bool := negb (match parg_refs a with [] => true | _ => false end).
  Definition has_param (c : pcall) : bool := existsb parg_param (pc_args c).

  Definition lit_of (a : parg) : option value :=
    match a with
    | ALit v => Some v
    | ARef _ => None
    | AList l => if parg_param a then None else Some (VO CLS_LIST (map larg_raw l))
    end.

  Fixpoint lits (args : list parg) : option (list value) :=
    match args with
    | [] => Some []
    | a :: r => match lit_of a, lits r with
                | Some v, Some vs => Some (v :: vs)
                | _, _ => None
                end
    end.

  Section Template.
    (** the concrete sequence builder is a parameter of the parametrized layer *)
    Variable S : Type.
    Variable cstep : S -> ccall -> res S.
    (** validation done at call time when the sequence is parametrized; it
        sees the two logs *)
    Variable pcheck : list pcall -> list pcall -> pcall -> res unit.
    (** [_set_register] *)
    Variable cset_reg : S -> list (Z * Z) -> res S.

    Record tmpl := mkTmpl {
      t_building : bool;
      t_live : S;                 (* the template's own schedule etc. *)
      t_calls : list pcall;       (* [_calls[1:]] *)
      t_tobuild : list pcall;     (* [_to_build_calls] *)
      t_decl : list Z }.          (* keys of [_variables] *)

    Definition t_set_building (t : tmpl) (b : bool) : tmpl :=
      mkTmpl b (t_live t) (t_calls t) (t_tobuild t) (t_decl t).
    Definition t_set_live (t : tmpl) (s : S) : tmpl :=
      mkTmpl (t_building t) s (t_calls t) (t_tobuild t) (t_decl t).
    Definition t_log_call (t : tmpl) (c : pcall) : tmpl :=
      mkTmpl (t_building t) (t_live t) (t_calls t ++ [c]) (t_tobuild t) (t_decl t).
    Definition t_log_tobuild (t : tmpl) (c : pcall) : tmpl :=
      mkTmpl (t_building t) (t_live t) (t_calls t) (t_tobuild t ++ [c]) (t_decl t).
    Definition t_declare_var (t : tmpl) (name : Z) : tmpl :=
      mkTmpl (t_building t) (t_live t) (t_calls t) (t_tobuild t) (t_decl t ++ [name]).

    (** verify_parametrization: the flag flips before the variables are checked *)
    Definition verify (t : tmpl) (h : heap) (c : pcall) : tmpl * res unit :=
      if has_param c then
        let t1 := t_set_building t false in
        if forallb (fun v => zmem v (t_decl t)) (call_vars h c) then (t1, Ok tt)
        else (t1, Err EValue)
      else (t, Ok tt).

    (** a call decorated with [store]; [logged] is the form that is recorded
        (identical to the call except for enable_eom_mode / modify_eom_setpoint) *)
    Definition tstep_store (t : tmpl) (h : heap) (c logged : pcall) : tmpl * res unit :=
      let '(t1, r) := verify t h c in
      match r with
      | Err e => (t1, Err e)
      | Ok _ =>
          if t_building t1 then
            match lits (pc_args c) with
            | None => (t1, Err EOther)
            | Some vals =>
                match cstep (t_live t1) (pc_name c, vals) with
                | Ok s' => (t_log_call (t_set_live t1 s') logged, Ok tt)
                | Err e => (t1, Err e)
                end
            end
          else
            match pcheck (t_calls t1) (t_tobuild t1) c with
            | Ok _ => (t_log_tobuild t1 logged, Ok tt)
            | Err e => (t1, Err e)
            end
      end.

    (** declare_channel: not decorated; always executes on the template and
        always logs to [_calls]; in a parametrized sequence the initial target
        of a Local channel is issued as a separate stored [target] call *)
    Definition tstep_declare (t : tmpl) (h : heap) (glob : bool) (nm cid : value) (it : parg) : tmpl * res unit :=
      if parg_param it then
        (* the declaration itself is validated first (call 99: validate only) *)
        match cstep (t_live t) (99, [nm; cid]) with
        | Err e => (t, Err e)
        | Ok _ => (t, Err EType)
        end
      else
        match lit_of it with
        | None => (t, Err EOther)
        | Some itv =>
            if t_building t then
              match cstep (t_live t) (C_DECLARE, [nm; cid; itv]) with
              | Ok s' => (t_log_call (t_set_live t s') (mkPcall C_DECLARE [ALit nm; ALit cid; ALit itv]), Ok tt)
              | Err e => (t, Err e)
              end
            else
              match cstep (t_live t) (C_DECLARE, [nm; cid; VNone]) with
              | Err e => (t, Err e)
              | Ok s' =>
                  let t1 := t_set_live t s' in
                  let decl := mkPcall C_DECLARE [ALit nm; ALit cid; ALit VNone] in
                  match itv with
                  | VS (-1) => (t_log_call t1 decl, Ok tt)
                  | _ =>
                    if glob then
                      (* Global channel: the initial target is ignored and stays in the log *)
                      (t_log_call t1 (mkPcall C_DECLARE [ALit nm; ALit cid; ALit itv]), Ok tt)
                    else
                      let tc := mkPcall C_TARGET [ALit itv; ALit nm] in
                      let '(t2, r) := tstep_store t1 h tc tc in
                      match r with
                      | Err e => (t2, Err e)
                      | Ok _ => (t_log_call t2 decl, Ok tt)
                      end
                  end
              end
        end.

    (** ** Sequence.build *)

    Fixpoint replay (s : S) (calls : list pcall) : res S :=
      match calls with
      | [] => Ok s
      | c :: r =>
          match lits (pc_args c) with
          | None => Err EOther
          | Some vals => match cstep s (pc_name c, vals) with
                         | Ok s' => replay s' r
                         | Err e => Err e
                         end
          end
      end.

    (** _cross_check_vars: unknown names are dropped, missing ones raise *)
    Definition env_names (env : list (Z * list num)) : list Z := map fst env.
    Definition cross_check (t : tmpl) (env : list (Z * list num)) : bool :=
      forallb (fun n => zmem n (env_names env)) (t_decl t).
    Definition env_known (t : tmpl) (env : list (Z * list num)) : list (Z * list num) :=
      filter (fun p => zmem (fst p) (t_decl t)) env.

    Fixpoint assign_all (vs : vstore) (env : list (Z * list num)) : vstore * res unit :=
      match env with
      | [] => (vs, Ok tt)
      | (n, l) :: r =>
          let '(vs1, res1) := v_assign vs n l in
          match res1 with
          | Err e => (vs1, Err e)
          | Ok _ => assign_all vs1 r
          end
      end.

    Record pstate := mkPs { ps_vars : vstore; ps_heap : heap }.

    Fixpoint run_tobuild (vs : vstore) (h : heap) (s : S) (calls : list pcall) : heap * res S :=
      match calls with
      | [] => (h, Ok s)
      | c :: r =>
          let '(h1, ra) := build_args (pbuild (length h) vs) h (pc_args c) in
          match ra with
          | Err e => (h1, Err e)
          | Ok vals =>
              match cstep s (pc_name c, vals) with
              | Err e => (h1, Err e)
              | Ok s' => run_tobuild vs h1 s' r
              end
          end
      end.

    (** MappableRegister.build_register + RegisterLayout.define_register
        ([declared]: pre-declared ids in order, [qubits]: the requested
        id -> trap mapping in the caller's order, [ntraps]: layout size) *)
    Fixpoint zassoc (l : list (Z * Z)) (k : Z) : option Z :=
      match l with
      | [] => None
      | (a, b) :: r => if a =? k then Some b else zassoc r k
      end.
    Definition zsubset (a b : list Z) : bool := forallb (fun x => zmem x b) a.
    Fixpoint znodup (l : list Z) : bool :=
      match l with [] => true | x :: r => negb (zmem x r) && znodup r end.

    Definition build_register (declared : list Z) (ntraps : Z) (qubits : list (Z * Z))
      : res (list (Z * Z)) :=
      let chosen := map fst qubits in
      let pre := firstn (length chosen) declared in
      if negb (zsubset chosen declared) then Err EValue
      else if negb (zsubset chosen pre && zsubset pre chosen) then Err EValue
      else
        let ordered := flat_map (fun id => if zmem id chosen
                                           then match zassoc qubits id with
                                                | Some t => [(id, t)] | None => [] end
                                           else []) declared in
        let traps := map snd ordered in
        if negb (znodup traps) then Err EValue
        else if negb (forallb (fun t => (0 <=? t) && (t <? ntraps)) traps) then Err EValue
        else match ordered with [] => Err EValue | _ => Ok ordered end.

    (** MappableRegister.find_indices: positions of ids in the declared order *)
    Fixpoint zindex (l : list Z) (x : Z) : option Z :=
      match l with
      | [] => None
      | y :: r => if y =? x then Some 0
                  else match zindex r x with Some i => Some (i + 1) | None => None end
      end.
    Definition find_indices (declared : list Z) (ids : list Z) : res (list Z) :=
      if negb (zsubset ids declared) then Err EValue
      else mapM (fun x => match zindex declared x with Some i => Ok i | None => Err EValue end) ids.

    (** [target_index] / [phase_shift_index]: [self._register.qubit_ids[int(i)]] *)
    Definition resolve_index (reg : list (Z * Z)) (i : Z) : res Z :=
      let n := Z.of_nat (length reg) in
      let j := if i <? 0 then i + n else i in
      if (j <? 0) || (n <=? j) then Err EIndex
      else match nth_error reg (Z.to_nat j) with Some p => Ok (fst p) | None => Err EIndex end.

    (** [mappable]: Some (declared ids, number of traps) for a MappableRegister *)
    Definition build (t : tmpl) (s0 : S) (mappable : option (list Z * Z))
               (ps : pstate) (qubits : option (list (Z * Z))) (env : list (Z * list num))
      : pstate * res S :=
      match mappable, qubits with
      | Some _, None => (ps, Err EValue)
      | None, Some _ => (ps, Err EValue)
      | _, _ =>
          if negb (cross_check t env) then (ps, Err EType)
          else
            match replay s0 (t_calls t) with
            | Err e => (ps, Err e)
            | Ok s1 =>
                if t_building t && (match mappable with None => true | Some _ => false end)
                then (ps, Ok s1)
                else
                  let '(vs1, ra) := assign_all (ps_vars ps) (env_known t env) in
                  match ra with
                  | Err e => (mkPs vs1 (ps_heap ps), Err e)
                  | Ok _ =>
                      match (match mappable, qubits with
                             | Some (declared, ntraps), Some (q :: qs) =>
                                 match build_register declared ntraps (q :: qs) with
                                 | Err e => Err e
                                 | Ok reg => cset_reg s1 reg
                                 end
                             | _, _ => Ok s1
                             end) with
                      | Err e => (mkPs vs1 (ps_heap ps), Err e)
                      | Ok s2 =>
                          let '(h', r) := run_tobuild vs1 (ps_heap ps) s2 (t_tobuild t) in
                          (mkPs vs1 h', r)
                      end
                  end
            end
      end.

    (** ** The reference: issue the calls directly with evaluated arguments *)

    Fixpoint direct_run (deep : bool) (vs : vstore) (h : heap) (s : S) (calls : list pcall) : res S :=
      match calls with
      | [] => Ok s
      | c :: r =>
          match eval_args (eval vs h) deep (pc_args c) with
          | Err e => Err e
          | Ok vals =>
              match cstep s (pc_name c, vals) with
              | Err e => Err e
              | Ok s' => direct_run deep vs h s' r
              end
          end
      end.

    (** Sequence.build with every cache lookup replaced by the pure meaning
        of the object: the reference the real [build] is compared with *)
    Definition build_spec (t : tmpl) (s0 : S) (mappable : option (list Z * Z))
               (vs : vstore) (h : heap) (qubits : option (list (Z * Z))) (env : list (Z * list num))
      : res S :=
      match mappable, qubits with
      | Some _, None => Err EValue
      | None, Some _ => Err EValue
      | _, _ =>
          if negb (cross_check t env) then Err EType
          else
            match replay s0 (t_calls t) with
            | Err e => Err e
            | Ok s1 =>
                if t_building t && (match mappable with None => true | Some _ => false end)
                then Ok s1
                else
                  let '(vs1, ra) := assign_all vs (env_known t env) in
                  match ra with
                  | Err e => Err e
                  | Ok _ =>
                      match (match mappable, qubits with
                             | Some (declared, ntraps), Some (q :: qs) =>
                                 match build_register declared ntraps (q :: qs) with
                                 | Err e => Err e
                                 | Ok reg => cset_reg s1 reg
                                 end
                             | _, _ => Ok s1
                             end) with
                      | Err e => Err e
                      | Ok s2 => direct_run false vs1 h s2 (t_tobuild t)
                      end
                  end
            end
      end.

    (** ** Issued calls (what the user typed) and the template they produce *)
    Inductive icall :=
    | IStore (c logged : pcall)
    | IDeclare (glob : bool) (nm cid : value) (it : parg).

    Definition tstep (t : tmpl) (h : heap) (ic : icall) : tmpl * res unit :=
      match ic with
      | IStore c l => tstep_store t h c l
      | IDeclare g nm cid it => tstep_declare t h g nm cid it
      end.

    (** runs a history; [true] iff no call raised *)
    Fixpoint trun (t : tmpl) (h : heap) (hist : list icall) : tmpl * bool :=
      match hist with
      | [] => (t, true)
      | ic :: r =>
          let '(t1, res1) := tstep t h ic in
          match res1 with
          | Ok _ => trun t1 h r
          | Err _ => let '(t2, _) := trun t1 h r in (t2, false)
          end
      end.

    Definition issued (ic : icall) : pcall :=
      match ic with
      | IStore c _ => c
      | IDeclare _ nm cid it => mkPcall C_DECLARE [ALit nm; ALit cid; it]
      end.

  End Template.
End Arith.
