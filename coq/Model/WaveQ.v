(** C16 - the exact-rational instance [QN] of the number operations of
    Model/Wave.v.  [Qc] (canonical rationals) has Leibniz equality, so list
    equalities of samples are plain [=].  2*pi is replaced by a positive
    rational period [qc_P]; nothing proved about [nmodP] depends on its value
    beyond positivity.  No proofs here. *)
From Coq Require Import ZArith QArith Qcanon Qround List Bool.
From PV Require Import Model.Base Model.Wave.
Import ListNotations.
Open Scope Qc_scope.

Definition qc_lt (a b : Qc) : bool := match a ?= b with Lt => true | _ => false end.
Definition qc_le (a b : Qc) : bool := match a ?= b with Gt => false | _ => true end.
Definition qc_eqb (a b : Qc) : bool := match a ?= b with Eq => true | _ => false end.
Definition qc_abs (a : Qc) : Qc := if qc_lt a 0 then - a else a.
Definition qc_ofZ (z : Z) : Qc := Q2Qc (inject_Z z).
Definition qc_P : Qc := Q2Qc (6283185307179586 # 1000000000000000).
Definition qc_floor (x : Qc) : Z := Qfloor (this x).
Definition qc_ceil (x : Qc) : Z := Qceiling (this x).
Definition qc_modP (x : Qc) : Qc := x - qc_P * qc_ofZ (qc_floor (x / qc_P)).
Definition qc_half : Qc := Q2Qc (1 # 2).
Definition qc_rnd (x : Qc) : option Z :=
  let f := qc_floor x in
  let r := x - qc_ofZ f in
  Some (if qc_lt r qc_half then f
        else if qc_lt qc_half r then (f + 1)%Z
        else if Z.even f then f else (f + 1)%Z).
Definition qc_trunc (x : Qc) : option Z :=
  Some (if qc_lt x 0 then qc_ceil x else qc_floor x).

Definition QN : numops Qc :=
  mk_numops Qc 0 1 Qcplus Qcminus Qcmult Qcdiv Qcopp qc_abs qc_ofZ
    qc_lt qc_le qc_eqb qc_eqb (fun _ => true) qc_modP qc_rnd
    (fun x => Some (qc_ceil x)) qc_trunc
    (qc_ofZ 1000) (Q2Qc (1 # 1000)) (Q2Qc (42 # 100)) (qc_ofZ 100)
    (Q2Qc (1 # 100000)) (Q2Qc (1 # 100000000)).

Definition qsum (l : list Qc) : Qc := fold_right Qcplus 0 l.
