(** C17 - executable model of [pulser/noise_model.py] ([NoiseModel.__init__],
    [_find_relevant_params], [_to_abstract_repr]), of
    [_deserialize_noise_model] and of [SimConfig.from_noise_model] /
    [SimConfig.to_noise_model].  Driven by the tables regenerated from the
    source (Gen/RtTables.v).  A NoiseModel instance is the [PDict]
    [("__class__","NoiseModel") :: fields in dataclass order].  Errors of any
    class are [None].  No proofs here. *)
From Coq Require Import ZArith List Bool String.
From Coq Require Import Uint63 FloatOps SpecFloat PrimFloat.
From PV Require Import Model.Base Model.RtJson Gen.RtTables.
Import ListNotations.
Open Scope string_scope.
Open Scope list_scope.
Open Scope Z_scope.

Definition f_1e6' : float := 0x1.e848p+19%float.

(** constructor argument [p] ([args] = the keyword arguments given) *)
Definition narg (args : kvs) (p : string) : pv :=
  match get p args with
  | Some v => v
  | None => match get p noise_ctor_defaults with Some d => d | None => PNone end
  end.

(** [_PARAM_TO_NOISE_TYPE[p]] (dict comprehension: a later type wins) *)
Definition param_type (p : string) : option string :=
  fold_left (fun acc (e : string * list string) =>
               if mem_s p (snd e) then Some (fst e) else acc)
            noise_type_params None.

Definition params_of_type (t : string) : list string :=
  match find (fun e : string * list string => String.eqb t (fst e)) noise_type_params with
  | Some e => snd e
  | None => []
  end.

Definition pvals0 (args : kvs) : kvs :=
  map (fun p => (p, narg args p)) noise_param_order.

Definition type_active (pv0 : kvs) (t : string) : bool :=
  existsb (fun e : string * pv =>
             truthy (snd e)
             && match param_type (fst e) with
                | Some t' => String.eqb t t'
                | None => false
                end) pv0.

(** [tuple(sorted(true_noise_types))] *)
Definition true_types (pv0 : kvs) : list string :=
  filter (type_active pv0) noise_types_sorted.

(** numeric comparisons of a Python value with a float constant *)
Definition py_cmp (v : pv) (c : float) (op : float -> float -> bool) : option bool :=
  match v with
  | PFlt f => Some (op f c)
  | PInt z => Some (op (f_of_Z z) c)
  | PBool b => Some (op (if b then one else zero) c)
  | _ => None
  end.
Definition py_ge0 v := match py_cmp v zero f_ge with Some b => b | None => false end.
Definition py_gt0 v := match py_cmp v zero f_gt with Some b => b | None => false end.
Definition py_le1 v := match py_cmp v one f_le with Some b => b | None => false end.
Definition py_ne (v : pv) (c : float) : bool := negb (pyeq v (PFlt c)).

Definition is_matrix_of (n : nat) (op : pv) : bool :=
  match op with
  | PList rows =>
      Nat.eqb (List.length rows) n
      && forallb (fun r => match r with
                           | PList es =>
                               Nat.eqb (List.length es) n
                               && forallb (fun e => match num_of e with Some _ => true | None => false end) es
                           | _ => false
                           end) rows
  | _ => false
  end.

(** [NoiseModel._check_eff_noise] *)
Definition check_eff_noise (rates opers : pv) (check_contents with_leakage : bool) : bool :=
  match rates, opers with
  | PList rs, PList ops =>
      Nat.eqb (List.length ops) (List.length rs)
      && forallb (fun r => match r with PFlt _ => true | _ => false end) rs
      && (negb check_contents
          || (negb (Nat.eqb (List.length ops) 0)
              && forallb (fun r => match r with PFlt f => negb (f_lt f zero) | _ => false end) rs
              && (let m := if with_leakage then 3%nat else 2%nat in
                  forallb (fun op => is_matrix_of m op || is_matrix_of (S m) op) ops)))
  | _, _ => false
  end.

(** [param_vals[p] = param_vals[p] or 0.0] for [_POSITIVE | _PROBABILITY_LIKE] *)
Definition or0 (p : string) (v : pv) : pv :=
  if mem_s p noise_positive || mem_s p noise_prob then
    (if truthy v then v else PFlt zero)
  else v.

(** [NoiseModel._find_relevant_params] (a set; only membership matters) *)
Definition relevant (T : list string) (spe sigma waist : pv) : list string :=
  let base :=
    flat_map (fun t =>
                params_of_type t
                ++ (if String.eqb t "doppler"
                       || (String.eqb t "amplitude" && py_ne sigma zero)
                       || (String.eqb t "SPAM" && py_ne spe zero)
                    then ["runs"; "samples_per_run"] else [])) T in
  match waist with
  | PNone => filter (fun p => negb (String.eqb p "laser_waist")) base
  | _ => base
  end.

(** [NoiseModel._validate_parameters] on one entry *)
Definition valid_param (p : string) (v : pv) : bool :=
  if mem_s p noise_positive then py_ge0 v
  else if mem_s p noise_strict_positive then
         match v with PNone => false | _ => py_gt0 v end
  else if mem_s p noise_prob then py_ge0 v && py_le1 v
  else if mem_s p noise_boolean then match v with PBool _ => true | _ => false end
  else true.

Definition is_none (v : pv) : bool := match v with PNone => true | _ => false end.

Definition val_of (l : kvs) (p : string) : pv :=
  match get p l with Some v => v | None => PNone end.

(** [NoiseModel.__init__]: [Some instance] or [None] when it raises *)
Definition noise_init (args : kvs) : option pv :=
  (* unexpected keyword argument -> TypeError *)
  if negb (forallb (fun k => mem_s k noise_param_order) (keys args)) then None else
  let pv0 := pvals0 args in
  let T := true_types pv0 in
  (* _check_leakage_noise *)
  if mem_s "leakage" T && negb (mem_s "eff_noise" T) then None else
  if negb (check_eff_noise (val_of pv0 "eff_noise_rates") (val_of pv0 "eff_noise_opers")
                           (mem_s "eff_noise" T) (truthy (val_of pv0 "with_leakage")))
  then None else
  let pv1 := map (fun e : string * pv => (fst e, or0 (fst e) (snd e))) pv0 in
  let R := relevant T (val_of pv1 "state_prep_error") (val_of pv1 "amp_sigma")
                    (val_of pv1 "laser_waist") in
  if negb (forallb (fun e : string * pv =>
                      (is_none (snd e) && negb (mem_s (fst e) R))
                      || valid_param (fst e) (snd e)) pv1)
  then None else
  Some (PDict (("__class__", PStr "NoiseModel")
               :: ("noise_types", PList (map PStr T))
               :: map (fun f => (f, val_of pv1 f)) (tl noise_fields))).

(** the string list held by a [noise_types] value *)
Definition strs_of (v : pv) : list string :=
  match v with
  | PList l => flat_map (fun x => match x with PStr s => [s] | _ => [] end) l
  | PStr s => [s]
  | _ => []
  end.

Fixpoint zip_pairs (a b : list pv) : list pv :=
  match a, b with
  | x :: r, y :: s => PList [x; y] :: zip_pairs r s
  | _, _ => []
  end.

(** [NoiseModel._to_abstract_repr] followed by the JSON encoding of values *)
Definition enc_noise (n : pv) : option pv :=
  let a := attrs_of n in
  match get "with_leakage" a, get "eff_noise_rates" a, get "eff_noise_opers" a with
  | Some _, Some (PList rs), Some (PList ops) =>
      let rest := remove_key "eff_noise_opers" (remove_key "eff_noise_rates" (remove_key "with_leakage" a)) in
      Some (enc_json (PDict (rest ++ [("eff_noise", PList (zip_pairs rs ops))])))
  | _, _, _ => None
  end.

Definition unzip_pair (x : pv) : option (pv * pv) :=
  match x with
  | PList [r; o] => Some (r, convert_complex o)
  | _ => None
  end.

Definition not_separate (p : string) : bool :=
  negb (mem_s p ["eff_noise_rates"; "eff_noise_opers"; "with_leakage"]).

Definition same_set (a b : list string) : bool :=
  forallb (fun x => mem_s x b) a && forallb (fun x => mem_s x a) b.

Fixpoint dedup (l : list string) : list string :=
  match l with
  | [] => []
  | a :: r => if mem_s a r then dedup r else a :: dedup r
  end.

(** [_deserialize_noise_model] *)
Definition dec_noise (o : pv) : option pv :=
  match o with
  | PDict obj =>
      match get "eff_noise" obj, get "noise_types" obj with
      | Some (PList eff), Some nt =>
          match mapM unzip_pair eff,
                get "state_prep_error" obj, get "amp_sigma" obj, get "laser_waist" obj with
          | Some pairs, Some spe, Some sigma, Some waist =>
              let T := strs_of nt in
              let R := filter not_separate (dedup (relevant T spe sigma waist)) in
              match mapM (fun p => match get p obj with Some v => Some (p, v) | None => None end) R with
              | Some kw =>
                  match noise_init (kw ++ [("eff_noise_rates", PList (map fst pairs));
                                           ("eff_noise_opers", PList (map snd pairs));
                                           ("with_leakage", PBool (mem_s "leakage" T))]) with
                  | Some nm =>
                      if same_set (strs_of (attr "noise_types" nm)) T then Some nm else None
                  | None => None
                  end
              | None => None
              end
          | _, _, _, _ => None
          end
      | _, _ => None
      end
  | _ => None
  end.

(** ** SimConfig *)
Definition sc_name (p : string) : string :=
  match find (fun e : string * string => String.eqb p (fst e)) diff_noise_params with
  | Some e => snd e
  | None => p
  end.

Definition scale_attr (k : string) (f : float -> float) (a : kvs) : kvs :=
  map (fun e : string * pv =>
         if String.eqb (fst e) k then
           (fst e, match flt_of (snd e) with Some x => PFlt (f x) | None => snd e end)
         else e) a.

(** every entry of every operator becomes complex ([qutip.Qobj(op).full()]) *)
Definition to_cx (e : pv) : pv :=
  match e with
  | PCx _ _ => e
  | _ => match flt_of e with Some x => PCx x zero | None => e end
  end.
Definition opers_full (v : pv) : pv :=
  match v with
  | PList ops =>
      PList (map (fun op => match op with
                            | PList rows =>
                                PList (map (fun r => match r with
                                                     | PList es => PList (map to_cx es)
                                                     | _ => r
                                                     end) rows)
                            | _ => op
                            end) ops)
  | _ => v
  end.

(** [SimConfig.__post_init__]: validations + temperature conversion *)
Definition sc_post_init (a : kvs) : option kvs :=
  let a1 := match get "noise" a with
            | Some (PStr s) => set_key "noise" (PList [PStr s]) a
            | _ => a
            end in
  match get "temperature" a1 with
  | Some (PInt _) | Some (PFlt _) | Some (PBool _) =>
      let a2 := scale_attr "temperature" (fun x => (x / f_1e6')%float) a1 in
      let noise := strs_of (val_of a2 "noise") in
      if negb (forallb (fun t => mem_s t noise_types_sorted) noise) then None else
      if negb (forallb (fun p => py_ge0 (val_of a2 p) && py_le1 (val_of a2 p))
                       ["eta"; "epsilon"; "epsilon_prime"]) then None else
      if negb (check_eff_noise (val_of a2 "eff_noise_rates") (val_of a2 "eff_noise_opers")
                               (mem_s "eff_noise" noise) (mem_s "leakage" noise)) then None else
      if negb (forallb (fun e : string * pv => valid_param (fst e) (snd e)) a2) then None else
      Some a2
  | _ => None
  end.

Definition sc_construct (kwargs : kvs) : option pv :=
  match construct "SimConfig" tbl_SimConfig kwargs with
  | Some (PDict (c :: a)) =>
      match sc_post_init a with
      | Some a' => Some (PDict (c :: a'))
      | None => None
      end
  | _ => None
  end.

(** [SimConfig.from_noise_model] *)
Definition sc_from_noise (nm : pv) : option pv :=
  let T := strs_of (attr "noise_types" nm) in
  let R := dedup (relevant T (attr "state_prep_error" nm) (attr "amp_sigma" nm)
                           (attr "laser_waist" nm)) in
  let kw0 := ("noise", attr "noise_types" nm)
             :: map (fun p => (sc_name p,
                               (* list(map(qutip.Qobj, opers)): entries become complex *)
                               if String.eqb p "eff_noise_opers" then opers_full (attr p nm)
                               else attr p nm)) R in
  let kw1 := if mem_s "amplitude" T && negb (has_key "laser_waist" kw0)
             then kw0 ++ [("laser_waist", PFlt infinity)] else kw0 in
  let kw2 := remove_key "with_leakage" kw1 in
  sc_construct kw2.

Definition is_inf (v : pv) : bool :=
  match v with
  | PFlt f => f_eq f infinity || f_eq f neg_infinity
  | _ => false
  end.

(** [SimConfig.to_noise_model] *)
Definition sc_to_noise (sc : pv) : option pv :=
  let noise := strs_of (attr "noise" sc) in
  let waist := if is_inf (attr "laser_waist" sc) then PNone else attr "laser_waist" sc in
  let R := dedup (relevant noise (attr "eta" sc) (attr "amp_sigma" sc) waist) in
  let kw := map (fun p =>
                   (p, if String.eqb p "with_leakage" then PBool (mem_s "leakage" noise)
                       else if String.eqb p "eff_noise_opers" then opers_full (attr (sc_name p) sc)
                       else attr (sc_name p) sc)) R in
  let kw' := scale_attr "temperature" (fun x => (x * f_1e6')%float) kw in
  noise_init kw'.
