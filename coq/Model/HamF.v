(** C05 - the Hamiltonian model instantiated with complex numbers made of
    binary64 floats, and the runner that compares it, inside Coq, with the
    matrices [QutipEmulator.get_hamiltonian] returned.  No proofs here.

    Decisions (eigenbasis, dimension, which sample index a sampled time reads:
    numpy's linspace in binary64) are reproduced exactly; matrix entries are
    compared with the tolerance 1e-9 * (1 + max |entry|) because the order of
    QuTiP's floating-point sums is not modelled. *)
From Coq Require Import List Arith Bool ZArith.
From Coq Require Import Uint63 FloatOps SpecFloat PrimFloat.
From PV Require Import Model.Base Model.Ham.
Import ListNotations.
Local Open Scope nat_scope.

Definition cf := (float * float)%type.
Definition cf_add (a b : cf) : cf := (fst a + fst b, snd a + snd b)%float.
Definition cf_sub (a b : cf) : cf := (fst a - fst b, snd a - snd b)%float.
Definition cf_mul (a b : cf) : cf :=
  (fst a * fst b - snd a * snd b, fst a * snd b + snd a * fst b)%float.
Definition cf_opp (a : cf) : cf := (- fst a, - snd a)%float.
Definition cf_conj (a : cf) : cf := (fst a, - snd a)%float.
Definition cf_re (x : float) : cf := (x, zero).

Definition fops : cops :=
  {| car := cf; c0 := (zero, zero); c1 := (one, zero);
     cadd := cf_add; cmul := cf_mul; csub := cf_sub; copp := cf_opp;
     cconj := cf_conj; chalf := (0x1p-1%float, zero) |}.

Record fchan := {
  fc_global : bool;
  fc_dmm : bool;
  fc_basis : nat;
  fc_nonempty : bool;                     (* not ChannelSamples.is_empty() *)
  fc_dur : Z;                             (* ChannelSamples.duration *)
  fc_slots : list (Z * Z * list nat);
  fc_w : list float;                      (* detuning-map weight per register index *)
  fc_eom : list (option Z * float);       (* eom_blocks: (tf, detuning_off) *)
  fc_last : float * float                 (* cos, sin of phase[-1]; (1, 0) when empty *)
}.

Record ftime := {
  ft_k : Z;                                           (* index into sampling_times *)
  ft_vals : list (float * float * (float * float));   (* amp, det, (cos, sin) at that time *)
  ft_H : list (nat * nat * (float * float))           (* non-zero entries returned *)
}.

Record fcase := {
  f_n : nat;
  f_coords : list (float * float * float);
  f_c6 : float;
  f_c3 : float;
  f_mag : float * float * float;
  f_chans : list fchan;
  f_mask : list nat;
  f_mask_end : Z;
  f_tot : Z;                                (* QutipEmulator._tot_duration *)
  f_rate : float;
  f_times : list ftime
}.

(** numpy.linspace(0, stop, num, dtype=int)[k] *)
Definition lin_index (stop num k : Z) : Z :=
  if (k =? num - 1)%Z then stop
  else
    let step := (f_of_Z stop / f_of_Z (num - 1))%float in
    match f_trunc (f_of_Z k * step + zero)%float with
    | Some z => z
    | None => (-1)%Z
    end.

Definition f_coord (cs : list (float * float * float)) (i : nat) :=
  nth i cs (zero, zero, zero).

Definition f_dist (a b : float * float * float) : float :=
  let '(ax, ay, az) := a in
  let '(bx, by_, bz) := b in
  let dx := (ax - bx)%float in
  let dy := (ay - by_)%float in
  let dz := (az - bz)%float in
  PrimFloat.sqrt (dx * dx + dy * dy + dz * dz)%float.

(** make_vdw_term / make_xy_term coefficients (before the factor 1/2) *)
Definition f_U (cs : fcase) (xy : bool) (i j : nat) : cf :=
  let a := f_coord (f_coords cs) i in
  let b := f_coord (f_coords cs) j in
  let dist := f_dist a b in
  if xy then
    let '(ax, ay, az) := a in
    let '(bx, by_, bz) := b in
    let '(mx, my, mz) := f_mag cs in
    let dot := ((ax - bx) * mx + (ay - by_) * my + (az - bz) * mz)%float in
    let mn := PrimFloat.sqrt (mx * mx + my * my + mz * mz)%float in
    let cosv := (dot / (dist * mn))%float in
    cf_re (f_c3 cs * (one - 0x1.8p+1 * (cosv * cosv)) / (dist * dist * dist))%float
  else
    let d3 := (dist * dist * dist)%float in
    cf_re (f_c6 cs / (d3 * d3))%float.

Definition dedup (l : list nat) : list nat :=
  fold_left (fun acc x => if memb x acc then acc else acc ++ [x]) l [].

(** ChannelSamples.extend_duration: amplitude padded with 0, phase with its
    last value, detuning with [detuning_off] of the LAST EOM block when that
    block is still open ([eom_blocks[-1].tf is None]) and with 0 otherwise *)
Definition tail_det (c : fchan) : float :=
  match last (map Some (fc_eom c)) None with
  | Some (None, d) => d
  | _ => zero
  end.

Definition f_used (cs : fcase) : list nat :=
  (* used_bases is read on the emulator's samples, i.e. after the extension:
     an open EOM block with a non-zero detuning_off makes the channel non-empty *)
  dedup (map fc_basis
             (filter (fun c => fc_nonempty c || negb (PrimFloat.eqb (tail_det c) zero))
                     (f_chans cs))).
Definition f_in_xy (cs : fcase) : bool :=
  existsb (fun c => fc_basis c =? 2) (f_chans cs).
Definition only_digital (used : list nat) : bool :=
  match used with [] => false | _ => forallb (Nat.eqb 1) used end.

Definition chan_at (t : Z) (c : fchan) (v : float * float * (float * float))
  : chan fops :=
  let '(amp, det, (co, si)) :=
    if (t <? fc_dur c)%Z then v else (zero, tail_det c, fc_last c) in
  Build_chan fops (fc_global c) (fc_dmm c) (fc_basis c)
    (Build_qty fops (cf_re amp) (cf_re det) (co, - si)%float)
    (fc_slots c)
    (fun q => if fc_dmm c then cf_re (nth q (fc_w c) zero) else cf_re one).

Fixpoint zip_with {A B C} (f : A -> B -> C) (a : list A) (b : list B) : list C :=
  match a, b with
  | x :: a', y :: b' => f x y :: zip_with f a' b'
  | _, _ => []
  end.

Definition lookup_H (h : list (nat * nat * cf)) (I J : nat) : cf :=
  match find (fun e => (fst (fst e) =? I) && (snd (fst e) =? J)) h with
  | Some e => snd e
  | None => (zero, zero)
  end.

Definition f_absmax (h : list (nat * nat * cf)) : float :=
  fold_left (fun m e => f_max m (f_max (abs (fst (snd e))) (abs (snd (snd e)))))
            h zero.

(** largest |model - implementation| over all entries (nan propagates to a
    failure because [nan <= tol] is false) *)
Definition max_dev (dim : nat) (H : nat -> nat -> cf)
           (h : list (nat * nat * cf)) : float :=
  fold_left
    (fun m I =>
       fold_left
         (fun m J =>
            let a := H I J in
            let b := lookup_H h I J in
            let dr := abs (fst a - fst b)%float in
            let di := abs (snd a - snd b)%float in
            let m1 := if f_le dr m then m else dr in
            if f_le di m1 then m1 else di)
         (seq 0 dim) m)
    (seq 0 dim) zero.

Definition f_tolerance (h : list (nat * nat * cf)) : float :=
  (0x1.12e0be826d695p-30 * (one + f_absmax h))%float.   (* 1e-9 *)

Record fctx := {
  x_xy : bool; x_eb : list nat; x_d : nat; x_hi : bool; x_md : bool;
  x_D : Z; x_m : Z
}.

Definition f_ctx (cs : fcase) : fctx :=
  let xy := f_in_xy cs in
  let used := f_used cs in
  let eb := eigenbasis xy used in
  let D := (f_tot cs + 1)%Z in
  {| x_xy := xy; x_eb := eb; x_d := length eb;
     x_hi := negb (only_digital used) && (1 <? f_n cs);
     x_md := (0 <? f_mask_end cs)%Z && xy;
     x_D := D;
     x_m := match f_trunc (f_rate cs * f_of_Z D)%float with
            | Some z => z | None => (-1)%Z end |}.

Definition f_time_of (cs : fcase) (x : fctx) (k : Z) : Z :=
  lin_index (x_D x - 1) (x_m x) k.

Definition f_model_at (cs : fcase) (x : fctx) (ft : ftime) : nat -> nat -> cf :=
  let t := f_time_of cs x (ft_k ft) in
  (* coeff = ones(duration) is read with the indices of the sampling times *)
  let idx := lin_index (x_D x - 1) (x_m x) (ft_k ft) in
  let unmasked_on := negb (idx <? f_mask_end cs)%Z in
  ham_model fops (x_d x) (f_n cs) (x_eb x) (x_xy x) (x_hi x) (x_md x)
            unmasked_on (f_mask cs) (f_mask_end cs) t (f_U cs (x_xy x))
            (zip_with (chan_at t) (f_chans cs) (ft_vals ft)).

Definition f_dev_at (cs : fcase) (x : fctx) (ft : ftime) : float :=
  max_dev (x_d x ^ f_n cs) (f_model_at cs x ft) (ft_H ft).

Definition run_case (cs : fcase) : sv :=
  let x := f_ctx cs in
  (* first component: "the emulator cannot be built" - never, for a sequence
     the constructor's own checks accept *)
  SL [SB false; SZ (Z.of_nat (x_d x));
      SL (map (fun s => SZ (Z.of_nat s)) (x_eb x));
      SZ (x_m x);
      SL (map (fun ft =>
                 SL [SZ (f_time_of cs x (ft_k ft));
                     SB (f_le (f_dev_at cs x ft) (f_tolerance (ft_H ft)))])
              (f_times cs))].

(** for diagnostics *)
Definition run_devs (cs : fcase) : list float :=
  let x := f_ctx cs in map (f_dev_at cs x) (f_times cs).
