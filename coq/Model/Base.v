(** Shared basics for all models: result monad carrier, float helpers that
    reproduce the IEEE-754 double computations Pulser performs when taking
    decisions, and the [sv] value type used to compare model outputs with
    implementation outputs inside Coq. No proofs here. *)
From Coq Require Import ZArith List Bool String.
From Coq Require Import Uint63 FloatOps SpecFloat PrimFloat.
Import ListNotations.
Open Scope Z_scope.

(** Exception classes of the implementation, as a small enum. *)
Inductive err :=
| EValue | EType | ERuntime | EIndex | ENotImpl | EKey | EZeroDiv | EOther.

Definition err_code (e : err) : Z :=
  match e with
  | EValue => 1 | EType => 2 | ERuntime => 3 | EIndex => 4
  | ENotImpl => 5 | EKey => 6 | EZeroDiv => 7 | EOther => 8
  end.

Inductive res (A : Type) :=
| Ok (a : A)
| Err (e : err).
Arguments Ok {A} a.
Arguments Err {A} e.

Definition rbind {A B} (r : res A) (f : A -> res B) : res B :=
  match r with Ok a => f a | Err e => Err e end.

(** * Floats *)

Definition f_prec := 53%Z.
Definition f_emax := 1024%Z.

Definition f2pi : float := 0x1.921fb54442d18p+2%float.

(** bit-level equality (distinguishes -0.0 from 0.0, identifies NaNs) *)
Definition sf_eqb (a b : spec_float) : bool :=
  match a, b with
  | S754_nan, S754_nan => true
  | S754_zero s, S754_zero t => Bool.eqb s t
  | S754_infinity s, S754_infinity t => Bool.eqb s t
  | S754_finite s m e, S754_finite t n f =>
      Bool.eqb s t && Pos.eqb m n && Z.eqb e f
  | _, _ => false
  end.
Definition f_biteq (a b : float) : bool := sf_eqb (Prim2SF a) (Prim2SF b).

(** Python / numpy [!=] and [==] on floats are IEEE comparisons. *)
Definition f_eq (a b : float) : bool := PrimFloat.eqb a b.
Definition f_ne (a b : float) : bool := negb (PrimFloat.eqb a b).
Definition f_lt (a b : float) : bool := PrimFloat.ltb a b.
Definition f_le (a b : float) : bool := PrimFloat.leb a b.
Definition f_gt (a b : float) : bool := PrimFloat.ltb b a.
Definition f_ge (a b : float) : bool := PrimFloat.leb b a.

Definition f_of_Z (z : Z) : float :=
  SF2Prim (binary_normalize f_prec f_emax z 0 false).

(** value of a finite float as (mantissa, exponent) with sign in mantissa *)
Definition f_to_me (x : float) : option (Z * Z) :=
  match Prim2SF x with
  | S754_zero _ => Some (0, 0)
  | S754_finite s m e => Some (if s then Zneg m else Zpos m, e)
  | _ => None
  end.

Definition f_sign (x : float) : bool := get_sign x.

(** Python's [int(x)] for a finite float: truncation toward zero. *)
Definition f_trunc (x : float) : option Z :=
  match f_to_me x with
  | Some (m, e) =>
      Some (if 0 <=? e then m * 2 ^ e else Z.quot m (2 ^ (- e)))
  | None => None
  end.

(** C [fmod], exact. *)
Definition f_fmod (x y : float) : float :=
  match Prim2SF x, Prim2SF y with
  | S754_nan, _ | _, S754_nan => nan
  | S754_infinity _, _ => nan
  | _, S754_zero _ => nan
  | S754_zero s, _ => x
  | S754_finite _ _ _, S754_infinity _ => x
  | S754_finite sx mx ex, S754_finite sy my ey =>
      let e := Z.min ex ey in
      let X := Zpos mx * 2 ^ (ex - e) in
      let Y := Zpos my * 2 ^ (ey - e) in
      let R := Z.rem X Y in
      if R =? 0 then (if sx then neg_zero else zero)
      else SF2Prim (binary_normalize f_prec f_emax (if sx then - R else R) e false)
  end.

(** Python / numpy [x % y] on floats (npy_divmod / float_rem). *)
Definition f_pymod (x y : float) : float :=
  let m := f_fmod x y in
  if PrimFloat.is_nan m then m
  else if PrimFloat.is_zero y then m
  else if PrimFloat.is_zero m then (if get_sign y then neg_zero else zero)
  else if Bool.eqb (f_lt y zero) (f_lt m zero) then m
  else (m + y)%float.

Definition f_mod2pi (x : float) : float := f_pymod x f2pi.

(** [np.rint]: round half to even, via the 2^52 trick (valid for |x| < 2^52;
    larger magnitudes are already integers). *)
Definition f_two52 : float := 0x1p+52%float.
Definition f_rint (x : float) : float :=
  if PrimFloat.is_nan x then x
  else if f_ge (abs x) f_two52 then x
  else if get_sign x
       then let r := ((x - f_two52) + f_two52)%float in
            if PrimFloat.is_zero r then neg_zero else r
       else let r := ((x + f_two52) - f_two52)%float in r.

(** [np.round(x, 6)] = [rint(x * 1e6) / 1e6]. *)
Definition f_1e6 : float := 0x1.e848p+19%float.
Definition f_round6 (x : float) : float := (f_rint (x * f_1e6) / f_1e6)%float.

Definition f_max (a b : float) : float := if f_lt a b then b else a.

(** * A small universal value type for comparing outputs inside Coq. *)
Inductive sv :=
| SZ (z : Z)
| SF (f : float)
| SB (b : bool)
| SL (l : list sv).

Fixpoint sv_eqb (a b : sv) {struct a} : bool :=
  match a, b with
  | SZ x, SZ y => Z.eqb x y
  | SF x, SF y => f_biteq x y
  | SB x, SB y => Bool.eqb x y
  | SL x, SL y =>
      (fix go (l1 l2 : list sv) {struct l1} : bool :=
         match l1, l2 with
         | [], [] => true
         | a1 :: r1, a2 :: r2 => sv_eqb a1 a2 && go r1 r2
         | _, _ => false
         end) x y
  | _, _ => false
  end.

Definition sv_opt {A} (f : A -> sv) (o : option A) : sv :=
  match o with None => SL [] | Some a => SL [f a] end.

(** indices of the cases whose model output differs from the expectation *)
Fixpoint mismatches_from (i : Z) (l : list (sv * sv)) : list Z :=
  match l with
  | [] => []
  | (a, b) :: r =>
      if sv_eqb a b then mismatches_from (i + 1) r
      else i :: mismatches_from (i + 1) r
  end.
Definition mismatches (l : list (sv * sv)) : list Z := mismatches_from 0 l.
