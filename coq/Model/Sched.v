(** Executable model of [pulser/sequence/_schedule.py] (and the channel
    functions it relies on).  The functions follow the statement order of the
    Python code; every function that can raise returns in a state-and-exception
    monad that KEEPS the partially mutated state when an exception propagates
    (Python does not roll back).  No proofs here. *)
From Coq Require Import ZArith List Bool.
From Coq Require Import Uint63 FloatOps SpecFloat PrimFloat.
From PV Require Import Model.Base.
Import ListNotations.
Open Scope Z_scope.

(** * State-and-exception monad *)
Definition M (S A : Type) := S -> S * res A.
Definition ret {S A} (a : A) : M S A := fun s => (s, Ok a).
Definition fail {S A} (e : err) : M S A := fun s => (s, Err e).
Definition bind {S A B} (m : M S A) (f : A -> M S B) : M S B :=
  fun s => match m s with
           | (s', Ok a) => f a s'
           | (s', Err e) => (s', Err e)
           end.
Definition get {S} : M S S := fun s => (s, Ok s).
Definition put {S} (s : S) : M S unit := fun _ => (s, Ok tt).
Definition lift {S A} (r : res A) : M S A := fun s => (s, r).
Declare Scope monad_scope.
Notation "x <- m ;; f" := (bind m (fun x => f))
  (at level 61, m at next level, right associativity) : monad_scope.
Notation "m ;;; f" := (bind m (fun _ => f))
  (at level 61, right associativity) : monad_scope.
Open Scope monad_scope.

(** * Channel configuration (the timing- and limit-relevant projection of a
      [Channel] / [DMM] object) *)
Record eomcfg := {
  e_rise : Z;          (* BaseEOM.rise_time *)
  e_buffer : Z;        (* Channel._eom_buffer_time *)
  e_custom : bool      (* bool(eom_config.custom_buffer_time) *)
}.

Record ccfg := {
  c_local : bool;
  c_basis : Z;                 (* 0 ground-rydberg, 1 digital, 2 XY *)
  c_dmm : bool;
  c_clock : Z;
  c_min : Z;
  c_max : option Z;
  c_rise : Z;                  (* Channel.rise_time *)
  c_pj : Z;                    (* Channel.phase_jump_time *)
  c_minret : Z;
  c_fixret : Z;
  c_maxtg : option Z;
  c_maxamp : option float;
  c_maxdet : option float;
  c_minavg : float;
  c_bottom : option float;
  c_totbottom : option float;
  c_eom : option eomcfg
}.

(** Channel.validate_duration *)
Definition validate_duration (c : ccfg) (d : Z) : res Z :=
  if d <? c_min c then Err EValue
  else if (match c_max c with Some m => d >? m | None => false end)
  then Err EValue
  else if negb (d mod c_clock c =? 0)
  then Ok (d + (c_clock c - d mod c_clock c))
  else Ok d.

(** _ChannelSchedule.adjust_duration *)
Definition adjust_duration (c : ccfg) (d : Z) : res Z :=
  validate_duration c (Z.max d (c_min c)).

(** * Pulses as the scheduler sees them *)
Record pulse := {
  p_dur : Z;
  p_phase : float;
  p_post : float;
  p_fstd : Z;        (* fall_time(channel, in_eom_mode=False) *)
  p_feom : Z;        (* fall_time(channel, in_eom_mode=True)  *)
  p_dd : bool;       (* _ChannelSchedule.is_detuned_delay *)
  p_sum : list float; (* payload summary: first/max amplitude, first/last detuning *)
  p_amax : float     (* np.max(amplitude samples) *)
}.

Inductive skind := KTarget | KDelay | KPulse (p : pulse).

Record slot := {
  s_kind : skind;
  s_ti : Z;
  s_tf : Z;
  s_tg : list Z      (* sorted target ids *)
}.

Record eomblk := {
  eb_rabi : float;
  eb_don : float;
  eb_doff : float;
  eb_ti : Z;
  eb_tf : option Z
}.

Record chan := {
  ch_name : Z;
  ch_id : Z;
  ch_cfg : ccfg;
  ch_slots : list slot;    (* NEWEST FIRST: Python's slots[::-1] *)
  ch_eoms : list eomblk;   (* newest first *)
  ch_wait : bool;          (* _DMMSchedule._waiting_for_first_pulse *)
  ch_map : option Z        (* detuning-map identity for a DMM schedule *)
}.

Definition set_slots (c : chan) (l : list slot) : chan :=
  {| ch_name := ch_name c; ch_id := ch_id c; ch_cfg := ch_cfg c;
     ch_slots := l; ch_eoms := ch_eoms c; ch_wait := ch_wait c;
     ch_map := ch_map c |}.
Definition set_eoms (c : chan) (l : list eomblk) : chan :=
  {| ch_name := ch_name c; ch_id := ch_id c; ch_cfg := ch_cfg c;
     ch_slots := ch_slots c; ch_eoms := l; ch_wait := ch_wait c;
     ch_map := ch_map c |}.
Definition set_wait (c : chan) (w : bool) : chan :=
  {| ch_name := ch_name c; ch_id := ch_id c; ch_cfg := ch_cfg c;
     ch_slots := ch_slots c; ch_eoms := ch_eoms c; ch_wait := w;
     ch_map := ch_map c |}.

Definition is_pulse (s : slot) : bool :=
  match s_kind s with KPulse _ => true | _ => false end.
Definition is_target (s : slot) : bool :=
  match s_kind s with KTarget => true | _ => false end.

(** _ChannelSchedule.in_eom_mode() (no time slot) *)
Definition in_eom (c : chan) : bool :=
  match ch_eoms c with
  | b :: _ => match eb_tf b with None => true | Some _ => false end
  | [] => false
  end.

Definition pfall (ineom : bool) (p : pulse) : Z :=
  if ineom then p_feom p else p_fstd p.

(** _ChannelSchedule.get_duration *)
Fixpoint gd_scan (rise2 : Z) (ineom : bool) (temp : Z) (l : list slot) : Z :=
  match l with
  | [] => temp
  | op :: r =>
      match s_kind op with
      | KPulse p => Z.max temp (s_tf op + pfall ineom p)
      | _ => if temp - s_tf op >=? rise2 then temp
             else gd_scan rise2 ineom temp r
      end
  end.

Definition ch_duration (c : chan) (fall : bool) : Z :=
  match ch_slots c with
  | [] => 0
  | op :: _ =>
      if fall then gd_scan (2 * c_rise (ch_cfg c)) (in_eom c) (s_tf op) (ch_slots c)
      else s_tf op
  end.

(** _ChannelSchedule.last_target *)
Fixpoint last_target (l : list slot) : Z :=
  match l with
  | [] => 0
  | s :: r => if is_target s then s_tf s else last_target r
  end.

(** _ChannelSchedule.last_pulse_slot *)
Fixpoint last_pulse_slot (ignore_dd : bool) (l : list slot) : option (slot * pulse) :=
  match l with
  | [] => None
  | s :: r =>
      match s_kind s with
      | KPulse p => if ignore_dd && p_dd p then last_pulse_slot ignore_dd r
                    else Some (s, p)
      | _ => last_pulse_slot ignore_dd r
      end
  end.

(** _Schedule._get_last_pulse_phase *)
Definition last_pulse_phase (c : chan) : float :=
  match last_pulse_slot false (ch_slots c) with
  | Some (_, p) => p_phase p
  | None => zero
  end.

(** * The schedule: channels in Python dict (declaration) order *)
Record env := {
  en_max : option Z;                     (* _Schedule.max_duration *)
  en_oracle : list (Z * Z * (Z * Z))     (* (channel name, ti) -> fall times of
                                            pulses the scheduler creates itself *)
}.

Definition sched := list chan.

Fixpoint find_chan (n : Z) (l : sched) : option chan :=
  match l with
  | [] => None
  | c :: r => if ch_name c =? n then Some c else find_chan n r
  end.

Fixpoint upd_chan (n : Z) (f : chan -> chan) (l : sched) : sched :=
  match l with
  | [] => []
  | c :: r => if ch_name c =? n then f c :: r else c :: upd_chan n f r
  end.

Fixpoint oracle_lookup (o : list (Z * Z * (Z * Z))) (n ti : Z) : Z * Z :=
  match o with
  | [] => (0, 0)
  | (n', ti', v) :: r => if (n' =? n) && (ti' =? ti) then v else oracle_lookup r n ti
  end.

Definition SM := M sched.

(** self[channel]; the Sequence validates the name first, a missing key is a
    model-level KeyError *)
Definition the_chan (n : Z) : SM chan :=
  fun s => match find_chan n s with
           | Some c => (s, Ok c)
           | None => (s, Err EKey)
           end.

(** self[channel][-1] (ValueError "The chosen channel has no target.") *)
Definition last_slot (n : Z) : SM slot :=
  c <- the_chan n ;;
  match ch_slots c with
  | [] => fail EValue
  | s :: _ => ret s
  end.

Definition append_slot (n : Z) (sl : slot) : SM unit :=
  fun s => (upd_chan n (fun c => set_slots c (sl :: ch_slots c)) s, Ok tt).

(** _Schedule._check_duration *)
Definition check_duration (e : env) (t : Z) (block : bool) : res unit :=
  match en_max e with
  | Some m => if (t >? m) && block then Err ERuntime else Ok tt
  | None => Ok tt
  end.

Definition intersects (a b : list Z) : bool :=
  existsb (fun x => existsb (Z.eqb x) b) a.

Fixpoint list_Z_eqb (a b : list Z) : bool :=
  match a, b with
  | [], [] => true
  | x :: r, y :: t => (x =? y) && list_Z_eqb r t
  | _, _ => false
  end.

(** detuned-delay pulse the scheduler builds itself:
    Pulse.ConstantPulse(d, 0.0, det_off, phase) *)
Definition with_falls (e : env) (n ti : Z) (p : pulse) : pulse :=
  let f := oracle_lookup (en_oracle e) n ti in
  {| p_dur := p_dur p; p_phase := p_phase p; p_post := p_post p;
     p_fstd := fst f; p_feom := snd f; p_dd := p_dd p; p_sum := p_sum p;
     p_amax := p_amax p |}.

Definition mk_dd_pulse (e : env) (n ti d : Z) (phase doff : float) : pulse :=
  with_falls e n ti
  {| p_dur := d; p_phase := f_mod2pi phase; p_post := zero;
     p_fstd := 0; p_feom := 0; p_dd := true; p_sum := [zero; zero; doff; doff];
     p_amax := zero |}.

(** _Schedule.add_delay *)
Definition add_delay (e : env) (d : Z) (n : Z) : SM unit :=
  last <- last_slot n ;;
  c <- the_chan n ;;
  let ti := s_tf last in
  d' <- lift (validate_duration (ch_cfg c) d) ;;
  let tf := ti + d' in
  lift (check_duration e tf true) ;;;
  if in_eom c &&
     match ch_eoms c with b :: _ => f_ne (eb_doff b) zero | [] => false end
  then
    let doff := match ch_eoms c with b :: _ => eb_doff b | [] => zero end in
    let p := mk_dd_pulse e n ti (tf - ti) (last_pulse_phase c) doff in
    append_slot n {| s_kind := KPulse p; s_ti := ti; s_tf := tf; s_tg := s_tg last |}
  else
    append_slot n {| s_kind := KDelay; s_ti := ti; s_tf := tf; s_tg := s_tg last |}.

(** _Schedule.wait_for_fall *)
Definition wait_for_fall (e : env) (n : Z) : SM unit :=
  c <- the_chan n ;;
  let fall := ch_duration c true - ch_duration c false in
  if fall >? 0 then
    d <- lift (adjust_duration (ch_cfg c) fall) ;;
    add_delay e d n
  else ret tt.

(** _Schedule._find_add_delay: backwards scan of one other channel *)
Fixpoint fad_scan (rise2 : Z) (ineom : bool) (tg : list Z) (wfa : bool)
         (cur : Z) (l : list slot) : Z :=
  match l with
  | [] => cur
  | op :: r =>
      match s_kind op with
      | KPulse p =>
          let en := s_tf op + pfall ineom p in
          if en <=? cur then cur
          else if intersects (s_tg op) tg || wfa then en
          else fad_scan rise2 ineom tg wfa cur r
      | _ =>
          if s_tf op + rise2 <=? cur then cur
          else fad_scan rise2 ineom tg wfa cur r
      end
  end.

Fixpoint find_add_delay (n : Z) (tg : list Z) (wfa : bool) (cur : Z)
         (chs : sched) : Z :=
  match chs with
  | [] => cur
  | c :: r =>
      if ch_name c =? n then find_add_delay n tg wfa cur r
      else find_add_delay n tg wfa
             (fad_scan (2 * c_rise (ch_cfg c)) (in_eom c) tg wfa cur (ch_slots c)) r
  end.

(** _PhaseDriftParams *)
Record drift := { dr_rate : float; dr_ti : Z }.
Definition calc_phase_drift (d : drift) (tf : Z) : float :=
  (dr_rate d * f_of_Z (tf - dr_ti d) * 0x1.0624dd2f1a9fcp-10)%float.  (* 1e-3 *)

Definition corrected_phase (p : pulse) (d : option drift) (tf : Z) : float :=
  match d with
  | Some dp => (p_phase p - calc_phase_drift dp tf)%float
  | None => (p_phase p - zero)%float
  end.

Definition set_phase (p : pulse) (ph : float) : pulse :=
  {| p_dur := p_dur p; p_phase := ph; p_post := p_post p; p_fstd := p_fstd p;
     p_feom := p_feom p; p_dd := p_dd p; p_sum := p_sum p; p_amax := p_amax p |}.

Definition fold_max (l : list Z) (a : Z) : Z := fold_left Z.max l a.

(** protocol codes: 0 min-delay, 1 no-delay, 2 wait-for-all *)
(** _Schedule.make_next_pulse_slot (pure: returns the slot or raises) *)
Definition make_next_pulse_slot (e : env) (p : pulse) (n : Z)
           (barriers : list Z) (proto : Z) (dp : option drift) (block : bool)
  : SM slot :=
  last <- last_slot n ;;
  c <- the_chan n ;;
  s <- get ;;
  let t0 := s_tf last in
  let cur0 := fold_max barriers t0 in
  let '(cur, pjb) :=
    if proto =? 1 then (cur0, 0)
    else
      let cur := find_add_delay n (s_tg last) (proto =? 2) cur0 s in
      match last_pulse_slot true (ch_slots c) with
      | Some (lps, lp) =>
          if f_ne (p_phase lp) (corrected_phase p dp cur) then
            let ie := in_eom c in
            (cur,
             Z.max (c_pj (ch_cfg c)) (2 * c_rise (ch_cfg c) * (if ie then 1 else 0))
             + pfall ie lp - (t0 - s_tf lps))
          else (cur, 0)
      | None => (cur, 0)
      end in
  let dd := Z.max (cur - t0) pjb in
  dd' <- (if dd >? 0 then lift (adjust_duration (ch_cfg c) dd) else ret dd) ;;
  let ti := t0 + dd' in
  let tf := ti + p_dur p in
  lift (check_duration e tf block) ;;;
  let p' := match dp with
            | Some _ => set_phase p (f_mod2pi (corrected_phase p dp ti))
            | None => p
            end in
  ret {| s_kind := KPulse (with_falls e n ti p'); s_ti := ti; s_tf := tf;
         s_tg := s_tg last |}.

(** _Schedule.add_pulse *)
Definition add_pulse (e : env) (p : pulse) (n : Z) (barriers : list Z)
           (proto : Z) (dp : option drift) : SM unit :=
  last <- last_slot n ;;
  sl <- make_next_pulse_slot e p n barriers proto dp true ;;
  let dd := s_ti sl - s_tf last in
  (if dd >? 0 then add_delay e dd n else ret tt) ;;;
  append_slot n sl.

Definition Zclip (x lo hi : Z) : Z := Z.min (Z.max x lo) hi.

(** _Schedule.add_target *)
Definition add_target (e : env) (qs : list Z) (n : Z) : SM unit :=
  c <- the_chan n ;;
  match ch_slots c with
  | [] =>
      lift (check_duration e 0 true) ;;;
      append_slot n {| s_kind := KTarget; s_ti := -1; s_tf := 0; s_tg := qs |}
  | _ :: _ =>
      wait_for_fall e n ;;;
      last <- last_slot n ;;
      c <- the_chan n ;;
      if list_Z_eqb (s_tg last) qs then ret tt
      else
        let ti := s_tf last in
        let cfg := ch_cfg c in
        let retarget := c_minret cfg in
        let elapsed := ti - last_target (ch_slots c) in
        let delta := Zclip (retarget - elapsed) 0 retarget in
        let delta := if negb (c_fixret cfg =? 0) then Z.max delta (c_fixret cfg) else delta in
        delta' <- (if negb (delta =? 0) then lift (adjust_duration cfg delta) else ret delta) ;;
        let tf := ti + delta' in
        lift (check_duration e tf true) ;;;
        append_slot n {| s_kind := KTarget; s_ti := ti; s_tf := tf; s_tg := qs |}
  end.

Definition eom_buffer_time (c : ccfg) : Z :=
  match c_eom c with Some ec => e_buffer ec | None => 0 end.

(** the EOM buffer pulse built by enable_eom:
    Pulse.ConstantPulse(buffer, 0.0, detuning_off, last phase); its fall times
    come from the oracle, keyed by the instant at which it will start *)
Definition mk_buffer_pulse (e : env) (n ti d : Z) (phase doff : float) : pulse :=
  mk_dd_pulse e n ti d phase doff.

(** _Schedule.enable_eom (the _skip_buffer flag is never set by callers) *)
Definition enable_eom (e : env) (n : Z) (amp_on det_on det_off : float)
           (skip_wait : bool) : SM unit :=
  c <- the_chan n ;;
  (if negb (ch_duration c false =? 0) then
     (if negb skip_wait then wait_for_fall e n else ret tt) ;;;
     buf <- lift (adjust_duration (ch_cfg c) (eom_buffer_time (ch_cfg c))) ;;
     if f_ne det_off zero then
       c1 <- the_chan n ;;
       last <- last_slot n ;;
       add_pulse e (mk_buffer_pulse e n (s_tf last) buf (last_pulse_phase c1) det_off)
                 n [0] 1 None
     else add_delay e buf n
   else ret tt) ;;;
  last <- last_slot n ;;
  fun s =>
    (upd_chan n (fun c => set_eoms c
       ({| eb_rabi := amp_on; eb_don := det_on; eb_doff := det_off;
           eb_ti := s_tf last; eb_tf := None |} :: ch_eoms c)) s, Ok tt).

Definition close_eom (c : chan) (tf : Z) : chan :=
  match ch_eoms c with
  | b :: r => set_eoms c ({| eb_rabi := eb_rabi b; eb_don := eb_don b;
                             eb_doff := eb_doff b; eb_ti := eb_ti b;
                             eb_tf := Some tf |} :: r)
  | [] => c
  end.

(** _Schedule.disable_eom *)
Definition disable_eom (e : env) (n : Z) (skip_buffer : bool) : SM unit :=
  last <- last_slot n ;;
  (fun s => (upd_chan n (fun c => close_eom c (s_tf last)) s, Ok tt)) ;;;
  c <- the_chan n ;;
  if negb skip_buffer then
    match c_eom (ch_cfg c) with
    | Some ec =>
        if e_custom ec then
          buf <- lift (adjust_duration (ch_cfg c) (eom_buffer_time (ch_cfg c))) ;;
          add_delay e buf n
        else wait_for_fall e n
    | None => wait_for_fall e n
    end
  else ret tt.

(** _Schedule.get_duration *)
Definition sched_duration (s : sched) (n : option Z) (fall : bool) : res Z :=
  match n with
  | Some n => match find_chan n s with
              | Some c => Ok (ch_duration c fall)
              | None => Err EKey
              end
  | None => Ok (fold_left (fun a c => Z.max a (ch_duration c fall)) s 0)
  end.
