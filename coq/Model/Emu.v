(** C11 - executable models of the measurement / sampling / evaluation-time
    logic of the emulators:

    - [QutipResult._basis_name], [_eigenbasis], [_weights]
      (pulser_simulation/qutip_result.py) and [Result.sampling_dist],
      [Result.get_samples] (pulser/result.py);
    - [QutipState.probabilities], [bitstring_probabilities], [sample]
      (pulser_simulation/qutip_state.py);
    - [multinomial] (pulser/math/multinomial.py): [np.cumsum] + [np.searchsorted];
    - [CoherentResults.sample_state] detection errors (simresults.py);
    - [Hamiltonian._adapt_to_sampling_rate], [QutipEmulator.set_evaluation_times],
      [QutipConfig._get_legacy_evaluation_times], the [evaluation_time] label of
      [_run_solver] (bit-exact [PrimFloat]);
    - the normalisation of [default_evaluation_times] by
      [EmulationConfig.__init__] and its re-creation in
      [EmulatorBackend.__init__] (backend/abc.py:100).

    Probabilities enter as exact integers: every float produced by the
    implementation is a dyadic rational, the harness sends the numerators over
    one common power-of-two denominator [unit].  No proofs here. *)
From Coq Require Import ZArith List Bool.
From Coq Require Import Uint63 FloatOps SpecFloat PrimFloat.
From PV Require Import Model.Base.
Import ListNotations.
Open Scope Z_scope.

(** * Small list helpers *)
Fixpoint zrange_from (a : Z) (n : nat) : list Z :=
  match n with O => [] | S m => a :: zrange_from (a + 1) m end.
Definition zrange (n : Z) : list Z := zrange_from 0 (Z.to_nat n).

Definition zsum (l : list Z) : Z := fold_right Z.add 0 l.

Fixpoint zlist_eqb (a b : list Z) : bool :=
  match a, b with
  | [], [] => true
  | x :: r, y :: s => (x =? y) && zlist_eqb r s
  | _, _ => false
  end.

Fixpoint forallb2 {A B} (f : A -> B -> bool) (a : list A) (b : list B) : bool :=
  match a, b with
  | [], [] => true
  | x :: r, y :: s => f x y && forallb2 f r s
  | _, _ => false
  end.

Fixpoint index_of_from (k : Z) (x : Z) (l : list Z) : option Z :=
  match l with
  | [] => None
  | y :: r => if x =? y then Some k else index_of_from (k + 1) x r
  end.
Definition index_of (x : Z) (l : list Z) : option Z := index_of_from 0 x l.

Definition zmem (x : Z) (l : list Z) : bool := existsb (Z.eqb x) l.

Definition znth (l : list Z) (i : Z) : Z :=
  if i <? 0 then 0 else nth (Z.to_nat i) l 0.

(** * Positional notation: the flat index of a tensor-product basis state.
    [qutip.tensor] and [probs.reshape([dim] * size)] are row-major: the FIRST
    atom (register order) is the MOST significant digit. *)
Fixpoint digits_lsb (d : Z) (n : nat) (i : Z) : list Z :=
  match n with
  | O => []
  | S m => (i mod d) :: digits_lsb d m (i / d)
  end.
Definition digits (d : Z) (n : nat) (i : Z) : list Z := rev (digits_lsb d n i).

Fixpoint undigits_lsb (d : Z) (l : list Z) : Z :=
  match l with
  | [] => 0
  | a :: r => a + d * undigits_lsb d r
  end.
Definition undigits (d : Z) (l : list Z) : Z := undigits_lsb d (rev l).

(** * Basis names and eigenbases (qutip_result.py:58-97).
    State codes follow [STATES_RANK] = (u, d, r, g, h, x) = 0..5.
    Measurement bases: 0 ground-rydberg, 1 digital, 2 XY; base 3 = "all". *)
Inductive bname := BN (base : Z) (with_error : bool).

Definition basis_name (meas d : Z) (matching : bool) : res bname :=
  if meas =? 2 then
    if d =? 3 then Ok (BN 2 true)
    else if d =? 2 then Ok (BN 2 false)
    else Err EOther (* AssertionError *)
  else if d =? 4 then Ok (BN 3 true)
  else if d =? 3 then
    if matching then Ok (BN meas true) else Ok (BN 3 false)
  else if d =? 2 then
    if negb matching then Ok (BN (if meas =? 0 then 1 else 0) false)
    else Ok (BN meas false)
  else Err EOther.

(** EIGENSTATES and get_states_from_bases (ranked by STATES_RANK) *)
Definition base_states (base : Z) : list Z :=
  if base =? 0 then [2; 3]
  else if base =? 1 then [3; 4]
  else if base =? 2 then [0; 1]
  else [2; 3; 3; 4].
Definition eigenbasis (bn : bname) : list Z :=
  match bn with
  | BN base we =>
      filter (fun s => zmem s (base_states base)) [0; 1; 2; 3; 4; 5]
      ++ (if we then [5] else [])
  end.

(** one_state_dict: ground-rydberg -> r, digital -> h, XY -> d *)
Definition one_state (meas : Z) : option Z :=
  if meas =? 0 then Some 2
  else if meas =? 1 then Some 4
  else if meas =? 2 then Some 1
  else None.

(** * [QutipResult._weights] before the final normalisation.
    [unit] is the integer standing for 1.0. *)

(** [np.ix_] selection of one axis: the digit must lie in [ex_one] (bit 0) or
    in [[one_state_idx]] (bit 1); [ex_one = [i for i in range(dim) if i != one]] *)
Definition allowed (d one : Z) (v dg : Z) : bool :=
  if v =? 0 then negb (dg =? one) && (0 <=? dg) && (dg <? d)
  else dg =? one.

Definition ix_match (d : Z) (n : nat) (one dec i : Z) : bool :=
  forallb2 (allowed d one) (digits 2 n dec) (digits d n i).

(** [weights[dec_val] = np.sum(probs[np.ix_( *ind )])] *)
Definition weight_at (d : Z) (n : nat) (one : Z) (probs : list Z) (dec : Z) : Z :=
  zsum (map (fun ip => if ix_match d n one dec (fst ip) then snd ip else 0)
            (combine (zrange (d ^ Z.of_nat n)) probs)).

Definition weights_general (d : Z) (n : nat) (one : Z) (probs : list Z) : list Z :=
  map (weight_at d n one probs) (zrange (2 ^ Z.of_nat n)).

Definition weights_raw (meas d : Z) (n : nat) (matching : bool) (unit : Z)
           (probs : list Z) : res (list Z) :=
  if d =? 2 then
    if matching then Ok (if meas =? 0 then rev probs else probs)
    else Ok (unit :: repeat 0 (length probs - 1))
  else if (d =? 3) || (d =? 4) then
    match one_state meas with
    | None => Err ERuntime
    | Some os =>
        rbind (basis_name meas d matching) (fun bn =>
        match index_of os (eigenbasis bn) with
        | None => Err EValue (* list.index *)
        | Some one => Ok (weights_general d n one probs)
        end)
    end
  else Err ENotImpl.

(** [Result.sampling_dist]: the bitstrings with a non-zero weight, as
    [dec_val]s in increasing order. *)
Definition support (ws : list Z) : list Z :=
  map fst (filter (fun iw => negb (snd iw =? 0)) (combine (zrange (Z.of_nat (length ws))) ws)).

(** [a/den_a] and [b/den_b] differ by at most [1/tol_inv] *)
Definition q_close (tol_inv a den_a b den_b : Z) : bool :=
  Z.abs (a * den_b - b * den_a) * tol_inv <=? Z.abs (den_a * den_b).

(** the implementation's normalised weights [impl] (numerators over [unit])
    against the model's [ws / sum ws] *)
Definition weights_close (tol_inv unit : Z) (ws impl : list Z) : bool :=
  let tot := zsum ws in
  (0 <? tot) && forallb2 (fun w x => q_close tol_inv w tot x unit) ws impl.

(** * [QutipState.probabilities] / [bitstring_probabilities] (qutip_state.py:111-158).
    Eigenstates are letters, so the chain of [str.replace] maps the one state
    to "1" and every other state to "0", atom by atom. *)
Definition infer_one_state (eig : list Z) : res Z :=
  (* set(eigenstates) == {r,g} -> r | {g,h} -> h | {u,d} -> d *)
  let has x := zmem x eig in
  let only a b := forallb (fun s => (s =? a) || (s =? b)) eig && has a && has b in
  if only 2 3 then Ok 2
  else if only 3 4 then Ok 4
  else if only 0 1 then Ok 1
  else Err ERuntime.

Definition bits_of (d : Z) (n : nat) (one : Z) (i : Z) : list Z :=
  map (fun dg => if dg =? one then 1 else 0) (digits d n i).

(** insertion-ordered accumulation: [defaultdict(float)] / [Counter] *)
Fixpoint acc_add (k v : Z) (l : list (Z * Z)) : list (Z * Z) :=
  match l with
  | [] => [(k, v)]
  | (k', v') :: r => if k =? k' then (k', v' + v) :: r else (k', v') :: acc_add k v r
  end.

Definition lookup (k : Z) (l : list (Z * Z)) : Z :=
  match find (fun kv => fst kv =? k) l with Some kv => snd kv | None => 0 end.

(** returns (bitstring code, numerator) in insertion order, and the
    normalising total [np.sum(probs[non_zero])] *)
Definition v2_bitprobs (d : Z) (n : nat) (one cutoff : Z) (probs : list Z)
  : list (Z * Z) * Z :=
  let kept := filter (fun ip => cutoff <? snd ip)
                     (combine (zrange (d ^ Z.of_nat n)) probs) in
  (fold_left (fun acc ip => acc_add (undigits 2 (bits_of d n one (fst ip))) (snd ip) acc)
             kept [],
   zsum (map snd kept)).

Definition v2_bitprobs_res (d : Z) (n : nat) (eig : list Z) (one_given : option Z)
           (cutoff : Z) (probs : list Z) : res (list (Z * Z) * Z) :=
  rbind (match one_given with Some o => Ok o | None => infer_one_state eig end)
        (fun os =>
           (* an explicit one_state that is not an eigenstate replaces nothing *)
           let one := match index_of os eig with Some k => k | None => -1 end in
           Ok (v2_bitprobs d n one cutoff probs)).

Definition bitprobs_close (tol_inv unit : Z) (m : list (Z * Z) * Z)
           (impl : list (Z * Z)) : bool :=
  let tot := snd m in
  (0 <? tot)
  && forallb2 (fun kv kx => (fst kv =? fst kx) && q_close tol_inv (snd kv) tot (snd kx) unit)
              (fst m) impl.

(** * Sampling: [multinomial] = [np.searchsorted(np.cumsum(p), rnd)].
    Generic in the number type so that the lemmas (over an abstract strict
    total order) and the run-time instance (floats) share the text. *)
Section Sampling.
  Context {T : Type}.
  Variable ltb : T -> T -> bool.
  Variable add : T -> T -> T.

  Fixpoint cumsum_from (acc : T) (l : list T) : list T :=
    match l with
    | [] => []
    | x :: r => let a := add acc x in a :: cumsum_from a r
    end.
  (** np.cumsum starts from the first element itself *)
  Definition cumsum (l : list T) : list T :=
    match l with [] => [] | x :: r => x :: cumsum_from x r end.

  (** numpy's left binary search (npy_binsearch, side = left) for one key *)
  Fixpoint bsearch (arr : list T) (key : T) (fuel : nat) (imin imax : Z) : Z :=
    match fuel with
    | O => imin
    | S f =>
        if imin <? imax then
          let mid := imin + (imax - imin) / 2 in
          match nth_error arr (Z.to_nat mid) with
          | Some a =>
              if ltb a key then bsearch arr key f (mid + 1) imax
              else bsearch arr key f imin mid
          | None => imin
          end
        else imin
    end.
  Definition searchsorted (arr : list T) (key : T) : Z :=
    bsearch arr key (S (length arr)) 0 (Z.of_nat (length arr)).

  (** the specification: first index whose element is not below the key *)
  Fixpoint first_ge_from (k : Z) (arr : list T) (key : T) : Z :=
    match arr with
    | [] => k
    | a :: r => if ltb a key then first_ge_from (k + 1) r key else k
    end.
  Definition first_ge := first_ge_from 0.

  Fixpoint sortedb (arr : list T) : bool :=
    match arr with
    | [] => true
    | a :: r => match r with [] => true | b :: _ => negb (ltb b a) && sortedb r end
    end.

  Definition multinomial (probs us : list T) : list Z :=
    map (searchsorted (cumsum probs)) us.

  (** detection errors: a bit flips iff its uniform draw is below the rate
      selected by its value ([np.where(arr == 1, rate1, rate0)], [rnd < rate],
      [arr ^ flips]) *)
  Definition flip_bit (rate0 rate1 : T) (bit : Z) (u : T) : Z :=
    let fl := ltb u (if bit =? 1 then rate1 else rate0) in
    if fl then 1 - bit else bit.
  Fixpoint flip_bits (rate0 rate1 : T) (bits : list Z) (us : list T) : list Z :=
    match bits, us with
    | b :: r, u :: s => flip_bit rate0 rate1 b u :: flip_bits rate0 rate1 r s
    | _, _ => []
    end.
End Sampling.

(** Counter with first-occurrence order *)
Definition counter (keys : list Z) : list (Z * Z) :=
  fold_left (fun acc k => acc_add k 1 acc) keys [].

(** dense count vector of length [m] *)
Definition dense (m : Z) (c : list (Z * Z)) : list Z :=
  map (fun k => lookup k c) (zrange m).

Fixpoint take {A} (n : nat) (l : list A) : list A :=
  match n, l with
  | S m, x :: r => x :: take m r
  | _, _ => []
  end.
Fixpoint drop {A} (n : nat) (l : list A) : list A :=
  match n, l with
  | S m, _ :: r => drop m r
  | _, _ => l
  end.

(** [Result.get_samples]: Counter of [binary_repr(i, size)] *)
Definition get_samples (weights us : list float) : list (Z * Z) :=
  counter (multinomial PrimFloat.ltb PrimFloat.add weights us).

(** [CoherentResults.sample_state] with measurement errors: the shots of the
    counter are repeated in counter order, one row of uniforms per shot *)
Fixpoint flip_rows (n : nat) (eps eps_p : float) (shots : list Z) (us : list float)
  : list Z :=
  match shots with
  | [] => []
  | s :: r =>
      undigits 2 (flip_bits PrimFloat.ltb eps eps_p (digits 2 n s) (take n us))
      :: flip_rows n eps eps_p r (drop n us)
  end.

Definition sample_state_legacy (n : nat) (weights us : list float)
           (eps eps_p : float) (flip_us : list float) : list Z :=
  let c := get_samples weights us in
  let m := 2 ^ Z.of_nat n in
  if PrimFloat.eqb eps zero && PrimFloat.eqb eps_p zero then dense m c
  else
    let shots := flat_map (fun kv => repeat (fst kv) (Z.to_nat (snd kv))) c in
    dense m (counter (flip_rows n eps eps_p shots flip_us)).

(** [QutipState.sample]: [bitstrings[indices]] in shot order, one row of
    uniforms per shot; [keys] are the bitstrings of [bitstring_probabilities]
    in dictionary order, [probs] their (float) probabilities *)
Definition sample_v2 (n : nat) (keys : list Z) (probs us : list float)
           (p_false_pos p_false_neg : float) (flip_us : list float) : list Z :=
  let idx := multinomial PrimFloat.ltb PrimFloat.add probs us in
  let shots := map (fun i => znth keys i) idx in
  let m := 2 ^ Z.of_nat n in
  if PrimFloat.eqb p_false_pos zero && PrimFloat.eqb p_false_neg zero
  then dense m (counter shots)
  else dense m (counter (flip_rows n p_false_pos p_false_neg shots flip_us)).

(** * Evaluation times (bit-exact floats) *)
Definition f_1000 : float := 0x1.f4p+9%float.
Definition f_1em3 : float := 0x1.0624dd2f1a9fcp-10%float. (* 1e-3 *)
Definition f_1e3 : float := f_1000.                         (* 1e3 *)

(** int -> double through the primitive conversion for 0 <= z < 2^53 (exact);
    [Base.f_of_Z] otherwise.  The two agree (checked by [f_of_N_agrees] in
    Proofs/EmuTimes.v on the range the sweeps use); the primitive one makes the
    sweeps over 10^5 durations cheap. *)
Definition f_of_N (z : Z) : float :=
  if (0 <=? z) && (z <? 9007199254740992)
  then PrimFloat.of_uint63 (Uint63.of_Z z) else f_of_Z z.

Definition f_truncZ (x : float) : Z :=
  match f_trunc x with Some z => z | None => 0 end.

(** [np.linspace(0, stop, num, dtype=int)] (numpy/_core/function_base.py):
    [step = delta / div], [y = arange(num) * step], last element forced to
    [stop], floor, cast *)
Definition linspace_int (stop num : Z) : list Z :=
  if num <=? 0 then []
  else if num =? 1 then [0]
  else
    let delta := f_of_N stop in
    let div := f_of_N (num - 1) in
    let step := (delta / div)%float in
    map (fun i =>
           if i =? num - 1 then stop
           else if PrimFloat.eqb step zero
                then f_truncZ ((f_of_N i / div) * delta)%float
                else f_truncZ (f_of_N i * step)%float)
        (zrange num).

(** [Hamiltonian._adapt_to_sampling_rate(np.arange(dur)/1000)] with
    [dur = total duration + 1] *)
Definition sampling_indices (rate : float) (dur : Z) : list Z :=
  linspace_int (dur - 1) (f_truncZ (rate * f_of_N dur)%float).
Definition sampling_times (rate : float) (dur : Z) : list float :=
  map (fun i => (f_of_N i / f_1000)%float) (sampling_indices rate dur).

(** sorted insertion and [np.union1d] = sort + drop equal neighbours *)
Fixpoint f_insert (x : float) (l : list float) : list float :=
  match l with
  | [] => [x]
  | y :: r => if PrimFloat.ltb y x then y :: f_insert x r else x :: l
  end.
Definition f_sort (l : list float) : list float := fold_right f_insert [] l.
Fixpoint f_uniq (l : list float) : list float :=
  match l with
  | [] => []
  | x :: r =>
      match r with
      | [] => [x]
      | y :: _ => if PrimFloat.eqb x y then f_uniq r else x :: f_uniq r
      end
  end.
Definition union1d (a b : list float) : list float := f_uniq (f_sort (a ++ b)).

Definition f_maxl (init : float) (l : list float) : float :=
  fold_left (fun m x => if PrimFloat.ltb m x then x else m) l init.
Definition f_minl (init : float) (l : list float) : float :=
  fold_left (fun m x => if PrimFloat.ltb x m then x else m) l init.

(** the [value] argument of [set_evaluation_times] *)
Inductive evspec :=
| EvFull
| EvMinimal
| EvFloat (v : float)
| EvList (l : list float).

(** [QutipEmulator.set_evaluation_times] (simulation.py:376-441); [T] is
    [_tot_duration], the Hamiltonian was sampled on [T + 1] points *)
Definition set_evaluation_times (rate : float) (T : Z) (v : evspec) : res (list float) :=
  let tf := (f_of_N T / f_1000)%float in
  (* a thunk: evaluation inside Coq is strict, the sweeps over T must not
     pay for the sampling grid when the branch does not use it *)
  let st := fun _ : unit => sampling_times rate (T + 1) in
  rbind
    (match v with
     | EvFull => Ok (st tt)
     | EvMinimal => Ok []
     | EvFloat x =>
         if PrimFloat.ltb one x || PrimFloat.leb x zero then Err EValue
         else
           let s := st tt in
           let len := Z.of_nat (length s) in
           let idx := linspace_int (len - 1) (f_truncZ (x * f_of_N len)%float) in
           Ok (map (fun i => nth (Z.to_nat i) s zero) idx)
     | EvList l =>
         if PrimFloat.ltb tf (f_maxl zero l) then Err EValue
         else if PrimFloat.ltb (f_minl zero l) zero then Err EValue
         else Ok l
     end)
    (fun ev => Ok (union1d ev [zero; tf])).

(** the relative time label of each result: [t / T * 1e3] *)
Definition eval_labels (T : Z) (ts : list float) : list float :=
  map (fun t => (t / f_of_N T * f_1e3)%float) ts.

(** [QutipConfig._get_legacy_evaluation_times] (qutip_config.py:119-139).
    [default = None] stands for "Full"; [extra] are the observables' own
    evaluation times (a set: order irrelevant, union1d sorts). *)
Definition v2_sampling_rel (rate : float) (T : Z) : list float :=
  map (fun i => (f_of_N i / f_of_N T)%float)
      (linspace_int (T - 1) (f_truncZ (rate * f_of_N T)%float)).

Definition v2_legacy_eval_times (rate : float) (T : Z) (default : option (list float))
           (extra : list float) : evspec :=
  let rel :=
    match extra with
    | [] => default
    | _ =>
        let base := match default with None => v2_sampling_rel rate T | Some l => l end in
        Some (union1d base extra)
    end in
  match rel with
  | None => EvFull
  | Some l => EvList (map (fun r => (r * f_of_N T * f_1em3)%float) l)
  end.

(** what [QutipBackendV2.__init__] ends up with *)
Definition v2_eval_times (rate : float) (T : Z) (default : option (list float))
           (extra : list float) : res (list float) :=
  set_evaluation_times rate T (v2_legacy_eval_times rate T default extra).

(** the proposed repair: scale by the same quotient the validator uses *)
Definition v2_legacy_eval_times_fixed (rate : float) (T : Z)
           (default : option (list float)) (extra : list float) : evspec :=
  match v2_legacy_eval_times rate T default extra with
  | EvList _ =>
      let rel :=
        match extra with
        | [] => match default with Some l => l | None => [] end
        | _ => union1d (match default with None => v2_sampling_rel rate T | Some l => l end) extra
        end in
      EvList (map (fun r => (r * (f_of_N T / f_1000))%float) rel)
  | other => other
  end.

(** the defect predicate: the default final time overshoots the validator *)
Definition final_time_overshoots (T : Z) : bool :=
  PrimFloat.ltb (f_of_N T / f_1000)%float (one * f_of_N T * f_1em3)%float.

(** [SimulationResults._get_index_from_time]: the FIRST index whose time is
    strictly closer than [tol] to [t] ([np.where(abs(t - times) < tol)[0][0]]);
    IndexError when there is none *)
Definition index_from_time (t tol : float) (times : list float) : res Z :=
  match first_ge_from (fun x _ => negb (PrimFloat.ltb (abs (t - x)) tol)) 0 times t with
  | k => if k <? Z.of_nat (length times) then Ok k else Err EIndex
  end.

(** [get_final_state] / [sample_final_state] look the final time up again *)
Definition final_index (times : list float) : res Z :=
  index_from_time (last times zero) 0x1.0624dd2f1a9fcp-10%float times.

(** * [EmulationConfig.__init__] on [default_evaluation_times] and the
    re-creation [type(default)( **config._backend_options)] under numpy 2:
    the stored value is an ndarray; [array != "Full"] is element-wise, its
    truth value exists only for exactly one element. *)
Inductive detimes :=
| DFull
| DSeq (l : list float)    (* a Python sequence of numbers *)
| DArr (l : list float).   (* a numpy array *)

Definition valid_eval_times (l : list float) : bool :=
  forallb (fun x => negb (PrimFloat.ltb x zero || PrimFloat.ltb one x)) l
  && (fix asc (l : list float) : bool :=
        match l with
        | [] => true
        | x :: r => match r with [] => true | y :: _ => PrimFloat.ltb x y && asc r end
        end) l.

Definition config_init (d : detimes) : res detimes :=
  match d with
  | DFull => Ok DFull
  | DSeq l => if valid_eval_times l then Ok (DArr l) else Err EValue
  | DArr l =>
      match l with
      | [_] => if valid_eval_times l then Ok (DArr l) else Err EValue
      | _ => Err EValue  (* truth value of an array with != 1 element *)
      end
  end.

(** what the user asked for vs what the backend holds after re-creation *)
Definition config_recreate (d : detimes) : res detimes :=
  rbind (config_init d) config_init.
