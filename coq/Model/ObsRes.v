(** C20 model, part 2: [pulser.backend.results.Results] - the store of
    observable values ([_store_raw], [get_result], [get_result_times],
    tag lookup), statement by statement, generic in the type of times and
    values.  Definitions only. *)
From Coq Require Import ZArith List Bool.
Import ListNotations.
Open Scope Z_scope.

Section ObsRes.
Variables T V : Type.
Variables teq tlt : T -> T -> bool.   (* Python [==] and [<] on times *)

Fixpoint lookup {A} (k : Z) (l : list (Z * A)) : option A :=
  match l with
  | [] => None
  | (k', a) :: r => if Z.eqb k k' then Some a else lookup k r
  end.

(** dict assignment: replace in place or append (insertion order) *)
Fixpoint update {A} (k : Z) (a : A) (l : list (Z * A)) : list (Z * A) :=
  match l with
  | [] => [(k, a)]
  | (k', a') :: r => if Z.eqb k k' then (k, a) :: r else (k', a') :: update k a r
  end.

Record store := mkstore {
  s_times : list (Z * list T);   (* _times   : uuid -> times *)
  s_vals : list (Z * list V);    (* _results : uuid -> values *)
  s_tags : list (Z * Z)          (* _tagmap  : tag -> uuid *)
}.
Definition empty_store : store := mkstore [] [] [].

Definition get_list {A} (k : Z) (l : list (Z * list A)) : list A :=
  match lookup k l with Some x => x | None => [] end.

Fixpoint last_opt {A} (l : list A) : option A :=
  match l with [] => None | [x] => Some x | _ :: r => last_opt r end.

Inductive outcome := Stored | RaisedDuplicate | RaisedNotSorted.

(** [Results._store_raw] *)
Definition store_raw (st : store) (uuid tag : Z) (t : T) (v : V) : store * outcome :=
  let ts := get_list uuid (s_times st) in
  (* _times = self._times.setdefault(uuid, []) *)
  let st1 := mkstore (update uuid ts (s_times st)) (s_vals st) (s_tags st) in
  if existsb (fun x => teq x t) ts then (st1, RaisedDuplicate)
  else
    (* self._tagmap[tag] = uuid *)
    let st2 := mkstore (s_times st1) (s_vals st1) (update tag uuid (s_tags st1)) in
    if match last_opt ts with None => true | Some l => tlt l t end
    then
      (mkstore (update uuid (ts ++ [t]) (s_times st2))
         (update uuid (get_list uuid (s_vals st2) ++ [v]) (s_vals st2))
         (s_tags st2), Stored)
    else (st2, RaisedNotSorted).

Inductive key := ByObs (uuid : Z) | ByTag (tag : Z).

(** [Results._find_uuid]: [None] = ValueError *)
Definition find_uuid (st : store) (k : key) : option Z :=
  match k with
  | ByObs u => match lookup u (s_vals st) with Some _ => Some u | None => None end
  | ByTag g => lookup g (s_tags st)
  end.

Fixpoint index_of_time (t : T) (ts : list T) : option nat :=
  match ts with
  | [] => None
  | x :: r => if teq x t then Some O
              else match index_of_time t r with Some i => Some (S i) | None => None end
  end.

(** [Results.get_result]: [None] = ValueError *)
Definition get_result (st : store) (k : key) (t : T) : option V :=
  match find_uuid st k with
  | None => None
  | Some u =>
      match lookup u (s_times st), lookup u (s_vals st) with
      | Some ts, Some vs =>
          match index_of_time t ts with
          | Some i => nth_error vs i
          | None => None
          end
      | _, _ => None
      end
  end.

(** [Results.get_result_times] *)
Definition get_result_times (st : store) (k : key) : option (list T) :=
  match find_uuid st k with
  | None => None
  | Some u => lookup u (s_times st)
  end.

(** a history of [_store] calls *)
Definition call := (Z * Z * T * V)%type.
Definition run_calls (st : store) (cs : list call) : store :=
  fold_left (fun s c => match c with (u, g, t, v) => fst (store_raw s u g t v) end) cs st.

(** strictly ascending *)
Fixpoint ascending (ts : list T) : bool :=
  match ts with
  | [] => true
  | x :: r => match r with [] => true | y :: _ => tlt x y && ascending r end
  end.

End ObsRes.
