(** C20 model, part 4: the executable instance.  The ring is the Gaussian
    integers [Z[i]] (pairs); rational inputs are scaled to integers over
    explicit common denominators, so every model value is an exact rational.
    The implementation's floats are converted exactly to rationals and compared
    with a stated tolerance (1e-9, mixed absolute/relative) inside Coq.
    Definitions only. *)
From Coq Require Import ZArith List Bool QArith Qabs.
From Coq Require Import Uint63 FloatOps SpecFloat PrimFloat.
From PV Require Import Model.Base Model.ObsLin.
Import ListNotations.
Open Scope Z_scope.

(** * Gaussian integers *)
Definition C := (Z * Z)%type.
Definition c0 : C := (0, 0).
Definition c1 : C := (1, 0).
Definition cadd (a b : C) : C := (fst a + fst b, snd a + snd b).
Definition cmul (a b : C) : C :=
  (fst a * fst b - snd a * snd b, fst a * snd b + snd a * fst b).
Definition copp (a : C) : C := (- fst a, - snd a).
Definition csub (a b : C) : C := cadd a (copp b).
Definition cconj (a : C) : C := (fst a, - snd a).

Definition cvec := vec C.
Definition cmat := mat C.
Definition cstate := state C.

Definition vec_of_list (l : list C) : cvec := fun i => nth i l c0.
Definition mat_of_rows (rows : list (list C)) : cmat := fun i j => nth j (nth i rows []) c0.

(** the model, instantiated *)
Definition x_expect := expect C c0 cadd cmul cconj.
Definition x_overlap := overlap C c0 cadd cmul cconj.
Definition x_apply := apply_to C c0 cadd cmul cconj.
Definition x_occupation := obs_occupation C c0 c1 cadd cmul cconj.
Definition x_correlation := obs_correlation C c0 c1 cadd cmul cconj.
Definition x_m2 := obs_m2 C c0 c1 cadd cmul cconj.
Definition x_variance := obs_variance C c0 c1 cadd cmul cconj csub.
Definition x_def_variance := def_variance C c0 cadd cmul csub.
Definition x_fidelity := obs_fidelity C c0 cadd cmul cconj.
Definition x_from_repr := from_repr C c0 c1 cadd cmul.
Definition x_from_amps := from_amps C c0 cadd.
Definition x_mmul := mmul C c0 cadd cmul.
Definition x_madd := madd C cadd.
Definition x_mscale := mscale C cmul.
Definition x_def_expect := def_expect C c0 cadd cmul.
Definition x_def_m2 := def_m2 C c0 cadd cmul.
Definition x_rho := rho_of C cmul cconj.

(** * exact comparison of an implementation float with a model rational *)
Definition f2q (f : float) : option Q :=
  match f_to_me f with
  | Some (m, e) =>
      Some (if 0 <=? e then inject_Z (m * 2 ^ e) else Qmake m (Z.to_pos (2 ^ (- e))))
  | None => None
  end.

Definition tolq : Q := 1 # 1000000000.
Definition mkq (num den : Z) : Q := Qmake num (Z.to_pos den).

(** |f - x| <= tol * (1 + |x|) *)
Definition closeq (x : Q) (f : float) : bool :=
  match f2q f with
  | None => false
  | Some q => Qle_bool (Qabs (q - x)%Q) (tolq * (1 + Qabs x))%Q
  end.
Definition close (num den : Z) (f : float) : bool := closeq (mkq num den) f.

Definition all_true (l : list bool) : bool := forallb (fun b => b) l.

(** * one "observables on a state" case *)
Definition is_ket (s : cstate) : bool := match s with Ket _ _ => true | Dm _ _ => false end.
(** denominator of [rho] for a state whose entries are integers over [sden] *)
Definition rho_den (s : cstate) (sden : Z) : Z := if is_ket s then sden * sden else sden.

Definition nat_range (n : nat) : list nat := seq 0 n.

Definition chk_occupation (d n one : nat) (s : cstate) (sden : Z) (impl : list float) : bool :=
  (length impl =? n)%nat &&
  all_true (map (fun p => close (fst (x_occupation d n one s (fst p))) (rho_den s sden) (snd p))
              (combine (nat_range n) impl)).

Definition chk_correlation (d n one : nat) (s : cstate) (sden : Z) (impl : list (list float)) : bool :=
  (length impl =? n)%nat &&
  all_true (map (fun pi =>
      (length (snd pi) =? n)%nat &&
      all_true (map (fun pj => close (fst (x_correlation d n one s (fst pi) (fst pj)))
                                 (rho_den s sden) (snd pj))
                  (combine (nat_range n) (snd pi))))
    (combine (nat_range n) impl)).

(** complex expectation: real and imaginary parts *)
Definition chk_expect (D : nat) (A : cmat) (aden : Z) (s : cstate) (sden : Z) (re im : float) : bool :=
  let x := x_expect D A s in
  close (fst x) (rho_den s sden * aden) re && close (snd x) (rho_den s sden * aden) im.

(** [EnergySecondMoment]: real part of [x_m2]; entries of H over [hden] *)
Definition chk_m2 (d n : nat) (H : cmat) (hden : Z) (s : cstate) (sden : Z) (f : float) : bool :=
  close (fst (x_m2 d n H s)) (rho_den s sden * hden * hden) f.

(** [EnergyVariance]: [Re second_moment - (Re energy)^2] *)
Definition chk_var (d n : nat) (H : cmat) (hden : Z) (s : cstate) (sden : Z) (f : float) : bool :=
  let w := rho_den s sden in
  let m2 := mkq (fst (x_m2 d n H s)) (w * hden * hden) in
  let e := mkq (fst (x_expect (d ^ n) H s)) (w * hden) in
  closeq (m2 - e * e)%Q f.

Definition chk_fidelity (D : nat) (t : cstate) (tden : Z) (s : cstate) (sden : Z) (f : float) : bool :=
  close (fst (x_fidelity D t s)) (rho_den t tden * rho_den s sden) f.

(** * probabilities of the measurement outcomes ([probabilities],
      [bitstring_probabilities]) *)
Definition weight (s : cstate) (k : nat) : Z :=
  match s with
  | Ket _ v => let a := v k in fst a * fst a + snd a * snd a
  | Dm _ M => Z.abs (fst (M k k))
  end.

(** the bitstring (as a number, leftmost qudit most significant) of basis state
    [k]: each qudit reads 1 if it is in the one-state, else 0 *)
Definition bits_of (d n one k : nat) : Z :=
  fold_left (fun acc x => 2 * acc + (if Nat.eqb x one then 1 else 0)) (digs d n k) 0.

Fixpoint add_to (key : Z) (w : Z) (l : list (Z * Z)) : list (Z * Z) :=
  match l with
  | [] => [(key, w)]
  | (k', w') :: r => if key =? k' then (k', w' + w) :: r else (k', w') :: add_to key w r
  end.

(** [cutoff] is compared exactly: [w_k / wden > cutoff] *)
Definition bit_weights (d n one : nat) (s : cstate) (sden : Z) (cutoff : float) : list (Z * Z) * Z :=
  let wden := rho_den s sden in
  let cq := match f2q cutoff with Some q => q | None => 0%Q end in
  let sel := filter (fun k => negb (Qle_bool (mkq (weight s k) wden) cq)) (nat_range (d ^ n)) in
  let tot := fold_left (fun acc k => acc + weight s k) sel 0 in
  (fold_left (fun acc k => add_to (bits_of d n one k) (weight s k) acc) sel [], tot).

Fixpoint lookupZ (k : Z) (l : list (Z * Z)) : option Z :=
  match l with [] => None | (k', w) :: r => if k =? k' then Some w else lookupZ k r end.

(** implementation: list of (bitstring number, probability) *)
Definition chk_bitprobs (d n one : nat) (s : cstate) (sden : Z) (cutoff : float)
  (impl : list (Z * float)) : bool :=
  let bw := bit_weights d n one s sden cutoff in
  (length impl =? length (fst bw))%nat &&
  all_true (map (fun p => match lookupZ (fst p) (fst bw) with
                          | Some w => close w (snd bw) (snd p)
                          | None => false
                          end) impl).

(** * matrices and vectors entry by entry *)
Definition chk_matrix (D : nat) (A : cmat) (aden : Z) (re im : list (list float)) : bool :=
  (length re =? D)%nat && (length im =? D)%nat &&
  all_true (map (fun pi =>
     let i := fst (fst pi) in
     (length (snd (fst pi)) =? D)%nat && (length (snd pi) =? D)%nat &&
     all_true (map (fun pj =>
        let j := fst (fst pj) in
        close (fst (A i j)) aden (snd (fst pj)) && close (snd (A i j)) aden (snd pj))
       (combine (combine (nat_range D) (snd (fst pi))) (snd pi))))
    (combine (combine (nat_range D) re) im)).

Definition chk_vector (D : nat) (v : cvec) (vden : Z) (re im : list float) : bool :=
  (length re =? D)%nat && (length im =? D)%nat &&
  all_true (map (fun p =>
      let i := fst (fst p) in
      close (fst (v i)) vden (snd (fst p)) && close (snd (v i)) vden (snd p))
    (combine (combine (nat_range D) re) im)).

Definition chk_state (D : nat) (s : cstate) (sden : Z) (ket : bool) (re im : list (list float)) : bool :=
  match s with
  | Ket _ v => ket && match re, im with
                      | [r], [i] => chk_vector D v sden r i
                      | _, _ => false
                      end
  | Dm _ M => negb ket && chk_matrix D M sden re im
  end.

(** * [Operator._validate_operations] (True = accepted, False = ValueError) *)
Definition raw_quditop := list (list nat * C).          (* key characters (index, or d = unknown), coefficient *)
Definition raw_tensorop := list (raw_quditop * list Z).
Definition raw_fullop := list (C * raw_tensorop).

Definition key_ok (d : nat) (k : list nat) : bool :=
  (length k =? 2)%nat && forallb (fun c => (c <? d)%nat) k.

Fixpoint val_tensor (d : nat) (free : list Z) (t : raw_tensorop) : bool :=
  match t with
  | [] => true
  | (q, inds) :: r =>
      forallb (fun i => existsb (Z.eqb i) free) inds &&
      forallb (fun e => key_ok d (fst e)) q &&
      val_tensor d (filter (fun x => negb (existsb (Z.eqb x) inds)) free) r
  end.

Definition validate_operations (d n : nat) (ops : raw_fullop) : bool :=
  forallb (fun e => val_tensor d (map Z.of_nat (nat_range n)) (snd e)) ops.

Definition cook_quditop (q : raw_quditop) : quditop C :=
  map (fun e => (nth 0 (fst e) O, nth 1 (fst e) O, snd e)) q.
Definition cook_fullop (ops : raw_fullop) : fullop C :=
  map (fun e => (fst e, map (fun t => (cook_quditop (fst t), map Z.to_nat (snd t))) (snd e))) ops.

(** outcome of [from_operator_repr]: 0 ok, 1 ValueError, 2 TypeError (empty sum) *)
Definition repr_outcome (d n : nat) (ops : raw_fullop) : Z :=
  if negb (validate_operations d n ops) then 1
  else match ops with [] => 2 | _ => 0 end.

(** * [State._validate_amplitudes]: all basis strings have the length of the
      first one and use known characters *)
Definition validate_amps (d : nat) (amps : list (list nat * C)) : bool :=
  match amps with
  | [] => false
  | (b0, _) :: _ =>
      forallb (fun e => (length (fst e) =? length b0)%nat && forallb (fun c => (c <? d)%nat) (fst e)) amps
  end.
