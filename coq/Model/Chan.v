(** Derivation of the scheduler-relevant channel configuration from the raw
    dataclass fields of a [Channel]/[DMM] (rise time, phase-jump time, EOM
    buffer time).  Float steps are bit-exact IEEE double operations. *)
From Coq Require Import ZArith List Bool.
From Coq Require Import Uint63 FloatOps SpecFloat PrimFloat.
From PV Require Import Model.Base Model.Sched.
Import ListNotations.
Open Scope Z_scope.

Definition MODBW_TO_TR : float := 0x1.eb851eb851eb8p-2%float.   (* 0.48 *)
Definition f_1e3 : float := 0x1.f4p+9%float.                     (* 1e3 *)

Definition py_int (x : float) : Z :=
  match f_trunc x with Some z => z | None => 0 end.

(** Channel.rise_time / BaseEOM.rise_time:
    int(MODBW_TO_TR / mod_bandwidth * 1e3) when the bandwidth is truthy *)
Definition rise_time (bw : option float) : Z :=
  match bw with
  | Some b => if f_ne b zero then py_int (MODBW_TO_TR / b * f_1e3)%float else 0
  | None => 0
  end.

(** Channel.phase_jump_time *)
Definition phase_jump_time (rise : Z) (custom : option Z) : Z :=
  match custom with
  | None => rise * 2
  | Some c => c
  end.

(** Channel._eom_buffer_time: int(custom_buffer_time or 2 * rise_time) *)
Definition eom_buffer_time_of (rise : Z) (custom : option Z) : Z :=
  match custom with
  | Some c => if negb (c =? 0) then c else 2 * rise
  | None => 2 * rise
  end.

Record craw := {
  r_local : bool;
  r_basis : Z;
  r_dmm : bool;
  r_clock : Z;
  r_min : Z;
  r_max : option Z;
  r_bw : option float;
  r_cpj : option Z;
  r_minret : Z;
  r_fixret : Z;
  r_maxtg : option Z;
  r_maxamp : option float;
  r_maxdet : option float;
  r_minavg : float;
  r_bottom : option float;
  r_totbottom : option float;
  r_eom : option (float * option Z)      (* (eom mod_bandwidth, custom_buffer_time) *)
}.

Definition mk_ccfg (r : craw) : ccfg :=
  let rise := rise_time (r_bw r) in
  {| c_local := r_local r; c_basis := r_basis r; c_dmm := r_dmm r;
     c_clock := r_clock r; c_min := r_min r; c_max := r_max r;
     c_rise := rise; c_pj := phase_jump_time rise (r_cpj r);
     c_minret := r_minret r; c_fixret := r_fixret r; c_maxtg := r_maxtg r;
     c_maxamp := r_maxamp r; c_maxdet := r_maxdet r; c_minavg := r_minavg r;
     c_bottom := r_bottom r; c_totbottom := r_totbottom r;
     c_eom := match r_eom r with
              | Some (ebw, cb) =>
                  Some {| e_rise := rise_time (Some ebw);
                          e_buffer := eom_buffer_time_of rise cb;
                          e_custom := match cb with
                                      | Some c => negb (c =? 0) | None => false end |}
              | None => None
              end |}.
