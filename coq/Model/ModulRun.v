(** C14 - runners used by the correspondence cases: they evaluate the model
    of Model/Modul.v on the inputs of a case (float instance) and render the
    result as an [sv] to be compared with what the implementation returned.
    Executable definitions only. *)
From Coq Require Import ZArith List Bool Arith.
From Coq Require Import Uint63 FloatOps SpecFloat PrimFloat.
From PV Require Import Model.Base Model.Sched Model.Chan Model.Modul.
Import ListNotations.

Definition fclose (tol a b : float) : bool := f_le (abs (a - b)) tol.

Fixpoint lclose (tol : float) (a b : list float) : bool :=
  match a, b with
  | [], [] => true
  | x :: a', y :: b' => fclose tol x y && lclose tol a' b'
  | _, _ => false
  end.

Definition zn (z : Z) : nat := Z.to_nat z.
Definition bw_truthy (bw : option float) : bool :=
  match bw with Some b => f_ne b zero | None => false end.
Definition etr_of (ebw : option float) : option Z :=
  match ebw with Some b => Some (rise_time (Some b)) | None => None end.

Definition sv_res {A} (f : A -> sv) (r : res A) : sv :=
  match r with
  | Ok a => SL [SZ 0; f a]
  | Err e => SL [SZ (err_code e)]
  end.

Definition fmodulate (bw ebw : option float) (wl : list float)
           (x : list float) (ke eom : bool) : res (list float) :=
  chan_modulate float zero PrimFloat.add PrimFloat.mul (bw_truthy bw)
    (zn (rise_time bw)) (option_map zn (etr_of ebw))
    (fun _ _ k => nth k wl zero) x ke eom.

(** [Channel.modulate]: rise times, length / exception, and (when [check])
    closeness of the convolution with the oracle kernel to the returned
    array *)
Definition run_mod (bw ebw : option float) (x : list float) (ke eom : bool)
           (wl : list float) (check : bool) (yimpl : list float) (tol : float) : sv :=
  let tr := rise_time bw in
  let etr := etr_of ebw in
  SL [SZ tr; sv_opt SZ etr;
      sv_res SZ (chan_modulate_len (bw_truthy bw) tr etr (Z.of_nat (length x)) ke eom);
      SB (if check
          then match fmodulate bw ebw wl x ke eom with
               | Ok ym => lclose tol ym yimpl
               | Err _ => false
               end
          else true)].

Definition sv_floats (l : list float) : sv := SL (map SF l).
Definition sv_natpair (p : nat * nat) : sv :=
  SL [SZ (Z.of_nat (fst p)); SZ (Z.of_nat (snd p))].

(** one waveform on one channel: standard and EOM buffers, trimmed samples.
    [mstd] / [meom]: what [channel.modulate(samples, eom=False/True)]
    returned ([meom] is [None] when the call raised) *)
Definition run_wf (bw ebw : option float) (input mstd : list float)
           (meom : option (list float)) : sv :=
  let tr := zn (rise_time bw) in
  let etr := option_map zn (etr_of ebw) in
  let has := bw_truthy bw in
  let bs := modulation_buffers has tr etr false input mstd in
  let be := match meom with
            | Some me => modulation_buffers has tr etr true input me
            | None => if has then Err EType else Ok (O, O)
            end in
  SL [sv_res sv_natpair bs;
      sv_res sv_natpair be;
      match bs with
      | Ok b => sv_floats (modulated_samples tr b mstd)
      | Err _ => SL []
      end;
      match bs, meom with
      | Ok b, Some me => sv_floats (modulated_samples tr b me)
      | _, _ => SL []
      end].

(** end buffers of a waveform pair -> [Pulse.fall_time] *)
Definition run_fall (bw ebw : option float) (in_eom : bool)
           (ea ed : Z) : sv :=
  sv_res (fun n => SZ (Z.of_nat n))
         (fall_time (zn (rise_time bw)) (option_map zn (etr_of ebw)) in_eom (zn ea) (zn ed)).

(** a slot of the scheduler model carrying only what
    [_ChannelSchedule.get_duration] reads: kind, end time and (for a pulse) the
    fall time [fall_time(channel, in_eom_mode=schedule.in_eom_mode())] *)
Definition mk_slot (is_pulse : bool) (tf fall : Z) : slot :=
  {| s_kind := if is_pulse
               then KPulse {| p_dur := 0; p_phase := zero; p_post := zero;
                              p_fstd := fall; p_feom := fall; p_dd := false;
                              p_sum := []; p_amax := zero |}
               else KDelay;
     s_ti := tf; s_tf := tf; s_tg := [] |}.

(** [get_duration(include_fall_time=True)] of [Model/Sched.v] on the slots
    (newest first) of a channel with bandwidth [bw] *)
Definition duration_with_fall (bw : option float) (slots : list slot) : Z :=
  match slots with
  | [] => 0
  | op :: _ => gd_scan (2 * rise_time bw) false (s_tf op) slots
  end.

(** one channel of a sampled sequence: the duration including fall time is
    computed by the model from the slots (not taken from the implementation),
    then the lengths / exception of the modulated samples *)
Definition run_seq (d : Z) (slots : list slot) (bw : option float)
           (eom : option (float * option Z)) (blocks : Z) : sv :=
  let D := duration_with_fall bw slots in
  let m := {| ms_d := d; ms_D := D; ms_bw := bw;
              ms_eom := match eom with
                        | Some (ebw, cbt) =>
                            Some (ebw, eom_buffer_time_of (rise_time bw) cbt)
                        | None => None
                        end;
              ms_blocks := blocks |} in
  SL [SZ D;
      sv_res (fun t => let '(a, b, c) := t in SL [SZ a; SZ b; SZ c])
             (samples_modulate_len m)].
