(** C16 - executable model of pulser/waveforms.py and of Pulse.__init__ /
    Pulse.ArbitraryPhase (pulser/pulse.py).

    Everything is written once over a record of number operations [numops];
    it is instantiated with IEEE doubles ([FN], bit-exact, this is what runs
    against the implementation in the correspondence) and with exact
    rationals ([QN] in Model/WaveQ.v, where the algebraic laws are proved).
    Theorems that only speak about structure (lengths, indices, slices,
    search loops) are proved for every [numops].

    Values produced by numerics that cannot be modelled (np.blackman,
    np.kaiser, scipy PCHIP + np.round) enter through the oracle environment
    [env]; a missing entry makes the model answer [Err EOther] (fail-closed).
    No proofs in this file. *)
From Coq Require Import ZArith List Bool.
From Coq Require Import Uint63 FloatOps SpecFloat PrimFloat.
From PV Require Import Model.Base.
Import ListNotations.
Open Scope Z_scope.

Record numops (R : Type) : Type := mk_numops {
  n0 : R; n1 : R;
  nadd : R -> R -> R; nsub : R -> R -> R; nmul : R -> R -> R; ndiv : R -> R -> R;
  nopp : R -> R; nabs : R -> R;
  nofZ : Z -> R;
  nlt : R -> R -> bool; nle : R -> R -> bool; neqb : R -> R -> bool;
  nsame : R -> R -> bool;      (* identity, for oracle-table lookup *)
  nfin : R -> bool;            (* np.isfinite *)
  nmodP : R -> R;              (* x % (2*np.pi) *)
  nrnd : R -> option Z;        (* Python round(x) -> int, half to even *)
  nceil : R -> option Z;       (* np.ceil then int() *)
  ntrunc : R -> option Z;      (* int(x) *)
  k1e3 : R; k1em3 : R; k042 : R; k100 : R; krtol : R; katol : R
}.
Arguments n0 {R}. Arguments n1 {R}. Arguments nadd {R}. Arguments nsub {R}.
Arguments nmul {R}. Arguments ndiv {R}. Arguments nopp {R}. Arguments nabs {R}.
Arguments nofZ {R}. Arguments nlt {R}. Arguments nle {R}. Arguments neqb {R}.
Arguments nsame {R}. Arguments nfin {R}. Arguments nmodP {R}. Arguments nrnd {R}.
Arguments nceil {R}. Arguments ntrunc {R}. Arguments k1e3 {R}. Arguments k1em3 {R}.
Arguments k042 {R}. Arguments k100 {R}. Arguments krtol {R}. Arguments katol {R}.

Inductive wkind := KBlackman | KKaiser.
Definition wkind_eqb (a b : wkind) : bool :=
  match a, b with KBlackman, KBlackman | KKaiser, KKaiser => true | _, _ => false end.

(** Waveform objects.  [WWin] stands for BlackmanWaveform ([beta] unused) and
    KaiserWaveform; [WInterp] for InterpolatedWaveform with the default
    PchipInterpolator. *)
Inductive wf (R : Type) : Type :=
| WConst (d : Z) (v : R)
| WRamp (d : Z) (a b : R)
| WCustom (l : list R)
| WComp (ws : list (wf R))
| WWin (k : wkind) (d : Z) (area beta : R)
| WInterp (d : Z) (vals : list R) (times : option (list R)).
Arguments WConst {R}. Arguments WRamp {R}. Arguments WCustom {R}.
Arguments WComp {R}. Arguments WWin {R}. Arguments WInterp {R}.

(** Oracle environment: window values per (kind, duration, beta) as returned
    by np.blackman / np.kaiser, and final samples of interpolated waveforms
    per (duration, values, times). *)
Record env (R : Type) : Type := mk_env {
  e_win : list (wkind * Z * R * list R);
  e_int : list (Z * list R * option (list R) * list R)
}.
Arguments e_win {R}. Arguments e_int {R}. Arguments mk_env {R}.

Definition seqZ (n : Z) : list Z := map Z.of_nat (seq 0 (Z.to_nat n)).

Section Num.
  Context {R : Type} (N : numops R).

  Definition ngt (a b : R) : bool := nlt N b a.
  Definition nge (a b : R) : bool := nle N b a.

  (** np.sign as an integer; 2 stands for NaN *)
  Definition nsign (x : R) : Z :=
    if nlt N (n0 N) x then 1 else if nlt N x (n0 N) then -1
    else if neqb N x (n0 N) then 0 else 2.

  Fixpoint list_same (a b : list R) : bool :=
    match a, b with
    | [], [] => true
    | x :: a', y :: b' => nsame N x y && list_same a' b'
    | _, _ => false
    end.
  Definition olist_same (a b : option (list R)) : bool :=
    match a, b with
    | None, None => true
    | Some x, Some y => list_same x y
    | _, _ => false
    end.

  Fixpoint win_lookup (t : list (wkind * Z * R * list R)) (k : wkind) (d : Z) (beta : R)
    : option (list R) :=
    match t with
    | [] => None
    | (k', d', b', w) :: r =>
        if wkind_eqb k k' && (d =? d') && nsame N beta b' then Some w
        else win_lookup r k d beta
    end.
  Fixpoint int_lookup (t : list (Z * list R * option (list R) * list R)) (d : Z)
           (vals : list R) (times : option (list R)) : option (list R) :=
    match t with
    | [] => None
    | (d', v', t', s) :: r =>
        if (d =? d') && list_same vals v' && olist_same times t' then Some s
        else int_lookup r d vals times
    end.

  (** ** np.sum on a contiguous float64 array: pairwise summation
      (numpy/core/src/umath/loops_utils.h.src, DOUBLE_pairwise_sum). *)
  Definition sum_seq (acc : R) (l : list R) : R := fold_left (nadd N) l acc.

  Fixpoint blk8 (r0 r1 r2 r3 r4 r5 r6 r7 : R) (l : list R) {struct l} : R :=
    match l with
    | a0 :: a1 :: a2 :: a3 :: a4 :: a5 :: a6 :: a7 :: t =>
        blk8 (nadd N r0 a0) (nadd N r1 a1) (nadd N r2 a2) (nadd N r3 a3)
             (nadd N r4 a4) (nadd N r5 a5) (nadd N r6 a6) (nadd N r7 a7) t
    | rest =>
        sum_seq (nadd N (nadd N (nadd N r0 r1) (nadd N r2 r3))
                        (nadd N (nadd N r4 r5) (nadd N r6 r7))) rest
    end.

  Definition sum_block (l : list R) : R :=
    match l with
    | a0 :: a1 :: a2 :: a3 :: a4 :: a5 :: a6 :: a7 :: t => blk8 a0 a1 a2 a3 a4 a5 a6 a7 t
    | _ => sum_seq (n0 N) l
    end.

  Fixpoint pw (fuel : nat) (l : list R) : R :=
    let n := Z.of_nat (length l) in
    if n <=? 128 then sum_block l
    else match fuel with
         | O => sum_block l
         | S f =>
             let h := n / 2 in
             let n2 := Z.to_nat (h - h mod 8) in
             nadd N (pw f (firstn n2 l)) (pw f (skipn n2 l))
         end.
  Definition pwsum (l : list R) : R := pw 64 l.

  (** np.max of a non-empty array without NaN *)
  Definition nmax_list (l : list R) : R :=
    match l with
    | [] => n0 N
    | x :: r => fold_left (fun m y => if nlt N m y then y else m) r x
    end.

  (** np.clip(x, lo, hi) *)
  Definition clip (lo hi x : R) : R :=
    let t := if nlt N x lo then lo else x in
    if nlt N hi t then hi else t.
  (** np.clip(x, 0, np.inf) *)
  Definition clip0 (x : R) : R := if nlt N x (n0 N) then n0 N else x.

  (** ** Duration and samples *)
  Fixpoint dur (w : wf R) : Z :=
    match w with
    | WConst d _ => d
    | WRamp d _ _ => d
    | WCustom l => Z.of_nat (length l)
    | WComp ws =>
        (fix go (l : list (wf R)) : Z :=
           match l with [] => 0 | x :: t => dur x + go t end) ws
    | WWin _ d _ _ => d
    | WInterp d _ _ => d
    end.

  Definition ramp_slope (d : Z) (a b : R) : R := ndiv N (nsub N b a) (nofZ N (d - 1)).
  Definition ramp_lo (a b : R) : R := if nlt N b a then b else a.
  Definition ramp_hi (a b : R) : R := if nlt N b a then a else b.
  Definition ramp_sample (d : Z) (a b : R) (i : Z) : R :=
    clip (ramp_lo a b) (ramp_hi a b)
         (nadd N (nmul N (ramp_slope d a b) (nofZ N i)) a).

  Definition win_scaling (area : R) (norm : list R) : R :=
    nmul N (ndiv N area (pwsum norm)) (k1e3 N).

  Definition win_samples (area : R) (win : list R) : list R :=
    let norm := map clip0 win in
    let sc := win_scaling area norm in
    map (fun x => nmul N x sc) norm.

  Section WithEnv.
    Variable E : env R.

    Fixpoint samples (w : wf R) : res (list R) :=
      match w with
      | WConst d v => Ok (repeat (nmul N v (n1 N)) (Z.to_nat d))
      | WRamp d a b => Ok (map (ramp_sample d a b) (seqZ d))
      | WCustom l => Ok l
      | WComp ws =>
          (fix go (l : list (wf R)) : res (list R) :=
             match l with
             | [] => Ok []
             | x :: t =>
                 rbind (samples x) (fun a => rbind (go t) (fun b => Ok (a ++ b)))
             end) ws
      | WWin k d area beta =>
          match win_lookup (e_win E) k d beta with
          | Some win => Ok (win_samples area win)
          | None => Err EOther
          end
      | WInterp d vals times =>
          match int_lookup (e_int E) d vals times with
          | Some s => Ok s
          | None => Err EOther
          end
      end.

    (** ** Constructor validation, in Python's evaluation order *)
    Definition chk_d (d : Z) : res unit := if d <=? 0 then Err EValue else Ok tt.

    (** np.linspace(0, 1, n) *)
    Definition linspace01 (n : Z) : list R :=
      let step := ndiv N (n1 N) (nofZ N (n - 1)) in
      map (fun i => if n <=? 1 then n0 N     (* num = 1: y * delta, no step *)
                    else if i =? n - 1 then n1 N
                    else nadd N (nmul N (nofZ N i) step) (n0 N)) (seqZ n).

    Fixpoint has_dup (l : list R) : bool :=
      match l with
      | [] => false
      | x :: r => existsb (fun y => neqb N x y) r || has_dup r
      end.

    Definition interp_times (vals : list R) (times : option (list R)) : list R :=
      match times with Some t => t | None => linspace01 (Z.of_nat (length vals)) end.

    (** data points: round(t * (duration - 1)) *)
    Fixpoint data_x (d : Z) (ts : list R) : option (list Z) :=
      match ts with
      | [] => Some []
      | t :: r =>
          match nrnd N (nmul N t (nofZ N (d - 1))), data_x d r with
          | Some x, Some xs => Some (x :: xs)
          | _, _ => None
          end
      end.
    Fixpoint strictly_inc (l : list Z) : bool :=
      match l with
      | a :: ((b :: _) as r) => (a <? b) && strictly_inc r
      | _ => true
      end.

    Definition validate_interp (d : Z) (vals : list R) (times : option (list R)) : res unit :=
      rbind
        (match times with
         | None => Ok tt
         | Some ts =>
             if existsb (fun t => nlt N t (n0 N)) ts then Err EValue
             else if existsb (fun t => nlt N (n1 N) t) ts then Err EValue
             else if has_dup ts then Err EValue
             else if negb (Nat.eqb (length ts) (length vals)) then Err EValue
             else Ok tt
         end)
        (fun _ =>
           rbind (chk_d d)
             (fun _ =>
                match data_x d (interp_times vals times) with
                | None => Err EOther
                | Some xs =>
                    if (Z.of_nat (length xs) <? 2) || negb (strictly_inc xs) then Err EValue
                    else match int_lookup (e_int E) d vals times with
                         | Some _ => Ok tt
                         | None => Err EOther
                         end
                end)).

    Fixpoint validate (w : wf R) : res unit :=
      match w with
      | WConst d _ => chk_d d
      | WRamp d _ _ => chk_d d
      | WCustom l => chk_d (Z.of_nat (length l))
      | WComp ws =>
          rbind
            ((fix go (l : list (wf R)) : res unit :=
                match l with
                | [] => Ok tt
                | x :: t => rbind (validate x) (fun _ => go t)
                end) ws)
            (fun _ => if Z.of_nat (length ws) <? 2 then Err EValue else Ok tt)
      | WWin k d area beta =>
          rbind (chk_d d)
            (fun _ =>
               if (match k with KKaiser => nlt N beta (n0 N) | KBlackman => false end)
               then Err EValue
               else match win_lookup (e_win E) k d beta with
                    | Some _ => Ok tt
                    | None => Err EOther
                    end)
      | WInterp d vals times => validate_interp d vals times
      end.

    (** ** Indexing *)
    Definition check_index (d i : Z) : res Z :=
      if (i <? - d) || (d <=? i) then Err EIndex
      else Ok (if 0 <=? i then i else d + i).

    Definition norm_bound (d : Z) (dflt : Z) (o : option Z) : Z :=
      match o with
      | None => dflt
      | Some s => if 0 <=? s then s else d + s
      end.

    Definition check_slice (d : Z) (start stop step : option Z) : res (Z * Z) :=
      if (match step with Some s => negb (s =? 1) | None => false end) then Err EIndex
      else
        let a := norm_bound d 0 start in
        let b := norm_bound d d stop in
        let a := if a <? 0 then 0 else a in
        let b := if b <? 0 then 0 else b in
        let a := if d <? a then d else a in
        let b := if d <? b then d else b in
        let b := if b <? a then a else b in
        Ok (a, b).

    Definition sub_list {A} (l : list A) (a b : Z) : list A :=
      firstn (Z.to_nat (b - a)) (skipn (Z.to_nat a) l).

    Definition get_index (w : wf R) (i : Z) : res R :=
      rbind (check_index (dur w) i)
        (fun j => rbind (samples w)
                    (fun s => match nth_error s (Z.to_nat j) with
                              | Some x => Ok x
                              | None => Err EOther
                              end)).
    Definition get_slice (w : wf R) (start stop step : option Z) : res (list R) :=
      rbind (check_slice (dur w) start stop step)
        (fun ab => rbind (samples w) (fun s => Ok (sub_list s (fst ab) (snd ab)))).

    Definition integral (w : wf R) : res R :=
      rbind (samples w) (fun s => Ok (nmul N (pwsum s) (k1em3 N))).

    (** ** Scaling, negation, division, change of duration *)
    Fixpoint wmul (k : R) (w : wf R) : wf R :=
      match w with
      | WConst d v => WConst d (nmul N v k)
      | WRamp d a b => WRamp d (nmul N a k) (nmul N b k)
      | WCustom l => WCustom (map (fun x => nmul N x k) l)
      | WComp ws => WComp (map (wmul k) ws)
      | WWin kd d area beta => WWin kd d (nmul N area k) beta
      | WInterp d vals times => WInterp d (map (fun x => nmul N x k) vals) times
      end.

    Definition wneg (w : wf R) : wf R := wmul (nopp N (n1 N)) w.

    Definition wdiv (k : R) (w : wf R) : res (wf R) :=
      if neqb N k (n0 N) then Err EZeroDiv else Ok (wmul (ndiv N (n1 N) k) w).

    Definition change_duration (w : wf R) (d' : Z) : res (wf R) :=
      match w with
      | WConst _ v => let w' := WConst d' v in rbind (validate w') (fun _ => Ok w')
      | WRamp _ a b => let w' := WRamp d' a b in rbind (validate w') (fun _ => Ok w')
      | WWin k _ area beta =>
          let w' := WWin k d' area beta in rbind (validate w') (fun _ => Ok w')
      | WInterp _ vals times =>
          let w' := WInterp d' vals times in rbind (validate w') (fun _ => Ok w')
      | WCustom _ | WComp _ => Err ENotImpl
      end.

    (** ** Equality: np.isclose sample-wise *)
    Definition isclose (x y : R) : bool :=
      (nle N (nabs N (nsub N x y)) (nadd N (katol N) (nmul N (krtol N) (nabs N y)))
       && nfin N y)
      || neqb N x y.

    Fixpoint all_close (a b : list R) : bool :=
      match a, b with
      | [], [] => true
      | x :: a', y :: b' => isclose x y && all_close a' b'
      | _, _ => false
      end.

    Definition wf_eq (w1 w2 : wf R) : res bool :=
      if negb (dur w1 =? dur w2) then Ok false
      else rbind (samples w1) (fun s1 => rbind (samples w2) (fun s2 => Ok (all_close s1 s2))).

    (** ** BlackmanWaveform.from_max_val *)
    Definition win_norm (k : wkind) (d : Z) (beta : R) : res (list R) :=
      match win_lookup (e_win E) k d beta with
      | Some w => Ok (map clip0 w)
      | None => Err EOther
      end.

    Definition bm_scaling (area : R) (d : Z) : res R :=
      rbind (chk_d d) (fun _ =>
        rbind (win_norm KBlackman d (n0 N)) (fun nm => Ok (win_scaling area nm))).

    (** the [while float(wf._scaling) > max_val] loop; returns the final
        duration and the duration of [previous_wf] *)
    Fixpoint bm_loop (fuel : nat) (maxv area : R) (d : Z) (prev : option Z)
      : res (Z * option Z) :=
      rbind (bm_scaling area d)
        (fun s =>
           if nlt N maxv s then
             match fuel with
             | O => Err EOther
             | S f => bm_loop f maxv area (d + 1) (Some d)
             end
           else Ok (d, prev)).

    Definition bm_peak (area : R) (d : Z) : res R :=
      rbind (samples (WWin KBlackman d area (n0 N))) (fun s => Ok (nmax_list s)).

    Definition bm_from_max_val (fuel : nat) (maxv area : R) : res (wf R) :=
      let sa := nsign area in
      if negb (nsign maxv =? sa) then Err EValue
      else
        let fs := nofZ N sa in
        let area' := nmul N area fs in
        let maxv' := nmul N maxv fs in
        match nceil N (nmul N (ndiv N area' (nmul N (k042 N) maxv')) (k1e3 N)) with
        | None => Err EOther
        | Some d0 =>
            rbind (bm_loop fuel maxv' area' d0 None)
              (fun r =>
                 let '(d, prev) := r in
                 rbind
                   (match prev with
                    | Some p =>
                        if Z.odd d then
                          rbind (bm_peak area' d) (fun m =>
                          rbind (bm_peak area' p) (fun mp =>
                            Ok (if nlt N m mp && nle N mp maxv' then p else d)))
                        else Ok d
                    | None => Ok d
                    end)
                   (fun df =>
                      let w := WWin KBlackman df area' (n0 N) in
                      Ok (if sa =? -1 then wneg w else w)))
        end.

    (** ** KaiserWaveform.from_max_val *)
    Definition ks_peak (area : R) (beta : R) (d : Z) : res R :=
      match win_lookup (e_win E) KKaiser d beta with
      | Some w => Ok (nmul N (nmax_list w) (ndiv N (nmul N (k1e3 N) area) (pwsum w)))
      | None => Err EOther
      end.

    (** the [for duration in range(1, 16)] search *)
    Fixpoint ks_short (ds : list Z) (maxv area beta : R) (best : Z) (mvb : R) : res Z :=
      match ds with
      | [] => Ok best
      | d :: r =>
          rbind (ks_peak area beta d)
            (fun mvt =>
               if nlt N mvb mvt && nle N mvt maxv
               then ks_short r maxv area beta d mvt
               else ks_short r maxv area beta best mvb)
      end.

    (** the [while np.sign(max_val_temp - max_val) == step] loop *)
    Fixpoint ks_loop (fuel : nat) (maxv area beta : R) (step : Z) (d : Z) (mvt : R) : res Z :=
      if nsign (nsub N mvt maxv) =? step then
        match fuel with
        | O => Err EOther
        | S f =>
            let d' := d + step in
            rbind (ks_peak area beta d') (fun m => ks_loop f maxv area beta step d' m)
        end
      else Ok d.

    Definition ks_from_max_val (fuel : nat) (maxv area beta : R) : res (wf R) :=
      if negb (nsign maxv =? nsign area) then Err EValue
      else
        let neg := nlt N area (n0 N) in
        let areaf := if neg then nopp N area else area in
        let maxv' := if neg then nopp N maxv else maxv in
        match win_lookup (e_win E) KKaiser 100 beta with
        | None => Err EOther
        | Some w100 =>
            let ratio := ndiv N (nmul N maxv' (pwsum w100)) (k100 N) in
            match ntrunc N (ndiv N (nmul N areaf (k1e3 N)) ratio) with
            | None => Err EOther
            | Some guess =>
                rbind
                  (if guess <? 11 then
                     ks_short (map (fun i => i + 1) (seqZ 15)) maxv' areaf beta 0 (n0 N)
                   else
                     rbind (ks_peak areaf beta guess)
                       (fun m0 =>
                          let step := if nle N maxv' m0 then 1 else -1 in
                          rbind (ks_loop fuel maxv' areaf beta step guess m0)
                            (fun d => Ok (if step =? 1 then d else d + 1))))
                  (fun best =>
                     let w := WWin KKaiser best area beta in
                     rbind (validate w) (fun _ => Ok w))
            end
        end.

    (** ** Pulse *)
    Record pulse : Type := mk_pulse {
      p_amp : wf R; p_det : wf R; p_phase : R; p_post : R
    }.

    Definition pulse_new (amp det : wf R) (phase post : R) : res pulse :=
      if negb (dur det =? dur amp) then Err EValue
      else rbind (samples amp)
             (fun sa =>
                if existsb (fun x => nlt N x (n0 N)) sa then Err EValue
                else Ok (mk_pulse amp det (nmodP N phase) (nmodP N post))).

    (** detuning samples for a generic phase waveform:
        -diff(phase) * 1e3, first value repeated *)
    Fixpoint ndiff (l : list R) : list R :=
      match l with
      | a :: ((b :: _) as r) => nsub N b a :: ndiff r
      | _ => []
      end.

    Definition arb_detuning (phase : wf R) : res (wf R) :=
      match phase with
      | WConst d _ => Ok (WConst d (n0 N))
      | WRamp d a b => Ok (WConst d (nmul N (nopp N (ramp_slope d a b)) (k1e3 N)))
      | _ =>
          rbind (samples phase)
            (fun ps =>
               match map (fun x => nmul N (nopp N x) (k1e3 N)) (ndiff ps) with
               | [] => Err EValue     (* np.pad(mode="edge") of an empty array *)
               | d0 :: r => Ok (WCustom (d0 :: d0 :: r))
               end)
      end.

    Definition arb_phase_c (phase det : wf R) : res R :=
      rbind (get_index phase 0)
        (fun p0 => rbind (get_index det 0)
                     (fun d0 => Ok (nadd N p0 (nmul N d0 (k1em3 N))))).

    Definition pulse_arbitrary_phase (amp phase : wf R) (post : R) : res pulse :=
      rbind (arb_detuning phase)
        (fun det => rbind (arb_phase_c phase det)
                      (fun pc => pulse_new amp det pc post)).

    (** running sums: cumsum l = [l0; l0+l1; ...] (exact reading of the
        documented formula phi(t) = phi_c - sum_{k<=t} delta(k)) *)
    Fixpoint cumsum_from (acc : R) (l : list R) : list R :=
      match l with
      | [] => []
      | x :: r => let a := nadd N acc x in a :: cumsum_from a r
      end.
    Definition reproduced_phase (pc : R) (det : list R) : list R :=
      map (fun c => nsub N pc (nmul N c (k1em3 N))) (cumsum_from (n0 N) det).

  End WithEnv.
End Num.

(** * The IEEE-double instance *)
Definition f_1e3 : float := 0x1.f4p+9%float.
Definition f_1em3 : float := 0x1.0624dd2f1a9fcp-10%float.
Definition f_042 : float := 0x1.ae147ae147ae1p-2%float.
Definition f_100 : float := 0x1.9p+6%float.
Definition f_rtol : float := 0x1.4f8b588e368f1p-17%float.
Definition f_atol : float := 0x1.5798ee2308c3ap-27%float.

Definition f_finite (x : float) : bool := negb (PrimFloat.is_nan x || PrimFloat.is_infinity x).
Definition f_ceilZ (x : float) : option Z :=
  match f_trunc x with
  | Some t => Some (if PrimFloat.ltb (f_of_Z t) x then t + 1 else t)
  | None => None
  end.
Definition f_roundZ (x : float) : option Z := f_trunc (f_rint x).

Definition FN : numops float :=
  mk_numops float zero one PrimFloat.add PrimFloat.sub PrimFloat.mul PrimFloat.div
    PrimFloat.opp PrimFloat.abs f_of_Z PrimFloat.ltb PrimFloat.leb PrimFloat.eqb
    f_biteq f_finite f_mod2pi f_roundZ f_ceilZ f_trunc
    f_1e3 f_1em3 f_042 f_100 f_rtol f_atol.

(** * Encoding of model outputs as [sv] (zeros are sign-normalised: numpy's
    SIMD clip/sum paths do not specify the sign of a zero result) *)
Definition fnz (x : float) : float := if PrimFloat.is_zero x then zero else x.
Definition fsv (x : float) : sv := SF (fnz x).
Definition fsvl (l : list float) : sv := SL (map fsv l).

Definition kind_code (k : wkind) : Z := match k with KBlackman => 4 | KKaiser => 5 end.

Fixpoint wf_sv (w : wf float) : sv :=
  match w with
  | WConst d v => SL [SZ 0; SZ d; fsv v]
  | WRamp d a b => SL [SZ 1; SZ d; fsv a; fsv b]
  | WCustom l => SL [SZ 2; fsvl l]
  | WComp ws => SL [SZ 3; SL (map wf_sv ws)]
  | WWin k d area beta => SL [SZ (kind_code k); SZ d; fsv area; fsv beta]
  | WInterp d vals times =>
      SL [SZ 6; SZ d; fsvl vals; match times with Some t => SL [fsvl t] | None => SL [] end]
  end.

Definition res_sv {A} (f : A -> sv) (r : res A) : sv :=
  match r with Ok a => SL [SZ 0; f a] | Err e => SL [SZ (err_code e)] end.

(** ** Source expressions: what the user passes to the constructors.  A
    duration may be any int-castable number ([_cast_check(int, duration)]:
    Python [int()] truncates toward zero; a non-integer value only triggers a
    warning).  [elab] performs that cast; [None] stands for the TypeError
    raised when the cast fails (NaN). *)
Inductive rawdur := RI (z : Z) | RF (f : float).
Definition cast_dur (r : rawdur) : option Z :=
  match r with RI z => Some z | RF f => f_trunc f end.

Inductive wsrc :=
| SConst (d : rawdur) (v : float)
| SRamp (d : rawdur) (a b : float)
| SCustom (l : list float)
| SComp (ws : list wsrc)
| SWin (k : wkind) (d : rawdur) (area beta : float)
| SInterp (d : rawdur) (vals : list float) (times : option (list float)).

Fixpoint elab (s : wsrc) : option (wf float) :=
  match s with
  | SConst d v => option_map (fun z => WConst z v) (cast_dur d)
  | SRamp d a b => option_map (fun z => WRamp z a b) (cast_dur d)
  | SCustom l => Some (WCustom l)
  | SComp ws =>
      option_map WComp
        ((fix go (l : list wsrc) : option (list (wf float)) :=
            match l with
            | [] => Some []
            | x :: t =>
                match elab x, go t with
                | Some w, Some r => Some (w :: r)
                | _, _ => None
                end
            end) ws)
  | SWin k d area beta => option_map (fun z => WWin k z area beta) (cast_dur d)
  | SInterp d vals times => option_map (fun z => WInterp z vals times) (cast_dur d)
  end.

(** Queries / operations on one waveform *)
Inductive wop :=
| OSamples | ODur | OIntegral
| OIndex (i : Z)
| OSlice (start stop step : option Z)
| OMul (k : float) | ONeg | ODiv (k : float)
| OChDur (d : rawdur)
| OEq (w2 : wsrc)
| ODataPts.

Definition wf_full (E : env float) (w : wf float) : res sv :=
  rbind (samples FN E w) (fun s => Ok (SL [wf_sv w; SZ (dur w); fsvl s])).

Definition run_wop (E : env float) (w : wf float) (o : wop) : sv :=
  match o with
  | OSamples => res_sv fsvl (samples FN E w)
  | ODur => SL [SZ 0; SZ (dur w)]
  | OIntegral => res_sv fsv (integral FN E w)
  | OIndex i => res_sv fsv (get_index FN E w i)
  | OSlice a b c => res_sv fsvl (get_slice FN E w a b c)
  | OMul k => res_sv (fun x => x) (wf_full E (wmul FN k w))
  | ONeg => res_sv (fun x => x) (wf_full E (wneg FN w))
  | ODiv k => res_sv (fun x => x) (rbind (wdiv FN k w) (wf_full E))
  | OChDur r =>
      match cast_dur r with
      | None => SL [SZ 2]
      | Some d => res_sv (fun x => x) (rbind (change_duration FN E w d) (wf_full E))
      end
  | OEq s2 =>
      match elab s2 with
      | None => SL [SZ 2]
      | Some w2 =>
          res_sv (fun b : bool => SB b) (rbind (validate FN E w2) (fun _ => wf_eq FN E w w2))
      end
  | ODataPts =>
      match w with
      | WInterp d vals times =>
          match data_x FN d (interp_times FN vals times) with
          | Some xs => SL [SZ 0; SL (map SZ xs)]
          | None => SL [SZ 8]
          end
      | _ => SL [SZ 8]
      end
  end.

(** a waveform case: construction outcome, then every query *)
Definition run_wf_case (E : env float) (s : wsrc) (ops : list wop) : sv :=
  match elab s with
  | None => SL [SZ 2]
  | Some w =>
      match validate FN E w with
      | Err e => SL [SZ (err_code e)]
      | Ok _ => SL (SZ 0 :: map (run_wop E w) ops)
      end
  end.

Definition pulse_sv (E : env float) (p : pulse (R := float)) : sv :=
  SL [wf_sv (p_amp p); wf_sv (p_det p); fsv (p_phase p); fsv (p_post p);
      res_sv fsvl (samples FN E (p_det p))].

Definition with_two (E : env float) (s1 s2 : wsrc) (k : wf float -> wf float -> sv) : sv :=
  match elab s1 with
  | None => SL [SZ 2]
  | Some w1 =>
      match validate FN E w1 with
      | Err e => SL [SZ (err_code e)]
      | Ok _ =>
          match elab s2 with
          | None => SL [SZ 2]
          | Some w2 =>
              match validate FN E w2 with
              | Err e => SL [SZ (err_code e)]
              | Ok _ => k w1 w2
              end
          end
      end
  end.

Definition run_pulse_case (E : env float) (amp det : wsrc) (phase post : float) : sv :=
  with_two E amp det (fun a d => res_sv (pulse_sv E) (pulse_new FN E a d phase post)).

Definition run_arb_case (E : env float) (amp ph : wsrc) (post : float) : sv :=
  with_two E amp ph (fun a p => res_sv (pulse_sv E) (pulse_arbitrary_phase FN E a p post)).

Definition run_bmv_case (E : env float) (maxv area : float) : sv :=
  res_sv (fun x => x) (rbind (bm_from_max_val FN E 4000 maxv area) (wf_full E)).
Definition run_kmv_case (E : env float) (maxv area beta : float) : sv :=
  res_sv (fun x => x) (rbind (ks_from_max_val FN E 4000 maxv area beta) (wf_full E)).
