(** C04 - executable model of Pulser's abstract-representation codec for
    sequences: [serialize_abstract_sequence] (json/abstract_repr/serializer.py),
    [ParamObj._to_abstract_repr] / [Variable*._to_abstract_repr]
    (parametrized/), [abstract_repr] and [deserialize_abstract_sequence]
    (json/abstract_repr/deserializer.py).

    Values are Python objects as the encoder sees them ([val]); a sequence
    is its call log ([_calls] followed by [_to_build_calls]).  [encode_seq]
    produces the JSON document, [decode_seq] produces the list of building
    calls the deserializer issues on a fresh sequence, [norm_seq] is the
    specification of that list (Python's own argument binding applied to
    the original calls; no JSON involved).

    Devices, registers, layouts and detuning maps are opaque ([VJson]): their
    own codecs are the subject of C17.  Executable definitions only. *)
From Coq Require Import ZArith List Bool String Ascii DecimalString.
From Coq Require Import PrimFloat.
From PV Require Import Model.Base Model.AbsJson Gen.AbsSig.
Import ListNotations.
Open Scope string_scope.
Open Scope list_scope.
Open Scope Z_scope.

(** * Python values *)
Inductive key :=
| KInt (i : Z)
| KList (l : list Z)
| KSlice (a b c : option Z).

Inductive val :=
| VNone
| VBool (b : bool)
| VInt (z : Z)
| VFlt (f : float)
| VStr (s : string)
| VList (l : list val)                 (* list / tuple / array *)
| VJson (j : json)                     (* opaque object, given by its own abstract repr *)
| VVar (name : string) (size : Z)      (* Variable *)
| VItem (name : string) (size : Z) (k : key)   (* VariableItem *)
| VClass (name : string)               (* a class object (first argument of a classmethod ParamObj) *)
| VObj (name : string) (args : list val) (kwargs : list (string * val))
      (* concrete waveform / pulse, as the arguments its _to_abstract_repr passes to abstract_repr *)
| VPObj (name : string) (args : list val) (kwargs : list (string * val)).
      (* ParamObj: cls.__name__, args, kwargs *)

Record call := mkCall { c_name : string; c_args : list val; c_kwargs : list (string * val) }.

(** * option monad helpers *)
Definition obind {A B} (o : option A) (f : A -> option B) : option B :=
  match o with Some a => f a | None => None end.
Notation "'do' x <- o ; r" := (obind o (fun x => r)) (at level 200, x name, o at level 100, r at level 200).
Notation "'do' ' p <- o ; r" := (obind o (fun x => let 'p := x in r)) (at level 200, p pattern, o at level 100, r at level 200).

Section MapM.
  Context {A B : Type}.
  Variable f : A -> option B.
  Fixpoint mapM (l : list A) : option (list B) :=
    match l with
    | [] => Some []
    | a :: r => do b <- f a; do bs <- mapM r; Some (b :: bs)
    end.

  (** [f(d[k])], written so that [f] is applied to a syntactic sub-term *)
  Fixpoint dget_with (k : string) (d : list (string * A)) : option B :=
    match d with
    | [] => None
    | (k', v) :: r => if String.eqb k k' then f v else dget_with k r
    end.

  Fixpoint mapM_vals (d : list (string * A)) : option (list (string * B)) :=
    match d with
    | [] => Some []
    | (k, v) :: r => do b <- f v; do bs <- mapM_vals r; Some ((k, b) :: bs)
    end.
End MapM.

Fixpoint zip {A B} (l : list A) (m : list B) : list (A * B) :=
  match l, m with
  | a :: l', b :: m' => (a, b) :: zip l' m'
  | _, _ => []
  end.

Definition keys {A} (d : list (string * A)) : list string := map fst d.

Definition subset (a b : list string) : bool := forallb (fun x => str_in x b) a.

(** * Signature tables (regenerated from the tree: Gen/AbsSig.v) *)
Record sig := mkSig {
  sg_pos : list string; sg_var : option string; sg_kw : list string;
  sg_extra : list (string * string) }.

Definition find_sig (n : string) : option sig :=
  match dget n gen_signatures with
  | Some (p, v, k, e) => Some (mkSig p v k e)
  | None => None
  end.

Definition all_pos_args (s : sig) : list string :=
  match sg_var s with Some _ => sg_pos s | None => sg_pos s ++ sg_kw s end.

(** constant defaults of a constructor / classmethod ([ParamObj._default_kwargs]) *)
Definition cls_defaults (n : string) : list (string * json) :=
  match dget n gen_cls_params with
  | Some (_, _, _, d) => d
  | None => []
  end.

Definition meth_params (m : string) : list string :=
  match dget m gen_seq_methods with
  | Some (p, _, _, _) => p
  | None => []
  end.
Definition meth_default (m p : string) : option json :=
  match dget m gen_seq_methods with
  | Some (_, _, _, d) => dget p d
  | None => None
  end.
Definition deser_default (tag k : string) : option json :=
  match find (fun e => String.eqb (fst (fst e)) tag && String.eqb (snd (fst e)) k) gen_deser_defaults with
  | Some e => Some (snd e)
  | None => None
  end.

(** * [abstract_repr(name, *args, **kwargs)] (serializer.py), generic in the
    type of already-encoded argument values *)
Section AbstractRepr.
  Context {A : Type}.
  Variable of_str : string -> A.
  Variable of_list : list A -> A.

  Definition abstract_repr (name : string) (args : list A) (kwargs : list (string * A))
    : option (list (string * A)) :=
    do s <- find_sig name;
    let npos := List.length (sg_pos s) in
    let nargs := List.length args in
    let arg_as_kwarg := if Nat.ltb nargs npos then skipn nargs (sg_pos s) else [] in
    if Nat.ltb nargs npos &&
       (match sg_var s with Some _ => true | None => false end
        || negb (subset arg_as_kwarg (keys kwargs)))
    then None
    else
      let res := dupdate [] (map (fun kv => (fst kv, of_str (snd kv))) (sg_extra s)) in
      let res := dupdate res (zip (all_pos_args s) args) in
      let max_pos := (npos + List.length (filter (fun k => negb (str_in k (keys kwargs))) (sg_kw s)))%nat in
      do res <- match sg_var s with
                | Some vp => Some (dset vp (of_list (skipn npos args)) res)
                | None => if Nat.ltb max_pos nargs then None else Some res
                end;
      fold_left
        (fun acc kv =>
           do r <- acc;
           if str_in (fst kv) (sg_kw s) || str_in (fst kv) arg_as_kwarg
           then Some (dset (fst kv) (snd kv) r) else None)
        kwargs (Some res).
End AbstractRepr.

(** * Variable items: [list(range(size))[key]] *)
Definition norm_index (size i : Z) : Z := if i <? 0 then i + size else i.

Fixpoint range_from (start step : Z) (n : nat) : list Z :=
  match n with O => [] | S n' => start :: range_from (start + step) step n' end.

(** CPython's PySlice_AdjustIndices *)
Definition slice_indices (n : Z) (a b c : option Z) : option (list Z) :=
  let step := match c with Some s => s | None => 1 end in
  if step =? 0 then None
  else
    let neg := step <? 0 in
    let clamp (x : Z) :=
      if x <? 0 then (let y := x + n in if y <? 0 then (if neg then -1 else 0) else y)
      else if n <=? x then (if neg then n - 1 else n) else x in
    let start := match a with Some x => clamp x | None => if neg then n - 1 else 0 end in
    let stop := match b with Some x => clamp x | None => if neg then -1 else n end in
    let len :=
      if neg then (if stop <? start then (start - stop - 1) / (- step) + 1 else 0)
      else (if start <? stop then (stop - start - 1) / step + 1 else 0) in
    Some (range_from start step (Z.to_nat len)).

Definition key_indices (size : Z) (k : key) : option (list Z) :=
  match k with
  | KInt i => None
  | KList l => Some l
  | KSlice a b c => slice_indices size a b c
  end.

Definition jints (l : list Z) : json := JArr (map JInt l).

Definition enc_key (size : Z) (k : key) : option json :=
  match k with
  | KInt i => Some (JInt (norm_index size i))
  | KList l => Some (jints l)
  | KSlice a b c => do l <- slice_indices size a b c; Some (jints l)
  end.

(** [len(x)] / [x.size] as used for the default [times] of a parametrized
    InterpolatedWaveform *)
Definition val_len (v : val) : option Z :=
  match v with
  | VVar _ size => Some size
  | VList l => Some (Z.of_nat (List.length l))
  | VItem _ size k => do l <- key_indices size k; Some (Z.of_nat (List.length l))
  | _ => None
  end.

(** [np.linspace(0, 1, num)] *)
Definition linspace01 (num : Z) : list float :=
  if num <=? 0 then []
  else if num =? 1 then [zero]
  else
    let step := (one / f_of_Z (num - 1))%float in
    map (fun i => if i =? num - 1 then one else (f_of_Z i * step)%float)
        (range_from 0 1 (Z.to_nat num)).

Definition is_param (v : val) : bool :=
  match v with VVar _ _ | VItem _ _ _ | VPObj _ _ _ => true | _ => false end.

(** * Encoding of values: [json.dumps(..., cls=AbstractReprEncoder)] *)
Definition jstr_dict (d : list (string * string)) := map (fun kv => (fst kv, JStr (snd kv))) d.

(** children are encoded first, paired with their [val_len]; the dictionary
    shuffling of [_to_abstract_repr] is parametric in them *)
Definition EV := (json * option Z)%type.
Definition ev_str (s : string) : EV := (JStr s, None).
Definition ev_list (l : list EV) : EV := (JArr (map fst l), Some (Z.of_nat (List.length l))).
Definition ev_json (j : json) : EV := (j, None).
Definition strip (d : list (string * EV)) : json := JObj (map (fun kv => (fst kv, fst (snd kv))) d).

Definition ev_abstract_repr := @abstract_repr EV ev_str ev_list.

(** [ParamObj._to_abstract_repr] once the class-method test has been taken *)
Definition pobj_repr (name : string) (args : list EV) (first_is_class : option string)
           (kwargs : list (string * EV)) : option json :=
  match first_is_class with
  | Some cls_name =>
      let full := (cls_name ++ "." ++ name)%string in
      let sname := if String.eqb cls_name "Pulse" && negb (String.eqb name "ArbitraryPhase")
                   then "Pulse" else full in
      do s <- find_sig sname;
      match sg_var s with
      | Some _ => None
      | None =>
          let all_args :=
            dupdate (dupdate (map (fun kv => (fst kv, ev_json (snd kv))) (cls_defaults full))
                             (zip (all_pos_args s) (tl args)))
                    kwargs in
          if String.eqb full "Pulse.ConstantAmplitude" then
            do a <- dget "amplitude" all_args;
            do w <- ev_abstract_repr "ConstantWaveform" [ev_json (JInt 0); a] [];
            do r <- ev_abstract_repr "Pulse" [] (dset "amplitude" (ev_json (strip w)) all_args);
            Some (strip r)
          else if String.eqb full "Pulse.ConstantDetuning" then
            do a <- dget "detuning" all_args;
            do w <- ev_abstract_repr "ConstantWaveform" [ev_json (JInt 0); a] [];
            do r <- ev_abstract_repr "Pulse" [] (dset "detuning" (ev_json (strip w)) all_args);
            Some (strip r)
          else
            do r <- ev_abstract_repr full [] all_args; Some (strip r)
      end
  | None =>
      match find_sig name with
      | Some s =>
          let filtered := filter (fun kv => str_in (fst kv) (sg_kw s)) (cls_defaults name) in
          let full_kwargs := dupdate (map (fun kv => (fst kv, ev_json (snd kv))) filtered) kwargs in
          match sg_var s with
          | Some _ => do r <- ev_abstract_repr name args full_kwargs; Some (strip r)
          | None =>
              let all_args := dupdate full_kwargs (zip (all_pos_args s) args) in
              do all_args <-
                 (if String.eqb name "InterpolatedWaveform" then
                    match dget "times" all_args with
                    | Some (JNull, _) =>
                        do vs <- dget "values" all_args;
                        do n <- snd vs;
                        Some (dset "times" (ev_json (JArr (map JFlt (linspace01 n)))) all_args)
                    | Some _ => Some all_args
                    | None => None
                    end
                  else Some all_args);
              do r <- ev_abstract_repr name [] all_args; Some (strip r)
          end
      | None =>
          if str_in name gen_unary_ops then
            match args with
            | a :: _ => Some (JObj [("expression", JStr name); ("lhs", fst a)])
            | [] => None
            end
          else if str_in name gen_binary_ops then
            match args with
            | a :: b :: _ => Some (JObj [("expression", JStr name); ("lhs", fst a); ("rhs", fst b)])
            | _ => None
            end
          else None
      end
  end.

(** an argument of a ParamObj: a class object (first argument of a
    classmethod) is never encoded *)
Definition arg_ev (enc : val -> option json) (x : val) : option EV :=
  match x with
  | VClass _ => Some (JNull, None)
  | _ => do j <- enc x; Some (j, val_len x)
  end.

Definition first_class (args : list val) : option string :=
  match args with VClass c :: _ => Some c | _ => None end.

Fixpoint enc (v : val) {struct v} : option json :=
  match v with
  | VNone => Some JNull
  | VBool b => Some (JBool b)
  | VInt z => Some (JInt z)
  | VFlt f => Some (JFlt f)
  | VStr s => Some (JStr s)
  | VList l => do js <- mapM enc l; Some (JArr js)
  | VJson j => Some j
  | VVar n _ => Some (JObj [("variable", JStr n)])
  | VItem n size k =>
      do r <- enc_key size k;
      Some (JObj [("expression", JStr "index"); ("lhs", JObj [("variable", JStr n)]); ("rhs", r)])
  | VClass _ => None
  | VObj name args kwargs =>
      do a <- mapM (fun x => do j <- enc x; Some (j, val_len x)) args;
      do k <- mapM_vals (fun x => do j <- enc x; Some (j, val_len x)) kwargs;
      do r <- ev_abstract_repr name a k;
      Some (strip r)
  | VPObj name args kwargs =>
      let cls := first_class args in
      do a <- mapM (arg_ev enc) args;
      do k <- mapM_vals (fun x => do j <- enc x; Some (j, val_len x)) kwargs;
      pobj_repr name a cls k
  end.

(** * Sequence-level serializer *)
Record seqin := mkSeqin {
  s_name : string;
  s_calls : list call;                      (* chain(_calls, _to_build_calls), with __init__ *)
  s_vars : list (string * (bool * Z));      (* name -> (dtype is int, size) *)
  s_qids : list val;                        (* register.qubit_ids, in order (str or int ids) *)
  s_layout : option json;                   (* register.layout *)
  s_in_xy : bool;
  s_mag : list float;                       (* seq.magnetic_field *)
  s_defaults : option (list (string * list val));   (* values given for the variables *)
  s_qubits : option (list (string * Z)) }.  (* qubits= mapping for a mappable register *)

Definition get_all_args (meth : string) (names : list string) (c : call)
  : option (list (string * val)) :=
  let params := dupdate (zip names (c_args c)) (c_kwargs c) in
  do defaults <- mapM (fun p => if dhas p params then Some []
                                else do d <- meth_default meth p; Some [(p, VJson d)]) names;
  Some (dupdate (List.concat defaults) params).

(** [data.get(k) == default] on the values that occur (bools, strings, None) *)
Definition val_is_json (v : val) (d : json) : bool :=
  match v, d with
  | VBool b, JBool c => Bool.eqb b c
  | VStr s, JStr t => String.eqb s t
  | VNone, JNull => true
  | VJson j, _ => json_eqb j d
  | _, _ => false
  end.

Definition remove_kwarg_if_default (data : list (string * val)) (meth kw : string) : list (string * val) :=
  match dget kw data, meth_default meth kw with
  | Some v, Some d => if val_is_json v d then ddel kw data else data
  | None, Some JNull => ddel kw data
  | _, _ => data
  end.

(** qubit ids are strings or integers; [==] between them *)
Definition qid_eqb (a b : val) : bool :=
  match a, b with
  | VStr x, VStr y => String.eqb x y
  | VInt x, VInt y => Z.eqb x y
  | _, _ => false
  end.

Fixpoint index_of (q : val) (l : list val) (i : Z) : option Z :=
  match l with
  | [] => None
  | x :: r => if qid_eqb q x then Some i else index_of q r (i + 1)
  end.

Definition qid_of (v : val) : option val :=
  match v with VStr _ | VInt _ => Some v | _ => None end.

(** [str(id)] *)
Definition str_of_qid (v : val) : option string :=
  match v with
  | VStr s => Some s
  | VInt z => Some (NilZero.string_of_int (Z.to_int z))
  | _ => None
  end.

(** [unfold_targets] *)
Definition unfold_targets (v : val) : val :=
  match v with
  | VList [x] => x
  | _ => v
  end.

(** [convert_targets(ids, force_list_out)] *)
Definition convert_targets (qids : list val) (v : val) (force_list : bool) : option val :=
  match unfold_targets v with
  | VList l =>
      do idx <- mapM (fun x => do q <- qid_of x; index_of q qids 0) l;
      Some (VList (map VInt idx))
  | x =>
      do q <- qid_of x; do i <- index_of q qids 0;
      Some (if force_list then VList [VInt i] else VInt i)
  end.

(** [stringify_qubit_ids] *)
Definition stringify (v : val) : option val :=
  match v with
  | VList l => do qs <- mapM (fun x => do q <- str_of_qid x; Some (VStr q)) l; Some (VList qs)
  | _ => None
  end.

Definition jobj_of (d : list (string * val)) : option (list (string * json)) := mapM_vals enc d.

Definition json_has (k : string) (j : json) : bool :=
  match j with JObj kvs => dhas k kvs | _ => false end.

(** one iteration of the serializer's loop: the operations it appends *)
Definition enc_call_ops (s : seqin) (c : call) : option (list json) :=
  let n := c_name c in
  if String.eqb n "__init__" then Some []
  else if String.eqb n "declare_channel" then
    do data <- get_all_args n ["channel"; "channel_id"; "initial_target"] c;
    do it <- dget "initial_target" data;
    do ch <- dget "channel" data;
    match it with
    | VNone | VJson JNull => Some []
    | _ =>
        do t <- convert_targets (s_qids s) it false;
        do jt <- enc t; do jc <- enc ch;
        Some [JObj [("op", JStr "target"); ("channel", jc); ("target", jt)]]
    end
  else if String.eqb n "config_detuning_map" then
    do data <- get_all_args n ["detuning_map"; "dmm_id"] c;
    do m <- dget "detuning_map" data; do d <- dget "dmm_id" data;
    do jm <- enc m; do jd <- enc d;
    Some [JObj [("op", JStr "config_detuning_map"); ("detuning_map", jm); ("dmm_id", jd)]]
  else if String.eqb n "target" || String.eqb n "target_index" then
    do data <- get_all_args n ["qubits"; "channel"] c;
    do q <- dget "qubits" data; do ch <- dget "channel" data;
    do t <- (if String.eqb n "target" then convert_targets (s_qids s) q false
             else if is_param q then Some q else Some (unfold_targets q));
    do jt <- enc t; do jc <- enc ch;
    Some [JObj [("op", JStr "target"); ("channel", jc); ("target", jt)]]
  else if String.eqb n "align" then
    let optional := remove_kwarg_if_default (c_kwargs c) "align" "at_rest" in
    do chans <- mapM enc (c_args c);
    do opt <- jobj_of optional;
    Some [JObj (dupdate [("op", JStr "align"); ("channels", JArr chans)] opt)]
  else if String.eqb n "delay" then
    do data <- get_all_args n ["duration"; "channel"; "at_rest"] c;
    let data := remove_kwarg_if_default data "delay" "at_rest" in
    do ch <- dget "channel" data; do d <- dget "duration" data;
    do jc <- enc ch; do jd <- enc d;
    let base := [("op", JStr "delay"); ("channel", jc); ("time", jd)] in
    match dget "at_rest" data with
    | Some ar => do ja <- enc ar; Some [JObj (base ++ [("at_rest", ja)])]
    | None => Some [JObj base]
    end
  else if String.eqb n "measure" then Some []
  else if String.eqb n "add" then
    do data <- get_all_args n ["pulse"; "channel"; "protocol"] c;
    do p <- dget "pulse" data; do ch <- dget "channel" data; do pr <- dget "protocol" data;
    do jc <- enc ch; do jpr <- enc pr; do jp <- enc p;
    match jp with
    | JObj pkvs =>
        let tag := if dhas "detuning" pkvs then "pulse" else "pulse_arbitrary_phase" in
        Some [JObj (dupdate [("op", JStr tag); ("channel", jc); ("protocol", jpr)] pkvs)]
    | _ => None
    end
  else if String.eqb n "phase_shift" || String.eqb n "phase_shift_index" then
    match c_args c with
    | phi :: targets =>
        do t <- (if String.eqb n "phase_shift"
                 then convert_targets (s_qids s) (VList targets) true
                 else Some (VList targets));
        (* convert_targets(targets, force_list_out=True) on a tuple: a single
           id is unfolded and then forced back into a list *)
        do jphi <- enc phi; do jt <- enc t;
        do b <- (match dget "basis" (c_kwargs c) with
                 | Some b => enc b
                 | None => meth_default n "basis"
                 end);
        Some [JObj [("op", JStr "phase_shift"); ("phi", jphi); ("targets", jt); ("basis", b)]]
    | [] => None
    end
  else if String.eqb n "set_magnetic_field" then Some []
  else if String.eqb n "config_slm_mask" then
    do data <- get_all_args n ["qubits"; "dmm_id"] c;
    do q <- dget "qubits" data; do d <- dget "dmm_id" data;
    do qs <- stringify q;
    do jq <- enc qs; do jd <- enc d;
    if s_in_xy s && opt_all (meth_default n "dmm_id") (fun dd => val_is_json d dd)
    then Some []
    else Some [JObj [("op", JStr "config_slm_mask"); ("qubits", jq); ("dmm_id", jd)]]
  else if String.eqb n "enable_eom_mode" then
    do data <- get_all_args n ["channel"; "amp_on"; "detuning_on"; "optimal_detuning_off"; "correct_phase_drift"] c;
    let data := remove_kwarg_if_default data n "correct_phase_drift" in
    do o <- jobj_of data;
    Some [JObj (dupdate [("op", JStr n)] o)]
  else if String.eqb n "modify_eom_setpoint" then
    do data <- get_all_args n ["channel"; "amp_on"; "detuning_on"; "optimal_detuning_off"; "correct_phase_drift"] c;
    do o <- jobj_of data;
    Some [JObj (dupdate [("op", JStr n)] o)]
  else if String.eqb n "add_eom_pulse" then
    do data <- get_all_args n ["channel"; "duration"; "phase"; "post_phase_shift"; "protocol"; "correct_phase_drift"] c;
    let data := remove_kwarg_if_default data n "correct_phase_drift" in
    do o <- jobj_of data;
    Some [JObj (dupdate [("op", JStr n)] o)]
  else if String.eqb n "disable_eom_mode" then
    do data <- get_all_args n ["channel"; "correct_phase_drift"] c;
    let data := remove_kwarg_if_default data n "correct_phase_drift" in
    do o <- jobj_of data;
    Some [JObj (dupdate [("op", JStr n)] o)]
  else if String.eqb n "add_dmm_detuning" then
    do data <- get_all_args n ["waveform"; "dmm_name"; "protocol"] c;
    do o <- jobj_of data;
    Some [JObj (dupdate [("op", JStr n)] o)]
  else None.

Definition enc_call_channel (c : call) : option (list (string * json)) :=
  if String.eqb (c_name c) "declare_channel" then
    do data <- get_all_args "declare_channel" ["channel"; "channel_id"; "initial_target"] c;
    do ch <- dget "channel" data; do id <- dget "channel_id" data;
    match ch with
    | VStr name => do jid <- enc id; Some [(name, jid)]
    | _ => None
    end
  else Some [].

Definition enc_call_measure (c : call) : option (list json) :=
  if String.eqb (c_name c) "measure" then
    do data <- get_all_args "measure" ["basis"] c;
    do b <- dget "basis" data; do jb <- enc b; Some [jb]
  else Some [].

Definition enc_call_slm_legacy (s : seqin) (c : call) : option (list json) :=
  if String.eqb (c_name c) "config_slm_mask" then
    do data <- get_all_args "config_slm_mask" ["qubits"; "dmm_id"] c;
    do q <- dget "qubits" data; do d <- dget "dmm_id" data;
    do qs <- stringify q;
    do jq <- enc qs;
    if s_in_xy s && opt_all (meth_default "config_slm_mask" "dmm_id") (fun dd => val_is_json d dd)
    then Some [jq] else Some []
  else Some [].

Definition concatM {A B} (f : A -> option (list B)) (l : list A) : option (list B) :=
  do r <- mapM f l; Some (List.concat r).

Definition cast_default (is_int : bool) (v : val) : option json :=
  match v with
  | VInt z => Some (if is_int then JInt z else JFlt (f_of_Z z))
  | VFlt f => if is_int then do z <- f_trunc f; Some (JInt z) else Some (JFlt f)
  | _ => None
  end.

Definition enc_var (s : seqin) (v : string * (bool * Z)) : option (string * json) :=
  let '(name, (is_int, size)) := v in
  do value <-
     match s_defaults s with
     | Some defs =>
         do l <- dget name defs;
         if Z.eqb (Z.of_nat (List.length l)) size then mapM (cast_default is_int) l else None
     | None => Some (repeat (if is_int then JInt 0 else JFlt zero) (Z.to_nat size))
     end;
  Some (name, JObj [("type", JStr (if is_int then "int" else "float")); ("value", JArr value)]).

Definition add_default_trap (qubits : list (string * Z)) (q : json) : json :=
  match q with
  | JObj kvs =>
      match dget "qid" kvs with
      | Some (JStr qid) =>
          match dget qid qubits with
          | Some t => JObj (dset "default_trap" (JInt t) kvs)
          | None => q
          end
      | _ => q
      end
  | _ => q
  end.

Definition init_call (s : seqin) : option (list (string * val)) :=
  match s_calls s with
  | c :: _ => if String.eqb (c_name c) "__init__"
              then get_all_args "__init__" ["register"; "device"] c else None
  | [] => None
  end.

Definition last_opt {A} (l : list A) : option A :=
  match rev l with x :: _ => Some x | [] => None end.

Definition has_call (n : string) (s : seqin) : bool :=
  existsb (fun c => String.eqb (c_name c) n) (s_calls s).

(** [serialize_abstract_sequence] *)
Definition encode_seq (s : seqin) : option json :=
  do init <- init_call s;
  do reg <- dget "register" init; do dev <- dget "device" init;
  do jreg <- enc reg; do jdev <- enc dev;
  do vars <- mapM (enc_var s) (s_vars s);
  let jreg := match s_qubits s, jreg with
              | Some qs, JArr l => JArr (map (add_default_trap qs) l)
              | _, _ => jreg
              end in
  do chans <- concatM enc_call_channel (s_calls s);
  do ops <- concatM (enc_call_ops s) (s_calls s);
  do meas <- concatM enc_call_measure (s_calls s);
  do slm <- concatM (enc_call_slm_legacy s) (s_calls s);
  let doc :=
    [("version", JStr "1"); ("name", JStr (s_name s)); ("register", jreg);
     ("channels", JObj (dupdate [] chans)); ("variables", JObj (dupdate [] vars));
     ("operations", JArr ops);
     ("measurement", match last_opt meas with Some b => b | None => JNull end);
     ("device", jdev)] in
  let doc := match s_layout s with Some l => doc ++ [("layout", l)] | None => doc end in
  let doc := if has_call "set_magnetic_field" s
             then dset "magnetic_field" (JArr (map JFlt (s_mag s))) doc else doc in
  let doc := match last_opt slm with Some q => dset "slm_mask_targets" q doc | None => doc end in
  Some (JObj doc).

(** * Deserializer: the calls it issues *)
Definition vars_ctx := list (string * Z).    (* declared variables and their sizes *)

Definition jkey (j : json) : option key :=
  match j with
  | JInt i => Some (KInt i)
  | JArr l => do zs <- mapM (fun x => match x with JInt z => Some z | _ => None end) l; Some (KList zs)
  | _ => None
  end.

Definition key_in_range (size : Z) (k : key) : bool :=
  match k with
  | KInt i => (- size <=? i) && (i <? size)
  | KList l => forallb (fun i => (- size <=? i) && (i <? size)) l
  | KSlice _ _ _ => true
  end.

Fixpoint lit_of_json (j : json) : option val :=
  match j with
  | JNull => Some VNone
  | JBool b => Some (VBool b)
  | JInt z => Some (VInt z)
  | JFlt f => Some (VFlt f)
  | JStr s => Some (VStr s)
  | JArr l => do vs <- mapM lit_of_json l; Some (VList vs)
  | JObj _ => None
  end.

Definition var_name_of (j : json) : option string :=
  match j with
  | JObj lk => match dget "variable" lk with Some (JStr n) => Some n | _ => None end
  | _ => None
  end.

(** [_deserialize_parameter] *)
Fixpoint dec_param (vars : vars_ctx) (j : json) {struct j} : option val :=
  match j with
  | JObj kvs =>
      match dget "variable" kvs with
      | Some (JStr n) => do size <- dget n vars; Some (VVar n size)
      | Some _ => None
      | None =>
          match dget "expression" kvs with
          | Some (JStr e) =>
              let e := if String.eqb e "div" then "truediv" else e in
              if str_in e gen_unary_ops then
                do l <- dget_with (dec_param vars) "lhs" kvs;
                if is_param l then Some (VPObj e [l] []) else None
              else if str_in e gen_binary_ops then
                if String.eqb e "index" then
                  do n <- dget_with var_name_of "lhs" kvs;
                  do size <- dget n vars;
                  do k <- dget_with jkey "rhs" kvs;
                  if key_in_range size k then Some (VItem n size k) else None
                else
                  do l <- dget_with (dec_param vars) "lhs" kvs;
                  do r <- dget_with (dec_param vars) "rhs" kvs;
                  if is_param l || is_param r then Some (VPObj e [l; r] []) else None
              else None
          | _ => None
          end
      end
  | _ => lit_of_json j
  end.

(** * Waveforms, pulses, operations *)
Definition any_param (d : list (string * val)) : bool := existsb (fun kv => is_param (snd kv)) d.

(** what a constructor call cls called with keyword fields evaluates to: a ParamObj holding
    the keyword arguments when one of them is parametrized, the concrete object
    (in the canonical presentation of its own _to_abstract_repr) otherwise *)
Definition mk_obj (name : string) (fields : list (string * val)) : option val :=
  if any_param fields then Some (VPObj name [] fields)
  else
    do s <- find_sig name;
    do pos <- mapM (fun p => dget p fields) (sg_pos s);
    do kw <- mapM (fun p => do v <- dget p fields; Some (p, v)) (sg_kw s);
    Some (VObj name pos kw).

(** classmethods are only ever serialised from ParamObj's *)
Definition mk_cm (cls meth : string) (fields : list (string * val)) : option val :=
  if any_param fields then Some (VPObj meth [VClass cls] fields) else None.

Definition fields_with {A} (f : A -> option val) (names : list string) (kvs : list (string * A))
  : option (list (string * val)) :=
  mapM (fun n => do v <- dget_with f n kvs; Some (n, v)) names.

Definition jarr_with {B} (f : json -> option B) (j : json) : option (list B) :=
  match j with JArr l => mapM f l | _ => None end.

(** [_deserialize_waveform] *)
Fixpoint dec_wf (vars : vars_ctx) (j : json) {struct j} : option val :=
  match j with
  | JObj kvs =>
      let P := dec_param vars in
      match dget "kind" kvs with
      | Some (JStr kind) =>
          if String.eqb kind "constant" then
            do f <- fields_with P ["duration"; "value"] kvs; mk_obj "ConstantWaveform" f
          else if String.eqb kind "ramp" then
            do f <- fields_with P ["duration"; "start"; "stop"] kvs; mk_obj "RampWaveform" f
          else if String.eqb kind "blackman" then
            do f <- fields_with P ["duration"; "area"] kvs; mk_obj "BlackmanWaveform" f
          else if String.eqb kind "blackman_max" then
            do f <- fields_with P ["max_val"; "area"] kvs; mk_cm "BlackmanWaveform" "from_max_val" f
          else if String.eqb kind "interpolated" then
            do f <- fields_with P ["duration"; "values"; "times"] kvs; mk_obj "InterpolatedWaveform" f
          else if String.eqb kind "kaiser" then
            do f <- fields_with P ["duration"; "area"; "beta"] kvs; mk_obj "KaiserWaveform" f
          else if String.eqb kind "kaiser_max" then
            do f <- fields_with P ["max_val"; "area"; "beta"] kvs; mk_cm "KaiserWaveform" "from_max_val" f
          else if String.eqb kind "composite" then
            do ws <- dget_with (fun x => match x with JArr l => mapM (dec_wf vars) l | _ => None end)
                               "waveforms" kvs;
            Some (if existsb is_param ws then VPObj "CompositeWaveform" ws []
                  else VObj "CompositeWaveform" ws [])
          else if String.eqb kind "custom" then
            do f <- fields_with P ["samples"] kvs; mk_obj "CustomWaveform" f
          else None
      | _ => None
      end
  | _ => None
  end.

Definition json_is_zero (j : json) : bool :=
  match j with JInt 0 => true | JFlt f => f_eq f zero | _ => false end.

(** [w.get("duration") == 0 and w.get("kind") == "constant"] *)
Definition is_zero_const (j : json) : bool :=
  match j with
  | JObj kvs =>
      match dget "duration" kvs, dget "kind" kvs with
      | Some d, Some (JStr k) => json_is_zero d && String.eqb k "constant"
      | _, _ => false
      end
  | _ => false
  end.

Definition to_float (v : val) : option float :=
  match v with VInt z => Some (f_of_Z z) | VFlt f => Some f | _ => None end.

(** [Pulse(amplitude=, detuning=, phase=, post_phase_shift=)] *)
Definition mk_pulse (a d ph po : val) : option val :=
  if is_param a || is_param d || is_param ph || is_param po then
    Some (VPObj "Pulse" [] [("amplitude", a); ("detuning", d); ("phase", ph); ("post_phase_shift", po)])
  else
    do fph <- to_float ph; do fpo <- to_float po;
    Some (VObj "Pulse" [a; d; VFlt (f_mod2pi fph)] [("post_phase_shift", VFlt (f_mod2pi fpo))]).

Definition value_of_const (vars : vars_ctx) (j : json) : option val :=
  match j with JObj kvs => dget_with (dec_param vars) "value" kvs | _ => None end.

Definition dec_pulse (vars : vars_ctx) (kvs : list (string * json)) : option val :=
  do ph <- dget_with (dec_param vars) "phase" kvs;
  do po <- dget_with (dec_param vars) "post_phase_shift" kvs;
  do ja <- dget "amplitude" kvs; do jd <- dget "detuning" kvs;
  if is_zero_const ja then
    do a <- value_of_const vars ja; do d <- dec_wf vars jd;
    mk_cm "Pulse" "ConstantAmplitude"
          [("amplitude", a); ("detuning", d); ("phase", ph); ("post_phase_shift", po)]
  else if is_zero_const jd then
    do a <- dec_wf vars ja; do d <- value_of_const vars jd;
    mk_cm "Pulse" "ConstantDetuning"
          [("amplitude", a); ("detuning", d); ("phase", ph); ("post_phase_shift", po)]
  else
    do a <- dec_wf vars ja; do d <- dec_wf vars jd; mk_pulse a d ph po.

Definition dec_pulse_arb (vars : vars_ctx) (kvs : list (string * json)) : option val :=
  do a <- dget_with (dec_wf vars) "amplitude" kvs;
  do p <- dget_with (dec_wf vars) "phase" kvs;
  do po <- dget_with (dec_param vars) "post_phase_shift" kvs;
  mk_cm "Pulse" "ArbitraryPhase" [("amplitude", a); ("phase", p); ("post_phase_shift", po)].

(** [op.get(k, default)] with the default the deserializer's source gives *)
Definition get_or_default (tag k : string) (kvs : list (string * json)) : option val :=
  match dget k kvs with
  | Some j => lit_of_json j
  | None => do d <- deser_default tag k; lit_of_json d
  end.

Definition raw (k : string) (kvs : list (string * json)) : option val := dget_with lit_of_json k kvs.

(** [_deserialize_operation]: the call it issues (none for an unknown tag) *)
Definition dec_op (vars : vars_ctx) (j : json) : option (list call) :=
  match j with
  | JObj kvs =>
      let P := dec_param vars in
      match dget "op" kvs with
      | Some (JStr tag) =>
          if String.eqb tag "target" then
            do t <- dget_with P "target" kvs; do ch <- raw "channel" kvs;
            Some [mkCall "target_index" [] [("qubits", t); ("channel", ch)]]
          else if String.eqb tag "align" then
            do chs <- dget_with (jarr_with lit_of_json) "channels" kvs;
            do ar <- get_or_default tag "at_rest" kvs;
            Some [mkCall "align" chs [("at_rest", ar)]]
          else if String.eqb tag "delay" then
            do t <- dget_with P "time" kvs; do ch <- raw "channel" kvs;
            do ar <- get_or_default tag "at_rest" kvs;
            Some [mkCall "delay" [] [("duration", t); ("channel", ch); ("at_rest", ar)]]
          else if String.eqb tag "phase_shift" then
            do phi <- dget_with P "phi" kvs;
            do ts <- dget_with (jarr_with P) "targets" kvs;
            do b <- raw "basis" kvs;
            Some [mkCall "phase_shift_index" (phi :: ts) [("basis", b)]]
          else if String.eqb tag "pulse" then
            do p <- dec_pulse vars kvs; do ch <- raw "channel" kvs; do pr <- raw "protocol" kvs;
            Some [mkCall "add" [] [("pulse", p); ("channel", ch); ("protocol", pr)]]
          else if String.eqb tag "pulse_arbitrary_phase" then
            do p <- dec_pulse_arb vars kvs; do ch <- raw "channel" kvs; do pr <- raw "protocol" kvs;
            Some [mkCall "add" [] [("pulse", p); ("channel", ch); ("protocol", pr)]]
          else if String.eqb tag "enable_eom_mode" then
            do ch <- raw "channel" kvs; do a <- dget_with P "amp_on" kvs;
            do d <- dget_with P "detuning_on" kvs; do o <- dget_with P "optimal_detuning_off" kvs;
            do c <- get_or_default tag "correct_phase_drift" kvs;
            Some [mkCall tag [] [("channel", ch); ("amp_on", a); ("detuning_on", d);
                                 ("optimal_detuning_off", o); ("correct_phase_drift", c)]]
          else if String.eqb tag "modify_eom_setpoint" then
            do ch <- raw "channel" kvs; do a <- dget_with P "amp_on" kvs;
            do d <- dget_with P "detuning_on" kvs; do o <- dget_with P "optimal_detuning_off" kvs;
            do c <- raw "correct_phase_drift" kvs;
            Some [mkCall tag [] [("channel", ch); ("amp_on", a); ("detuning_on", d);
                                 ("optimal_detuning_off", o); ("correct_phase_drift", c)]]
          else if String.eqb tag "add_eom_pulse" then
            do ch <- raw "channel" kvs; do du <- dget_with P "duration" kvs;
            do ph <- dget_with P "phase" kvs; do po <- dget_with P "post_phase_shift" kvs;
            do pr <- raw "protocol" kvs;
            do c <- get_or_default tag "correct_phase_drift" kvs;
            Some [mkCall tag [] [("channel", ch); ("duration", du); ("phase", ph);
                                 ("post_phase_shift", po); ("protocol", pr);
                                 ("correct_phase_drift", c)]]
          else if String.eqb tag "disable_eom_mode" then
            do ch <- raw "channel" kvs;
            do c <- get_or_default tag "correct_phase_drift" kvs;
            Some [mkCall tag [] [("channel", ch); ("correct_phase_drift", c)]]
          else if String.eqb tag "add_dmm_detuning" then
            do w <- dget_with (dec_wf vars) "waveform" kvs;
            do n <- raw "dmm_name" kvs; do pr <- raw "protocol" kvs;
            Some [mkCall tag [] [("waveform", w); ("dmm_name", n); ("protocol", pr)]]
          else if String.eqb tag "config_slm_mask" then
            do q <- raw "qubits" kvs; do d <- raw "dmm_id" kvs;
            Some [mkCall tag [] [("qubits", q); ("dmm_id", d)]]
          else if String.eqb tag "config_detuning_map" then
            do m <- dget "detuning_map" kvs; do d <- raw "dmm_id" kvs;
            Some [mkCall tag [] [("detuning_map", VJson m); ("dmm_id", d)]]
          else Some []
      | _ => None
      end
  | _ => None
  end.

Record decoded := mkDecoded {
  d_device : json; d_layout : option json; d_register : json; d_calls : list call }.

Definition dec_var_decl (kv : string * json) : option (call * (string * Z)) :=
  match snd kv with
  | JObj d =>
      do n <- match dget "value" d with Some (JArr l) => Some (Z.of_nat (List.length l)) | _ => None end;
      do ty <- match dget "type" d with
               | Some (JStr t) => if String.eqb t "int" || String.eqb t "float" then Some t else None
               | _ => None
               end;
      Some (mkCall "declare_variable" [VStr (fst kv)] [("size", VInt n); ("dtype", VClass ty)],
            (fst kv, n))
  | _ => None
  end.

(** [deserialize_abstract_sequence] after schema validation *)
Definition decode_seq (j : json) : option decoded :=
  match j with
  | JObj doc =>
      do dev <- dget "device" doc;
      do reg <- dget "register" doc;
      do chans <- match dget "channels" doc with
                  | Some (JObj c) =>
                      mapM (fun kv => do id <- lit_of_json (snd kv);
                                      Some (mkCall "declare_channel" [VStr (fst kv); id] [])) c
                  | _ => None
                  end;
      do mag <- match dget "magnetic_field" doc with
                | Some (JArr l) => do a <- mapM lit_of_json l; Some [mkCall "set_magnetic_field" a []]
                | Some _ => None
                | None => Some []
                end;
      do slm <- match dget "slm_mask_targets" doc with
                | Some q => do v <- lit_of_json q; Some [mkCall "config_slm_mask" [v] []]
                | None => Some []
                end;
      do vd <- match dget "variables" doc with
               | Some (JObj v) => mapM dec_var_decl v
               | _ => None
               end;
      let vars := map snd vd in
      do ops <- match dget "operations" doc with
                | Some (JArr l) => concatM (dec_op vars) l
                | _ => None
                end;
      do meas <- match dget "measurement" doc with
                 | Some JNull => Some []
                 | Some b => do v <- lit_of_json b; Some [mkCall "measure" [v] []]
                 | None => None
                 end;
      Some (mkDecoded dev (dget "layout" doc) reg
                      (chans ++ mag ++ slm ++ map fst vd ++ ops ++ meas))
  | _ => None
  end.

(** * Specification: the calls a faithful reconstruction must issue.
    Python's own argument binding applied to the logged calls; identifiers
    resolved to indices; variable items resolved to explicit indices; no JSON. *)
Definition norm_key (size : Z) (k : key) : option key :=
  match k with
  | KInt i => Some (KInt (norm_index size i))
  | KList l => Some (KList l)
  | KSlice a b c => do l <- slice_indices size a b c; Some (KList l)
  end.

Definition cm_fields (full : string) : list string :=
  match dget full gen_cls_params with
  | Some (p, _, _, _) => filter (fun x => negb (String.eqb x "interpolator")) p
  | None => []
  end.

(** Python binding of positional/keyword arguments and defaults to [names] *)
Definition bind_fields (names : list string) (defaults : list (string * json))
           (args : list val) (kwargs : list (string * val)) : option (list (string * val)) :=
  if Nat.ltb (List.length names) (List.length args) then None
  else
    let d := dupdate (dupdate (map (fun kv => (fst kv, VJson (snd kv))) defaults) (zip names args)) kwargs in
    mapM (fun n => do v <- dget n d; Some (n, v)) names.

Definition norm_json (v : val) : val :=
  match v with
  | VJson (JObj _) => v
  | VJson j => match lit_of_json j with Some x => x | None => v end
  | _ => v
  end.
Definition norm_defaults (f : list (string * val)) : list (string * val) :=
  map (fun kv => (fst kv, norm_json (snd kv))) f.

(** normal form of a ParamObj once its arguments are in normal form *)
Definition norm_pobj (name : string) (cls : option string) (a : list val) (k : list (string * val))
  : option val :=
  match cls with
  | Some c =>
      let full := (c ++ "." ++ name)%string in
      do f <- bind_fields (cm_fields full) (cls_defaults full) a k;
      Some (VPObj name [VClass c] (norm_defaults f))
  | None =>
      if str_in name gen_unary_ops then
        match a with x :: _ => Some (VPObj name [x] []) | [] => None end
      else if str_in name gen_binary_ops then
        match a with x :: y :: _ => Some (VPObj name [x; y] []) | _ => None end
      else if String.eqb name "CompositeWaveform" then
        Some (VPObj name a [])
      else
        do f <- bind_fields (cm_fields name) (cls_defaults name) a k;
        let f := norm_defaults f in
        if String.eqb name "InterpolatedWaveform" then
          match dget "times" f, dget "values" f with
          | Some VNone, Some vs =>
              do n <- val_len vs;
              Some (VPObj name [] (dset "times" (VList (map VFlt (linspace01 n))) f))
          | Some _, _ => Some (VPObj name [] f)
          | _, _ => None
          end
        else Some (VPObj name [] f)
  end.

Definition drop_class (args : list val) : list val :=
  match args with VClass _ :: r => r | _ => args end.

Fixpoint norm (v : val) {struct v} : option val :=
  match v with
  | VNone | VBool _ | VInt _ | VFlt _ | VStr _ | VVar _ _ | VClass _ => Some v
  | VList l => do l' <- mapM norm l; Some (VList l')
  | VJson j => Some (norm_json v)
  | VItem n size k => do k' <- norm_key size k; Some (VItem n size k')
  | VObj name args kwargs =>
      do a <- mapM norm args; do k <- mapM_vals norm kwargs; Some (VObj name a k)
  | VPObj name args kwargs =>
      do k <- mapM_vals norm kwargs;
      do a <- mapM norm (match args with VClass _ :: r => r | _ => args end);
      norm_pobj name (first_class args) a k
  end.

Definition bind_call (meth : string) (c : call) : option (list (string * val)) :=
  get_all_args meth (meth_params meth) c.

Definition normed (k : string) (d : list (string * val)) : option (string * val) :=
  do v <- dget k d; do v' <- norm v; Some (k, v').

Definition is_legacy_slm (s : seqin) (d : list (string * val)) : bool :=
  s_in_xy s && match dget "dmm_id" d with
               | Some v => opt_all (meth_default "config_slm_mask" "dmm_id") (fun dd => val_is_json v dd)
               | None => false
               end.

Definition norm_call_ops (s : seqin) (c : call) : option (list call) :=
  let n := c_name c in
  if String.eqb n "__init__" || String.eqb n "measure" || String.eqb n "set_magnetic_field" then Some []
  else if String.eqb n "declare_channel" then
    do d <- bind_call n c;
    do it <- dget "initial_target" d; do ch <- dget "name" d;
    match it with
    | VNone | VJson JNull => Some []
    | _ => do t <- convert_targets (s_qids s) it false;
           Some [mkCall "target_index" [] [("qubits", t); ("channel", ch)]]
    end
  else if String.eqb n "target" then
    do d <- bind_call n c; do q <- dget "qubits" d; do ch <- dget "channel" d;
    do t <- convert_targets (s_qids s) q false;
    Some [mkCall "target_index" [] [("qubits", t); ("channel", ch)]]
  else if String.eqb n "target_index" then
    do d <- bind_call n c; do q <- dget "qubits" d; do ch <- dget "channel" d;
    do t <- norm (if is_param q then q else unfold_targets q);
    Some [mkCall "target_index" [] [("qubits", t); ("channel", ch)]]
  else if String.eqb n "align" then
    do ar <- match dget "at_rest" (c_kwargs c) with
             | Some v => norm v
             | None => do dflt <- meth_default n "at_rest"; lit_of_json dflt
             end;
    Some [mkCall "align" (c_args c) [("at_rest", ar)]]
  else if String.eqb n "delay" then
    do d <- bind_call n c;
    do f <- mapM (fun k => normed k d) ["duration"; "channel"; "at_rest"];
    Some [mkCall "delay" [] f]
  else if String.eqb n "add" then
    do d <- bind_call n c;
    do f <- mapM (fun k => normed k d) ["pulse"; "channel"; "protocol"];
    Some [mkCall "add" [] f]
  else if String.eqb n "phase_shift" then
    match c_args c with
    | phi :: targets =>
        do phi' <- norm phi;
        do t <- convert_targets (s_qids s) (VList targets) true;
        do b <- match dget "basis" (c_kwargs c) with
                | Some b => Some b
                | None => do dflt <- meth_default n "basis"; lit_of_json dflt
                end;
        match t with
        | VList idx => Some [mkCall "phase_shift_index" (phi' :: idx) [("basis", b)]]
        | _ => None
        end
    | [] => None
    end
  else if String.eqb n "phase_shift_index" then
    match c_args c with
    | phi :: targets =>
        do a <- mapM norm (phi :: targets);
        do b <- match dget "basis" (c_kwargs c) with
                | Some b => Some b
                | None => do dflt <- meth_default n "basis"; lit_of_json dflt
                end;
        Some [mkCall "phase_shift_index" a [("basis", b)]]
    | [] => None
    end
  else if String.eqb n "config_slm_mask" then
    do d <- bind_call n c;
    if is_legacy_slm s d then Some []
    else do q <- dget "qubits" d; do q' <- stringify q; do id <- normed "dmm_id" d;
         Some [mkCall n [] [("qubits", q'); id]]
  else if String.eqb n "config_detuning_map" then
    do d <- bind_call n c;
    do f <- mapM (fun k => normed k d) ["detuning_map"; "dmm_id"];
    Some [mkCall n [] f]
  else if String.eqb n "enable_eom_mode" || String.eqb n "modify_eom_setpoint" then
    do d <- bind_call n c;
    do f <- mapM (fun k => normed k d)
                 ["channel"; "amp_on"; "detuning_on"; "optimal_detuning_off"; "correct_phase_drift"];
    Some [mkCall n [] f]
  else if String.eqb n "add_eom_pulse" then
    do d <- bind_call n c;
    do f <- mapM (fun k => normed k d)
                 ["channel"; "duration"; "phase"; "post_phase_shift"; "protocol"; "correct_phase_drift"];
    Some [mkCall n [] f]
  else if String.eqb n "disable_eom_mode" then
    do d <- bind_call n c;
    do f <- mapM (fun k => normed k d) ["channel"; "correct_phase_drift"];
    Some [mkCall n [] f]
  else if String.eqb n "add_dmm_detuning" then
    do d <- bind_call n c;
    do f <- mapM (fun k => normed k d) ["waveform"; "dmm_name"; "protocol"];
    Some [mkCall n [] f]
  else None.

Definition norm_call_channel (c : call) : option (list call) :=
  if String.eqb (c_name c) "declare_channel" then
    do d <- bind_call "declare_channel" c;
    do ch <- dget "name" d; do id <- dget "channel_id" d;
    Some [mkCall "declare_channel" [ch; id] []]
  else Some [].

Definition norm_call_measure (c : call) : option (list call) :=
  if String.eqb (c_name c) "measure" then
    do d <- bind_call "measure" c; do b <- normed "basis" d;
    Some [mkCall "measure" [snd b] []]
  else Some [].

Definition norm_call_slm_legacy (s : seqin) (c : call) : option (list call) :=
  if String.eqb (c_name c) "config_slm_mask" then
    do d <- bind_call "config_slm_mask" c;
    if is_legacy_slm s d then
      do q <- dget "qubits" d; do q' <- stringify q;
      Some [mkCall "config_slm_mask" [q'] []]
    else Some []
  else Some [].

Definition last_list {A} (l : list A) : list A :=
  match last_opt l with Some x => [x] | None => [] end.

(** channels are keyed by name in a dict: a later declaration of the same
    name would overwrite (never happens: names are unique) *)
Definition norm_seq (s : seqin) : option (list call) :=
  do chans <- concatM norm_call_channel (s_calls s);
  let mag := if has_call "set_magnetic_field" s
             then [mkCall "set_magnetic_field" (map VFlt (s_mag s)) []] else [] in
  do slm <- concatM (norm_call_slm_legacy s) (s_calls s);
  let vars := map (fun v : string * (bool * Z) => mkCall "declare_variable" [VStr (fst v)]
                              [("size", VInt (snd (snd v)));
                               ("dtype", VClass (if fst (snd v) then "int" else "float"))])
                  (s_vars s) in
  do ops <- concatM (norm_call_ops s) (s_calls s);
  do meas <- concatM norm_call_measure (s_calls s);
  Some (chans ++ mag ++ last_list slm ++ vars ++ ops ++ last_list meas).

(** * Comparison of values inside Coq (keyword arguments as dictionaries) *)
Definition key_eqb (a b : key) : bool :=
  match a, b with
  | KInt x, KInt y => Z.eqb x y
  | KList x, KList y => Nat.eqb (List.length x) (List.length y) && forallb (fun p => Z.eqb (fst p) (snd p)) (zip x y)
  | KSlice a1 b1 c1, KSlice a2 b2 c2 =>
      let oe (x y : option Z) := match x, y with
                                 | Some p, Some q => Z.eqb p q | None, None => true | _, _ => false end in
      oe a1 a2 && oe b1 b2 && oe c1 c2
  | _, _ => false
  end.

Fixpoint val_eqb (a b : val) {struct a} : bool :=
  let lists :=
    (fix go (l1 l2 : list val) {struct l1} : bool :=
       match l1, l2 with
       | [], [] => true
       | x :: r1, y :: r2 => val_eqb x y && go r1 r2
       | _, _ => false
       end) in
  let dicts (d1 d2 : list (string * val)) :=
    Nat.eqb (List.length d1) (List.length d2) &&
    (fix go (l1 : list (string * val)) {struct l1} : bool :=
       match l1 with
       | [] => true
       | (k, x) :: r1 => match dget k d2 with Some y => val_eqb x y && go r1 | None => false end
       end) d1 in
  match a, b with
  | VNone, VNone => true
  | VBool x, VBool y => Bool.eqb x y
  | VInt x, VInt y => Z.eqb x y
  | VFlt x, VFlt y => f_biteq x y
  | VStr x, VStr y => String.eqb x y
  | VList x, VList y => lists x y
  | VJson x, VJson y => json_eqb x y
  | VVar n s, VVar m t => String.eqb n m && Z.eqb s t
  | VItem n s k, VItem m t l => String.eqb n m && Z.eqb s t && key_eqb k l
  | VClass x, VClass y => String.eqb x y
  | VObj n a k, VObj m b l => String.eqb n m && lists a b && dicts k l
  | VPObj n a k, VPObj m b l => String.eqb n m && lists a b && dicts k l
  | _, _ => false
  end.

Definition call_eqb (a b : call) : bool :=
  val_eqb (VObj (c_name a) (c_args a) (c_kwargs a)) (VObj (c_name b) (c_args b) (c_kwargs b)).

Fixpoint calls_eqb (a b : list call) : bool :=
  match a, b with
  | [], [] => true
  | x :: r, y :: t => call_eqb x y && calls_eqb r t
  | _, _ => false
  end.

(** index of the first differing call (for diagnostics), -1 if equal *)
Fixpoint calls_diff (a b : list call) (i : Z) : Z :=
  match a, b with
  | [], [] => -1
  | x :: r, y :: t => if call_eqb x y then calls_diff r t (i + 1) else i
  | _, _ => i
  end.
