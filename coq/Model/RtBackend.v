(** C17 - states, operators, results and the instance/class attribute model.

    [StateRepr], [OperatorRepr] ([backend/state.py], [backend/operator.py],
    [json/abstract_repr/backend.py]) and [Results] ([backend/results.py]).
    Instances are [PDict]s as everywhere in this development.  The last
    section is a small object-heap model of *where* [_from_state_amplitudes]
    writes [_n_qudits] (the instance; it used to be the class).  No proofs here. *)
From Coq Require Import ZArith List Bool String.
From Coq Require Import Uint63 FloatOps SpecFloat PrimFloat.
From PV Require Import Model.Base Model.RtJson.
Import ListNotations.
Open Scope string_scope.
Open Scope list_scope.
Open Scope Z_scope.

(** ** StateRepr *)
Definition enc_state (s : pv) : pv :=
  enc_json (PDict [("eigenstates", attr "eigenstates" s);
                   ("amplitudes", attr "amplitudes" s)]).

Definition first_key_len (amps : pv) : option Z :=
  match amps with
  | PDict ((k, _) :: _) => Some (Z.of_nat (String.length k))
  | _ => None            (* IndexError on an empty mapping *)
  end.

(** [_deserialize_state]: [from_state_amplitudes(eigenstates, _convert_complex(amplitudes))] *)
Definition dec_state (o : pv) : option pv :=
  match o with
  | PDict d =>
      match get "eigenstates" d, get "amplitudes" d with
      | Some eig, Some amps =>
          let amps' := convert_complex amps in
          match first_key_len amps' with
          | Some n =>
              Some (PDict [("__class__", PStr "StateRepr"); ("eigenstates", eig);
                           ("amplitudes", amps'); ("n_qudits", PInt n)])
          | None => None
          end
      | _, _ => None
      end
  | _ => None
  end.

(** ** OperatorRepr *)
Definition enc_operator (op : pv) : pv :=
  enc_json (PDict [("eigenstates", attr "eigenstates" op);
                   ("n_qudits", attr "n_qudits" op);
                   ("operations", attr "operations" op)]).

Definition dec_operator (o : pv) : option pv :=
  match o with
  | PDict d =>
      match get "eigenstates" d, get "n_qudits" d, get "operations" d with
      | Some eig, Some n, Some ops =>
          Some (PDict [("__class__", PStr "OperatorRepr"); ("eigenstates", eig);
                       ("n_qudits", n); ("operations", convert_complex ops)])
      | _, _, _ => None
      end
  | _ => None
  end.

(** ** Results: [_to_abstract_repr] / [_from_abstract_repr].  Instance:
    [atom_order], [total_duration], [tagmap] (tag -> uuid string), [results]
    (uuid -> list of values), [times] (uuid -> list of times). *)
Definition enc_results (r : pv) : pv :=
  enc_json (PDict [("atom_order", attr "atom_order" r);
                   ("total_duration", attr "total_duration" r);
                   ("tagmap", attr "tagmap" r);
                   ("results", attr "results" r);
                   ("times", attr "times" r)]).

(** no [_convert_complex] here: that is what the code does *)
Definition dec_results (o : pv) : option pv :=
  match o with
  | PDict d =>
      match get "atom_order" d, get "total_duration" d,
            get "tagmap" d, get "results" d, get "times" d with
      | Some ao, Some td, Some (PDict tm), Some (PDict rs), Some (PDict ts) =>
          Some (PDict [("__class__", PStr "Results"); ("atom_order", ao);
                       ("total_duration", td); ("tagmap", PDict tm);
                       ("results", PDict rs); ("times", PDict ts)])
      | _, _, _, _, _ => None
      end
  | _ => None
  end.

(** ** Where attributes live.  An object heap: every instance has its own
    attribute dictionary; a class has one too; reading [obj.a] looks in the
    instance first and falls back to the class (Python attribute lookup). *)
Record heap := mkHeap {
  h_class : kvs;            (* attributes set on the class object *)
  h_objs : list kvs         (* instance dictionaries, in creation order *)
}.

Definition empty_heap : heap := mkHeap [] [].

Definition read_attr (h : heap) (i : nat) (a : string) : option pv :=
  match nth_error (h_objs h) i with
  | Some d => match get a d with Some v => Some v | None => get a (h_class h) end
  | None => None
  end.

(** a constructor that writes only into the fresh instance *)
Definition new_local (h : heap) (d : kvs) : heap :=
  mkHeap (h_class h) (h_objs h ++ [d]).

(** [StateRepr._from_state_amplitudes] (since commit b3b580b8):
    [state = cls(eigenstates=...); state._n_qudits = n_qudits]; then
    [from_state_amplitudes] sets [obj._amplitudes], all on the instance. *)
Definition staterepr_inst (eig amps : pv) (n : Z) : kvs :=
  [("_eigenstates", eig); ("_amplitudes", amps); ("_n_qudits", PInt n)].

Definition staterepr_new (h : heap) (eig amps : pv) : option heap :=
  match first_key_len amps with
  | Some n => Some (new_local h (staterepr_inst eig amps n))
  | None => None
  end.

(** the behaviour before that commit, kept to state why the discipline
    matters: [cls._n_qudits = n_qudits] *)
Definition staterepr_new_on_class (h : heap) (eig amps : pv) : option heap :=
  match first_key_len amps with
  | Some n =>
      Some (mkHeap (set_key "_n_qudits" (PInt n) (h_class h))
                   (h_objs h ++ [[("_eigenstates", eig); ("_amplitudes", amps)]]))
  | None => None
  end.

Fixpoint build_states (h : heap) (l : list (pv * pv)) : option heap :=
  match l with
  | [] => Some h
  | (e, a) :: r =>
      match staterepr_new h e a with
      | Some h' => build_states h' r
      | None => None
      end
  end.

(** [n_qudits] of every instance, read at the end *)
Definition nq_readings (h : heap) : list (option pv) :=
  map (fun i => read_attr h i "_n_qudits") (seq 0 (List.length (h_objs h))).
