(** C17 - executable model of the abstract-representation codecs of channels
    ([Channel._to_abstract_repr], [DMM._to_abstract_repr],
    [BaseEOM._to_abstract_repr], [_deserialize_channel]), layouts and devices
    ([BaseDevice._to_abstract_repr], [_deserialize_device_object]).

    An instance is [PDict (("__class__", PStr cls) :: fields in dataclass
    order)].  All field lists, defaults, optional-key tuples and the keyword
    names of the decoder's [RydbergEOM(...)] call come from Gen/RtTables.v.
    [__post_init__] validation is not modelled (the correspondence and the
    oracle run the real constructors).  No proofs here. *)
From Coq Require Import ZArith List Bool String.
From Coq Require Import Uint63 FloatOps SpecFloat PrimFloat.
From PV Require Import Model.Base Model.RtJson Gen.RtTables Model.RtNoise.
Import ListNotations.
Open Scope string_scope.
Open Scope list_scope.
Open Scope Z_scope.

Definition assoc_s (k : string) (l : list (string * string)) : option string :=
  match find (fun e : string * string => String.eqb k (fst e)) l with
  | Some e => Some (snd e)
  | None => None
  end.

Definition chan_tbl (cls : string) : option table :=
  if String.eqb cls "Rydberg" then Some tbl_Rydberg
  else if String.eqb cls "Raman" then Some tbl_Raman
  else if String.eqb cls "Microwave" then Some tbl_Microwave
  else if String.eqb cls "DMM" then Some tbl_DMM
  else None.

(** ** EOM *)

(** [BaseEOM._to_abstract_repr]: every field, except the optional ones whose
    value [==] the default *)
Definition eom_keep (t : table) (e : string * pv) : bool :=
  negb (mem_s (fst e) opt_eom
        && match default_of t (fst e) with
           | Some d => pyeq (snd e) d
           | None => false
           end).

Definition enc_eom (e : pv) : option pv :=
  (* assert set(OPTIONAL_ABSTR_EOM_FIELDS) <= defaults.keys() *)
  if forallb (has_default tbl_RydbergEOM) opt_eom then
    Some (PDict (filter (eom_keep tbl_RydbergEOM) (attrs_of e)))
  else None.

(** the [RydbergEOM(...)] call of [_deserialize_channel] *)
Definition dec_eom (data : pv) : option pv :=
  match data with
  | PDict d =>
      match mapM (fun k => match get k d with Some v => Some (k, v) | None => None end) eom_named with
      | Some named =>
          let optional :=
            if eom_forwards_optional then
              flat_map (fun k => match get k d with Some v => [(k, v)] | None => [] end) opt_eom
            else [] in
          let params := named ++ optional in
          if nodup_s (keys params) then construct "RydbergEOM" tbl_RydbergEOM params else None
      | None => None
      end
  | _ => None
  end.

(** ** Channels *)
Fixpoint map_vals (f : string -> pv -> option pv) (l : kvs) : option kvs :=
  match l with
  | [] => Some []
  | (k, v) :: r =>
      match f k v, map_vals f r with
      | Some v', Some r' => Some ((k, v') :: r')
      | _, _ => None
      end
  end.

(** JSON image of a channel attribute (the encoder's [default] hook) *)
Definition enc_chan_val (k : string) (v : pv) : option pv :=
  if String.eqb k "eom_config" then
    match v with PNone => Some PNone | _ => enc_eom v end
  else Some v.

Definition enc_chan (id : string) (c : pv) : option pv :=
  let cls := class_of c in
  match chan_tbl cls, assoc_s cls class_basis with
  | Some t, Some basis =>
      match pop_defaults true t opt_ch (attrs_of c) with
      | Some p1 =>
          match (if String.eqb cls "DMM" then pop_defaults true t opt_dmm p1 else Some p1) with
          | Some p2 =>
              match map_vals enc_chan_val p2 with
              | Some p3 => Some (PDict (("id", PStr id) :: ("basis", PStr basis) :: p3))
              | None => None
              end
          | None => None
          end
      | None => None
      end
  | _, _ => None
  end.

Definition no_conv (k : string) (v : pv) : option pv := Some v.

(** [_deserialize_channel] *)
Definition dec_chan (o : pv) : option pv :=
  match o with
  | PDict obj =>
      match get "basis" obj with
      | Some (PStr basis) =>
          let sel : option (string * kvs) :=
            if String.eqb basis "ground-rydberg" then
              let '(cls, p0) :=
                if has_key "bottom_detuning" obj then ("DMM", [])
                else ("Rydberg", [("eom_config", PNone)]) in
              match get "eom_config" obj with
              | None => None
              | Some PNone => Some (cls, p0)
              | Some data =>
                  match dec_eom data with
                  | Some e => Some (cls, set_key "eom_config" e p0)
                  | None => None
                  end
              end
            else if String.eqb basis "digital" then Some ("Raman", [])
            else if String.eqb basis "XY" then Some ("Microwave", [])
            else None in
          match sel with
          | Some (cls, p0) =>
              match chan_tbl cls with
              | Some t =>
                  match field_loop t t ["eom_config"] obj no_conv with
                  | Some ps => construct cls t (p0 ++ ps)
                  | None => None
                  end
              | None => None
              end
          | None => None
          end
      | _ => None
      end
  | _ => None
  end.

(** ** Layouts (instance = canonical, i.e. rounded and sorted, coordinates) *)
Definition enc_layout (l : pv) : option pv :=
  match get "coordinates" (attrs_of l), get "slug" (attrs_of l) with
  | Some c, Some slug =>
      Some (PDict (("coordinates", c)
                   :: match slug with PNone => [] | s => [("slug", s)] end))
  | _, _ => None
  end.

Definition dec_layout (o : pv) : option pv :=
  match o with
  | PDict d =>
      match get "coordinates" d with
      | Some c =>
          Some (PDict [("__class__", PStr "RegisterLayout"); ("coordinates", c);
                       ("slug", match get "slug" d with Some s => s | None => PNone end)])
      | None => None
      end
  | _ => None
  end.

(** ** Devices *)
Definition dev_tbl (cls : string) : option table :=
  if String.eqb cls "Device" then Some tbl_Device
  else if String.eqb cls "VirtualDevice" then Some tbl_VirtualDevice
  else None.

Fixpoint remove_keys (ks : list string) (l : kvs) : kvs :=
  match ks with
  | [] => l
  | k :: r => remove_keys r (remove_key k l)
  end.

(** [dict(zip(channel_ids, channel_objects))] then one encoded channel each *)
Fixpoint enc_chans (ids : list pv) (objs : list pv) : option (list pv) :=
  match ids, objs with
  | PStr id :: ri, c :: rc =>
      match enc_chan id c, enc_chans ri rc with
      | Some j, Some r => Some (j :: r)
      | _, _ => None
      end
  | PStr _ :: _, [] => Some []
  | [], _ => Some []
  | _, _ => None
  end.

(** [dmm_channels]: ids ["dmm_0"], ["dmm_1"], ... *)
Fixpoint enc_dmms (i : nat) (objs : list pv) : option (list pv) :=
  match objs with
  | [] => Some []
  | c :: r =>
      match enc_chan ("dmm_" ++ dec_str i)%string c, enc_dmms (S i) r with
      | Some j, Some rest => Some (j :: rest)
      | _, _ => None
      end
  end.

Definition enc_dev_val (k : string) (v : pv) : option pv :=
  if String.eqb k "pre_calibrated_layouts" then
    match v with
    | PList ls => match mapM enc_layout ls with Some l => Some (PList l) | None => None end
    | _ => None
    end
  else if String.eqb k "default_noise_model" then
    match v with PNone => Some PNone | _ => enc_noise v end
  else Some v.

(** [BaseDevice._to_abstract_repr] + subclass + JSON encoding of values *)
Definition enc_dev (d : pv) : option pv :=
  let cls := class_of d in
  match dev_tbl cls with
  | Some t =>
      let a := attrs_of d in
      let params := remove_key "short_description" a in       (* _params() *)
      match pop_defaults false t opt_dev params with
      | Some p1 =>
          let p2 := remove_keys with_repr p1 in
          match get "channel_ids" a, get "channel_objects" a, get "dmm_objects" a with
          | Some (PList ids), Some (PList objs), Some (PList dmms) =>
              match enc_chans ids objs, enc_dmms 0 dmms, map_vals enc_dev_val p2 with
              | Some chl, Some dml, Some p3 =>
                  let p4 := p3 ++ [("version", PStr "1");
                                   ("pulser_version", PStr pulser_version);
                                   ("channels", PList chl)] in
                  let p5 := match dml with
                            | [] => p4
                            | _ => p4 ++ [("dmm_objects", PList dml)]
                            end in
                  Some (PDict (p5 ++ [("is_virtual", PBool (String.eqb cls "VirtualDevice"))]))
              | _, _, _ => None
              end
          | _, _, _ => None
          end
      | None => None
      end
  | None => None
  end.

Definition dec_dev_val (k : string) (v : pv) : option pv :=
  if String.eqb k "pre_calibrated_layouts" then
    match v with
    | PList ls => match mapM dec_layout ls with Some l => Some (PList l) | None => None end
    | _ => None
    end
  else if String.eqb k "default_noise_model" then dec_noise v
  else Some v.

Definition chan_id (ch : pv) : option pv :=
  match ch with
  | PDict d => get "id" d
  | _ => None
  end.

(** [_deserialize_device_object] *)
Definition dec_dev (o : pv) : option pv :=
  match o with
  | PDict obj =>
      match get "is_virtual" obj, get "channels" obj with
      | Some iv, Some (PList chs) =>
          let cls := if truthy iv then "VirtualDevice" else "Device" in
          match dev_tbl cls, mapM chan_id chs, mapM dec_chan chs with
          | Some t, Some ids, Some objs =>
              let p0 := [("channel_ids", PList ids); ("channel_objects", PList objs)] in
              (* params["dmm_objects"] = tuple(... for dmm_ch in obj.get("dmm_objects", [])) *)
              let p1 : option kvs :=
                match (match get "dmm_objects" obj with
                       | None => Some []
                       | Some (PList ds) => Some ds
                       | Some _ => None
                       end) with
                | Some ds =>
                    match mapM dec_chan ds with
                    | Some l => Some (p0 ++ [("dmm_objects", PList l)])
                    | None => None
                    end
                | None => None
                end in
              match p1, field_loop t t with_repr obj dec_dev_val with
              | Some p1, Some ps => construct cls t (p1 ++ ps)
              | _, _ => None
              end
          | _, _, _ => None
          end
      | _, _ => None
      end
  | _ => None
  end.
