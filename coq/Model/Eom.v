(** RydbergEOM.calculate_detuning_off: the closest member of the allowed
    off-detunings (np.abs(options - optimal).argmin(): first minimum wins).
    Written once over an abstract distance; instantiated with bit-exact floats
    (runs against the implementation) and with integers (theorems). *)
From Coq Require Import ZArith List Bool.
From Coq Require Import Uint63 FloatOps SpecFloat PrimFloat.
From PV Require Import Model.Base.
Import ListNotations.
Open Scope Z_scope.

Section Closest.
Variables (A D : Type) (dist : A -> D) (ltb : D -> D -> bool).

Fixpoint argmin_from (best : A) (l : list A) : A :=
  match l with
  | [] => best
  | x :: r => if ltb (dist x) (dist best) then argmin_from x r else argmin_from best r
  end.

Definition closest (l : list A) : option A :=
  match l with
  | [] => None
  | x :: r => Some (argmin_from x r)
  end.
End Closest.

(** float instance: |option - optimal| compared with the IEEE < *)
Definition closest_f (opts : list float) (opt : float) : option float :=
  closest float float (fun x => abs (x - opt)%float) PrimFloat.ltb opts.

(** integer instance *)
Definition closest_z (opts : list Z) (opt : Z) : option Z :=
  closest Z Z (fun x => Z.abs (x - opt)) Z.ltb opts.

Definition run_closest (opts : list float) (opt : float) : sv :=
  match closest_f opts opt with Some x => SL [SF x] | None => SL [] end.
