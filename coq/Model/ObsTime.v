(** C20 model, part 3: which emulation times become stored results.
    Bit-exact IEEE-754 model ([PrimFloat]) of
      [QutipConfig._get_legacy_evaluation_times]  (requested relative times -> microseconds),
      [QutipEmulator.set_evaluation_times]         (validation, union with 0 and the end),
      [QutipResult.evaluation_time]                (microseconds -> relative time),
      [Observable.__call__] / [EmulationConfig.is_evaluation_time] /
      [is_time_in_evaluation_times]                (tolerance matching),
    and of the loop of [QutipBackendV2.run] feeding [Results._store].
    Definitions only. *)
From Coq Require Import ZArith List Bool.
From Coq Require Import Uint63 FloatOps SpecFloat PrimFloat.
From PV Require Import Model.Base Model.ObsRes.
Import ListNotations.
Open Scope Z_scope.

Definition f_1em6 : float := 0x1.0c6f7a0b5ed8dp-20%float.
Definition f_1em3 : float := 0x1.0624dd2f1a9fcp-10%float.
Definition f_1e3 : float := 0x1.f4p+9%float.
Definition f_half : float := 0x1p-1%float.
Definition f_one : float := 0x1p+0%float.

(** [float(T)] for a Python int; durations are below 2^53, where the primitive
    conversion is exact (and fast); [Base.f_of_Z] otherwise *)
Definition f_of_dur (z : Z) : float :=
  if (0 <=? z) && (z <? 9007199254740992) then PrimFloat.of_uint63 (Uint63.of_Z z) else f_of_Z z.

(** [time_tol = (0.5 / result.total_duration) if result.total_duration else 1e-6] *)
Definition time_tol (T : Z) : float :=
  if T =? 0 then f_1em6 else (f_half / f_of_dur T)%float.

Definition in01 (t : float) : bool := f_le zero t && f_le t f_one.

(** [is_time_in_evaluation_times] *)
Definition in_times (t : float) (l : list float) (tol : float) : bool :=
  in01 t && existsb (fun e => f_le (abs (e - t)%float) tol) l.

(** The decision of [Observable.__call__]; [None] = the call raises.
    [dflt = None] is ["Full"].  With numpy 2 the expression
    [self.default_evaluation_times == "Full" and ...] raises for an array whose
    length is not 1 (truth value of an array); with ["Full"] and [t] outside
    [0,1] the second disjunct short-circuits on its own range test. *)
Definition obs_call (own dflt : option (list float)) (T : Z) (t : float) : option bool :=
  let tol := time_tol T in
  if match own with Some l => in_times t l tol | None => false end then Some true
  else
    match dflt with
    | None => Some (in01 t)
    | Some l => if (length l =? 1)%nat then Some (in_times t l tol) else None
    end.

(** [np.union1d]: sorted, unique *)
Fixpoint insert_sorted (x : float) (l : list float) : list float :=
  match l with
  | [] => [x]
  | y :: r => if f_lt x y then x :: l else if f_eq x y then l else y :: insert_sorted x r
  end.
Definition union1d (a b : list float) : list float := fold_right insert_sorted [] (a ++ b).

(** relative times requested from the solver, in microseconds; [dflt] is a list here *)
Definition legacy_times (dflt extras : list float) (T : Z) : list float :=
  let rel := match extras with [] => dflt | _ => union1d dflt extras end in
  map (fun r => ((r * f_of_dur T) * f_1em3)%float) rel.

Definition f_maxl (l : list float) (init : float) : float :=
  fold_left (fun m x => if f_lt m x then x else m) l init.
Definition f_minl (l : list float) (init : float) : float :=
  fold_left (fun m x => if f_lt x m then x else m) l init.

(** [set_evaluation_times] on an array: [None] = ValueError *)
Definition set_eval_times (value : list float) (T : Z) : option (list float) :=
  let tf := (f_of_dur T / f_1e3)%float in
  if f_gt (f_maxl value zero) tf then None
  else if f_lt (f_minl value zero) zero then None
  else Some (union1d value [zero; tf]).

(** the relative time attached to each solver result *)
Definition rel_time (T : Z) (t_us : float) : float := ((t_us / f_of_dur T) * f_1e3)%float.

Definition solver_rel_times (dflt extras : list float) (T : Z) : option (list float) :=
  match set_eval_times (legacy_times dflt extras T) T with
  | None => None
  | Some us => Some (map (rel_time T) us)
  end.

(** the double loop of [QutipBackendV2.run]: for each solver time, for each
    observable (uuid = position), decide and store.  Values are irrelevant
    here (unit).  Returns the store and a status: 0 ok, 1 a call raised
    (ValueError), 2 [_store_raw] raised. *)
Definition fstore := store float unit.
Definition f_store_raw := store_raw float unit f_eq f_lt.

Fixpoint feed_obs (dflt : option (list float)) (T : Z) (t : float)
  (obs : list (Z * option (list float))) (st : fstore) : fstore * Z :=
  match obs with
  | [] => (st, 0)
  | (u, own) :: r =>
      match obs_call own dflt T t with
      | None => (st, 1)
      | Some false => feed_obs dflt T t r st
      | Some true =>
          match f_store_raw st u u t tt with
          | (st', Stored) => feed_obs dflt T t r st'
          | (st', _) => (st', 2)
          end
      end
  end.

Fixpoint feed_times (dflt : option (list float)) (T : Z) (ts : list float)
  (obs : list (Z * option (list float))) (st : fstore) : fstore * Z :=
  match ts with
  | [] => (st, 0)
  | t :: r =>
      match feed_obs dflt T t obs st with
      | (st', 0) => feed_times dflt T r obs st'
      | bad => bad
      end
  end.

Definition sv_times (st : fstore) (obs : list (Z * option (list float))) : sv :=
  SL (map (fun o => SL (map SF (get_list (fst o) (s_times float unit st)))) obs).

(** stored times per observable given the solver's relative times *)
Definition run_store (dflt : option (list float)) (T : Z) (ts : list float)
  (obs : list (Z * option (list float))) : sv :=
  let r := feed_times dflt T ts obs (empty_store float unit) in
  SL [SZ (snd r); sv_times (fst r) obs].

(** the whole pipeline for list-valued default times *)
Definition run_pipeline (dflt : list float) (T : Z) (obs : list (Z * option (list float))) : sv :=
  let extras := fold_right (fun o acc => match snd o with Some l => l ++ acc | None => acc end) [] obs in
  match solver_rel_times dflt extras T with
  | None => SL [SZ 3]
  | Some ts => SL [SL (map SF ts); run_store (Some dflt) T ts obs]
  end.

(** ** default_evaluation_times = "Full" *)

Definition zrange (n : Z) : list Z := map Z.of_nat (seq 0 (Z.to_nat n)).
Definition trunc0 (x : float) : Z := match f_trunc x with Some z => z | None => 0 end.

(** [np.linspace(0, stop, N, dtype=int)]: [floor(arange(N) * (stop / (N-1)))],
    last element forced to [stop] *)
Definition linspace_int (stop N : Z) : list Z :=
  if N <=? 0 then []
  else if N =? 1 then [0]
  else
    let step := (f_of_dur stop / f_of_dur (N - 1))%float in
    map (fun i => if i =? N - 1 then stop else trunc0 (f_of_dur i * step)%float) (zrange N).

(** Solver times (relative) with "Full":
    - no observable has own times: [set_evaluation_times("Full")] takes the
      Hamiltonian's sampling times ([arange(T+1)/1000] sub-sampled with
      [int(rate * (T+1))] points) united with 0 and the end;
    - otherwise [_get_legacy_evaluation_times] replaces "Full" by
      [linspace(0, T-1, int(rate*T), dtype=int) / T], MERGES the observables'
      own times into it, and hands the array to [set_evaluation_times]. *)
Definition full_rel_times (rate : float) (extras : list float) (T : Z) : option (list float) :=
  match extras with
  | [] =>
      let N := trunc0 (rate * f_of_dur (T + 1))%float in
      let us := map (fun i => (f_of_dur i / f_1e3)%float) (linspace_int T N) in
      Some (map (rel_time T) (union1d us [zero; (f_of_dur T / f_1e3)%float]))
  | _ =>
      let N := trunc0 (rate * f_of_dur T)%float in
      let grid := map (fun i => (f_of_dur i / f_of_dur T)%float) (linspace_int (T - 1) N) in
      let rel := union1d grid extras in
      match set_eval_times (map (fun r => ((r * f_of_dur T) * f_1em3)%float) rel) T with
      | None => None
      | Some us => Some (map (rel_time T) us)
      end
  end.

Definition run_pipeline_full (rate : float) (T : Z) (obs : list (Z * option (list float))) : sv :=
  let extras := fold_right (fun o acc => match snd o with Some l => l ++ acc | None => acc end) [] obs in
  match full_rel_times rate extras T with
  | None => SL [SZ 3]
  | Some ts => SL [SL (map SF ts); run_store None T ts obs]
  end.
