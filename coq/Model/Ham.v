(** C05 - executable model of the Hamiltonian construction of the QuTiP
    emulator, parametric in the number type.

    Mirrors, in statement order:
      - [pulser_simulation/simulation.py] QutipEmulator.__init__ (targets of
        Global channels replaced by all register qubits, extension by 1 ns),
      - [pulser/sampler/samples.py] SequenceSamples.to_nested_dict
        (all_local = False: the noiseless path),
      - [pulser_simulation/hamiltonian.py] _get_basis_op_matrices,
        _build_operator, _construct_hamiltonian (make_vdw_term, make_xy_term,
        make_interaction_term, build_coeffs_ops, ham + ham.dag()).

    The number type is a record of operations [cops]; it is instantiated with
    exact Gaussian rationals (Proofs/HamQ.v, ring laws proved) and with pairs
    of binary64 floats (Model/HamF.v, run against the implementation).
    Scalars computed by numpy (exp(-i phi), C6/R^6, cos theta) enter as
    elements of the number type.  A phase is represented by the unit
    E = exp(-i phi); the implementation's [phase += phase'] is the product of
    the units.  No proofs here. *)
From Coq Require Import List Arith Bool ZArith.
Import ListNotations.

Record cops := {
  car :> Type;
  c0 : car; c1 : car;
  cadd : car -> car -> car;
  cmul : car -> car -> car;
  csub : car -> car -> car;
  copp : car -> car;
  cconj : car -> car;
  chalf : car
}.

Section HamModel.
  Variable R : cops.
  Local Notation "x + y" := (cadd R x y).
  Local Notation "x * y" := (cmul R x y).
  Local Notation "- x" := (copp R x).
  Local Notation "0" := (c0 R).
  Local Notation "1" := (c1 R).

  (** * Matrices on flat indices *)
  Definition mat := nat -> nat -> R.
  Definition mzero : mat := fun _ _ => 0.
  Definition madd (A B : mat) : mat := fun i j => A i j + B i j.
  Definition mscale (k : R) (A : mat) : mat := fun i j => k * A i j.
  Definition mdag (A : mat) : mat := fun i j => cconj R (A j i).
  (** Python's [sum(...)] and [x = 0; x += ...]: left fold from 0 *)
  Definition msum (l : list mat) : mat := fold_left madd l mzero.

  Definition b2c (b : bool) : R := if b then 1 else 0.
  Definition bmat := nat -> nat -> bool.
  (** basis[a] * basis[b].dag() = |a><b| *)
  Definition sigma_b (a b : nat) : bmat := fun i j => (i =? a) && (j =? b).
  Definition ident_b : bmat := fun i j => i =? j.
  Definition of_b (A : bmat) : mat := fun i j => b2c (A i j).
  Definition sigma (a b : nat) : mat := of_b (sigma_b a b).
  Definition ident : mat := of_b ident_b.

  (** qutip.tensor(op_list): Kronecker product, first factor most
      significant; every factor is d x d *)
  Fixpoint tensor (d : nat) (ops : list mat) : mat :=
    match ops with
    | [] => fun _ _ => 1
    | A :: r =>
        let m := d ^ length r in
        fun I J => A (I / m) (J / m) * tensor d r (I mod m) (J mod m)
    end.

  (** flat index of a digit vector (first digit most significant) *)
  Fixpoint flat (d : nat) (r : list nat) : nat :=
    match r with
    | [] => O
    | x :: r' => (x * d ^ length r' + flat d r')%nat
    end.

  (** product of the factors' entries in digit coordinates *)
  Fixpoint entry (ops : list mat) (r c : list nat) : R :=
    match ops, r, c with
    | A :: ops', x :: r', y :: c' => A x y * entry ops' r' c'
    | _, _, _ => 1
    end.

  (** [op_list[k] = operator] *)
  Fixpoint upd {A : Type} (l : list A) (k : nat) (x : A) : list A :=
    match l, k with
    | [], _ => []
    | _ :: r, O => x :: r
    | y :: r, S k' => y :: upd r k' x
    end.

  (** Hamiltonian._build_operator for a list of (operator, qubit indices) *)
  Definition op_list (n : nat) (ops : list (mat * list nat)) : list mat :=
    fold_left
      (fun l oq => fold_left (fun l k => upd l k (fst oq)) (snd oq) l)
      ops (repeat ident n).
  Definition build_op (d n : nat) (ops : list (mat * list nat)) : mat :=
    tensor d (op_list n ops).
  (** [(operator, "global")] *)
  Definition build_global (d n : nat) (A : mat) : mat :=
    msum (map (fun q => build_op d n [(A, [q])]) (seq 0 n)).

  (** QobjEvo(qobj_list) evaluated at one time: sum of coefficient * operator;
      then [ham + ham.dag()] *)
  Definition evo (terms : list (mat * R)) : mat :=
    msum (map (fun p => mscale (snd p) (fst p)) terms).
  Definition herm (E : mat) : mat := madd E (mdag E).

  (** * States and bases *)
  (** state codes: u=0 d=1 r=2 g=3 h=4 x=5 (= position in STATES_RANK);
      basis codes: 0 ground-rydberg, 1 digital, 2 XY *)
  Definition states_rank : list nat := [0; 1; 2; 3; 4; 5]%nat.
  Definition basis_states (b : nat) : list nat :=
    match b with
    | O => [2; 3] | S O => [3; 4] | _ => [0; 1]
    end%nat.
  Definition memb (x : nat) (l : list nat) : bool := existsb (Nat.eqb x) l.
  (** SequenceSamples.eigenbasis *)
  Definition eigenbasis (in_xy : bool) (used : list nat) : list nat :=
    match used with
    | [] => basis_states (if in_xy then 2 else 0)%nat
    | _ => filter (fun s => existsb (fun b => memb s (basis_states b)) used)
                  states_rank
    end.
  Fixpoint sidx (eb : list nat) (s : nat) : nat :=
    match eb with
    | [] => O
    | x :: r => if x =? s then O else S (sidx r s)
    end.
  (** build_coeffs_ops: (a, b) with op_ids = [sigma_ab, sigma_bb] *)
  Definition drive_states (b : nat) : nat * nat :=
    match b with
    | O => (3, 2) | S O => (4, 3) | _ => (1, 0)
    end%nat.

  (** * The nested dict of samples at one time *)
  Record qty := { q_amp : R; q_det : R; q_ph : R }.
  Inductive key := KG (b : nat) | KL (b q : nat).
  Definition key_eqb (k k' : key) : bool :=
    match k, k' with
    | KG b, KG b' => b =? b'
    | KL b q, KL b' q' => (b =? b') && (q =? q')
    | _, _ => false
    end.

  (** one channel's samples at the evaluated time (after extend_duration) *)
  Record chan := {
    ch_global : bool;           (* addressing == "Global" *)
    ch_dmm : bool;              (* isinstance(samples, DMMSamples) *)
    ch_basis : nat;
    ch_val : qty;               (* amp[t], det[t], exp(-i phase[t]) *)
    ch_slots : list (Z * Z * list nat);  (* ti, tf, targets (register indices) *)
    ch_w : nat -> R             (* det_weight_map (1 for non-DMM channels) *)
  }.

  (** QutipEmulator.__init__: slots of Global channels target every qubit *)
  Definition emu_slots (n : nat) (c : chan) : list (Z * Z * list nat) :=
    if ch_global c
    then map (fun s => (fst (fst s), snd (fst s), seq 0 n)) (ch_slots c)
    else ch_slots c.

  Definition contrib := (key * qty)%type.

  (** to_nested_dict, one channel, restricted to time [t] *)
  Definition contribs_of_chan (n : nat) (mask : list nat) (mask_end t : Z)
             (c : chan) : list contrib :=
    let b := ch_basis c in
    let in_xy := b =? 2 in
    let v := ch_val c in
    if ch_global c && negb (ch_dmm c) then
      let start_t := if in_xy then mask_end else 0%Z in
      (if (start_t <=? t)%Z then [(KG b, v)] else []) ++
      (if (start_t =? 0)%Z then []
       else match emu_slots n c with
            | [] => []      (* [if start_t == 0 or not cs.slots: continue] *)
            | s0 :: _ =>
                if (t <? start_t)%Z
                then map (fun q => (KL b q, v))
                         (filter (fun q => negb (memb q mask)) (snd s0))
                else []
            end)
    else
      flat_map
        (fun s =>
           flat_map
             (fun q =>
                let ti := fst (fst s) in
                let ti' := if in_xy && memb q mask then Z.max ti mask_end else ti in
                if (ti' <=? t)%Z && (t <? snd (fst s))%Z
                then [(KL b q,
                       {| q_amp := q_amp v; q_det := q_det v * ch_w c q;
                          q_ph := q_ph v |})]
                else [])
             (snd s))
        (emu_slots n c).

  (** [d[key] += value]: amplitudes and detunings add, phases add (units
      multiply) *)
  Definition qadd (a b : qty) : qty :=
    {| q_amp := q_amp a + q_amp b; q_det := q_det a + q_det b;
       q_ph := q_ph a * q_ph b |}.
  Definition qzero : qty := {| q_amp := 0; q_det := 0; q_ph := 1 |}.
  Fixpoint dict_add (d : list contrib) (kv : contrib) : list contrib :=
    match d with
    | [] => [kv]
    | (k, v) :: r =>
        if key_eqb k (fst kv) then (k, qadd v (snd kv)) :: r
        else (k, v) :: dict_add r kv
    end.
  (** _prepare_dict: in XY mode the Global/XY entry exists from the start *)
  Definition dict_init (in_xy : bool) : list contrib :=
    if in_xy then [(KG 2, qzero)] else [].
  Definition nested_dict (in_xy : bool) (cs : list contrib) : list contrib :=
    fold_left dict_add cs (dict_init in_xy).

  (** * build_coeffs_ops for one dict entry *)
  Definition drive_terms (d n : nat) (eb : list nat) (kv : contrib)
    : list (mat * R) :=
    let (k, v) := kv in
    let b := match k with KG b => b | KL b _ => b end in
    let (sa, sb) := drive_states b in
    let a := sidx eb sa in
    let bb := sidx eb sb in
    let camp := chalf R * q_amp v * q_ph v in
    let cdet := - (chalf R * q_det v) in
    match k with
    | KG _ => [(build_global d n (sigma a bb), camp);
               (build_global d n (sigma bb bb), cdet)]
    | KL _ q => [(build_op d n [(sigma a bb, [q])], camp);
                 (build_op d n [(sigma bb bb, [q])], cdet)]
    end.

  (** * Interaction *)
  Fixpoint pairs (l : list nat) : list (nat * nat) :=
    match l with
    | [] => []
    | x :: r => map (pair x) r ++ pairs r
    end.
  Definition pair_kept (xy masked : bool) (mask : list nat) (p : nat * nat) : bool :=
    negb (masked && xy && (memb (fst p) mask || memb (snd p) mask)).
  (** make_vdw_term / make_xy_term; [U i j] = C6/R^6 resp. C3(1-3cos^2)/R^3 *)
  Definition pair_term (d n : nat) (eb : list nat) (xy : bool)
             (U : nat -> nat -> R) (p : nat * nat) : mat :=
    let (i, j) := p in
    if xy
    then mscale (U i j)
           (build_op d n [(sigma (sidx eb 0) (sidx eb 1), [i]);
                          (sigma (sidx eb 1) (sidx eb 0), [j])])
    else mscale (chalf R * U i j)
           (build_op d n [(sigma (sidx eb 2) (sidx eb 2), [i; j])]).
  Definition interaction (d n : nat) (eb : list nat) (xy masked : bool)
             (mask : list nat) (U : nat -> nat -> R) : mat :=
    msum (map (pair_term d n eb xy U)
              (filter (pair_kept xy masked mask) (pairs (seq 0 n)))).

  (** qobj_list's interaction part.  [has_inter]: "digital" not in basis_name
      and more than one atom; [mask_dyn]: slm_mask.end > 0 and XY;
      [unmasked_on]: the adapted 0/1 coefficient at this sample *)
  Definition inter_terms (d n : nat) (eb : list nat) (xy has_inter mask_dyn
             unmasked_on : bool) (mask : list nat) (U : nat -> nat -> R)
    : list (mat * R) :=
    if has_inter then
      if mask_dyn then
        [(interaction d n eb xy false mask U, b2c unmasked_on);
         (interaction d n eb xy true mask U, b2c (negb unmasked_on))]
      else [(interaction d n eb xy false mask U, 1)]
    else [].

  (** the Hamiltonian at one sampled time, from the nested dict *)
  Definition ham_of_dict (d n : nat) (eb : list nat) (xy has_inter mask_dyn
             unmasked_on : bool) (mask : list nat) (U : nat -> nat -> R)
             (dict : list contrib) : mat :=
    herm (evo (inter_terms d n eb xy has_inter mask_dyn unmasked_on mask U
               ++ flat_map (drive_terms d n eb) dict)).

  (** ... and from the channel samples *)
  Definition all_contribs (n : nat) (mask : list nat) (mask_end t : Z)
             (chs : list chan) : list contrib :=
    flat_map (contribs_of_chan n mask mask_end t) chs.

  Definition ham_model (d n : nat) (eb : list nat) (xy has_inter mask_dyn
             unmasked_on : bool) (mask : list nat) (mask_end t : Z)
             (U : nat -> nat -> R) (chs : list chan) : mat :=
    ham_of_dict d n eb xy has_inter mask_dyn unmasked_on mask U
      (nested_dict xy (all_contribs n mask mask_end t chs)).

  (** * The documented formula, in digit coordinates *)
  (** all sites outside [sites] carry the same digit in row and column *)
  Definition others_eq (n : nat) (sites : list nat) (r c : list nat) : bool :=
    forallb (fun k => memb k sites || (nth k r O =? nth k c O)) (seq 0 n).
  (** entry of |a><b| at site i, identity elsewhere *)
  Definition site1 (n i a b : nat) (r c : list nat) : bool :=
    (nth i r O =? a) && (nth i c O =? b) && others_eq n [i] r c.
  Definition site2 (n i a b j a' b' : nat) (r c : list nat) : bool :=
    (nth i r O =? a) && (nth i c O =? b) &&
    (nth j r O =? a') && (nth j c O =? b') && others_eq n [i; j] r c.

  Definition sum_list (l : list R) : R := fold_left (cadd R) l 0.

  (** one programmed contribution (channel value reaching atom set [qs]):
      Omega/2 (E |a><b| + conj E |b><a|) - delta |b><b| on each atom *)
  Definition drive_formula (n : nat) (eb : list nat) (b : nat) (qs : list nat)
             (v : qty) (r c : list nat) : R :=
    let (sa, sb) := drive_states b in
    let a := sidx eb sa in
    let bb := sidx eb sb in
    sum_list
      (map (fun q =>
              chalf R * q_amp v * q_ph v * b2c (site1 n q a bb r c)
              + cconj R (chalf R * q_amp v * q_ph v) * b2c (site1 n q bb a r c)
              + - (q_det v * b2c (site1 n q bb bb r c)))
           qs).
  Definition contrib_formula (n : nat) (eb : list nat) (kv : contrib)
             (r c : list nat) : R :=
    match fst kv with
    | KG b => drive_formula n eb b (seq 0 n) (snd kv) r c
    | KL b q => drive_formula n eb b [q] (snd kv) r c
    end.

  (** sum_{i<j} U_ij n_i n_j, resp. U_ij (|ud><du| + |du><ud|) over the
      coupled pairs *)
  Definition inter_formula (n : nat) (eb : list nat) (xy : bool)
             (coupled : nat * nat -> bool) (U : nat -> nat -> R)
             (r c : list nat) : R :=
    sum_list
      (map (fun p : nat * nat =>
              let (i, j) := p in
              if xy then
                U i j * b2c (site2 n i (sidx eb 0) (sidx eb 1) j (sidx eb 1) (sidx eb 0) r c)
                + cconj R (U i j) * b2c (site2 n i (sidx eb 1) (sidx eb 0) j (sidx eb 0) (sidx eb 1) r c)
              else
                U i j * b2c (site2 n i (sidx eb 2) (sidx eb 2) j (sidx eb 2) (sidx eb 2) r c))
           (filter coupled (pairs (seq 0 n)))).

  (** which pairs interact at this sample according to the model *)
  Definition coupled_now (xy has_inter mask_dyn unmasked_on : bool)
             (mask : list nat) (p : nat * nat) : bool :=
    has_inter &&
    (if mask_dyn then (if unmasked_on then true else pair_kept xy true mask p)
     else true).

  Definition ham_formula_of (n : nat) (eb : list nat) (xy has_inter mask_dyn
             unmasked_on : bool) (mask : list nat) (U : nat -> nat -> R)
             (cs : list contrib) (r c : list nat) : R :=
    inter_formula n eb xy (coupled_now xy has_inter mask_dyn unmasked_on mask) U r c
    + sum_list (map (fun kv => contrib_formula n eb kv r c) cs).

End HamModel.

(** * The SLM-mask coefficient of the XY interaction (integers)
    [coeff = ones(D); coeff[0:end] = 0] read through
    [_adapt_to_sampling_rate] at full sampling rate:
    index_k = int(k * (len-1) / (D-1)) with len = D = samples duration =
    total + 1, the same indices as the sampling times. *)
Definition adapt_index_full (len D k : Z) : Z :=
  if (k =? D - 1)%Z then (len - 1)%Z else (k * (len - 1) / (D - 1))%Z.
Definition unmasked_on_full (D mask_end k : Z) : bool :=
  negb (adapt_index_full D D k <? mask_end)%Z.
