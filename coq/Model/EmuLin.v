(** C11 - the generators of the emulated dynamics over an abstract
    commutative ring with involution: matrices as functions of two indices
    with an explicit dimension, finite sums by recursion, the Schroedinger
    right-hand side [-i H psi] and the Lindblad generator
    [L(rho) = -i [H, rho] + sum_k ( L_k rho L_k^+ - 1/2 { L_k^+ L_k, rho } )]
    that [qutip.sesolve] / [qutip.mesolve] integrate for the Hamiltonian and
    the collapse operators built in hamiltonian.py.  Definitions only. *)
From Coq Require Import List.
Import ListNotations.

Section Lin.
  Variable R : Type.
  Variables (r0 r1 : R) (radd rmul : R -> R -> R) (ropp : R -> R).
  Variable conj : R -> R.
  Variables (im half : R).

  Definition mat := nat -> nat -> R.
  Definition vec := nat -> R.

  Fixpoint rsum (n : nat) (f : nat -> R) : R :=
    match n with O => r0 | S m => radd (rsum m f) (f m) end.

  Definition mmul (n : nat) (A B : mat) : mat :=
    fun i j => rsum n (fun k => rmul (A i k) (B k j)).
  Definition madd (A B : mat) : mat := fun i j => radd (A i j) (B i j).
  Definition mopp (A : mat) : mat := fun i j => ropp (A i j).
  Definition mscal (c : R) (A : mat) : mat := fun i j => rmul c (A i j).
  Definition dagger (A : mat) : mat := fun i j => conj (A j i).
  Definition trace (n : nat) (A : mat) : R := rsum n (fun i => A i i).

  Definition mvec (n : nat) (A : mat) (v : vec) : vec :=
    fun i => rsum n (fun k => rmul (A i k) (v k)).
  Definition inner (n : nat) (u v : vec) : R :=
    rsum n (fun i => rmul (conj (u i)) (v i)).

  (** d psi / dt *)
  Definition schrodinger_rhs (n : nat) (H : mat) (psi : vec) : vec :=
    fun i => rmul (ropp im) (mvec n H psi i).

  Definition commutator (n : nat) (A B : mat) : mat :=
    madd (mmul n A B) (mopp (mmul n B A)).

  Definition dissipator (n : nat) (L rho : mat) : mat :=
    let LdL := mmul n (dagger L) L in
    madd (mmul n (mmul n L rho) (dagger L))
         (mopp (mscal half (madd (mmul n LdL rho) (mmul n rho LdL)))).

  (** d rho / dt *)
  Definition lindblad (n : nat) (H : mat) (Ls : list mat) (rho : mat) : mat :=
    fold_left (fun acc L => madd acc (dissipator n L rho)) Ls
              (mscal (ropp im) (commutator n H rho)).

  Definition hermitian (n : nat) (A : mat) : Prop :=
    forall i j, i < n -> j < n -> A i j = conj (A j i).
End Lin.
