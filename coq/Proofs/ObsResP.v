(** C20 lemmas, part 3: every reachable [Results] store holds, per observable,
    strictly ascending times with exactly one value per stored time, and a value
    just stored is what [get_result] returns, by observable and by tag. *)
From Coq Require Import ZArith List Bool Lia.
From PV Require Import Model.ObsRes.
Import ListNotations.
Open Scope Z_scope.

Section ObsResP.
Variables T V : Type.
Variables teq tlt : T -> T -> bool.
Hypothesis teq_refl : forall a, teq a a = true.
Hypothesis tlt_trans : forall a b c, tlt a b = true -> tlt b c = true -> tlt a c = true.
Hypothesis tlt_neq : forall a b, tlt a b = true -> teq a b = false.

Local Notation store := (store T V).
Local Notation store_raw := (store_raw T V teq tlt).
Local Notation get_result := (get_result T V teq).
Local Notation get_result_times := (get_result_times T V).
Local Notation ascending := (ascending T tlt).
Local Notation index_of_time := (index_of_time T teq).
Local Notation run_calls := (run_calls T V teq tlt).
Local Notation empty_store := (empty_store T V).

Lemma lookup_update_same : forall {A} k (a : A) l, lookup k (update k a l) = Some a.
Proof.
  induction l as [|[k' a'] r IH]; simpl.
  - rewrite Z.eqb_refl. reflexivity.
  - destruct (Z.eqb k k') eqn:E; simpl; rewrite ?Z.eqb_refl, ?E; auto.
Qed.

Lemma lookup_update_other : forall {A} k k' (a : A) l, k' <> k ->
  lookup k' (update k a l) = lookup k' l.
Proof.
  induction l as [|[k2 a2] r IH]; intros Hne; simpl.
  - destruct (Z.eqb k' k) eqn:E; [apply Z.eqb_eq in E; contradiction|reflexivity].
  - destruct (Z.eqb k k2) eqn:E; simpl.
    + apply Z.eqb_eq in E. subst k2.
      destruct (Z.eqb k' k) eqn:E2; [apply Z.eqb_eq in E2; contradiction|reflexivity].
    + destruct (Z.eqb k' k2); auto.
Qed.

Lemma get_list_update_same : forall {A} k (a : list A) l, get_list k (update k a l) = a.
Proof. intros. unfold get_list. rewrite lookup_update_same. reflexivity. Qed.

Lemma get_list_update_other : forall {A} k k' (a : list A) l, k' <> k ->
  get_list k' (update k a l) = get_list k' l.
Proof. intros. unfold get_list. rewrite lookup_update_other by assumption. reflexivity. Qed.

Lemma get_list_setdefault : forall {A} k k' (l : list (Z * list A)),
  get_list k' (update k (get_list k l) l) = get_list k' l.
Proof.
  intros. destruct (Z.eq_dec k' k) as [->|Hne].
  - apply get_list_update_same.
  - apply get_list_update_other. assumption.
Qed.

Lemma ascending_snoc : forall ts t, ascending ts = true ->
  match last_opt ts with None => true | Some l => tlt l t end = true ->
  ascending (ts ++ [t]) = true.
Proof.
  induction ts as [|x r IH]; intros t Ha Hl; [reflexivity|].
  destruct r as [|y r'].
  - simpl in *. rewrite Hl. reflexivity.
  - change (ascending ((x :: y :: r') ++ [t])) with (tlt x y && ascending ((y :: r') ++ [t])).
    change (ascending (x :: y :: r')) with (tlt x y && ascending (y :: r')) in Ha.
    apply andb_true_iff in Ha. destruct Ha as [H1 H2].
    rewrite H1. simpl andb. apply IH; assumption.
Qed.

Lemma index_of_time_snoc : forall ts t, existsb (fun x => teq x t) ts = false ->
  index_of_time t (ts ++ [t]) = Some (length ts).
Proof.
  induction ts as [|x r IH]; intros t H; simpl.
  - rewrite teq_refl. reflexivity.
  - simpl in H. apply orb_false_iff in H. destruct H as [H1 H2].
    rewrite H1, IH by assumption. reflexivity.
Qed.

Lemma nth_error_snoc : forall {A} (l : list A) a, nth_error (l ++ [a]) (length l) = Some a.
Proof. induction l; simpl; auto. Qed.

(** the invariant *)
Definition wf (st : store) : Prop :=
  forall u, ascending (get_list u (s_times T V st)) = true /\
            length (get_list u (s_vals T V st)) = length (get_list u (s_times T V st)).

Lemma wf_empty : wf empty_store.
Proof. intros u. split; reflexivity. Qed.

Theorem store_preserves_wf : forall st u g t v, wf st -> wf (fst (store_raw st u g t v)).
Proof.
  intros st u g t v Hwf. unfold ObsRes.store_raw.
  destruct (existsb (fun x => teq x t) (get_list u (s_times T V st))) eqn:Edup.
  - intros k. cbn [fst s_times s_vals s_tags]. rewrite get_list_setdefault. apply Hwf.
  - destruct (match last_opt (get_list u (s_times T V st)) with
              | Some l => tlt l t | None => true end) eqn:Elast.
    + intros k. cbn [fst s_times s_vals s_tags]. destruct (Z.eq_dec k u) as [->|Hne].
      * rewrite !get_list_update_same. destruct (Hwf u) as [Ha Hl]. split.
        -- apply ascending_snoc; assumption.
        -- rewrite !app_length, Hl. reflexivity.
      * rewrite !get_list_update_other by assumption. rewrite ?get_list_setdefault. apply Hwf.
    + intros k. cbn [fst s_times s_vals s_tags]. rewrite get_list_setdefault. apply Hwf.
Qed.

Theorem reachable_wf : forall cs, wf (run_calls empty_store cs).
Proof.
  intros cs. unfold ObsRes.run_calls.
  assert (G : forall cs st, wf st ->
            wf (fold_left (fun s c => match c with (u, g, t, v) => fst (store_raw s u g t v) end) cs st)).
  { intros cc. induction cc as [|[[[u g] t] v] cs0 IH]; intros st Hst; simpl; [assumption|].
    apply IH. apply store_preserves_wf. assumption. }
  apply G. apply wf_empty.
Qed.

(** what was stored is what is retrieved - by observable and by tag *)
Theorem stored_then_get : forall st u g t v st', wf st ->
  store_raw st u g t v = (st', Stored) ->
  get_result st' (ByObs u) t = Some v /\ get_result st' (ByTag g) t = Some v /\
  get_result_times st' (ByObs u) = Some (get_list u (s_times T V st) ++ [t]).
Proof.
  intros st u g t v st' Hwf H. unfold ObsRes.store_raw in H.
  destruct (existsb (fun x => teq x t) (get_list u (s_times T V st))) eqn:Edup; [discriminate|].
  destruct (match last_opt (get_list u (s_times T V st)) with
            | Some l => tlt l t | None => true end) eqn:Elast; [|discriminate].
  inversion H; subst st'; clear H.
  unfold ObsRes.get_result, ObsRes.get_result_times, ObsRes.find_uuid.
  cbn [s_times s_vals s_tags].
  rewrite !lookup_update_same.
  rewrite index_of_time_snoc by assumption.
  destruct (Hwf u) as [_ Hl]. rewrite <- Hl. rewrite nth_error_snoc. auto.
Qed.

(** storing for one observable does not disturb what another one holds *)
Theorem store_other_unchanged : forall st u g t v u', u' <> u ->
  get_list u' (s_times T V (fst (store_raw st u g t v))) = get_list u' (s_times T V st) /\
  get_list u' (s_vals T V (fst (store_raw st u g t v))) = get_list u' (s_vals T V st).
Proof.
  intros st u g t v u' Hne. unfold ObsRes.store_raw.
  destruct (existsb (fun x => teq x t) (get_list u (s_times T V st))).
  - cbn [fst s_times s_vals s_tags]. rewrite get_list_setdefault. auto.
  - destruct (match last_opt (get_list u (s_times T V st)) with
              | Some l => tlt l t | None => true end); cbn [fst s_times s_vals s_tags].
    + rewrite !get_list_update_other by assumption. rewrite ?get_list_setdefault. auto.
    + rewrite get_list_setdefault. auto.
Qed.

(** strictly ascending means: one value per time *)
Lemma ascending_head_lt : forall x r, ascending (x :: r) = true ->
  Forall (fun y => tlt x y = true) r.
Proof.
  intros x r. revert x. induction r as [|y r IH]; intros x H; [constructor|].
  change (ascending (x :: y :: r)) with (tlt x y && ascending (y :: r)) in H.
  apply andb_true_iff in H. destruct H as [H1 H2].
  constructor; [assumption|].
  specialize (IH y H2). eapply Forall_impl; [|exact IH].
  intros z Hz. simpl in Hz. eapply tlt_trans; eassumption.
Qed.

Theorem ascending_no_duplicate : forall ts, ascending ts = true ->
  forall i j x y, (i < j)%nat -> nth_error ts i = Some x -> nth_error ts j = Some y ->
  tlt x y = true /\ teq x y = false.
Proof.
  induction ts as [|a r IH]; intros Ha i j x y Hij Hi Hj.
  - destruct i; discriminate.
  - assert (Hr : ascending r = true).
    { destruct r; [reflexivity|].
      change (ascending (a :: t :: r)) with (tlt a t && ascending (t :: r)) in Ha.
      apply andb_true_iff in Ha. tauto. }
    destruct j as [|j]; [lia|]. destruct i as [|i].
    + simpl in Hi. inversion Hi; subst a. simpl in Hj.
      pose proof (ascending_head_lt x r Ha) as HF.
      rewrite Forall_forall in HF. apply nth_error_In in Hj. specialize (HF y Hj).
      split; [assumption|apply tlt_neq; assumption].
    + simpl in Hi, Hj. apply (IH Hr i j x y); [lia | assumption | assumption].
Qed.

End ObsResP.
