(** C05 - attribution of channel samples to atoms (to_nested_dict) and the
    full statement: when no two contributions fall on the same
    (addressing, basis, atom) entry of the nested dict, the model's
    Hamiltonian is the documented sum over channels and addressed atoms. *)
From Coq Require Import List Arith Bool ZArith Lia Ring.
From PV Require Import Model.Ham Proofs.HamLin Proofs.HamForm.
Import ListNotations.

Lemma key_eqb_eq : forall k k', key_eqb k k' = true <-> k = k'.
Proof.
  intros [b|b q] [b'|b' q']; simpl; split; intros H; try discriminate.
  - apply Nat.eqb_eq in H. congruence.
  - inversion H. apply Nat.eqb_refl.
  - apply andb_true_iff in H. destruct H as [H1 H2].
    apply Nat.eqb_eq in H1. apply Nat.eqb_eq in H2. congruence.
  - inversion H. rewrite !Nat.eqb_refl. reflexivity.
Qed.

Section Attr.
  Variable R : cops.
  Hypothesis Rring :
    ring_theory (c0 R) (c1 R) (cadd R) (cmul R) (csub R) (copp R) (@eq R).
  Add Ring RRattr : Rring.
  Local Notation "x + y" := (cadd R x y).
  Local Notation "x * y" := (cmul R x y).
  Local Notation "- x" := (copp R x).
  Local Notation "0" := (c0 R).
  Local Notation "1" := (c1 R).
  Local Notation conj := (cconj R).
  Hypothesis conj_add : forall x y, conj (x + y) = conj x + conj y.
  Hypothesis conj_mul : forall x y, conj (x * y) = conj x * conj y.

  Variables (n : nat) (eb : list nat) (r c : list nat).
  Definition F (kv : contrib R) : R := contrib_formula R n eb kv r c.
  Definition total (d : list (contrib R)) : R := sum_list R (map F d).

  Lemma drive_formula_zero : forall b qs, drive_formula R n eb b qs (qzero R) r c = 0.
  Proof.
    intros b qs. unfold drive_formula. destruct (drive_states b) as [sa sb].
    simpl q_amp. simpl q_det. simpl q_ph.
    rewrite (sum_list_ext R Rring _ (fun _ => 0)).
    - apply (sum_list_zero R Rring).
    - intros q _.
      replace (chalf R * 0 * 1) with 0 by ring.
      rewrite (conj_0 R Rring conj_add). ring.
  Qed.

  Lemma F_zero : forall k, F (k, qzero R) = 0.
  Proof.
    intros [b|b q]; unfold F, contrib_formula; simpl fst; simpl snd;
      apply drive_formula_zero.
  Qed.

  Lemma qadd_zero_l : forall v, qadd R (qzero R) v = v.
  Proof.
    intros [a d e]. unfold qadd, qzero. simpl. f_equal; ring.
  Qed.

  Lemma total_cons : forall kv d, total (kv :: d) = F kv + total d.
  Proof. intros. unfold total. simpl. apply (sum_list_cons R Rring). Qed.

  Lemma dict_add_total : forall d kv,
      (forall v, In (fst kv, v) d -> v = qzero R) ->
      total (dict_add R d kv) = total d + F kv.
  Proof.
    induction d as [|[k v] d IH]; intros kv H; simpl.
    - rewrite total_cons. unfold total. simpl. rewrite sum_list_nil. ring.
    - destruct (key_eqb k (fst kv)) eqn:E.
      + apply key_eqb_eq in E. subst k.
        rewrite (H v (or_introl eq_refl)).
        rewrite !total_cons, qadd_zero_l, F_zero.
        destruct kv as [k' v']. simpl. ring.
      + rewrite !total_cons, IH. ring.
        intros w Hw. apply H. right. exact Hw.
  Qed.

  Lemma in_dict_add : forall d kv k v,
      In (k, v) (dict_add R d kv) -> In (k, v) d \/ k = fst kv.
  Proof.
    induction d as [|[k0 v0] d IH]; intros kv k v H; simpl in H.
    - destruct H as [H|[]]. right. subst kv. reflexivity.
    - destruct (key_eqb k0 (fst kv)) eqn:E.
      + destruct H as [H|H].
        * right. inversion H; subst. apply key_eqb_eq. exact E.
        * left. right. exact H.
      + destruct H as [H|H].
        * left. left. exact H.
        * destruct (IH kv k v H) as [H'|H']. left; right; exact H'. right; exact H'.
  Qed.

  Lemma fold_total : forall cs d,
      NoDup (map fst cs) ->
      (forall k v, In (k, v) d -> In k (map fst cs) -> v = qzero R) ->
      total (fold_left (dict_add R) cs d) = total d + total cs.
  Proof.
    induction cs as [|kv cs IH]; intros d ND H; simpl.
    - unfold total at 3. simpl. rewrite sum_list_nil. ring.
    - simpl in ND. inversion ND as [|x l Hnotin ND']; subst.
      rewrite IH.
      + rewrite dict_add_total, total_cons. ring.
        intros v Hv. apply (H (fst kv) v Hv). left. reflexivity.
      + exact ND'.
      + intros k v Hin Hk.
        destruct (in_dict_add d kv k v Hin) as [H1|H1].
        * apply (H k v H1). right. exact Hk.
        * subst k. contradiction.
  Qed.

  (** the nested dict yields the same sum as the contributions themselves
      when every (addressing, basis, atom) entry receives at most one *)
  Lemma nested_dict_total : forall xy cs,
      NoDup (map fst cs) ->
      total (nested_dict R xy cs) = total cs.
  Proof.
    intros xy cs ND. unfold nested_dict. rewrite fold_total.
    - destruct xy; unfold dict_init, total at 1; simpl.
      + rewrite (sum_list_cons R Rring), sum_list_nil.
        fold (F (KG 2, qzero R)). rewrite F_zero. ring.
      + rewrite sum_list_nil. ring.
    - exact ND.
    - intros k v Hin _. destruct xy; simpl in Hin.
      + destruct Hin as [Hin|[]]. inversion Hin. reflexivity.
      + contradiction.
  Qed.

  (** side conditions are preserved by the dict construction *)
  Lemma dict_add_Forall : forall (P : contrib R -> Prop),
      (forall k v w, P (k, v) -> P (k, w) -> P (k, qadd R v w)) ->
      forall d kv, Forall P d -> P kv -> Forall P (dict_add R d kv).
  Proof.
    intros P HP. induction d as [|[k v] d IH]; intros kv Hd Hkv; simpl.
    - constructor. exact Hkv. constructor.
    - pose proof (Forall_inv Hd) as H1. pose proof (Forall_inv_tail Hd) as H2.
      destruct (key_eqb k (fst kv)) eqn:E.
      + apply key_eqb_eq in E. constructor; [|exact H2].
        apply HP. exact H1. destruct kv as [k' v']. simpl in E. subst k'. exact Hkv.
      + constructor. exact H1. apply IH; assumption.
  Qed.

  Lemma nested_dict_Forall : forall (P : contrib R -> Prop),
      (forall k v w, P (k, v) -> P (k, w) -> P (k, qadd R v w)) ->
      P (KG 2, qzero R) ->
      forall xy cs, Forall P cs -> Forall P (nested_dict R xy cs).
  Proof.
    intros P HP HZ xy cs Hcs. unfold nested_dict.
    assert (Hinit : Forall P (dict_init R xy)).
    { destruct xy; simpl; repeat constructor. exact HZ. }
    revert Hinit. generalize (dict_init R xy).
    induction cs as [|kv cs IH]; intros d Hd; simpl.
    - exact Hd.
    - apply IH. exact (Forall_inv_tail Hcs).
      apply dict_add_Forall. exact HP. exact Hd. exact (Forall_inv Hcs).
  Qed.

End Attr.

(** * The full statement *)
Section Full.
  Variable R : cops.
  Hypothesis Rring :
    ring_theory (c0 R) (c1 R) (cadd R) (cmul R) (csub R) (copp R) (@eq R).
  Local Notation conj := (cconj R).
  Hypothesis conj_add : forall x y, conj (cadd R x y) = cadd R (conj x) (conj y).
  Hypothesis conj_mul : forall x y, conj (cmul R x y) = cmul R (conj x) (conj y).
  Hypothesis conj_1 : conj (c1 R) = c1 R.
  Hypothesis conj_half : conj (chalf R) = chalf R.
  Hypothesis half_half : cadd R (chalf R) (chalf R) = c1 R.

  Definition det_real (kv : contrib R) : Prop := conj (q_det R (snd kv)) = q_det R (snd kv).
  Definition key_in_range (n : nat) (kv : contrib R) : Prop :=
    match fst kv with KL _ q => q < n | KG _ => True end.

  Theorem ham_model_formula :
    forall d n r c, length r = n -> length c = n ->
      Forall (fun x => x < d) r -> Forall (fun x => x < d) c ->
    forall eb xy hi md on mask mask_end t U chs,
      (forall i j, conj (U i j) = U i j) ->
      let cs := all_contribs R n mask mask_end t chs in
      Forall det_real cs -> Forall (key_in_range n) cs ->
      NoDup (map fst cs) ->
      ham_model R d n eb xy hi md on mask mask_end t U chs (flat d r) (flat d c)
      = ham_formula_of R n eb xy hi md on mask U cs r c.
  Proof.
    intros d n r c Hr Hc Fr Fc eb xy hi md on mask mask_end t U chs HU cs H1 H2 ND.
    unfold ham_model. fold cs.
    rewrite (ham_of_dict_formula R Rring conj_add conj_mul conj_1 conj_half half_half
               d n r c Hr Hc Fr Fc eb xy mask U HU).
    - unfold ham_formula_of. f_equal.
      apply (nested_dict_total R Rring conj_add n eb r c xy cs ND).
    - apply nested_dict_Forall; try exact H1.
      + intros k v w Hv Hw. unfold det_real in *. simpl in *.
        rewrite conj_add, Hv, Hw. reflexivity.
      + unfold det_real. simpl. apply (conj_0 R Rring conj_add).
    - apply (nested_dict_Forall R (key_in_range n)); try exact H2.
      + intros k v w Hv _. exact Hv.
      + exact I.
  Qed.
End Full.

(** * Which atoms a channel reaches (the addressing part of to_nested_dict) *)
Section Addressing.
  Variable R : cops.

  (** a Global channel outside XY mode (not a DMM) feeds the Global entry of
      its basis with its own value, at every time *)
  Lemma contribs_global_ising : forall n mask mask_end t (c : chan R),
      ch_global R c = true -> ch_dmm R c = false -> ch_basis R c <> 2 ->
      (0 <= t)%Z ->
      contribs_of_chan R n mask mask_end t c = [(KG (ch_basis R c), ch_val R c)].
  Proof.
    intros n mask mask_end t c Hg Hd Hb Ht. unfold contribs_of_chan.
    rewrite Hg, Hd. simpl.
    destruct (ch_basis R c =? 2) eqn:E; [apply Nat.eqb_eq in E; contradiction|].
    destruct (0 <=? t)%Z eqn:E2; [|apply Z.leb_gt in E2; lia].
    reflexivity.
  Qed.

  (** an XY Global channel while the SLM mask is on reaches exactly the
      unmasked atoms; afterwards every atom through the Global entry *)
  Lemma contribs_global_xy_masked : forall n mask mask_end t (c : chan R) s0 rest,
      ch_global R c = true -> ch_dmm R c = false -> ch_basis R c = 2 ->
      ch_slots R c = s0 :: rest -> (0 <= t)%Z -> (t < mask_end)%Z ->
      contribs_of_chan R n mask mask_end t c
      = map (fun q => (KL 2 q, ch_val R c))
            (filter (fun q => negb (memb q mask)) (seq 0 n)).
  Proof.
    intros n mask mask_end t c s0 rest Hg Hd Hb Hs Ht0 Ht. unfold contribs_of_chan.
    rewrite Hg, Hd, Hb. simpl.
    destruct (mask_end <=? t)%Z eqn:E; [apply Z.leb_le in E; lia|].
    destruct (mask_end =? 0)%Z eqn:E0; [apply Z.eqb_eq in E0; lia|].
    unfold emu_slots. rewrite Hg, Hs. simpl.
    destruct (t <? mask_end)%Z eqn:E3; [|apply Z.ltb_ge in E3; lia].
    reflexivity.
  Qed.

  Lemma contribs_global_xy_unmasked : forall n mask mask_end t (c : chan R),
      ch_global R c = true -> ch_dmm R c = false -> ch_basis R c = 2 ->
      (mask_end <= t)%Z ->
      contribs_of_chan R n mask mask_end t c = [(KG 2, ch_val R c)].
  Proof.
    intros n mask mask_end t c Hg Hd Hb Ht. unfold contribs_of_chan.
    rewrite Hg, Hd, Hb. simpl.
    destruct (mask_end <=? t)%Z eqn:E; [|apply Z.leb_gt in E; lia].
    destruct (mask_end =? 0)%Z; [reflexivity|].
    destruct (emu_slots R n c); [reflexivity|].
    destruct (t <? mask_end)%Z eqn:E3; [apply Z.ltb_lt in E3; lia|].
    reflexivity.
  Qed.

  (** a Local channel or a DMM reaches atom q with its value (detuning
      weighted by the atom's detuning-map weight) exactly when q is a target
      of a slot covering t - for a masked atom in XY mode only once the mask
      has ended *)
  Lemma contribs_local_iff : forall n mask mask_end t (c : chan R) kv,
      ch_global R c && negb (ch_dmm R c) = false ->
      In kv (contribs_of_chan R n mask mask_end t c) <->
      exists s q,
        In s (emu_slots R n c) /\ In q (snd s) /\
        (let ti := fst (fst s) in
         let ti' := if (ch_basis R c =? 2) && memb q mask
                    then Z.max ti mask_end else ti in
         (ti' <= t)%Z /\ (t < snd (fst s))%Z) /\
        kv = (KL (ch_basis R c) q,
              Build_qty R (q_amp R (ch_val R c))
                        (cmul R (q_det R (ch_val R c)) (ch_w R c q))
                        (q_ph R (ch_val R c))).
  Proof.
    intros n mask mask_end t c kv Hloc. unfold contribs_of_chan. rewrite Hloc.
    rewrite in_flat_map. split.
    - intros [s [Hs Hin]]. apply in_flat_map in Hin. destruct Hin as [q [Hq Hin]].
      exists s, q. split; [exact Hs|]. split; [exact Hq|].
      simpl.
      set (ti' := if (ch_basis R c =? 2) && memb q mask
                  then Z.max (fst (fst s)) mask_end else fst (fst s)) in *.
      destruct (ti' <=? t)%Z eqn:E1;
        destruct (t <? snd (fst s))%Z eqn:E2; simpl in Hin; try contradiction.
      destruct Hin as [Hin|[]]. apply Z.leb_le in E1. apply Z.ltb_lt in E2.
      split; [split; assumption|]. symmetry. exact Hin.
    - intros [s [q [Hs [Hq [[H1 H2] Hkv]]]]]. exists s. split; [exact Hs|].
      apply in_flat_map. exists q. split; [exact Hq|].
      simpl in H1, H2. apply Z.leb_le in H1. apply Z.ltb_lt in H2.
      simpl. rewrite H1, H2. simpl. left. symmetry. exact Hkv.
  Qed.

  (** QutipEmulator.__init__: Global channels target the whole register *)
  Lemma emu_slots_global : forall n (c : chan R) s,
      ch_global R c = true -> In s (emu_slots R n c) -> snd s = seq 0 n.
  Proof.
    intros n c s Hg Hin. unfold emu_slots in Hin. rewrite Hg in Hin.
    apply in_map_iff in Hin. destruct Hin as [s' [E _]]. subst s. reflexivity.
  Qed.

End Addressing.

(** * The SLM-mask coefficient of the XY interaction is read at the sampled time *)
Lemma adapt_index_id : forall D k,
    (2 <= D)%Z -> (0 <= k)%Z -> (k <= D - 1)%Z ->
    adapt_index_full D D k = k.
Proof.
  intros D k HD H1 H2. unfold adapt_index_full.
  destruct (k =? D - 1)%Z eqn:E.
  - apply Z.eqb_eq in E. lia.
  - apply Z.div_mul. lia.
Qed.

Lemma mask_coeff_exact : forall D e k,
    (2 <= D)%Z -> (0 <= k)%Z -> (k <= D - 1)%Z ->
    unmasked_on_full D e k = negb (k <? e)%Z.
Proof.
  intros D e k HD H1 H2. unfold unmasked_on_full.
  rewrite adapt_index_id by assumption. reflexivity.
Qed.
