(** C06, channel level: the arrays produced by [get_samples] and
    [extend_duration], characterised nanosecond by nanosecond. *)
From Coq Require Import ZArith List Bool Lia.
From PV Require Import Model.Base Model.Sampler Model.SamplerSpec Proofs.SamplerArr.
Import ListNotations.
Open Scope Z_scope.

Section Chan.
Variable T : Type.
Variable zero : T.
Variable add : T -> T -> T.

Notation nthz := (nthz T zero).
Notation lenz := (lenz T).
Notation pslot := (pslot T).
Notation chan := (chan T).
Notation pslots c := (pslots_of T (c_slots T c)).
Notation sum_at := (sum_at T zero add).

(** * Lengths *)
Lemma fold_sadd_lenz : forall (g : pulse T -> list T) (l : list pslot) arr,
  lenz (fold_left (fun arr s => sadd T add arr (Z.to_nat (ps_ti T s)) (g (ps_p T s))) l arr)
  = lenz arr.
Proof.
  induction l as [|s r IH]; intros arr; simpl; auto.
  rewrite IH. apply sadd_lenz.
Qed.

Lemma phase_step_lenz : forall pjt st s,
  lenz (fst (phase_step T pjt st s)) = lenz (fst st).
Proof.
  intros. unfold phase_step. destruct (p_dd T (ps_p T s)); auto.
  simpl. apply set_from_lenz.
Qed.

Lemma fold_phase_lenz : forall pjt (l : list pslot) st,
  lenz (fst (fold_left (phase_step T pjt) l st)) = lenz (fst st).
Proof.
  induction l as [|s r IH]; intros st; simpl; auto.
  rewrite IH. apply phase_step_lenz.
Qed.

Lemma samples_lengths : forall c : chan,
  lenz (amp_of T zero add c) = Z.max 0 (duration T c)
  /\ lenz (det_of T zero add c) = Z.max 0 (duration T c)
  /\ lenz (phase_of T zero c) = Z.max 0 (duration T c).
Proof.
  intros c. unfold amp_of, det_of, phase_of.
  rewrite !fold_sadd_lenz, fold_phase_lenz. simpl.
  rewrite zeros_lenz. auto.
Qed.

(** * Amplitude and detuning: the sum of the scheduled pulses (no law of the
      number type is used) *)
Lemma fold_sadd_nthz : forall (g : pulse T -> list T) (l : list pslot) arr t,
  Forall (fun s => 0 <= ps_ti T s) l ->
  0 <= t < lenz arr ->
  nthz (fold_left (fun arr s => sadd T add arr (Z.to_nat (ps_ti T s)) (g (ps_p T s))) l arr) t
  = sum_at g l t (nthz arr t).
Proof.
  induction l as [|s r IH]; intros arr t HF Ht; simpl; auto.
  inversion HF as [|? ? Hs Hr]; subst.
  rewrite IH by (auto; rewrite sadd_lenz; auto).
  rewrite sadd_nthz by lia.
  replace (t <? lenz arr) with true by (symmetry; apply Z.ltb_lt; lia).
  rewrite andb_true_r. unfold SamplerSpec.sum_at. simpl.
  destruct ((ps_ti T s <=? t) && (t <? ps_ti T s + lenz (g (ps_p T s)))); reflexivity.
Qed.

Lemma wf_ti_lower : forall (l : list pslot) from s,
  wf_pslots T from l = true -> In s l -> from <= ps_ti T s /\ ps_ti T s <= ps_tf T s.
Proof.
  induction l as [|a r IH]; intros from s Hwf Hin; [contradiction|].
  simpl in Hwf. rewrite !andb_true_iff, !Z.leb_le in Hwf.
  destruct Hwf as [[[[H1 H2] _] _] Hr].
  destruct Hin as [->|Hin]; [lia|].
  specialize (IH _ _ Hr Hin). lia.
Qed.

Lemma wf_ti_nonneg : forall (l : list pslot) from,
  0 <= from -> wf_pslots T from l = true -> Forall (fun s => 0 <= ps_ti T s) l.
Proof.
  intros l from H0 Hwf. apply Forall_forall. intros s Hin.
  pose proof (wf_ti_lower _ _ _ Hwf Hin). lia.
Qed.

Theorem amp_pointwise_sum : forall (c : chan) t,
  Forall (fun s => 0 <= ps_ti T s) (pslots c) ->
  0 <= t < duration T c ->
  nthz (amp_of T zero add c) t = sum_at (p_amp T) (pslots c) t zero.
Proof.
  intros c t HF Ht. unfold amp_of.
  rewrite fold_sadd_nthz; auto.
  - now rewrite zeros_nthz.
  - rewrite zeros_lenz. lia.
Qed.

Theorem det_pointwise_sum : forall (c : chan) t,
  Forall (fun s => 0 <= ps_ti T s) (pslots c) ->
  0 <= t < duration T c ->
  nthz (det_of T zero add c) t = sum_at (p_det T) (pslots c) t zero.
Proof.
  intros c t HF Ht. unfold det_of.
  rewrite fold_sadd_nthz; auto.
  - now rewrite zeros_nthz.
  - rewrite zeros_lenz. lia.
Qed.

(** * On a well-formed timeline: exactly the covering pulse, zero elsewhere *)
Lemma sum_at_before : forall (g : pulse T -> list T) (l : list pslot) from t acc,
  wf_pslots T from l = true ->
  (forall s, In s l -> lenz (g (ps_p T s)) = ps_tf T s - ps_ti T s) ->
  t < from -> sum_at g l t acc = acc.
Proof.
  induction l as [|s r IH]; intros from t acc Hwf Hg Ht; auto.
  unfold SamplerSpec.sum_at. simpl.
  pose proof (wf_ti_lower _ _ s Hwf (or_introl eq_refl)) as [H1 H2].
  simpl in Hwf. rewrite !andb_true_iff in Hwf. destruct Hwf as [_ Hr].
  replace (ps_ti T s <=? t) with false by (symmetry; apply Z.leb_gt; lia).
  simpl. apply (IH (ps_tf T s)); auto.
  - intros; apply Hg; now right.
  - lia.
Qed.

Lemma find_cover_before : forall (l : list pslot) from t,
  wf_pslots T from l = true -> t < from -> find_cover T l t = None.
Proof.
  induction l as [|s r IH]; intros from t Hwf Ht; auto.
  pose proof (wf_ti_lower _ _ s Hwf (or_introl eq_refl)) as [H1 H2].
  simpl in Hwf. rewrite !andb_true_iff in Hwf. destruct Hwf as [_ Hr].
  unfold find_cover. simpl. unfold covers at 1.
  replace (ps_ti T s <=? t) with false by (symmetry; apply Z.leb_gt; lia).
  simpl. apply (IH (ps_tf T s)); auto. lia.
Qed.

Lemma sum_at_wf : forall (g : pulse T -> list T) (l : list pslot) from t acc,
  wf_pslots T from l = true ->
  (forall s, In s l -> lenz (g (ps_p T s)) = ps_tf T s - ps_ti T s) ->
  sum_at g l t acc =
  match find_cover T l t with
  | Some s => add acc (nthz (g (ps_p T s)) (t - ps_ti T s))
  | None => acc
  end.
Proof.
  induction l as [|s r IH]; intros from t acc Hwf Hg; auto.
  pose proof (wf_ti_lower _ _ s Hwf (or_introl eq_refl)) as [H1 H2].
  assert (Hr : wf_pslots T (ps_tf T s) r = true).
  { simpl in Hwf. rewrite !andb_true_iff in Hwf. tauto. }
  assert (Hgr : forall s0, In s0 r -> lenz (g (ps_p T s0)) = ps_tf T s0 - ps_ti T s0)
    by (intros; apply Hg; now right).
  unfold SamplerSpec.sum_at, find_cover. simpl.
  rewrite (Hg s) by now left.
  replace (ps_ti T s + (ps_tf T s - ps_ti T s)) with (ps_tf T s) by lia.
  unfold covers at 1.
  destruct ((ps_ti T s <=? t) && (t <? ps_tf T s)) eqn:E.
  - rewrite andb_true_iff, Z.leb_le, Z.ltb_lt in E.
    apply (sum_at_before g r (ps_tf T s)); auto. lia.
  - apply (IH (ps_tf T s)); auto.
Qed.

Lemma wf_lens : forall (l : list pslot) from,
  wf_pslots T from l = true ->
  (forall s, In s l -> lenz (p_amp T (ps_p T s)) = ps_tf T s - ps_ti T s)
  /\ (forall s, In s l -> lenz (p_det T (ps_p T s)) = ps_tf T s - ps_ti T s).
Proof.
  induction l as [|a r IH]; intros from Hwf; [split; intros; contradiction|].
  simpl in Hwf. rewrite !andb_true_iff, !Z.eqb_eq in Hwf.
  destruct Hwf as [[[[_ _] Ha] Hd] Hr]. destruct (IH _ Hr) as [IA ID].
  split; intros s [->|Hin]; auto.
Qed.

Lemma find_cover_unique : forall (l : list pslot) from s t,
  wf_pslots T from l = true -> In s l -> covers T s t = true ->
  find_cover T l t = Some s.
Proof.
  induction l as [|a r IH]; intros from s t Hwf Hin Hc; [contradiction|].
  pose proof (wf_ti_lower _ _ a Hwf (or_introl eq_refl)) as [H1 H2].
  assert (Hr : wf_pslots T (ps_tf T a) r = true).
  { simpl in Hwf. rewrite !andb_true_iff in Hwf. tauto. }
  unfold find_cover. simpl.
  destruct Hin as [->|Hin]; [now rewrite Hc|].
  pose proof (wf_ti_lower _ _ s Hr Hin) as [H3 H4].
  unfold covers in Hc. rewrite andb_true_iff, Z.leb_le, Z.ltb_lt in Hc.
  unfold covers at 1.
  replace (t <? ps_tf T a) with false by (symmetry; apply Z.ltb_ge; lia).
  rewrite andb_false_r. apply (IH (ps_tf T a)); auto.
  unfold covers. rewrite andb_true_iff, Z.leb_le, Z.ltb_lt. lia.
Qed.

Lemma find_cover_none : forall (l : list pslot) t,
  (forall s, In s l -> covers T s t = false) -> find_cover T l t = None.
Proof.
  induction l as [|a r IH]; intros t H; auto.
  unfold find_cover. simpl. rewrite (H a) by now left.
  apply IH. intros; apply H; now right.
Qed.

Lemma wf_chan_parts : forall c : chan,
  wf_chan T c = true ->
  wf_pslots T 0 (pslots c) = true
  /\ (forall s, In s (pslots c) -> ps_tf T s <= duration T c)
  /\ 0 <= c_pjt T c.
Proof.
  intros c H. unfold wf_chan in H. rewrite !andb_true_iff in H.
  destruct H as [[H1 H2] H3]. split; [auto|split].
  - intros s Hin. rewrite forallb_forall in H2. specialize (H2 _ Hin).
    now apply Z.leb_le.
  - now apply Z.leb_le.
Qed.

Section Laws.
Hypothesis add_zero_l : forall x, add zero x = x.

Theorem amp_exact : forall (c : chan) t,
  wf_chan T c = true -> 0 <= t < duration T c ->
  nthz (amp_of T zero add c) t =
  match find_cover T (pslots c) t with
  | Some s => nthz (p_amp T (ps_p T s)) (t - ps_ti T s)
  | None => zero
  end.
Proof.
  intros c t Hwf Ht. destruct (wf_chan_parts _ Hwf) as [Hp [_ _]].
  rewrite amp_pointwise_sum; auto.
  - rewrite (sum_at_wf (p_amp T) _ 0); auto.
    + destruct (find_cover T (pslots c) t); auto.
    + apply (wf_lens _ 0 Hp).
  - apply (wf_ti_nonneg _ 0); auto. lia.
Qed.

Theorem det_exact : forall (c : chan) t,
  wf_chan T c = true -> 0 <= t < duration T c ->
  nthz (det_of T zero add c) t =
  match find_cover T (pslots c) t with
  | Some s => nthz (p_det T (ps_p T s)) (t - ps_ti T s)
  | None => zero
  end.
Proof.
  intros c t Hwf Ht. destruct (wf_chan_parts _ Hwf) as [Hp [_ _]].
  rewrite det_pointwise_sum; auto.
  - rewrite (sum_at_wf (p_det T) _ 0); auto.
    + destruct (find_cover T (pslots c) t); auto.
    + apply (wf_lens _ 0 Hp).
  - apply (wf_ti_nonneg _ 0); auto. lia.
Qed.

(** every scheduled pulse is rendered sample by sample ... *)
Theorem samples_over_pulse : forall (c : chan) s t,
  wf_chan T c = true -> In s (pslots c) -> ps_ti T s <= t < ps_tf T s ->
  nthz (amp_of T zero add c) t = nthz (p_amp T (ps_p T s)) (t - ps_ti T s)
  /\ nthz (det_of T zero add c) t = nthz (p_det T (ps_p T s)) (t - ps_ti T s).
Proof.
  intros c s t Hwf Hin Ht. destruct (wf_chan_parts _ Hwf) as [Hp [Hd _]].
  pose proof (wf_ti_lower _ _ _ Hp Hin) as [H1 _]. specialize (Hd _ Hin).
  assert (Hc : find_cover T (pslots c) t = Some s).
  { apply (find_cover_unique _ 0); auto. unfold covers.
    rewrite andb_true_iff, Z.leb_le, Z.ltb_lt. lia. }
  rewrite amp_exact, det_exact by (auto; lia). now rewrite Hc.
Qed.

(** ... and the arrays are zero where no pulse is scheduled *)
Theorem samples_zero_elsewhere : forall (c : chan) t,
  wf_chan T c = true -> 0 <= t < duration T c ->
  (forall s, In s (pslots c) -> covers T s t = false) ->
  nthz (amp_of T zero add c) t = zero /\ nthz (det_of T zero add c) t = zero.
Proof.
  intros c t Hwf Ht Hn.
  rewrite amp_exact, det_exact by auto. now rewrite find_cover_none.
Qed.

(** the fall-time extension of a slot's end never reaches into a pulse:
    the extended part of a [_PulseTargetSlot] holds zero amplitude *)
Lemma ext_slots_tail_zero : forall (c : chan) (l : list pslot) from x t,
  wf_chan T c = true -> 0 <= from ->
  (forall t', from <= t' -> find_cover T (pslots c) t' = find_cover T l t') ->
  wf_pslots T from l = true ->
  In x (combine l (ext_slots T c l)) ->
  ps_tf T (fst x) <= t < xs_tf (snd x) -> t < duration T c ->
  nthz (amp_of T zero add c) t = zero.
Proof.
  intros c l. induction l as [|s r IH]; intros from x t Hwf H0 Hfc Hl Hin Ht Hd;
    [contradiction|].
  pose proof (wf_ti_lower _ _ s Hl (or_introl eq_refl)) as [H1 H2].
  assert (Hr : wf_pslots T (ps_tf T s) r = true).
  { simpl in Hl. rewrite !andb_true_iff in Hl. tauto. }
  simpl in Hin. destruct Hin as [<-|Hin].
  - simpl in Ht.
    assert (t0 : 0 <= t) by lia.
    rewrite amp_exact by (auto; lia).
    rewrite Hfc by lia. unfold find_cover. simpl. unfold covers at 1.
    replace (t <? ps_tf T s) with false by (symmetry; apply Z.ltb_ge; lia).
    rewrite andb_false_r.
    destruct r as [|n r'].
    + reflexivity.
    + assert (t < ps_ti T n) by lia.
      pose proof (wf_ti_lower _ _ n Hr (or_introl eq_refl)) as [H3 H4].
      change (find (fun s0 => covers T s0 t) (n :: r')) with (find_cover T (n :: r') t).
      rewrite (find_cover_before (n :: r') (ps_ti T n)); auto.
      simpl. simpl in Hr. rewrite !andb_true_iff in *.
      rewrite !Z.leb_le in *. intuition lia.
  - apply (IH (ps_tf T s) x t); auto; try lia.
    intros t' Ht'. rewrite Hfc by lia. unfold find_cover. simpl. unfold covers at 1.
    replace (t' <? ps_tf T s) with false by (symmetry; apply Z.ltb_ge; lia).
    now rewrite andb_false_r.
Qed.

End Laws.

(** * Phase *)
Lemma phase_fold_keep : forall pjt (l : list pslot) st from tf0 t,
  0 <= pjt -> 0 <= t ->
  wf_pslots T from l = true ->
  snd st = Some tf0 -> tf0 <= from -> t < tf0 ->
  nthz (fst (fold_left (phase_step T pjt) l st)) t = nthz (fst st) t.
Proof using T zero.
  clear add.
  induction l as [|s r IH]; intros st from tf0 t Hp Ht Hwf Hs Hle Hlt; auto.
  pose proof (wf_ti_lower _ _ s Hwf (or_introl eq_refl)) as [H1 H2].
  assert (Hr : wf_pslots T (ps_tf T s) r = true).
  { simpl in Hwf. rewrite !andb_true_iff in Hwf. tauto. }
  simpl. unfold phase_step at 2. destruct (p_dd T (ps_p T s)).
  - apply (IH st (ps_tf T s) tf0); auto. lia.
  - rewrite Hs.
    rewrite (IH _ (ps_tf T s) (ps_tf T s)); auto; try lia.
    simpl. rewrite set_from_nthz by lia.
    replace (t <? Z.max (ps_ti T s - pjt) tf0) with true
      by (symmetry; apply Z.ltb_lt; lia).
    reflexivity.
Qed.

Lemma phase_fold_pulse : forall pjt (l : list pslot) st from s t,
  0 <= pjt -> 0 <= t -> 0 <= from ->
  wf_pslots T from l = true ->
  match snd st with Some tf0 => 0 <= tf0 <= from | None => True end ->
  In s l -> p_dd T (ps_p T s) = false ->
  ps_ti T s <= t < ps_tf T s -> t < lenz (fst st) ->
  nthz (fst (fold_left (phase_step T pjt) l st)) t = p_phase T (ps_p T s).
Proof using T zero.
  clear add.
  induction l as [|a r IH]; intros st from s t Hp Ht Hfrom Hwf Hst Hin Hdd Hcov Hlen;
    [contradiction|].
  pose proof (wf_ti_lower _ _ a Hwf (or_introl eq_refl)) as [H1 H2].
  assert (Hr : wf_pslots T (ps_tf T a) r = true).
  { simpl in Hwf. rewrite !andb_true_iff in Hwf. tauto. }
  simpl. destruct Hin as [->|Hin].
  - unfold phase_step at 2. rewrite Hdd.
    rewrite (phase_fold_keep pjt r _ (ps_tf T s) (ps_tf T s)); auto; try lia.
    simpl. rewrite set_from_nthz; try lia.
    + replace (t <? match snd st with
                    | Some tf => Z.max (ps_ti T s - pjt) tf
                    | None => 0 end) with false.
      * replace (t <? lenz (fst st)) with true by (symmetry; apply Z.ltb_lt; lia).
        reflexivity.
      * symmetry. apply Z.ltb_ge. destruct (snd st); lia.
    + destruct (snd st); lia.
  - apply (IH _ (ps_tf T a)); auto; try lia.
    + unfold phase_step. destruct (p_dd T (ps_p T a)).
      * destruct (snd st); auto. lia.
      * simpl. lia.
    + rewrite phase_step_lenz. auto.
Qed.

(** the phase over every pulse that is not a detuned delay is that pulse's
    phase (the overwrite loop never touches an earlier pulse) *)
Theorem phase_over_pulse : forall (c : chan) s t,
  wf_chan T c = true -> In s (pslots c) -> p_dd T (ps_p T s) = false ->
  ps_ti T s <= t < ps_tf T s ->
  nthz (phase_of T zero c) t = p_phase T (ps_p T s).
Proof using T zero.
  clear add.
  intros c s t Hwf Hin Hdd Ht. destruct (wf_chan_parts _ Hwf) as [Hp [Hd Hj]].
  pose proof (wf_ti_lower _ _ _ Hp Hin) as [H1 _]. specialize (Hd _ Hin).
  unfold phase_of. apply (phase_fold_pulse _ _ _ 0 s); auto; try lia.
  - simpl. auto.
  - simpl. rewrite zeros_lenz. lia.
Qed.

(** * extend_duration only pads *)
Theorem extend_fails_iff : forall (cs : csamples T) n,
  extend T zero cs n = None <-> n < lenz (cs_amp T cs).
Proof.
  intros cs n. unfold extend.
  destruct (n - lenz (cs_amp T cs) <? 0) eqn:E.
  - apply Z.ltb_lt in E. split; auto. lia.
  - apply Z.ltb_ge in E. split; [discriminate|lia].
Qed.

Theorem extend_pads : forall (cs cs' : csamples T) n,
  lenz (cs_det T cs) = lenz (cs_amp T cs) ->
  lenz (cs_phase T cs) = lenz (cs_amp T cs) ->
  extend T zero cs n = Some cs' ->
  let d := lenz (cs_amp T cs) in
  lenz (cs_amp T cs') = n /\ lenz (cs_det T cs') = n /\ lenz (cs_phase T cs') = n
  /\ cs_slots T cs' = cs_slots T cs
  /\ forall t, 0 <= t < n ->
       nthz (cs_amp T cs') t = (if t <? d then nthz (cs_amp T cs) t else zero)
    /\ nthz (cs_det T cs') t =
         (if t <? d then nthz (cs_det T cs) t
          else match cs_open_off T cs with Some off => off | None => zero end)
    /\ nthz (cs_phase T cs') t =
         (if t <? d then nthz (cs_phase T cs) t else last (cs_phase T cs) zero).
Proof.
  intros cs cs' n Hd Hp H. unfold extend in H.
  destruct (n - lenz (cs_amp T cs) <? 0) eqn:E; [discriminate|].
  apply Z.ltb_ge in E. inversion H; subst cs'; clear H. simpl.
  assert (HL : forall (l : list T) v, lenz l = lenz (cs_amp T cs) ->
            lenz (l ++ repeat v (Z.to_nat (n - lenz (cs_amp T cs)))) = n).
  { intros l v Hl. unfold Sampler.lenz in *. rewrite app_length, repeat_length. lia. }
  repeat split; auto.
  - rewrite nthz_app_repeat by lia.
    destruct (t <? lenz (cs_amp T cs)); auto.
    replace (t <? lenz (cs_amp T cs) + Z.of_nat (Z.to_nat (n - lenz (cs_amp T cs))))
      with true by (symmetry; apply Z.ltb_lt; lia). reflexivity.
  - rewrite nthz_app_repeat by lia. rewrite Hd.
    destruct (t <? lenz (cs_amp T cs)); auto.
    replace (t <? lenz (cs_amp T cs) + Z.of_nat (Z.to_nat (n - lenz (cs_amp T cs))))
      with true by (symmetry; apply Z.ltb_lt; lia). reflexivity.
  - rewrite nthz_app_repeat by lia. rewrite Hp.
    destruct (t <? lenz (cs_amp T cs)); auto.
    replace (t <? lenz (cs_amp T cs) + Z.of_nat (Z.to_nat (n - lenz (cs_amp T cs))))
      with true by (symmetry; apply Z.ltb_lt; lia). reflexivity.
Qed.

(** extending to the duration the samples already have changes nothing *)
Theorem extend_same : forall (cs : csamples T),
  extend T zero cs (lenz (cs_amp T cs)) = Some cs.
Proof.
  intros [a d p sl o i]. unfold extend. simpl.
  rewrite Z.sub_diag. simpl. now rewrite !app_nil_r.
Qed.

(** [SequenceSamples.extend_duration]: every channel is kept, in order, each
    extended by its own [extend_duration] *)
Theorem extend_all_spec : forall (css css' : list (csamples T)) n,
  extend_all T zero css n = Some css' ->
  Forall2 (fun cs cs' => extend T zero cs n = Some cs') css css'.
Proof.
  induction css as [|cs r IH]; intros css' n H; simpl in H.
  - inversion H. constructor.
  - destruct (extend T zero cs n) as [c|] eqn:E; [|discriminate].
    destruct (extend_all T zero r n) as [r'|] eqn:ER; [|discriminate].
    inversion H; subst. constructor; auto.
Qed.

Theorem extend_all_keeps_every_channel : forall (css css' : list (csamples T)) n,
  extend_all T zero css n = Some css' -> length css' = length css.
Proof.
  intros css css' n H. apply extend_all_spec in H.
  induction H; simpl; auto.
Qed.

Theorem extend_all_fails_iff : forall (css : list (csamples T)) n,
  extend_all T zero css n = None <->
  exists cs, In cs css /\ n < lenz (cs_amp T cs).
Proof.
  induction css as [|cs r IH]; intros n; simpl.
  - split; [discriminate|intros (cs & [] & _)].
  - destruct (extend T zero cs n) as [c|] eqn:E.
    + destruct (extend_all T zero r n) as [r'|] eqn:ER.
      * split; [discriminate|]. intros (x & [<-|Hin] & Hx).
        -- apply extend_fails_iff in Hx. congruence.
        -- assert (HN : extend_all T zero r n = None) by (apply IH; eauto). congruence.
      * split; auto. intros _. destruct (proj1 (IH n) ER) as (x & Hin & Hx). eauto.
    + split; auto. intros _. exists cs. split; auto. now apply extend_fails_iff.
Qed.

(** the padding detuning is the off-detuning exactly when the channel is
    still in EOM mode (its last EOM block has no end) *)
Theorem open_off_spec : forall (c : chan) off,
  open_off T c = Some off <->
  exists l b, c_eom T c = l ++ [b] /\ e_tf T b = None /\ e_off T b = off.
Proof.
  intros c off. unfold open_off. split.
  - destruct (rev (c_eom T c)) as [|b r] eqn:E; [discriminate|].
    destruct (e_tf T b) eqn:Etf; [discriminate|]. intros H; inversion H; subst.
    exists (rev r), b. split; auto.
    rewrite <- (rev_involutive (c_eom T c)), E. reflexivity.
  - intros (l & b & -> & Htf & <-). rewrite rev_app_distr. simpl. now rewrite Htf.
Qed.

(** * Detuning-map weights *)
Lemma weight_sum_app_false : forall (ms : list bool) (ws : list T) acc,
  (forall m, In m ms -> m = false) ->
  fold_left (fun (acc : T) (mw : bool * T) => if fst mw then add acc (snd mw) else acc)
            (combine ms ws) acc = acc.
Proof.
  induction ms as [|m r IH]; intros ws acc H; simpl; auto.
  destruct ws as [|w wr]; simpl; auto.
  rewrite (H m) by now left. simpl. apply IH. intros; apply H; now right.
Qed.

(** an atom at which no trap of the map sits has weight zero *)
Theorem weight_no_trap : forall (ms : list bool) (ws : list T),
  (forall m, In m ms -> m = false) -> weight_sum T zero add ms ws = zero.
Proof. intros. unfold weight_sum. now apply weight_sum_app_false. Qed.

Lemma combine_app_eq : forall (A B : Type) (l1 l2 : list A) (m1 m2 : list B),
  length l1 = length m1 ->
  combine (l1 ++ l2) (m1 ++ m2) = combine l1 m1 ++ combine l2 m2.
Proof.
  induction l1 as [|a r IH]; intros l2 m1 m2 H; destruct m1; simpl in *; try discriminate; auto.
  f_equal. apply IH. lia.
Qed.

(** an atom sitting on exactly one trap has that trap's weight *)
Theorem weight_one_trap : forall (ms1 ms2 : list bool) (ws1 ws2 : list T) w,
  length ms1 = length ws1 ->
  (forall m, In m ms1 -> m = false) -> (forall m, In m ms2 -> m = false) ->
  weight_sum T zero add (ms1 ++ true :: ms2) (ws1 ++ w :: ws2) = add zero w.
Proof.
  intros ms1 ms2 ws1 ws2 w Hl H1 H2. unfold weight_sum.
  rewrite combine_app_eq by auto. rewrite fold_left_app.
  rewrite (weight_sum_app_false ms1 ws1 zero H1). simpl.
  apply weight_sum_app_false. exact H2.
Qed.

End Chan.
