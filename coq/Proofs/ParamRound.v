(** C08 - [round(expr, n)] on a variable expression is
    [(expr * 10**n).rint() / 10**n] with [rint] = round half to even
    (np.round / Python's round on ties).  The model's [f_rint] is bit-exact;
    here the tie behaviour is closed by computation in the kernel. *)
From Coq Require Import ZArith List Bool Lia.
From Coq Require Import PrimFloat.
From PV Require Import Model.Base Model.Param.
Import ListNotations.
Open Scope Z_scope.

Definition half : float := 0x1p-1%float.

(** k + 0.5 rounds to the even neighbour, and so does -(k + 0.5), keeping
    the sign of a zero result *)
Definition tie_ok (k : Z) : bool :=
  let e := if Z.even k then k else k + 1 in
  f_biteq (f_rint (f_of_Z k + half)%float) (f_of_Z e) &&
  f_biteq (f_rint (- (f_of_Z k + half))%float) (- f_of_Z e)%float.

Definition tie_range : list Z := map Z.of_nat (seq 0 4096).

Lemma tie_sweep : forallb tie_ok tie_range = true.
Proof. vm_compute. reflexivity. Qed.

Theorem rint_half_to_even : forall k, 0 <= k < 4096 ->
    let e := if Z.even k then k else k + 1 in
    f_biteq (f_rint (f_of_Z k + half)%float) (f_of_Z e) = true /\
    f_biteq (f_rint (- (f_of_Z k + half))%float) (- f_of_Z e)%float = true.
Proof.
  intros k Hk.
  assert (I : In k tie_range).
  { unfold tie_range. apply in_map_iff. exists (Z.to_nat k). split; [lia|].
    apply in_seq. lia. }
  pose proof (proj1 (forallb_forall tie_ok tie_range) tie_sweep k I) as T.
  unfold tie_ok in T. apply andb_true_iff in T. exact T.
Qed.

(** the sugar as the heap holds it: x, x * 10**n, rint, / 10**n *)
Definition rd_ofun (_ : Z) (x : float) := x.
Definition rd_opow (x _ : float) := x.
Definition round_heap (p10 : Z) : heap :=
  let h0 := [HItem 7 (KI 0)] in
  let h1 := h0 ++ [HObj (new_obj h0 OP_MUL [ARef 0%nat; ALit (VN (NI p10))])] in
  let h2 := h1 ++ [HObj (new_obj h1 OP_RINT [ARef 1%nat])] in
  h2 ++ [HObj (new_obj h2 OP_DIV [ARef 2%nat; ALit (VN (NI p10))])].
Definition round_at (isint : bool) (p10 : Z) (x : num) : res value :=
  eval rd_ofun rd_opow [mkVar 7 isint 1 1 (Some [x])] (round_heap p10) 3%nat.

(** round(T/2)-style ties through the whole expression: 500.5 -> 500,
    501.5 -> 502, 250.5 -> 250; round(a, 1): 0.25 -> 0.2, 0.75 -> 0.8;
    round(a, 2): 0.125 -> 0.12; round(2.5) = 2, round(-0.5) = -0.0 *)
Example round_sugar_ties :
  round_at false 1 (NF 0x1.f48p+8%float) = Ok (VN (NF 500%float)) /\
  round_at false 1 (NF 0x1.f58p+8%float) = Ok (VN (NF 502%float)) /\
  round_at false 1 (NF 0x1.f5p+7%float) = Ok (VN (NF 250%float)) /\
  round_at false 10 (NF 0x1p-2%float) = Ok (VN (NF 0x1.999999999999ap-3%float)) /\
  round_at false 10 (NF 0x1.8p-1%float) = Ok (VN (NF 0x1.999999999999ap-1%float)) /\
  round_at false 100 (NF 0x1p-3%float) = Ok (VN (NF 0x1.eb851eb851eb8p-4%float)) /\
  round_at false 1 (NF 0x1.4p+1%float) = Ok (VN (NF 2%float)) /\
  round_at false 1 (NF (-0x1p-1)%float) = Ok (VN (NF (-0)%float)).
Proof. vm_compute. repeat split; reflexivity. Qed.
