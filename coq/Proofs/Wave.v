(** C16 - lemmas about Model/Wave.v that hold for EVERY instance of the number
    operations (in particular for the IEEE-double instance [FN] that is tied
    to the code): sample counts, index / slice normalisation against Python
    list semantics, the search loops of from_max_val, change_duration, the
    structural part of the pulse contract, equality. *)
From Coq Require Import ZArith List Bool Lia.
From PV Require Import Model.Base Model.Wave.
Import ListNotations.
Open Scope Z_scope.

(** * An induction principle for the nested waveform type *)
Section WfInd.
  Variable R : Type.
  Variable P : wf R -> Prop.
  Hypothesis Hconst : forall d v, P (WConst d v).
  Hypothesis Hramp : forall d a b, P (WRamp d a b).
  Hypothesis Hcustom : forall l, P (WCustom l).
  Hypothesis Hcomp : forall ws, Forall P ws -> P (WComp ws).
  Hypothesis Hwin : forall k d area beta, P (WWin k d area beta).
  Hypothesis Hinterp : forall d vals times, P (WInterp d vals times).

  Fixpoint wf_ind2 (w : wf R) : P w :=
    match w with
    | WConst d v => Hconst d v
    | WRamp d a b => Hramp d a b
    | WCustom l => Hcustom l
    | WComp ws =>
        Hcomp ws
          ((fix go (l : list (wf R)) : Forall P l :=
              match l with
              | [] => Forall_nil P
              | x :: t => Forall_cons x (wf_ind2 x) (go t)
              end) ws)
    | WWin k d area beta => Hwin k d area beta
    | WInterp d vals times => Hinterp d vals times
    end.
End WfInd.

Lemma rbind_ok : forall {A B} (r : res A) (f : A -> res B) b,
    rbind r f = Ok b -> exists a, r = Ok a /\ f a = Ok b.
Proof. intros A B [a|e] f b H; simpl in H; [eauto | discriminate]. Qed.

Lemma seqZ_length : forall n, length (seqZ n) = Z.to_nat n.
Proof. intros; unfold seqZ; now rewrite map_length, seq_length. Qed.

Lemma seqZ_nth : forall n i, (i < Z.to_nat n)%nat -> nth_error (seqZ n) i = Some (Z.of_nat i).
Proof.
  intros n i H. unfold seqZ. rewrite nth_error_map.
  rewrite (nth_error_nth' _ 0%nat) by now rewrite seq_length.
  now rewrite seq_nth.
Qed.

Section Generic.
  Context {R : Type} (N : numops R).
  Variable E : env R.

  (** flat versions of the nested recursions over a composite's parts *)
  Fixpoint dur_list (ws : list (wf R)) : Z :=
    match ws with [] => 0 | x :: t => dur x + dur_list t end.
  Fixpoint samples_list (ws : list (wf R)) : res (list R) :=
    match ws with
    | [] => Ok []
    | x :: t => rbind (samples N E x) (fun a => rbind (samples_list t) (fun b => Ok (a ++ b)))
    end.
  Fixpoint validate_list (ws : list (wf R)) : res unit :=
    match ws with
    | [] => Ok tt
    | x :: t => rbind (validate N E x) (fun _ => validate_list t)
    end.

  Lemma dur_comp : forall ws, dur (WComp ws) = dur_list ws.
  Proof. induction ws; simpl in *; [reflexivity | now rewrite <- IHws]. Qed.
  Lemma samples_comp : forall ws, samples N E (WComp ws) = samples_list ws.
  Proof. induction ws; simpl in *; [reflexivity | now rewrite <- IHws]. Qed.
  Lemma validate_comp : forall ws,
      validate N E (WComp ws) =
      rbind (validate_list ws)
        (fun _ => if Z.of_nat (length ws) <? 2 then Err EValue else Ok tt).
  Proof.
    intros. reflexivity.
  Qed.

  (** ** T1: every waveform has exactly [duration] samples *)
  Definition env_ok : Prop :=
    (forall k d b w, win_lookup N (e_win E) k d b = Some w -> Z.of_nat (length w) = d) /\
    (forall d v t s, int_lookup N (e_int E) d v t = Some s -> Z.of_nat (length s) = d).

  Lemma chk_d_ok : forall d u, chk_d d = Ok u -> 0 < d.
  Proof. unfold chk_d; intros d u; destruct (Z.leb_spec d 0); [discriminate | lia]. Qed.

  Lemma win_samples_length : forall area win, length (win_samples N area win) = length win.
  Proof. intros; unfold win_samples; now rewrite !map_length. Qed.

  Lemma unit_eta : forall u : unit, u = tt. Proof. now destruct u. Qed.

  Lemma samples_length_aux : env_ok -> forall w,
      validate N E w = Ok tt ->
      exists l, samples N E w = Ok l /\ Z.of_nat (length l) = dur w /\ 0 < dur w.
  Proof.
    intros [Hw Hi]. induction w using wf_ind2; intro V.
    - simpl in *. apply chk_d_ok in V. eexists; split; [reflexivity|].
      rewrite repeat_length. lia.
    - simpl in *. apply chk_d_ok in V. eexists; split; [reflexivity|].
      rewrite map_length, seqZ_length. lia.
    - simpl in *. apply chk_d_ok in V. eauto.
    - rewrite validate_comp in V. apply rbind_ok in V as (u & V & Hlen).
      rewrite samples_comp, dur_comp.
      destruct (Z.ltb_spec (Z.of_nat (length ws)) 2); [discriminate|].
      assert (G : exists l, samples_list ws = Ok l /\ Z.of_nat (length l) = dur_list ws /\
                            (ws <> [] -> 0 < dur_list ws)).
      { clear Hlen H0. induction ws as [|x t IH]; simpl in *.
        - eexists; repeat split; auto. congruence.
        - apply rbind_ok in V as (u1 & V1 & V2).
          inversion H as [|? ? Hx Ht]; subst.
          rewrite (unit_eta u1) in V1. destruct (Hx V1) as (lx & Sx & Lx & Px).
          destruct (IH Ht V2) as (lt & St & Lt & Pt).
          rewrite Sx, St. simpl. eexists; split; [reflexivity|].
          rewrite app_length. split; [lia|].
          intros _. destruct t; simpl in *; [lia|].
          assert (0 < dur w + dur_list t) by (apply Pt; congruence). lia. }
      destruct G as (l & S & L & P). exists l; repeat split; auto.
      apply P. destruct ws; simpl in *; [lia | congruence].
    - simpl in *. apply rbind_ok in V as (u & V & V2). apply chk_d_ok in V.
      destruct (match k with KBlackman => false | KKaiser => nlt N beta (n0 N) end); [discriminate|].
      destruct (win_lookup N (e_win E) k d beta) as [w|] eqn:L; [|discriminate].
      eexists; split; [reflexivity|]. rewrite win_samples_length.
      split; [now apply Hw in L | lia].
    - simpl in *. unfold validate_interp in V.
      apply rbind_ok in V as (u & _ & V). apply rbind_ok in V as (u2 & V & V2).
      apply chk_d_ok in V.
      destruct (data_x N d (interp_times N vals times)); [|discriminate].
      destruct (_ || _); [discriminate|].
      destruct (int_lookup N (e_int E) d vals times) as [s|] eqn:L; [|discriminate].
      eexists; split; [reflexivity|]. split; [now apply Hi in L | lia].
  Qed.

  Theorem samples_length : env_ok -> forall w l,
      validate N E w = Ok tt -> samples N E w = Ok l ->
      Z.of_nat (length l) = dur w /\ 0 < dur w.
  Proof.
    intros He w l V S. destruct (samples_length_aux He w V) as (l' & S' & L & P).
    rewrite S in S'. inversion S'; subst. auto.
  Qed.

  Theorem samples_total : env_ok -> forall w,
      validate N E w = Ok tt -> exists l, samples N E w = Ok l.
  Proof. intros He w V. destruct (samples_length_aux He w V) as (l & S & _). eauto. Qed.

  (** ** T2 (structural part): documented values of constant, custom and
      composite waveforms *)
  Theorem const_values : forall d v i,
      0 <= i < d ->
      exists l, samples N E (WConst d v) = Ok l /\ nth_error l (Z.to_nat i) = Some (nmul N v (n1 N)).
  Proof.
    intros. simpl. eexists; split; [reflexivity|].
    rewrite (nth_error_nth' _ (nmul N v (n1 N))) by (rewrite repeat_length; lia).
    f_equal. apply nth_repeat.
  Qed.

  Theorem custom_values : forall l, samples N E (WCustom l) = Ok l.
  Proof. reflexivity. Qed.

  Theorem composite_values : forall w1 w2 l1 l2,
      samples N E w1 = Ok l1 -> samples N E w2 = Ok l2 ->
      samples N E (WComp [w1; w2]) = Ok (l1 ++ l2) /\ dur (WComp [w1; w2]) = dur w1 + dur w2.
  Proof.
    intros. rewrite samples_comp, dur_comp. simpl. rewrite H, H0. simpl.
    rewrite app_nil_r. split; [reflexivity | lia].
  Qed.

  Theorem composite_values_n : forall ws,
      samples N E (WComp ws) = samples_list ws /\ dur (WComp ws) = dur_list ws.
  Proof. intros; split; [apply samples_comp | apply dur_comp]. Qed.

  (** ** T7: change_duration preserves the defining parameters *)
  Inductive same_params : wf R -> wf R -> Prop :=
  | sp_const : forall d d' v, same_params (WConst d v) (WConst d' v)
  | sp_ramp : forall d d' a b, same_params (WRamp d a b) (WRamp d' a b)
  | sp_win : forall k d d' area beta, same_params (WWin k d area beta) (WWin k d' area beta)
  | sp_interp : forall d d' vals times, same_params (WInterp d vals times) (WInterp d' vals times).

  Theorem change_duration_spec : forall w d' w',
      change_duration N E w d' = Ok w' ->
      same_params w w' /\ dur w' = d' /\ 0 < d' /\ validate N E w' = Ok tt.
  Proof.
    intros w d' w' H. destruct w; simpl in H; try discriminate;
      apply rbind_ok in H as (u & V & H); inversion H; subst; clear H;
      rewrite (unit_eta u) in V; (split; [constructor|]); (split; [reflexivity|]);
      (split; [|exact V]).
    - simpl in V. now apply chk_d_ok in V.
    - simpl in V. now apply chk_d_ok in V.
    - simpl in V. apply rbind_ok in V as (u1 & V & _). now apply chk_d_ok in V.
    - simpl in V. unfold validate_interp in V. apply rbind_ok in V as (u1 & _ & V).
      apply rbind_ok in V as (u2 & V & _). now apply chk_d_ok in V.
  Qed.

  Theorem change_duration_unsupported : forall d',
      (forall l, change_duration N E (WCustom l) d' = Err ENotImpl) /\
      (forall ws, change_duration N E (WComp ws) d' = Err ENotImpl).
  Proof. split; reflexivity. Qed.

  (** ** T11: equality agrees with sample-wise closeness *)
  Lemma all_close_Forall2 : forall a b,
      all_close N a b = true <-> Forall2 (fun x y => isclose N x y = true) a b.
  Proof.
    induction a as [|x a IH]; destruct b as [|y b]; simpl; split; intro H;
      try discriminate; try constructor; try (inversion H; fail).
    - apply andb_true_iff in H. tauto.
    - apply IH. apply andb_true_iff in H. tauto.
    - inversion H; subst. apply andb_true_iff. split; [assumption | now apply IH].
  Qed.

  Theorem wf_eq_spec : forall w1 w2 s1 s2,
      samples N E w1 = Ok s1 -> samples N E w2 = Ok s2 ->
      exists b, wf_eq N E w1 w2 = Ok b /\
                (b = true <-> dur w1 = dur w2 /\
                              Forall2 (fun x y => isclose N x y = true) s1 s2).
  Proof.
    intros w1 w2 s1 s2 S1 S2. unfold wf_eq. rewrite S1, S2.
    destruct (Z.eqb_spec (dur w1) (dur w2)); simpl.
    - eexists; split; [reflexivity|]. rewrite all_close_Forall2. tauto.
    - exists false; split; [reflexivity|]. split; [discriminate | tauto].
  Qed.

  (** ** T5 (structural part): negation and division are scalings *)
  Theorem wneg_is_scale : forall w, wneg N w = wmul N (nopp N (n1 N)) w.
  Proof. reflexivity. Qed.

  Theorem wdiv_spec : forall k w,
      wdiv N k w = if neqb N k (n0 N) then Err EZeroDiv else Ok (wmul N (ndiv N (n1 N) k) w).
  Proof. reflexivity. Qed.

  Lemma dur_wmul : forall k w, dur (wmul N k w) = dur w.
  Proof.
    intros k. induction w using wf_ind2; simpl; try reflexivity.
    - now rewrite map_length.
    - change (dur (WComp (map (wmul N k) ws)) = dur (WComp ws)). rewrite !dur_comp.
      induction H; simpl; [reflexivity | congruence].
  Qed.

  (** ** T9 (structural part): what an accepted pulse satisfies *)
  Theorem pulse_new_spec : forall amp det phase post p,
      pulse_new N E amp det phase post = Ok p ->
      dur det = dur amp /\
      (exists sa, samples N E amp = Ok sa /\ Forall (fun x => nlt N x (n0 N) = false) sa) /\
      p_amp p = amp /\ p_det p = det /\
      p_phase p = nmodP N phase /\ p_post p = nmodP N post.
  Proof.
    intros amp det phase post p H. unfold pulse_new in H.
    destruct (Z.eqb_spec (dur det) (dur amp)); simpl in H; [|discriminate].
    apply rbind_ok in H as (sa & S & H).
    destruct (existsb _ sa) eqn:Ex; [discriminate|]. inversion H; subst; clear H. simpl.
    split; [assumption|]. split; [|auto].
    exists sa; split; [assumption|]. apply Forall_forall. intros x Hx.
    destruct (nlt N x (n0 N)) eqn:L; [|reflexivity].
    assert (existsb (fun x => nlt N x (n0 N)) sa = true) by (apply existsb_exists; eauto).
    congruence.
  Qed.

  Theorem pulse_new_rejects : forall amp det phase post,
      (dur det <> dur amp -> pulse_new N E amp det phase post = Err EValue) /\
      (forall sa x, dur det = dur amp -> samples N E amp = Ok sa -> In x sa ->
                    nlt N x (n0 N) = true -> pulse_new N E amp det phase post = Err EValue).
  Proof.
    intros. split.
    - intro Hd. unfold pulse_new. destruct (Z.eqb_spec (dur det) (dur amp)); [contradiction | reflexivity].
    - intros sa x Hd S Hin Hx. unfold pulse_new. rewrite Hd, Z.eqb_refl, S. simpl.
      replace (existsb (fun x => nlt N x (n0 N)) sa) with true; [reflexivity|].
      symmetry. apply existsb_exists. eauto.
  Qed.

  (** ** T8: the search loops of from_max_val *)

  (** BlackmanWaveform.from_max_val: the while loop stops at the first
      duration, counting up from the initial guess, whose scaling factor does
      not exceed max_val; [previous_wf] is the duration just before. *)
  Theorem bm_loop_post : forall fuel maxv area d prev d' prev',
      bm_loop N E fuel maxv area d prev = Ok (d', prev') ->
      d <= d' /\
      (exists s, bm_scaling N E area d' = Ok s /\ nlt N maxv s = false) /\
      (forall j, d <= j < d' -> exists s, bm_scaling N E area j = Ok s /\ nlt N maxv s = true) /\
      prev' = (if d' =? d then prev else Some (d' - 1)).
  Proof.
    induction fuel as [|f IH]; intros maxv area d prev d' prev' H; simpl in H;
      apply rbind_ok in H as (s & S & H); destruct (nlt N maxv s) eqn:L; try discriminate.
    - inversion H; subst. rewrite Z.eqb_refl. repeat split; try lia; eauto; intros; lia.
    - apply IH in H as (Hle & Hs & Hall & Hp).
      split; [lia|]. split; [assumption|]. split.
      + intros j Hj. destruct (Z.eq_dec j d) as [->|]; [eauto | apply Hall; lia].
      + subst prev'. destruct (Z.eqb_spec d' (d + 1)), (Z.eqb_spec d' d); try lia; [f_equal; lia | reflexivity].
    - inversion H; subst. rewrite Z.eqb_refl. repeat split; try lia; eauto; intros; lia.
  Qed.

  Theorem bm_from_max_val_post : forall fuel maxv area w,
      bm_from_max_val N E fuel maxv area = Ok w ->
      let sa := nsign N area in
      let area' := nmul N area (nofZ N sa) in
      let maxv' := nmul N maxv (nofZ N sa) in
      nsign N maxv = sa /\
      exists d0 d df,
        nceil N (nmul N (ndiv N area' (nmul N (k042 N) maxv')) (k1e3 N)) = Some d0 /\
        d0 <= d /\
        (exists s, bm_scaling N E area' d = Ok s /\ nlt N maxv' s = false) /\
        (forall j, d0 <= j < d -> exists s, bm_scaling N E area' j = Ok s /\ nlt N maxv' s = true) /\
        (df = d \/
         (df = d - 1 /\ d0 < d /\ Z.odd d = true /\
          exists m mp, bm_peak N E area' d = Ok m /\ bm_peak N E area' (d - 1) = Ok mp /\
                       nlt N m mp = true /\ nle N mp maxv' = true)) /\
        w = (if sa =? -1 then wneg N (WWin KBlackman df area' (n0 N))
             else WWin KBlackman df area' (n0 N)).
  Proof.
    intros fuel maxv area w H. cbv zeta. unfold bm_from_max_val in H.
    destruct (Z.eqb_spec (nsign N maxv) (nsign N area)); simpl in H; [|discriminate].
    split; [assumption|].
    destruct (nceil N _) as [d0|] eqn:C; [|discriminate].
    apply rbind_ok in H as ([d prev] & L & H).
    apply bm_loop_post in L as (Hle & Hs & Hall & Hp).
    apply rbind_ok in H as (df & D & H). inversion H; subst w; clear H.
    exists d0, d, df. split; [first [exact C | reflexivity]|]. split; [exact Hle|]. split; [exact Hs|].
    split; [exact Hall|]. split; [|reflexivity].
    destruct prev as [p|]; [|inversion D; auto].
    destruct (Z.eqb_spec d d0); [discriminate|]. inversion Hp; subst p; clear Hp.
    destruct (Z.odd d) eqn:O; [|inversion D; auto].
    apply rbind_ok in D as (m & M & D). apply rbind_ok in D as (mp & MP & D).
    destruct (nlt N m mp && nle N mp _) eqn:B; inversion D; subst; auto.
    apply andb_true_iff in B as [B1 B2]. right. repeat split; try lia; eauto 8.
  Qed.

  (** KaiserWaveform.from_max_val, long-window branch: the loop walks from the
      guess in direction [step] while sign(peak - max_val) = step. *)
  Theorem ks_loop_post : forall fuel maxv area beta step d mvt d',
      ks_loop N E fuel maxv area beta step d mvt = Ok d' ->
      exists n mv',
        0 <= n /\ d' = d + step * n /\
        (if n =? 0 then mv' = mvt else ks_peak N E area beta d' = Ok mv') /\
        (nsign N (nsub N mv' maxv) =? step) = false /\
        (0 < n -> nsign N (nsub N mvt maxv) = step) /\
        (forall i, 0 < i < n ->
                   exists m, ks_peak N E area beta (d + step * i) = Ok m /\
                             nsign N (nsub N m maxv) = step).
  Proof.
    induction fuel as [|f IH]; intros maxv area beta step d mvt d' H; simpl in H;
      destruct (Z.eqb_spec (nsign N (nsub N mvt maxv)) step) as [Es|Es]; try discriminate.
    - inversion H; subst. exists 0, mvt. simpl. repeat split; try lia; try (now apply Z.eqb_neq).
    - apply rbind_ok in H as (m & M & H). apply IH in H as (n & mv' & Hn & Hd & Hmv & Hst & Hfirst & Hall).
      exists (n + 1), mv'. split; [lia|]. split; [lia|].
      split.
      { destruct (Z.eqb_spec (n + 1) 0); [lia|].
        destruct (Z.eqb_spec n 0) as [->|]; [|assumption].
        rewrite Hd, Hmv. now replace (d + step + step * 0) with (d + step) by lia. }
      split; [assumption|]. split; [auto|].
      intros i Hi. destruct (Z.eq_dec i 1) as [->|].
      + replace (d + step * 1) with (d + step) by lia. exists m. split; [assumption|].
        destruct (Z.eqb_spec n 0) as [->|]; [lia|]. apply Hfirst. lia.
      + destruct (Hall (i - 1)) as (m' & M' & S'); [lia|].
        exists m'. split; [|assumption]. now replace (d + step * i) with (d + step + step * (i - 1)) by lia.
    - inversion H; subst. exists 0, mvt. simpl. repeat split; try lia; try (now apply Z.eqb_neq).
  Qed.

  (** short-window branch: exhaustive search over the listed durations.  The
      optimality statement needs [<] to be a strict order (true of IEEE
      comparison, NaN included, and of the rationals). *)
  Section Short.
    Hypothesis nlt_trans : forall a b c, nlt N a b = true -> nlt N b c = true -> nlt N a c = true.
    Hypothesis nlt_irrefl : forall a, nlt N a a = false.

    Theorem ks_short_post : forall ds maxv area beta best mvb best',
        ks_short N E ds maxv area beta best mvb = Ok best' ->
        exists mvb',
          (best' = best /\ mvb' = mvb \/
           In best' ds /\ ks_peak N E area beta best' = Ok mvb' /\ nle N mvb' maxv = true /\
           nlt N mvb mvb' = true) /\
          (forall d m, In d ds -> ks_peak N E area beta d = Ok m ->
                       nle N m maxv = true -> nlt N mvb' m = false).
    Proof.
      induction ds as [|d r IH]; intros maxv area beta best mvb best' H; simpl in H.
      - inversion H; subst. exists mvb. split; [auto|]. intros ? ? [].
      - apply rbind_ok in H as (mvt & P & H).
        destruct (nlt N mvb mvt && nle N mvt maxv) eqn:B.
        + apply andb_true_iff in B as [B1 B2].
          apply IH in H as (mvb' & Hsel & Hopt). exists mvb'. split.
          * right. destruct Hsel as [[-> ->] | (Hin & Hp & Hle & Hlt)].
            -- repeat split; auto. now left.
            -- repeat split; auto; [now right | eapply nlt_trans; eauto].
          * intros d1 m [<-|Hin] Pm Hle; [|eauto].
            rewrite P in Pm. inversion Pm; subst m.
            destruct Hsel as [[_ ->] | (_ & _ & _ & Hlt)]; [apply nlt_irrefl|].
            destruct (nlt N mvb' mvt) eqn:X; [|reflexivity].
            rewrite <- (nlt_irrefl mvt). symmetry. eapply nlt_trans; eauto.
        + apply IH in H as (mvb' & Hsel & Hopt). exists mvb'. split.
          * destruct Hsel as [[-> ->] | (Hin & Hp & Hle & Hlt)]; [now left|].
            right. repeat split; auto. now right.
          * intros d1 m [<-|Hin] Pm Hle; [|eauto].
            rewrite P in Pm. inversion Pm; subst m. rewrite Hle in B.
            rewrite andb_true_r in B.
            destruct Hsel as [[_ ->] | (_ & _ & _ & Hlt)]; [assumption|].
            destruct (nlt N mvb' mvt) eqn:X; [|reflexivity].
            rewrite <- B. symmetry. eapply nlt_trans; eauto.
    Qed.
  End Short.
End Generic.
