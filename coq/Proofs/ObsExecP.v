(** C20 lemmas, part 5: the executable instance (Gaussian integers) satisfies
    the hypotheses of the abstract development, so every abstract theorem holds
    of the model that is run against the implementation; signs and real parts
    (which need an order) are settled here; and the faithful model REFUTES the
    second moment and the variance on density matrices. *)
From Coq Require Import ZArith List Bool Lia Ring Ring_theory.
From PV Require Import Model.Base Model.ObsLin Model.ObsExec Proofs.ObsLinP Proofs.ObsTensorP.
Import ListNotations.
Open Scope Z_scope.

Lemma C_eq : forall a b : C, fst a = fst b -> snd a = snd b -> a = b.
Proof. intros [a1 a2] [b1 b2]; simpl; intros; subst; reflexivity. Qed.

Lemma C_ring : ring_theory c0 c1 cadd cmul csub copp (@eq C).
Proof.
  constructor; intros; apply C_eq; unfold csub; unfold cadd, cmul, copp, c0, c1; cbn [fst snd]; ring.
Qed.

Lemma cconj_add : forall a b, cconj (cadd a b) = cadd (cconj a) (cconj b).
Proof. intros. apply C_eq; unfold cconj, cadd; simpl; ring. Qed.
Lemma cconj_mul : forall a b, cconj (cmul a b) = cmul (cconj a) (cconj b).
Proof. intros. apply C_eq; unfold cconj, cmul; simpl; ring. Qed.
Lemma cconj_inv : forall a, cconj (cconj a) = a.
Proof. intros. apply C_eq; unfold cconj; simpl; ring. Qed.

(** ** the abstract theorems, closed, for the model that is executed *)
Theorem x_expect_correct : forall D A s, x_expect D A s = x_def_expect D A (x_rho s).
Proof. intros. eapply expect_correct; eauto using C_ring. Qed.

Theorem x_occupation_correct : forall d n one s i, (0 < d)%nat -> (i < n)%nat ->
  x_occupation d n one s i = def_occupation C c0 cadd d n one (x_rho s) i.
Proof. intros. eapply occupation_correct; eauto using C_ring. Qed.

Theorem x_correlation_correct : forall d n one s i j, (0 < d)%nat -> (i < n)%nat -> (j < n)%nat ->
  x_correlation d n one s i j = def_correlation C c0 cadd d n one (x_rho s) i j.
Proof. intros. eapply correlation_correct; eauto using C_ring. Qed.

Local Ltac close_hyps := eauto using C_ring, cconj_add, cconj_mul, cconj_inv.

Lemma x_inner_HH : forall D H v, hermitian C cconj D H ->
  inner C c0 cadd cmul cconj D (mvec C c0 cadd cmul D H v) (mvec C c0 cadd cmul D H v) =
  inner C c0 cadd cmul cconj D v (mvec C c0 cadd cmul D (mmul C c0 cadd cmul D H H) v).
Proof. intros. eapply inner_HH; close_hyps. Qed.

Lemma x_ket_trace : forall D A v,
  inner C c0 cadd cmul cconj D v (mvec C c0 cadd cmul D A v) =
  trace C c0 cadd D (mmul C c0 cadd cmul D (outer C cmul cconj v) A).
Proof. intros. eapply expect_ket_trace; close_hyps. Qed.

Lemma x_sm_pure : forall D H v, hermitian C cconj D H ->
  x_m2_sq D H (Ket C v) = nrm2 C cmul cconj (x_def_m2 D H (x_rho (Ket C v))).
Proof. intros. eapply second_moment_pure; close_hyps. Qed.

Lemma x_vs_pure : forall D H v,
  x_var_sub D H (Ket C v) = nrm2 C cmul cconj (x_def_expect D H (x_rho (Ket C v))).
Proof. intros. eapply variance_sub_pure; close_hyps. Qed.

Lemma x_energy_real : forall D H v, hermitian C cconj D H ->
  cconj (x_def_expect D H (x_rho (Ket C v))) = x_def_expect D H (x_rho (Ket C v)).
Proof. intros. eapply energy_pure_real; close_hyps. Qed.

(** ** signs: <phi|phi> is a non-negative real *)
Lemma inner_self_nonneg : forall D (v : cvec),
  0 <= fst (inner C c0 cadd cmul cconj D v v) /\ snd (inner C c0 cadd cmul cconj D v v) = 0.
Proof.
  induction D; intros v; unfold inner in *; simpl.
  - split; reflexivity.
  - destruct (IHD v) as [H1 H2]. destruct (v D) as [a b]. simpl. split; nia.
Qed.

(** EnergySecondMoment on a ket: the quantity under the code's square root is
    exactly the square of the non-negative real [Tr(rho H^2)]; hence the code's
    value IS the second moment. *)
Theorem x_second_moment_pure : forall D H v, hermitian C cconj D H ->
  let m := x_def_m2 D H (x_rho (Ket C v)) in
  snd m = 0 /\ 0 <= fst m /\ x_m2_sq D H (Ket C v) = (fst m * fst m, 0).
Proof.
  intros D H v HH m.
  assert (Em : m = inner C c0 cadd cmul cconj D (mvec C c0 cadd cmul D H v) (mvec C c0 cadd cmul D H v)).
  { unfold m, x_def_m2, x_rho, def_m2. simpl.
    rewrite <- x_ket_trace. symmetry. apply x_inner_HH. assumption. }
  destruct (inner_self_nonneg D (mvec C c0 cadd cmul D H v)) as [Hn Hi].
  rewrite <- Em in Hn, Hi.
  split; [assumption|]. split; [assumption|].
  rewrite x_sm_pure by assumption. fold m.
  unfold nrm2, cmul, cconj. destruct m as [a b]. simpl in *. subst b.
  f_equal; ring.
Qed.

(** EnergyVariance on a ket: the subtracted term is the square of the (real) energy *)
Theorem x_variance_sub_pure : forall D H v, hermitian C cconj D H ->
  let e := x_def_expect D H (x_rho (Ket C v)) in
  snd e = 0 /\ x_var_sub D H (Ket C v) = (fst e * fst e, 0).
Proof.
  intros D H v HH e.
  assert (Hr : cconj e = e) by (apply x_energy_real; assumption).
  assert (Hs : snd e = 0).
  { destruct e as [a b]. unfold cconj in Hr. simpl in *. inversion Hr. lia. }
  split; [assumption|].
  rewrite x_vs_pure. fold e.
  unfold nrm2, cmul, cconj. destruct e as [a b]. simpl in *. subst b. f_equal; ring.
Qed.

(** ** refutations on density matrices: rho = I/2 (entries over 2), H = diag(1,2) *)
Definition w_H : cmat := mat_of_rows [[(1, 0); (0, 0)]; [(0, 0); (2, 0)]].
Definition w_rho : cmat := mat_of_rows [[(1, 0); (0, 0)]; [(0, 0); (1, 0)]].   (* over 2 *)

Lemma w_H_hermitian : hermitian C cconj 2 w_H.
Proof.
  intros i j Hi Hj.
  destruct i as [|[|i]]; destruct j as [|[|j]]; try lia; reflexivity.
Qed.
Lemma w_rho_hermitian : hermitian C cconj 2 w_rho.
Proof.
  intros i j Hi Hj.
  destruct i as [|[|i]]; destruct j as [|[|j]]; try lia; reflexivity.
Qed.

(** code: sqrt(17/4) = 2.0616; definition: Tr(rho H^2) = 5/2, square 25/4 *)
Theorem second_moment_mixed_refuted : exists D H M,
  hermitian C cconj D H /\ hermitian C cconj D M /\
  x_m2_sq D H (Dm C M) = (17, 0) /\ x_def_m2 D H M = (5, 0) /\
  fst (x_m2_sq D H (Dm C M)) <> fst (x_def_m2 D H M) * fst (x_def_m2 D H M).
Proof.
  exists 2%nat, w_H, w_rho.
  split; [apply w_H_hermitian|]. split; [apply w_rho_hermitian|].
  split; [vm_compute; reflexivity|]. split; [vm_compute; reflexivity|].
  vm_compute. discriminate.
Qed.

(** code subtracts Tr(rho H rho H) = 5/4; definition subtracts (Tr rho H)^2 = 9/4 *)
Theorem variance_mixed_refuted : exists D H M,
  hermitian C cconj D H /\ hermitian C cconj D M /\
  x_var_sub D H (Dm C M) = (5, 0) /\ x_def_expect D H M = (3, 0) /\
  fst (x_var_sub D H (Dm C M)) <> fst (x_def_expect D H M) * fst (x_def_expect D H M).
Proof.
  exists 2%nat, w_H, w_rho.
  split; [apply w_H_hermitian|]. split; [apply w_rho_hermitian|].
  split; [vm_compute; reflexivity|]. split; [vm_compute; reflexivity|].
  vm_compute. discriminate.
Qed.

(** the proposed fix is right on the same witness (and in general:
    [fixed_second_moment_correct]) *)
Example fixed_second_moment_witness :
  x_expect 2 (delta C c0 c1) (x_apply 2 w_H (Dm C w_rho)) = x_def_m2 2 w_H w_rho.
Proof. vm_compute. reflexivity. Qed.

(** the hypotheses of the abstract development are satisfiable *)
Example hypotheses_satisfiable :
  ring_theory c0 c1 cadd cmul csub copp (@eq C) /\
  (forall a b, cconj (cadd a b) = cadd (cconj a) (cconj b)) /\
  (forall a b, cconj (cmul a b) = cmul (cconj a) (cconj b)) /\
  (forall a, cconj (cconj a) = a).
Proof.
  split; [apply C_ring|]. split; [apply cconj_add|]. split; [apply cconj_mul|apply cconj_inv].
Qed.
