(** C20 lemmas, part 5: the executable instance (Gaussian integers) satisfies
    the hypotheses of the abstract development, so every abstract theorem holds
    of the model that is run against the implementation; signs and real parts
    (which need an order) are settled here; and the faithful model REFUTES the
    second moment and the variance on density matrices. *)
From Coq Require Import ZArith List Bool Lia Ring Ring_theory.
From PV Require Import Model.Base Model.ObsLin Model.ObsExec Proofs.ObsLinP Proofs.ObsTensorP.
Import ListNotations.
Open Scope Z_scope.

Lemma C_eq : forall a b : C, fst a = fst b -> snd a = snd b -> a = b.
Proof. intros [a1 a2] [b1 b2]; simpl; intros; subst; reflexivity. Qed.

Lemma C_ring : ring_theory c0 c1 cadd cmul csub copp (@eq C).
Proof.
  constructor; intros; apply C_eq; unfold csub; unfold cadd, cmul, copp, c0, c1; cbn [fst snd]; ring.
Qed.

Lemma cconj_add : forall a b, cconj (cadd a b) = cadd (cconj a) (cconj b).
Proof. intros. apply C_eq; unfold cconj, cadd; simpl; ring. Qed.
Lemma cconj_mul : forall a b, cconj (cmul a b) = cmul (cconj a) (cconj b).
Proof. intros. apply C_eq; unfold cconj, cmul; simpl; ring. Qed.
Lemma cconj_inv : forall a, cconj (cconj a) = a.
Proof. intros. apply C_eq; unfold cconj; simpl; ring. Qed.

(** ** the abstract theorems, closed, for the model that is executed *)
Theorem x_expect_correct : forall D A s, x_expect D A s = x_def_expect D A (x_rho s).
Proof. intros. eapply expect_correct; eauto using C_ring. Qed.

Theorem x_occupation_correct : forall d n one s i, (0 < d)%nat -> (i < n)%nat ->
  x_occupation d n one s i = def_occupation C c0 cadd d n one (x_rho s) i.
Proof. intros. eapply occupation_correct; eauto using C_ring. Qed.

Theorem x_correlation_correct : forall d n one s i j, (0 < d)%nat -> (i < n)%nat -> (j < n)%nat ->
  x_correlation d n one s i j = def_correlation C c0 cadd d n one (x_rho s) i j.
Proof. intros. eapply correlation_correct; eauto using C_ring. Qed.

Local Ltac close_hyps := eauto using C_ring, cconj_add, cconj_mul, cconj_inv.

Lemma x_inner_HH : forall D H v, hermitian C cconj D H ->
  inner C c0 cadd cmul cconj D (mvec C c0 cadd cmul D H v) (mvec C c0 cadd cmul D H v) =
  inner C c0 cadd cmul cconj D v (mvec C c0 cadd cmul D (mmul C c0 cadd cmul D H H) v).
Proof. intros. eapply inner_HH; close_hyps. Qed.

Lemma x_ket_trace : forall D A v,
  inner C c0 cadd cmul cconj D v (mvec C c0 cadd cmul D A v) =
  trace C c0 cadd D (mmul C c0 cadd cmul D (outer C cmul cconj v) A).
Proof. intros. eapply expect_ket_trace; close_hyps. Qed.

(** EnergySecondMoment and EnergyVariance of the executed model, every state *)
Theorem x_second_moment_correct : forall d n H s, (0 < d)%nat -> hermitian C cconj (d ^ n) H ->
  x_m2 d n H s = x_def_m2 (d ^ n) H (x_rho s).
Proof. intros. eapply second_moment_correct; close_hyps. Qed.

Theorem x_variance_correct : forall d n H s, (0 < d)%nat -> hermitian C cconj (d ^ n) H ->
  x_variance d n H s = x_def_variance (d ^ n) H (x_rho s).
Proof. intros. eapply variance_correct; close_hyps. Qed.

(** real parts lose nothing: for Hermitian rho and H the energy and the second
    moment have no imaginary part *)
Theorem x_energy_real : forall D H rho, hermitian C cconj D H -> hermitian C cconj D rho ->
  snd (x_def_expect D H rho) = 0.
Proof.
  intros D H rho HH Hr.
  assert (E : cconj (x_def_expect D H rho) = x_def_expect D H rho).
  { eapply def_expect_real; close_hyps. }
  destruct (x_def_expect D H rho) as [a b]. unfold cconj in E. simpl in *. inversion E. lia.
Qed.

(** ** signs: <phi|phi> is a non-negative real, hence the second moment of a
    pure state is *)
Lemma inner_self_nonneg : forall D (v : cvec),
  0 <= fst (inner C c0 cadd cmul cconj D v v) /\ snd (inner C c0 cadd cmul cconj D v v) = 0.
Proof.
  induction D; intros v; unfold inner in *; simpl.
  - split; reflexivity.
  - destruct (IHD v) as [H1 H2]. destruct (v D) as [a b]. simpl. split; nia.
Qed.

Theorem x_second_moment_pure_nonneg : forall D H v, hermitian C cconj D H ->
  let m := x_def_m2 D H (x_rho (Ket C v)) in snd m = 0 /\ 0 <= fst m.
Proof.
  intros D H v HH m.
  assert (Em : m = inner C c0 cadd cmul cconj D (mvec C c0 cadd cmul D H v) (mvec C c0 cadd cmul D H v)).
  { unfold m, x_def_m2, x_rho, def_m2. simpl.
    rewrite <- x_ket_trace. symmetry. apply x_inner_HH. assumption. }
  destruct (inner_self_nonneg D (mvec C c0 cadd cmul D H v)) as [Hn Hi].
  rewrite <- Em in Hn, Hi. split; assumption.
Qed.

(** ** the former counterexample (rho = I/2 over 2, H = diag(1,2)): before the
    repair 2eafc757 the code gave sqrt(17/4) and subtracted 5/4; now the second
    moment is 5/2 and the energy 3/2 (variance 5/2 - 9/4 = 1/4), as defined *)
Definition w_H : cmat := mat_of_rows [[(1, 0); (0, 0)]; [(0, 0); (2, 0)]].
Definition w_rho : cmat := mat_of_rows [[(1, 0); (0, 0)]; [(0, 0); (1, 0)]].   (* over 2 *)

Lemma w_H_hermitian : hermitian C cconj 2 w_H.
Proof.
  intros i j Hi Hj.
  destruct i as [|[|i]]; destruct j as [|[|j]]; try lia; reflexivity.
Qed.
Lemma w_rho_hermitian : hermitian C cconj 2 w_rho.
Proof.
  intros i j Hi Hj.
  destruct i as [|[|i]]; destruct j as [|[|j]]; try lia; reflexivity.
Qed.

Theorem second_moment_mixed_witness :
  hermitian C cconj 2 w_H /\ hermitian C cconj 2 w_rho /\
  x_m2 2 1 w_H (Dm C w_rho) = (5, 0) /\ x_def_m2 2 w_H w_rho = (5, 0).
Proof.
  split; [apply w_H_hermitian|]. split; [apply w_rho_hermitian|].
  split; vm_compute; reflexivity.
Qed.

Theorem variance_mixed_witness :
  x_m2 2 1 w_H (Dm C w_rho) = (5, 0) /\ x_expect 2 w_H (Dm C w_rho) = (3, 0) /\
  x_def_m2 2 w_H w_rho = (5, 0) /\ x_def_expect 2 w_H w_rho = (3, 0).
Proof. repeat split; vm_compute; reflexivity. Qed.

(** the hypotheses of the abstract development are satisfiable *)
Example hypotheses_satisfiable :
  ring_theory c0 c1 cadd cmul csub copp (@eq C) /\
  (forall a b, cconj (cadd a b) = cadd (cconj a) (cconj b)) /\
  (forall a b, cconj (cmul a b) = cmul (cconj a) (cconj b)) /\
  (forall a, cconj (cconj a) = a).
Proof.
  split; [apply C_ring|]. split; [apply cconj_add|]. split; [apply cconj_mul|apply cconj_inv].
Qed.
