(** C04 - lemmas about the abstract-representation codec model
    (Model/AbsRepr.v): dictionary laws, round trip of parameters / variable
    expressions, of waveforms, pulses and operations in canonical form,
    agreement of the regenerated default / signature tables. *)
From Coq Require Import ZArith List Bool String Ascii Lia.
From Coq Require Import PrimFloat.
From PV Require Import Model.Base Model.AbsJson Gen.AbsSig Gen.AbsSchema Model.AbsRepr.
Import ListNotations.
Open Scope string_scope.
Open Scope list_scope.
Open Scope Z_scope.

(** * Python dictionaries *)
Section DictLaws.
  Context {A : Type}.
  Implicit Types d kvs : list (string * A).

  Lemma dget_dset : forall d k k' (v : A),
      dget k (dset k' v d) = if String.eqb k k' then Some v else dget k d.
  Proof.
    induction d as [|[k0 v0] r IH]; intros k k' v; simpl.
    - rewrite (String.eqb_sym k k'). destruct (String.eqb k' k); reflexivity.
    - destruct (String.eqb k' k0) eqn:E; simpl.
      + apply String.eqb_eq in E; subst k0.
        destruct (String.eqb k k') eqn:E2; reflexivity.
      + rewrite IH. destruct (String.eqb k k') eqn:E2; [|reflexivity].
        destruct (String.eqb k k0) eqn:E3; [|reflexivity].
        apply String.eqb_eq in E2. apply String.eqb_eq in E3. subst.
        rewrite String.eqb_refl in E. discriminate.
  Qed.

  Lemma dget_app : forall d1 d2 k,
      dget k (d1 ++ d2) = match dget k d1 with Some v => Some v | None => dget k d2 end.
  Proof.
    induction d1 as [|[k0 v0] r IH]; intros; simpl; [reflexivity|].
    destruct (String.eqb k k0); [reflexivity|apply IH].
  Qed.

  (** later entries win: [dict.update] *)
  Lemma dget_dupdate : forall kvs d k,
      dget k (dupdate d kvs) =
      match dget k (rev kvs) with Some v => Some v | None => dget k d end.
  Proof.
    unfold dupdate.
    induction kvs as [|[k0 v0] r IH]; intros d k; simpl; [reflexivity|].
    rewrite IH, dget_app. simpl.
    destruct (dget k (rev r)); [reflexivity|].
    rewrite dget_dset. destruct (String.eqb k k0); reflexivity.
  Qed.

  Lemma dget_not_in : forall d k, ~ In k (keys d) -> dget k d = None.
  Proof.
    induction d as [|[k0 v0] r IH]; intros k H; simpl; [reflexivity|].
    destruct (String.eqb k k0) eqn:E.
    - apply String.eqb_eq in E. subst. exfalso. apply H. left. reflexivity.
    - apply IH. intro. apply H. right. assumption.
  Qed.

  (** on a dictionary (distinct keys) lookup does not depend on the direction *)
  Lemma dget_rev_nodup : forall d k, NoDup (keys d) -> dget k (rev d) = dget k d.
  Proof.
    induction d as [|[k0 v0] r IH]; intros k H; simpl; [reflexivity|].
    inversion H; subst. rewrite dget_app, IH by assumption. simpl.
    destruct (String.eqb k k0) eqn:E.
    - apply String.eqb_eq in E. subst. rewrite dget_not_in by assumption. reflexivity.
    - destruct (dget k r); reflexivity.
  Qed.

  Lemma keys_dset : forall d k (v : A),
      keys (dset k v d) = if str_in k (keys d) then keys d else keys d ++ [k].
  Proof.
    unfold keys, str_in.
    induction d as [|[k0 v0] r IH]; intros k v; simpl; [reflexivity|].
    destruct (String.eqb k k0) eqn:E; simpl; [reflexivity|].
    rewrite IH. destruct (existsb (String.eqb k) (map fst r)); reflexivity.
  Qed.

  Lemma str_in_In : forall k l, str_in k l = true <-> In k l.
  Proof.
    unfold str_in. intros. rewrite existsb_exists. split.
    - intros [x [H1 H2]]. apply String.eqb_eq in H2. subst. assumption.
    - intro. exists k. split; [assumption|apply String.eqb_refl].
  Qed.

  Lemma nodup_snoc : forall (l : list string) k, NoDup l -> ~ In k l -> NoDup (l ++ [k]).
  Proof.
    induction l as [|x r IH]; intros k H Hn; simpl.
    - constructor; [intros []|constructor].
    - inversion H; subst. constructor.
      + intro Hin. apply in_app_or in Hin. destruct Hin as [Hin|[Hin|[]]].
        * contradiction.
        * subst. apply Hn. left. reflexivity.
      + apply IH; [assumption|]. intro. apply Hn. right. assumption.
  Qed.

  (** assignment keeps a dictionary a dictionary *)
  Lemma nodup_dset : forall d k (v : A), NoDup (keys d) -> NoDup (keys (dset k v d)).
  Proof.
    intros. rewrite keys_dset. destruct (str_in k (keys d)) eqn:E; [assumption|].
    apply nodup_snoc; [assumption|].
    intro Hin. apply str_in_In in Hin. congruence.
  Qed.

  Lemma nodup_dupdate : forall kvs d, NoDup (keys d) -> NoDup (keys (dupdate d kvs)).
  Proof.
    unfold dupdate. induction kvs as [|[k v] r IH]; intros; simpl; [assumption|].
    apply IH. apply nodup_dset. assumption.
  Qed.

  (** [{"op": t, **data}] when data is a dictionary without the key "op" *)
  Lemma dupdate_fresh : forall kvs d,
      NoDup (keys d ++ keys kvs) -> dupdate d kvs = d ++ kvs.
  Proof.
    unfold dupdate. induction kvs as [|[k v] r IH]; intros d H; simpl.
    - rewrite app_nil_r. reflexivity.
    - assert (Hd : dset k v d = d ++ [(k, v)]).
      { clear IH. induction d as [|[k0 v0] r0 IHd]; simpl; [reflexivity|].
        simpl in H. inversion H; subst.
        destruct (String.eqb k k0) eqn:E.
        - apply String.eqb_eq in E. subst. exfalso. apply H2.
          apply in_or_app. right. left. reflexivity.
        - f_equal. apply IHd. assumption. }
      rewrite Hd, IH.
      + rewrite <- app_assoc. reflexivity.
      + unfold keys in *. rewrite map_app. simpl. rewrite <- app_assoc. simpl. assumption.
  Qed.
End DictLaws.

(** * mapM / dget_with *)
Lemma mapM_app : forall {A B} (f : A -> option B) l1 l2,
    mapM f (l1 ++ l2) =
    match mapM f l1, mapM f l2 with Some a, Some b => Some (a ++ b) | _, _ => None end.
Proof.
  induction l1 as [|a r IH]; intros; simpl.
  - destruct (mapM f l2); reflexivity.
  - destruct (f a); simpl; [|reflexivity]. rewrite IH.
    destruct (mapM f r); simpl; [|reflexivity]. destruct (mapM f l2); reflexivity.
Qed.

Lemma dget_with_spec : forall {A B} (f : A -> option B) k d,
    dget_with f k d = match dget k d with Some v => f v | None => None end.
Proof.
  induction d as [|[k0 v0] r IH]; simpl; [reflexivity|].
  destruct (String.eqb k k0); [reflexivity|apply IH].
Qed.

Lemma mapM_ext_Forall : forall {A B} (f g : A -> option B) l,
    Forall (fun x => f x = g x) l -> mapM f l = mapM g l.
Proof.
  induction 1; simpl; [reflexivity|]. rewrite H, IHForall. reflexivity.
Qed.

(** * An induction principle for [val] that reaches nested values *)
Section ValInd.
  Variable P : val -> Prop.
  Hypothesis HNone : P VNone.
  Hypothesis HBool : forall b, P (VBool b).
  Hypothesis HInt : forall z, P (VInt z).
  Hypothesis HFlt : forall f, P (VFlt f).
  Hypothesis HStr : forall s, P (VStr s).
  Hypothesis HList : forall l, Forall P l -> P (VList l).
  Hypothesis HJson : forall j, P (VJson j).
  Hypothesis HVar : forall n s, P (VVar n s).
  Hypothesis HItem : forall n s k, P (VItem n s k).
  Hypothesis HClass : forall n, P (VClass n).
  Hypothesis HObj : forall n a k, Forall P a -> Forall (fun kv => P (snd kv)) k -> P (VObj n a k).
  Hypothesis HPObj : forall n a k, Forall P a -> Forall (fun kv => P (snd kv)) k -> P (VPObj n a k).

  Fixpoint val_ind' (v : val) : P v :=
    let fix go (l : list val) : Forall P l :=
      match l with
      | [] => Forall_nil _
      | x :: r => Forall_cons _ (val_ind' x) (go r)
      end in
    let fix gok (l : list (string * val)) : Forall (fun kv => P (snd kv)) l :=
      match l with
      | [] => Forall_nil _
      | (k, x) :: r => Forall_cons (k, x) (val_ind' x) (gok r)
      end in
    match v with
    | VNone => HNone
    | VBool b => HBool b
    | VInt z => HInt z
    | VFlt f => HFlt f
    | VStr s => HStr s
    | VList l => HList l (go l)
    | VJson j => HJson j
    | VVar n s => HVar n s
    | VItem n s k => HItem n s k
    | VClass n => HClass n
    | VObj n a k => HObj n a k (go a) (gok k)
    | VPObj n a k => HPObj n a k (go a) (gok k)
    end.
End ValInd.

(** * Literals *)
Fixpoint is_lit (v : val) : bool :=
  match v with
  | VInt _ | VFlt _ | VStr _ | VBool _ | VNone => true
  | VList l => forallb is_lit l
  | _ => false
  end.

Lemma lit_roundtrip : forall v, is_lit v = true ->
    exists j, enc v = Some j /\ lit_of_json j = Some v /\
              (match j with JObj _ => False | _ => True end) /\ norm v = Some v.
Proof.
  induction v using val_ind'; simpl; intro Hl; try discriminate;
    try (eexists; repeat split; reflexivity).
  rename H into HF.
  assert (HL : exists js, mapM enc l = Some js /\ mapM lit_of_json js = Some l /\ mapM norm l = Some l).
  { induction l as [|x r IHr]; simpl in *.
    - exists []. repeat split.
    - apply andb_prop in Hl. destruct Hl as [Hx Hr].
      inversion HF; subst.
      destruct (H1 Hx) as [j [E1 [E2 [_ E3]]]].
      destruct (IHr H2 Hr) as [js [F1 [F2 F3]]].
      exists (j :: js). rewrite E1, F1, E3, F3. simpl. rewrite E2, F2. repeat split. }
  destruct HL as [js [F1 [F2 F3]]].
  exists (JArr js). rewrite F1, F3. simpl. rewrite F2. repeat split.
Qed.

Lemma lit_dec_param : forall vars j v,
    lit_of_json j = Some v -> (match j with JObj _ => False | _ => True end) ->
    dec_param vars j = Some v.
Proof. intros vars j v H1 H2. destruct j; simpl in *; try assumption. contradiction. Qed.

Lemma lit_not_param : forall v, is_lit v = true -> is_param v = false.
Proof. destruct v; simpl; intros; try reflexivity; discriminate. Qed.

(** * Parameters: literals, variables, items, operator expressions *)
Definition var_ok (vars : vars_ctx) (n : string) (size : Z) : bool :=
  match dget n vars with Some s => Z.eqb s size | None => false end.

Definition key_wf (size : Z) (k : key) : bool :=
  match k with
  | KInt i => (- size <=? i) && (i <? size)
  | KList l => forallb (fun i => (- size <=? i) && (i <? size)) l
  | KSlice a b c =>
      match slice_indices size a b c with
      | Some l => forallb (fun i => (- size <=? i) && (i <? size)) l
      | None => false
      end
  end.

Definition plain_op (op : string) : bool :=
  (str_in op gen_unary_ops || str_in op gen_binary_ops)
  && negb (String.eqb op "index")
  && match find_sig op with Some _ => String.eqb op "truediv" | None => true end.

Fixpoint wf_par (vars : vars_ctx) (v : val) {struct v} : bool :=
  match v with
  | VInt _ | VFlt _ => true
  | VList l => forallb is_lit l
  | VVar n size => var_ok vars n size
  | VItem n size k => var_ok vars n size && key_wf size k && (0 <? size)
  | VPObj op args [] =>
      plain_op op &&
      match args with
      | [a] => str_in op gen_unary_ops && wf_par vars a && is_param a
      | [a; b] => str_in op gen_binary_ops && wf_par vars a && wf_par vars b
                  && (is_param a || is_param b)
      | _ => false
      end
  | _ => false
  end.

(** case analysis on an option-monadic computation that is known to succeed *)
Ltac crush H :=
  repeat (simpl in H; unfold obind in H; simpl in H;
          match type of H with
          | Some _ = Some _ => inversion H; subst; clear H
          | None = Some _ => discriminate H
          | (if ?c then _ else _) = Some _ => destruct c eqn:?
          | match ?x with _ => _ end = Some _ => destruct x eqn:?
          end).

Lemma norm_is_param : forall v v', norm v = Some v' -> is_param v' = is_param v.
Proof.
  destruct v; intros v' H; try (simpl in H; inversion H; subst; reflexivity).
  - crush H; reflexivity.
  - simpl in H. inversion H; subst. destruct j; simpl; try reflexivity.
    destruct (mapM lit_of_json l); reflexivity.
  - crush H; reflexivity.
  - crush H; reflexivity.
  - crush H. unfold norm_pobj in H. crush H; reflexivity.
Qed.

(** turn [str_in op <concrete list> = true] into one goal per element *)
Ltac cases_in H :=
  unfold str_in in H; simpl in H;
  repeat (apply orb_prop in H; destruct H as [H|H]);
  try discriminate H;
  apply String.eqb_eq in H; subst.

Lemma wf_par_not_class : forall vars a, wf_par vars a = true ->
    forall (T : Type) (X : string -> T) (Y : T),
      match a with VClass c => X c | _ => Y end = Y.
Proof. destruct a; simpl; intros; try reflexivity; discriminate. Qed.

Lemma arg_ev_wf : forall vars a, wf_par vars a = true ->
    arg_ev enc a = (do j <- enc a; Some (j, val_len a)).
Proof. destruct a; simpl; intros; try reflexivity; discriminate. Qed.

Lemma first_class_wf : forall vars a r, wf_par vars a = true -> first_class (a :: r) = None.
Proof. destruct a; simpl; intros; try reflexivity; discriminate. Qed.

Lemma enc_pobj_unfold : forall op args,
    enc (VPObj op args []) =
    (do a <- mapM (arg_ev enc) args; pobj_repr op a (first_class args) []).
Proof. reflexivity. Qed.

Definition expr_tag (op : string) : string := if String.eqb op "truediv" then "div" else op.

Lemma enc_unary : forall vars op a ja,
    str_in op gen_unary_ops = true -> wf_par vars a = true -> enc a = Some ja ->
    enc (VPObj op [a] []) = Some (JObj [("expression", JStr op); ("lhs", ja)]).
Proof.
  intros vars op a ja Hop Ha Ea.
  rewrite enc_pobj_unfold, (first_class_wf vars) by assumption. simpl.
  rewrite (arg_ev_wf vars) by assumption. rewrite Ea. simpl.
  cases_in Hop; reflexivity.
Qed.

Lemma enc_binary : forall vars op a b ja jb,
    str_in op gen_binary_ops = true -> String.eqb op "index" = false ->
    wf_par vars a = true -> wf_par vars b = true -> enc a = Some ja -> enc b = Some jb ->
    enc (VPObj op [a; b] []) =
    Some (JObj [("expression", JStr (expr_tag op)); ("lhs", ja); ("rhs", jb)]).
Proof.
  intros vars op a b ja jb Hop Hi Ha Hb Ea Eb.
  rewrite enc_pobj_unfold, (first_class_wf vars) by assumption. simpl.
  rewrite (arg_ev_wf vars a), (arg_ev_wf vars b) by assumption. rewrite Ea, Eb. simpl.
  cases_in Hop; try discriminate Hi; reflexivity.
Qed.

Lemma dec_unary : forall vars op ja a',
    str_in op gen_unary_ops = true ->
    dec_param vars ja = Some a' -> is_param a' = true ->
    dec_param vars (JObj [("expression", JStr op); ("lhs", ja)]) = Some (VPObj op [a'] []).
Proof.
  intros vars op ja a' Hop Ea Hp.
  cases_in Hop; simpl; rewrite Ea; simpl; rewrite Hp; reflexivity.
Qed.

Lemma dec_binary : forall vars op ja jb a' b',
    str_in op gen_binary_ops = true -> String.eqb op "index" = false ->
    dec_param vars ja = Some a' -> dec_param vars jb = Some b' ->
    is_param a' || is_param b' = true ->
    dec_param vars (JObj [("expression", JStr (expr_tag op)); ("lhs", ja); ("rhs", jb)])
    = Some (VPObj op [a'; b'] []).
Proof.
  intros vars op ja jb a' b' Hop Hi Ea Eb Hp.
  cases_in Hop; try discriminate Hi; simpl; rewrite Ea, Eb; simpl; rewrite Hp; reflexivity.
Qed.

Arguments jkey : simpl never.
Arguments jints : simpl never.

Lemma jkey_jints : forall l, jkey (jints l) = Some (KList l).
Proof.
  intro l. unfold jkey, jints.
  assert (H : mapM (fun x => match x with JInt z => Some z | _ => None end) (map JInt l) = Some l).
  { induction l as [|x r IH]; simpl; [reflexivity|]. rewrite IH. reflexivity. }
  rewrite H. reflexivity.
Qed.

Lemma drop_class_wf : forall vars a r, wf_par vars a = true ->
    match a :: r with VClass _ :: r' => r' | _ => a :: r end = a :: r.
Proof. destruct a; simpl; intros; try reflexivity; discriminate. Qed.

Lemma norm_pobj_unfold : forall op args,
    norm (VPObj op args []) =
    (do a <- mapM norm (match args with VClass _ :: r => r | _ => args end);
     norm_pobj op (first_class args) a []).
Proof. reflexivity. Qed.

Lemma norm_unary : forall vars op a a',
    str_in op gen_unary_ops = true -> norm a = Some a' -> wf_par vars a = true ->
    norm (VPObj op [a] []) = Some (VPObj op [a'] []).
Proof.
  intros vars op a a' Hop Na Wa.
  rewrite norm_pobj_unfold, (drop_class_wf vars), (first_class_wf vars) by assumption.
  change (mapM norm [a]) with (do b <- norm a; do bs <- Some []; Some (b :: bs)).
  rewrite Na. unfold obind, norm_pobj. rewrite Hop. reflexivity.
Qed.

Lemma norm_binary : forall vars op a b a' b',
    str_in op gen_binary_ops = true -> str_in op gen_unary_ops = false ->
    norm a = Some a' -> norm b = Some b' -> wf_par vars a = true ->
    norm (VPObj op [a; b] []) = Some (VPObj op [a'; b'] []).
Proof.
  intros vars op a b a' b' Hop Hnu Na Nb Wa.
  rewrite norm_pobj_unfold, (drop_class_wf vars), (first_class_wf vars) by assumption.
  change (mapM norm [a; b]) with
      (do x <- norm a; do xs <- (do y <- norm b; do ys <- Some []; Some (y :: ys)); Some (x :: xs)).
  rewrite Na, Nb. unfold obind, norm_pobj. rewrite Hnu, Hop. reflexivity.
Qed.

Lemma wf_par_no_class : forall vars a, wf_par vars a = true -> forall c, a <> VClass c.
Proof. intros vars a H c E. subst. discriminate. Qed.

Lemma binary_not_unary : forall op, str_in op gen_binary_ops = true -> str_in op gen_unary_ops = false.
Proof. intros op H. cases_in H; reflexivity. Qed.

Lemma forall_range : forall size l,
    forallb (fun i => (- size <=? i) && (i <? size)) l = true ->
    key_in_range size (KList l) = true.
Proof. intros. exact H. Qed.

(** ** Round trip of parameters: literal numbers and arrays, variables,
    variable items (negative indices and slices resolved), operator
    expressions of any depth *)
Lemma dec_enc_param : forall vars v, wf_par vars v = true ->
    exists j v', enc v = Some j /\ norm v = Some v' /\ dec_param vars j = Some v'.
Proof.
  intros vars v. induction v using val_ind'; intro W; simpl in W; try discriminate.
  - exists (JInt z), (VInt z). repeat split.
  - exists (JFlt f), (VFlt f). repeat split.
  - assert (L : is_lit (VList l) = true) by exact W.
    destruct (lit_roundtrip _ L) as [j [E1 [E2 [E3 E4]]]].
    exists j, (VList l). repeat split; try assumption.
    apply lit_dec_param; assumption.
  - exists (JObj [("variable", JStr n)]), (VVar n s). repeat split.
    simpl. unfold var_ok in W. destruct (dget n vars); [|discriminate].
    apply Z.eqb_eq in W. subst. reflexivity.
  - apply andb_prop in W. destruct W as [W Hpos]. apply andb_prop in W. destruct W as [Wv Wk].
    unfold var_ok in Wv. destruct (dget n vars) as [s0|] eqn:Ev; [|discriminate].
    apply Z.eqb_eq in Wv. subst s0. apply Z.ltb_lt in Hpos.
    destruct k as [i|l|a b c]; simpl in Wk.
    + apply andb_prop in Wk. destruct Wk as [K1 K2].
      apply Z.leb_le in K1. apply Z.ltb_lt in K2.
      eexists. eexists. repeat split. simpl. rewrite Ev. simpl. unfold jkey. simpl.
      assert (R : (- s <=? norm_index s i) && (norm_index s i <? s) = true).
      { unfold norm_index. destruct (i <? 0) eqn:E.
        - apply Z.ltb_lt in E. apply andb_true_intro. split; [apply Z.leb_le|apply Z.ltb_lt]; lia.
        - apply Z.ltb_ge in E. apply andb_true_intro. split; [apply Z.leb_le|apply Z.ltb_lt]; lia. }
      rewrite R. reflexivity.
    + eexists. eexists. repeat split. simpl. rewrite Ev. simpl.
      rewrite jkey_jints. simpl. rewrite Wk. reflexivity.
    + destruct (slice_indices s a b c) as [l|] eqn:Es; [|discriminate].
      eexists. eexists. simpl. rewrite Es. simpl.
      split; [reflexivity|split; [reflexivity|]].
      simpl. rewrite Ev. simpl. rewrite jkey_jints. simpl. rewrite Wk. reflexivity.
  - (* operator expressions *)
    destruct k as [|kv kr]; [|discriminate].
    apply andb_prop in W. destruct W as [Wp W].
    destruct a as [|a [|b [|c r]]]; try discriminate.
    + (* unary *)
      apply andb_prop in W. destruct W as [W Pa]. apply andb_prop in W. destruct W as [Hop Wa].
      inversion H; subst. destruct (H3 Wa) as [ja [a' [Ea [Na Da]]]].
      exists (JObj [("expression", JStr n); ("lhs", ja)]), (VPObj n [a'] []).
      split; [eapply enc_unary; eassumption|].
      split; [eapply norm_unary; eassumption|].
      apply dec_unary; try assumption.
      rewrite (norm_is_param _ _ Na). assumption.
    + (* binary *)
      apply andb_prop in W. destruct W as [W Pab]. apply andb_prop in W. destruct W as [W Wb].
      apply andb_prop in W. destruct W as [Hop Wa].
      unfold plain_op in Wp. apply andb_prop in Wp. destruct Wp as [Wp _].
      apply andb_prop in Wp. destruct Wp as [_ Hi]. apply negb_true_iff in Hi.
      inversion H; subst. inversion H4; subst.
      destruct (H3 Wa) as [ja [a' [Ea [Na Da]]]].
      destruct (H5 Wb) as [jb [b' [Eb [Nb Db]]]].
      exists (JObj [("expression", JStr (expr_tag n)); ("lhs", ja); ("rhs", jb)]), (VPObj n [a'; b'] []).
      split; [eapply enc_binary; eassumption|].
      split; [eapply norm_binary; try eassumption; apply binary_not_unary; assumption|].
      apply dec_binary; try assumption.
      rewrite (norm_is_param _ _ Na), (norm_is_param _ _ Nb). assumption.
Qed.

(** * Tables regenerated from the tree agree with each other *)

(** the Sequence method an operation tag is replayed with *)
Definition meth_of_tag (tag : string) : string :=
  if String.eqb tag "pulse" || String.eqb tag "pulse_arbitrary_phase" then "add"
  else if String.eqb tag "target" then "target_index"
  else if String.eqb tag "phase_shift" then "phase_shift_index"
  else tag.

(** every default the deserializer substitutes for an absent key is the
    default of the method it calls: eliding a default on the way out and
    substituting it on the way in is the identity *)
Definition deser_defaults_agree : bool :=
  forallb (fun e => match meth_default (meth_of_tag (fst (fst e))) (snd (fst e)) with
                    | Some d => json_eqb d (snd e)
                    | None => false
                    end) gen_deser_defaults.

Lemma deser_defaults_agree_ok : deser_defaults_agree = true.
Proof. vm_compute. reflexivity. Qed.

(** keys the serializer elides ([remove_kwarg_if_default]) are exactly keys
    the deserializer has a default for *)
Definition elided : list (string * string) :=
  [("align", "at_rest"); ("delay", "at_rest"); ("enable_eom_mode", "correct_phase_drift");
   ("add_eom_pulse", "correct_phase_drift"); ("disable_eom_mode", "correct_phase_drift")].

Lemma elided_have_deser_default :
  forallb (fun e => match deser_default (fst e) (snd e), meth_default (fst e) (snd e) with
                    | Some d, Some m => json_eqb d m
                    | _, _ => false
                    end) elided = true.
Proof. vm_compute. reflexivity. Qed.

(** the signature used by the encoder lists the constructor's own leading
    parameters in order: positional binding by the encoder is Python's *)
Fixpoint prefix_of (a b : list string) : bool :=
  match a, b with
  | [], _ => true
  | x :: r, y :: t => String.eqb x y && prefix_of r t
  | _, [] => false
  end.

Definition signatures_match_constructors : bool :=
  forallb (fun e =>
             match dget (fst e) gen_cls_params with
             | Some (params, var, _, _) =>
                 let '(pos, vp, kw, _) := snd e in
                 match vp, var with
                 | Some _, Some _ => true
                 | None, None => prefix_of (pos ++ kw) params
                 | _, _ => false
                 end
             | None => str_in (fst e) ["truediv"; "round_"]
             end) gen_signatures.

Lemma signatures_match_constructors_ok : signatures_match_constructors = true.
Proof. vm_compute. reflexivity. Qed.

(** the names the serializer looks arguments up under are the methods' own
    parameter names, position by position (first parameter of
    declare_channel excepted: it is always logged positionally) *)
Definition serializer_names : list (string * list string) :=
  [("target", ["qubits"; "channel"]); ("target_index", ["qubits"; "channel"]);
   ("delay", ["duration"; "channel"; "at_rest"]); ("add", ["pulse"; "channel"; "protocol"]);
   ("measure", ["basis"]); ("config_slm_mask", ["qubits"; "dmm_id"]);
   ("config_detuning_map", ["detuning_map"; "dmm_id"]);
   ("enable_eom_mode", ["channel"; "amp_on"; "detuning_on"; "optimal_detuning_off"; "correct_phase_drift"]);
   ("modify_eom_setpoint", ["channel"; "amp_on"; "detuning_on"; "optimal_detuning_off"; "correct_phase_drift"]);
   ("add_eom_pulse", ["channel"; "duration"; "phase"; "post_phase_shift"; "protocol"; "correct_phase_drift"]);
   ("disable_eom_mode", ["channel"; "correct_phase_drift"]);
   ("add_dmm_detuning", ["waveform"; "dmm_name"; "protocol"])].

Lemma serializer_names_are_parameters :
  forallb (fun e => prefix_of (snd e) (meth_params (fst e))
                    && Nat.eqb (List.length (snd e)) (List.length (meth_params (fst e))))
          serializer_names = true.
Proof. vm_compute. reflexivity. Qed.

Lemma declare_channel_names :
  tl (meth_params "declare_channel") = ["channel_id"; "initial_target"].
Proof. vm_compute. reflexivity. Qed.

(** every operator the encoder can emit is accepted by the decoder, and
    conversely (modulo the div/truediv renaming) *)
Lemma operator_tables_closed :
  forallb (fun op => negb (str_in op gen_binary_ops)) gen_unary_ops = true.
Proof. vm_compute. reflexivity. Qed.

(** * Refutations *)

(** the schema accepts the expression "round", which the encoder cannot
    produce and the decoder rejects: rounding a variable cannot be
    serialised (pulser.math.round has no abstract representation) *)
Definition round_doc : json :=
  JObj [("expression", JStr "round"); ("lhs", JObj [("variable", JStr "x")])].

Lemma round_refuted :
  valid gen_seq_defs 40 round_doc 40 (SRef "ParametrizedNum") = true
  /\ dec_param [("x", 1)] round_doc = None
  /\ enc (VPObj "round" [VVar "x" 1] []) = None
  /\ enc (VPObj "round_" [VVar "x" 1] []) = Some round_doc.
Proof. vm_compute. repeat split. Qed.

(** the legacy encoder's table of supported functions misses an operator the
    parametrized API provides (tanh): a sequence using it cannot be encoded *)
Lemma legacy_tanh_refuted :
  str_in "tanh" gen_unary_ops = true /\ str_in "tanh" gen_supported_numpy = false.
Proof. vm_compute. split; reflexivity. Qed.

(** a bare reference to a whole variable is not a ParametrizedNum for the
    schema, although the encoder emits it wherever a whole size-1 variable is
    used as a number *)
Lemma whole_variable_refuted :
  enc (VVar "x" 1) = Some (JObj [("variable", JStr "x")])
  /\ valid gen_seq_defs 40 (JObj [("variable", JStr "x")]) 40 (SRef "ParametrizedNum") = false
  /\ valid gen_seq_defs 40 (JObj [("variable", JStr "x")]) 40 (SRef "ExprArgument") = true.
Proof. vm_compute. repeat split. Qed.

(** * Indexing: the explicit indices the encoder writes select the same
    elements as the original key (Python semantics of negative indices) *)
Definition py_nth {A} (l : list A) (i : Z) : option A :=
  let n := Z.of_nat (List.length l) in
  if (i <? - n) || (n <=? i) then None
  else nth_error l (Z.to_nat (if i <? 0 then i + n else i)).

Lemma norm_index_same_element : forall {A} (l : list A) i,
    - Z.of_nat (List.length l) <= i < Z.of_nat (List.length l) ->
    py_nth l (norm_index (Z.of_nat (List.length l)) i) = py_nth l i.
Proof.
  intros A l i [H1 H2]. unfold py_nth, norm_index.
  set (n := Z.of_nat (List.length l)) in *.
  destruct (i <? 0) eqn:E.
  - apply Z.ltb_lt in E.
    assert (E1 : (i + n <? - n) = false) by (apply Z.ltb_ge; lia).
    assert (E2 : (n <=? i + n) = false) by (apply Z.leb_gt; lia).
    assert (E3 : (i + n <? 0) = false) by (apply Z.ltb_ge; lia).
    assert (E4 : (i <? - n) = false) by (apply Z.ltb_ge; lia).
    assert (E5 : (n <=? i) = false) by (apply Z.leb_gt; lia).
    rewrite E1, E2, E3, E4, E5. reflexivity.
  - rewrite E. reflexivity.
Qed.

(** * Operations: composition over the call log *)
Definition rt_call (s : seqin) (vars : vars_ctx) (c : call) : Prop :=
  exists js cs, enc_call_ops s c = Some js
                /\ concatM (dec_op vars) js = Some cs
                /\ norm_call_ops s c = Some cs.

Lemma concatM_cons : forall {A B} (f : A -> option (list B)) a r,
    concatM f (a :: r) =
    (do x <- f a; do xs <- concatM f r; Some (x ++ xs)).
Proof.
  intros. unfold concatM. simpl. destruct (f a); simpl; [|reflexivity].
  destruct (mapM f r); reflexivity.
Qed.

Lemma concatM_app : forall {A B} (f : A -> option (list B)) l1 l2,
    concatM f (l1 ++ l2) =
    (do x <- concatM f l1; do y <- concatM f l2; Some (x ++ y)).
Proof.
  induction l1 as [|a r IH]; intros l2.
  - unfold concatM at 2. simpl. destruct (concatM f l2); reflexivity.
  - simpl. rewrite !concatM_cons. destruct (f a); simpl; [|reflexivity].
    rewrite IH. destruct (concatM f r); simpl; [|reflexivity].
    destruct (concatM f l2); simpl; [|reflexivity]. rewrite app_assoc. reflexivity.
Qed.

(** if every logged call round-trips on its own, the operation list of the
    document decodes to the specified calls, in order *)
Lemma ops_roundtrip : forall s vars calls,
    Forall (rt_call s vars) calls ->
    exists ops cs, concatM (enc_call_ops s) calls = Some ops
                   /\ concatM (dec_op vars) ops = Some cs
                   /\ concatM (norm_call_ops s) calls = Some cs.
Proof.
  induction 1 as [|c r Hc Hr IH].
  - exists [], []. repeat split.
  - destruct Hc as [js [cs [E1 [E2 E3]]]]. destruct IH as [ops [cs' [F1 [F2 F3]]]].
    exists (js ++ ops), (cs ++ cs'). rewrite !concatM_cons, E1, F1, E3, F3. simpl.
    repeat split. rewrite concatM_app, E2, F2. reflexivity.
Qed.
