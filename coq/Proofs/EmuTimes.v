(** C11 - evaluation times of the legacy emulator and of the V2 backend:
    finite sweeps over every duration in [4, 100000] ns evaluated by the
    kernel on bit-exact IEEE-754 doubles, and the re-creation of the
    configuration object. *)
From Coq Require Import ZArith List Bool Lia.
From Coq Require Import Uint63 FloatOps SpecFloat PrimFloat.
From PV Require Import Model.Base Model.Emu Proofs.EmuMeas.
Import ListNotations.
Open Scope Z_scope.

Definition Tmax : Z := 100000.
Definition durations : list Z := zrange_from 4 (Z.to_nat (Tmax - 3)).
Definition sweep (P : Z -> bool) : bool := forallb P durations.

Lemma sweep_spec : forall P, sweep P = true ->
  forall T, 4 <= T <= Tmax -> P T = true.
Proof.
  intros P H T HT. unfold sweep in H. rewrite forallb_forall in H. apply H.
  unfold durations. apply zrange_from_In. unfold Tmax in *. lia.
Qed.

(** the primitive conversion agrees bit for bit with [Base.f_of_Z] on every
    integer the sweeps below convert *)
Lemma f_of_N_agrees :
  forallb (fun z => f_biteq (f_of_N z) (f_of_Z z)) (zrange_from 0 100002) = true.
Proof. vm_compute. reflexivity. Qed.

Definition f_eqlist (a b : list float) : bool :=
  sv_eqb (SL (map SF a)) (SL (map SF b)).

Definition res_is (r : res (list float)) (l : list float) : bool :=
  match r with Ok x => f_eqlist x l | Err _ => false end.

Definition tf (T : Z) : float := (f_of_N T / f_1000)%float.
Definition t_v2 (T : Z) : float := (one * f_of_N T * f_1em3)%float.

(** The relative time 1.0 is never mapped BELOW the legacy final time
    [T/1000]: V2 never produces a spurious extra evaluation time just before
    the end; the only way the two computations can disagree is by overshoot. *)
Lemma final_time_never_undershoots_sweep :
  sweep (fun T => negb (PrimFloat.ltb (t_v2 T) (tf T))) = true.
Proof. vm_compute. reflexivity. Qed.

Theorem final_time_never_undershoots : forall T, 4 <= T <= Tmax ->
  PrimFloat.ltb (t_v2 T) (tf T) = false.
Proof.
  intros T HT. pose proof (sweep_spec _ final_time_never_undershoots_sweep T HT) as H.
  simpl in H. apply negb_true_iff in H. exact H.
Qed.

(** For every duration whose final time does not overshoot, the V2 backend
    with its default configuration and the legacy emulator with "Minimal"
    hold bit-identical evaluation-time arrays [0, T/1000]. *)
Lemma eval_times_default_sweep :
  sweep (fun T =>
           final_time_overshoots T
           || (res_is (v2_eval_times one T (Some [one]) []) [zero; tf T]
               && res_is (set_evaluation_times one T EvMinimal) [zero; tf T])) = true.
Proof. vm_compute. reflexivity. Qed.

Theorem eval_times_default_partial : forall T, 4 <= T <= Tmax ->
  final_time_overshoots T = false ->
  res_is (v2_eval_times one T (Some [one]) []) [zero; tf T] = true
  /\ res_is (set_evaluation_times one T EvMinimal) [zero; tf T] = true.
Proof.
  intros T HT Hno. pose proof (sweep_spec _ eval_times_default_sweep T HT) as H.
  simpl in H. rewrite Hno in H. simpl in H. apply andb_true_iff in H. exact H.
Qed.

(** ... and whenever it does overshoot, V2 raises while legacy is fine. *)
Lemma eval_times_overshoot_sweep :
  sweep (fun T =>
           negb (final_time_overshoots T)
           || (match v2_eval_times one T (Some [one]) [] with
               | Err EValue => true | _ => false end
               && res_is (set_evaluation_times one T EvMinimal) [zero; tf T])) = true.
Proof. vm_compute. reflexivity. Qed.

Theorem eval_times_overshoot_raises : forall T, 4 <= T <= Tmax ->
  final_time_overshoots T = true ->
  v2_eval_times one T (Some [one]) [] = Err EValue
  /\ res_is (set_evaluation_times one T EvMinimal) [zero; tf T] = true.
Proof.
  intros T HT Hov. pose proof (sweep_spec _ eval_times_overshoot_sweep T HT) as H.
  simpl in H. rewrite Hov in H. simpl in H. apply andb_true_iff in H.
  destruct H as [H1 H2]. split; [|exact H2].
  destruct (v2_eval_times one T (Some [one]) []) as [x|e]; [discriminate|].
  destruct e; try discriminate. reflexivity.
Qed.

(** The statement "legacy and V2 agree for every sequence duration" is false
    of the faithful model: 13 328 of the durations in [4, 100000] overshoot;
    52 ns is one of them. *)
Theorem eval_times_refuted :
  exists T, 4 <= T <= Tmax
            /\ v2_eval_times one T (Some [one]) [] = Err EValue
            /\ set_evaluation_times one T EvMinimal = Ok [zero; tf T].
Proof. exists 52. split; [unfold Tmax; lia|]. split; vm_compute; reflexivity. Qed.

Theorem eval_times_overshoot_count :
  length (filter final_time_overshoots durations) = 13328%nat.
Proof. vm_compute. reflexivity. Qed.

(** The label [t / T * 1e3] attached to the final state is never above 1.0
    (a label above 1.0 would not be an evaluation time at all) and at most one
    unit in the last place below it. *)
Definition f_almost_one : float := 0x1.ffffffffffffep-1%float.
Lemma final_label_sweep :
  sweep (fun T =>
           match eval_labels T [tf T] with
           | [l] => PrimFloat.leb l one && PrimFloat.leb f_almost_one l
           | _ => false
           end) = true.
Proof. vm_compute. reflexivity. Qed.

Theorem final_label_is_one : forall T, 4 <= T <= Tmax ->
  exists l, eval_labels T [tf T] = [l]
            /\ PrimFloat.leb l one = true /\ PrimFloat.leb f_almost_one l = true.
Proof.
  intros T HT. pose proof (sweep_spec _ final_label_sweep T HT) as H. cbv beta in H.
  destruct (eval_labels T [tf T]) as [|l [|? ?]]; try discriminate.
  exists l. apply andb_true_iff in H. destruct H. auto.
Qed.

(** The proposed repair ([rel * (T / 1000)] instead of [rel * T * 1e-3]) never
    overshoots, for the default and for a grid of relative times. *)
Definition rel_grid : list float :=
  [0x1p-3; 0x1p-2; 0x1.8p-2; 0x1p-1; 0x1.4p-1; 0x1.8p-1; 0x1.cp-1; one]%float.
Lemma fixed_eval_times_sweep :
  sweep (fun T =>
           match set_evaluation_times one T
                   (v2_legacy_eval_times_fixed one T (Some rel_grid) []) with
           | Ok l => PrimFloat.eqb (last l zero) (tf T)
                     && (Z.of_nat (length l) =? 9)
           | Err _ => false
           end) = true.
Proof. vm_compute. reflexivity. Qed.

Theorem fixed_eval_times_ok : forall T, 4 <= T <= Tmax ->
  exists l, set_evaluation_times one T
              (v2_legacy_eval_times_fixed one T (Some rel_grid) []) = Ok l
            /\ PrimFloat.eqb (last l zero) (tf T) = true
            /\ length l = 9%nat.
Proof.
  intros T HT. pose proof (sweep_spec _ fixed_eval_times_sweep T HT) as H. cbv beta in H.
  destruct (set_evaluation_times one T _) as [l|]; [|discriminate].
  exists l. apply andb_true_iff in H. destruct H as [H1 H2].
  apply Z.eqb_eq in H2. split; [reflexivity|]. split; [exact H1 | lia].
Qed.

(** * Re-creation of the configuration (backend/abc.py:100) *)
Theorem config_recreation_partial : forall d,
  (d = DFull \/ exists x, d = DSeq [x]) ->
  config_recreate d = config_init d.
Proof.
  intros d [-> | [x ->]]; [reflexivity|].
  unfold config_recreate. cbn [config_init].
  destruct (valid_eval_times [x]) eqn:V; [|reflexivity].
  cbn [rbind config_init]. rewrite V. reflexivity.
Qed.

Theorem config_recreation_refuted :
  exists l, valid_eval_times l = true
            /\ config_init (DSeq l) = Ok (DArr l)
            /\ config_recreate (DSeq l) = Err EValue.
Proof.
  exists [0x1p-1; one]%float. repeat split; vm_compute; reflexivity.
Qed.

(** * Looking the final state up by its time (simresults.py) *)
Theorem final_index_refuted :
  exists T ts, 4 <= T <= Tmax
               /\ set_evaluation_times one T EvFull = Ok ts
               /\ final_index ts = Ok (Z.of_nat (length ts) - 2).
Proof.
  exists 9. eexists. split; [unfold Tmax; lia|]. split; vm_compute; reflexivity.
Qed.

Lemma final_index_minimal_sweep :
  sweep (fun T =>
           match set_evaluation_times one T EvMinimal with
           | Ok ts => match final_index ts with
                      | Ok k => k =? Z.of_nat (length ts) - 1
                      | Err _ => false
                      end
           | Err _ => false
           end) = true.
Proof. vm_compute. reflexivity. Qed.

Theorem final_index_minimal_ok : forall T, 4 <= T <= Tmax ->
  exists ts, set_evaluation_times one T EvMinimal = Ok ts
             /\ final_index ts = Ok (Z.of_nat (length ts) - 1).
Proof.
  intros T HT. pose proof (sweep_spec _ final_index_minimal_sweep T HT) as H. cbv beta in H.
  destruct (set_evaluation_times one T EvMinimal) as [ts|]; [|discriminate].
  exists ts. split; [reflexivity|].
  destruct (final_index ts) as [k|]; [|discriminate].
  apply Z.eqb_eq in H. subst. reflexivity.
Qed.
