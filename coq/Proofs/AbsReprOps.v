(** C04 - round trip of operations, waveforms and pulses in the forms the
    deserializer itself produces (canonical keyword form) and in positional
    form, on top of the parameter round trip of Proofs/AbsReprRT.v. *)
From Coq Require Import ZArith List Bool String Ascii Lia.
From Coq Require Import PrimFloat.
From PV Require Import Model.Base Model.AbsJson Gen.AbsSig Gen.AbsSchema Model.AbsRepr Proofs.AbsReprRT.
Import ListNotations.
Open Scope string_scope.
Open Scope list_scope.
Open Scope Z_scope.

Ltac rw_all := repeat match goal with
  | H : ?l = Some _ |- context [?l] => rewrite H
  | H : ?l = true |- context [?l] => rewrite H
  | H : ?l = false |- context [?l] => rewrite H
  end.
Ltac rt_part := cbn; unfold concatM; simpl; unfold dec_op; cbn; rw_all; cbn; rw_all; cbn; reflexivity.
Ltac rt_go := unfold rt_call; eexists; eexists; split; [rt_part|split; [rt_part|rt_part]].
Ltac use_par vars d W :=
  let j := fresh "j" in let d' := fresh "d'" in
  let E := fresh "E" in let N := fresh "N" in let D := fresh "D" in
  destruct (dec_enc_param vars d W) as [j [d' [E [N D]]]].

Lemma rt_delay : forall s vars d ch b,
    wf_par vars d = true ->
    rt_call s vars (mkCall "delay" [] [("duration", d); ("channel", VStr ch); ("at_rest", VBool b)]).
Proof.
  intros s vars d ch b W. use_par vars d W. destruct b; rt_go.
Qed.

Lemma rt_target_index : forall s vars q ch,
    wf_par vars q = true -> is_param q = true ->
    rt_call s vars (mkCall "target_index" [] [("qubits", q); ("channel", VStr ch)]).
Proof.
  intros s vars q ch W P. use_par vars q W. rt_go.
Qed.

Lemma rt_enable_eom : forall s vars ch a d o b,
    wf_par vars a = true -> wf_par vars d = true -> wf_par vars o = true ->
    rt_call s vars (mkCall "enable_eom_mode" []
      [("channel", VStr ch); ("amp_on", a); ("detuning_on", d); ("optimal_detuning_off", o);
       ("correct_phase_drift", VBool b)]).
Proof.
  intros s vars ch a d o b Wa Wd Wo.
  use_par vars a Wa. use_par vars d Wd. use_par vars o Wo. destruct b; rt_go.
Qed.

Lemma rt_modify_eom : forall s vars ch a d o b,
    wf_par vars a = true -> wf_par vars d = true -> wf_par vars o = true ->
    rt_call s vars (mkCall "modify_eom_setpoint" []
      [("channel", VStr ch); ("amp_on", a); ("detuning_on", d); ("optimal_detuning_off", o);
       ("correct_phase_drift", VBool b)]).
Proof.
  intros s vars ch a d o b Wa Wd Wo.
  use_par vars a Wa. use_par vars d Wd. use_par vars o Wo. destruct b; rt_go.
Qed.

Definition is_protocol (p : string) : Prop := True.

Lemma rt_add_eom_pulse : forall s vars ch du ph po pr b,
    wf_par vars du = true -> wf_par vars ph = true -> wf_par vars po = true ->
    rt_call s vars (mkCall "add_eom_pulse" []
      [("channel", VStr ch); ("duration", du); ("phase", ph); ("post_phase_shift", po);
       ("protocol", VStr pr); ("correct_phase_drift", VBool b)]).
Proof.
  intros s vars ch du ph po pr b W1 W2 W3.
  use_par vars du W1. use_par vars ph W2. use_par vars po W3. destruct b; rt_go.
Qed.

Lemma rt_disable_eom : forall s vars ch b,
    rt_call s vars (mkCall "disable_eom_mode" [] [("channel", VStr ch); ("correct_phase_drift", VBool b)]).
Proof. intros. destruct b; rt_go. Qed.

Lemma rt_align2 : forall s vars c1 c2 b,
    rt_call s vars (mkCall "align" [VStr c1; VStr c2] [("at_rest", VBool b)]).
Proof. intros. destruct b; rt_go. Qed.

Lemma rt_phase_shift_index1 : forall s vars phi t b,
    wf_par vars phi = true -> wf_par vars t = true ->
    rt_call s vars (mkCall "phase_shift_index" [phi; t] [("basis", VStr b)]).
Proof.
  intros s vars phi t b W1 W2. use_par vars phi W1. use_par vars t W2. rt_go.
Qed.

Lemma rt_phase_shift_index0 : forall s vars phi b,
    wf_par vars phi = true ->
    rt_call s vars (mkCall "phase_shift_index" [phi] [("basis", VStr b)]).
Proof. intros s vars phi b W1. use_par vars phi W1. rt_go. Qed.

Lemma rt_config_detuning_map : forall s vars m id,
    rt_call s vars (mkCall "config_detuning_map" [] [("detuning_map", VJson (JObj m)); ("dmm_id", VStr id)]).
Proof. intros. rt_go. Qed.

Lemma rt_no_op : forall s vars n a k,
    n = "measure" \/ n = "set_magnetic_field" \/ n = "__init__" ->
    rt_call s vars (mkCall n a k).
Proof. intros s vars n a k [H|[H|H]]; subst; rt_go. Qed.

Lemma rt_declare_channel : forall s vars n id,
    rt_call s vars (mkCall "declare_channel" [VStr n; VStr id] [("initial_target", VNone)]).
Proof. intros. rt_go. Qed.

(** ** Waveforms and pulses *)
Definition rt_wf (vars : vars_ctx) (w : val) : Prop :=
  exists j w', enc w = Some j /\ norm w = Some w' /\ dec_wf vars j = Some w'
               /\ is_param w' = is_param w /\ is_zero_const j = false
               /\ (forall c, w <> VClass c) /\ norm_json w' = w'.

Lemma norm_json_wf : forall vars v v', wf_par vars v = true -> norm v = Some v' -> norm_json v' = v'.
Proof.
  intros vars v v' W N. destruct v; simpl in W; try discriminate.
  - simpl in N. inversion N; reflexivity.
  - simpl in N. inversion N; reflexivity.
  - crush N; reflexivity.
  - simpl in N. inversion N; reflexivity.
  - crush N; reflexivity.
  - crush N. unfold norm_pobj in N. crush N; reflexivity.
Qed.

Ltac use_par' vars d W :=
  let j := fresh "j" in let d' := fresh "d'" in
  let E := fresh "E" in let N := fresh "N" in let D := fresh "D" in let P := fresh "P" in
  destruct (dec_enc_param vars d W) as [j [d' [E [N D]]]];
  pose proof (norm_is_param _ _ N) as P;
  let Q := fresh "Q" in pose proof (norm_json_wf vars d d' W N) as Q.

Ltac rw_ip := repeat match goal with H : is_param ?x = is_param ?y |- context [is_param ?x] => rewrite H end.
Ltac rw_nj := repeat match goal with H : norm_json ?x = ?x |- context [norm_json ?x] => rewrite H end.
Ltac wf_part := cbn; rw_all; cbn; rw_nj; unfold mk_obj, mk_cm, any_param; cbn; rw_ip; rw_all; cbn; rewrite ?andb_false_r, ?orb_true_r; try reflexivity.
Ltac wf_go := unfold rt_wf; eexists; eexists;
  split; [wf_part|split; [wf_part|split; [wf_part|split; [wf_part|split; [wf_part|split; [intros c Hc; discriminate Hc|reflexivity]]]]]].

(** a waveform whose duration is a variable expression never looks like the
    zero-duration template of Pulse.ConstantAmplitude / ConstantDetuning *)
Lemma param_json_not_zero : forall vars d j, wf_par vars d = true -> is_param d = true ->
    enc d = Some j -> json_is_zero j = false.
Proof.
  intros vars d j W P E. destruct d; simpl in P; try discriminate.
  - simpl in E. inversion E; reflexivity.
  - simpl in E. destruct (enc_key size k); inversion E; reflexivity.
  - simpl in W. destruct kwargs; [|discriminate].
    apply andb_prop in W. destruct W as [Wp W].
    destruct args as [|a [|b [|c r]]]; try discriminate.
    + apply andb_prop in W. destruct W as [W _]. apply andb_prop in W. destruct W as [Hop Wa].
      destruct (dec_enc_param vars a Wa) as [ja [a' [Ea _]]].
      rewrite (enc_unary vars name a ja Hop Wa Ea) in E. inversion E; reflexivity.
    + apply andb_prop in W. destruct W as [W _]. apply andb_prop in W. destruct W as [W Wb].
      apply andb_prop in W. destruct W as [Hop Wa].
      unfold plain_op in Wp. apply andb_prop in Wp. destruct Wp as [Wp _].
      apply andb_prop in Wp. destruct Wp as [_ Hi]. apply negb_true_iff in Hi.
      destruct (dec_enc_param vars a Wa) as [ja [a' [Ea _]]].
      destruct (dec_enc_param vars b Wb) as [jb [b' [Eb _]]].
      rewrite (enc_binary vars name a b ja jb Hop Hi Wa Wb Ea Eb) in E. inversion E; reflexivity.
Qed.

Lemma wf_const_kw : forall vars d v,
    wf_par vars d = true -> wf_par vars v = true -> is_param d = true ->
    rt_wf vars (VPObj "ConstantWaveform" [] [("duration", d); ("value", v)]).
Proof.
  intros vars d v Wd Wv Pd. use_par' vars d Wd. use_par' vars v Wv.
  pose proof (param_json_not_zero vars d j Wd Pd E) as Z.
  wf_go.
Qed.

(** positional arguments are bound to the constructor's parameters *)
Lemma wf_const_pos : forall vars d v,
    wf_par vars d = true -> wf_par vars v = true -> is_param d = true ->
    rt_wf vars (VPObj "ConstantWaveform" [d; v] []).
Proof.
  intros vars d v Wd Wv Pd. use_par' vars d Wd. use_par' vars v Wv.
  pose proof (param_json_not_zero vars d j Wd Pd E) as Z.
  pose proof (arg_ev_wf vars d Wd) as Ad. pose proof (arg_ev_wf vars v Wv) as Av.
  pose proof (first_class_wf vars d [v] Wd) as Fc.
  pose proof (drop_class_wf vars d [v] Wd) as Dc.
  unfold rt_wf. eexists. eexists.
  split; [cbn -[arg_ev first_class]; rewrite Ad, Av, Fc; wf_part|].
  split; [cbn -[first_class]; rewrite Dc, Fc; wf_part|].
  split; [wf_part|split; [wf_part|split; [wf_part|split; [intros c Hc; discriminate Hc|reflexivity]]]].
Qed.

Lemma wf_ramp_kw : forall vars d a b,
    wf_par vars d = true -> wf_par vars a = true -> wf_par vars b = true -> is_param d = true ->
    rt_wf vars (VPObj "RampWaveform" [] [("duration", d); ("start", a); ("stop", b)]).
Proof.
  intros vars d a b Wd Wa Wb Pd. use_par' vars d Wd. use_par' vars a Wa. use_par' vars b Wb. wf_go.
Qed.

Lemma wf_blackman_kw : forall vars d a,
    wf_par vars d = true -> wf_par vars a = true -> is_param a = true ->
    rt_wf vars (VPObj "BlackmanWaveform" [] [("duration", d); ("area", a)]).
Proof.
  intros vars d a Wd Wa Pa. use_par' vars d Wd. use_par' vars a Wa. wf_go.
Qed.

(** the keyword [beta] omitted: the constructor's default (14.0) is made explicit *)
Lemma wf_kaiser_default_beta : forall vars d a,
    wf_par vars d = true -> wf_par vars a = true -> is_param a = true ->
    exists j w', enc (VPObj "KaiserWaveform" [] [("duration", d); ("area", a)]) = Some j
                 /\ norm (VPObj "KaiserWaveform" [] [("duration", d); ("area", a)]) = Some w'
                 /\ dec_wf vars j = Some w'
                 /\ exists d' a', w' = VPObj "KaiserWaveform" []
                                     [("duration", d'); ("area", a'); ("beta", VFlt 0x1.cp+3%float)].
Proof.
  intros vars d a Wd Wa Pa. use_par' vars d Wd. use_par' vars a Wa.
  eexists. eexists. split; [wf_part|split; [wf_part|split; [wf_part|]]].
  eexists. eexists. reflexivity.
Qed.

Lemma wf_interp_kw : forall vars d vs l,
    wf_par vars d = true -> wf_par vars vs = true -> forallb is_lit l = true -> is_param vs = true ->
    rt_wf vars (VPObj "InterpolatedWaveform" [] [("duration", d); ("values", vs); ("times", VList l)]).
Proof.
  intros vars d vs l Wd Wv Wt Pv. use_par' vars d Wd. use_par' vars vs Wv.
  assert (Wt' : wf_par vars (VList l) = true) by exact Wt.
  use_par' vars (VList l) Wt'.
  simpl in E1. destruct (mapM enc l) eqn:El; [|discriminate]. simpl in E1. inversion E1; subst j1; clear E1.
  simpl in N1. destruct (mapM norm l) eqn:Nl; [|discriminate]. simpl in N1. inversion N1; subst d'1; clear N1.
  cbn in D1. destruct (mapM lit_of_json l0) eqn:Ll; [|discriminate]. cbn in D1. inversion D1; subst l2; clear D1.
  unfold rt_wf. eexists. eexists.
  split; [cbn; rw_all; cbn; reflexivity|].
  split; [cbn; rw_all; cbn; rw_nj; cbn; reflexivity|].
  split; [wf_part|split; [wf_part|split; [wf_part|split; [intros c Hc; discriminate Hc|reflexivity]]]].
Qed.

(** concrete waveforms *)
Lemma wf_const_concrete : forall vars d v,
    d <> 0 -> rt_wf vars (VObj "ConstantWaveform" [VInt d; VFlt v] []).
Proof.
  intros vars d v Hd. unfold rt_wf. eexists. eexists.
  split; [cbn; reflexivity|split; [cbn; reflexivity|split; [cbn; reflexivity|split; [reflexivity|split; [|split]]]]].
  - cbn. destruct d; try reflexivity. exfalso. apply Hd. reflexivity.
  - intros c Hc; discriminate Hc.
  - reflexivity.
Qed.

Lemma wf_ramp_concrete : forall vars d a b,
    rt_wf vars (VObj "RampWaveform" [VInt d; VFlt a; VFlt b] []).
Proof.
  intros. unfold rt_wf. eexists. eexists.
  split; [cbn; reflexivity|split; [cbn; reflexivity|split; [cbn; reflexivity|split; [reflexivity|split; [cbn; rewrite ?andb_false_r; reflexivity|split; [intros c Hc; discriminate Hc|reflexivity]]]]]].
Qed.

Ltac use_wf H :=
  let j := fresh "jw" in let w' := fresh "w'" in
  let E := fresh "Ew" in let N := fresh "Nw" in let D := fresh "Dw" in
  let P := fresh "Pw" in let Z := fresh "Zw" in let C := fresh "Cw" in let Q := fresh "Qw" in
  destruct H as [j [w' [E [N [D [P [Z [C Q]]]]]]]].

(** ** The pulse operation: Pulse(amplitude, detuning, phase, post_phase_shift)
    with parametrized content, added with seq.add *)
Lemma rt_add_pulse : forall s vars a d ph po ch pr,
    rt_wf vars a -> rt_wf vars d -> wf_par vars ph = true -> wf_par vars po = true ->
    is_param a = true ->
    rt_call s vars
      (mkCall "add" []
         [("pulse", VPObj "Pulse" [] [("amplitude", a); ("detuning", d); ("phase", ph); ("post_phase_shift", po)]);
          ("channel", VStr ch); ("protocol", VStr pr)]).
Proof.
  intros s vars a d ph po ch pr Ha Hd Wph Wpo Pa.
  use_wf Ha. use_wf Hd. use_par' vars ph Wph. use_par' vars po Wpo.
  unfold rt_call. eexists. eexists.
  split; [cbn; rw_all; cbn; reflexivity|].
  split.
  - cbn. unfold concatM. simpl. unfold dec_op. cbn. unfold dec_pulse. cbn. rw_all. cbn.
    unfold mk_pulse. rw_ip. rw_all. cbn. reflexivity.
  - cbn. rw_all. cbn. rw_nj. reflexivity.
Qed.

(** add_dmm_detuning(waveform, dmm_name, protocol) *)
Lemma rt_add_dmm : forall s vars w n pr,
    rt_wf vars w ->
    rt_call s vars (mkCall "add_dmm_detuning" [] [("waveform", w); ("dmm_name", VStr n); ("protocol", VStr pr)]).
Proof.
  intros s vars w n pr Hw. use_wf Hw.
  unfold rt_call. eexists. eexists.
  split; [cbn; rw_all; cbn; reflexivity|].
  split.
  - cbn. unfold concatM. simpl. unfold dec_op. cbn. rw_all. cbn. reflexivity.
  - cbn. rw_all. cbn. reflexivity.
Qed.

(** Pulse.ConstantAmplitude(amplitude, detuning_waveform, phase, post): the
    amplitude travels as a constant waveform of duration 0, which the decoder
    recognises and maps back to the same classmethod call *)
Lemma rt_add_const_amplitude : forall s vars a d ph po ch pr,
    wf_par vars a = true -> is_param a = true -> rt_wf vars d ->
    wf_par vars ph = true -> wf_par vars po = true ->
    rt_call s vars
      (mkCall "add" []
         [("pulse", VPObj "ConstantAmplitude" [VClass "Pulse"]
                      [("amplitude", a); ("detuning", d); ("phase", ph); ("post_phase_shift", po)]);
          ("channel", VStr ch); ("protocol", VStr pr)]).
Proof.
  intros s vars a d ph po ch pr Wa Pa Hd Wph Wpo.
  use_par' vars a Wa. use_wf Hd. use_par' vars ph Wph. use_par' vars po Wpo.
  unfold rt_call. eexists. eexists.
  split; [cbn; rw_all; cbn; reflexivity|].
  split.
  - cbn. unfold concatM. simpl. unfold dec_op. cbn. unfold dec_pulse. cbn. rw_all. cbn.
    unfold mk_cm, any_param. cbn. rw_ip. rw_all. cbn. reflexivity.
  - cbn. rw_all. cbn. rw_nj. reflexivity.
Qed.
