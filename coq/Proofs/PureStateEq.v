(** The state-changing methods of the scheduler in the hand-written model
    ([add_delay], [wait_for_fall], [add_pulse], [add_target]) are, as functions
    on the schedule state, equal to the monadic functions REGENERATED from the
    current source of _Schedule (Gen/PureState.v), on every state. *)
From Coq Require Import ZArith Bool List Lia.
From Coq Require Import PrimFloat.
From PV Require Import Model.Base Model.Sched Model.Seq.
From PV Require Import Gen.Pure Gen.PureLoops Gen.PureState.
From PV Require Import Proofs.SchedInv Proofs.SeqInv Proofs.Atomic Proofs.ModeInv.
From PV Require Import Proofs.PureEq Proofs.PureLoopsEq.
Import ListNotations.
Open Scope Z_scope.

Ltac red_m := cbv beta iota zeta delta [bind ret fail lift last_slot the_chan].

Lemma add_delay_eq (e : env) (d n : Z) (s : sched) :
  gen_add_delay e d n s = add_delay e d n s.
Proof.
  unfold gen_add_delay, add_delay. red_m.
  destruct (find_chan n s) as [c|] eqn:Hf; red_m; [|reflexivity].
  destruct (ch_slots c) as [|l r] eqn:Hs; red_m; [reflexivity|].
  rewrite ?Hf; red_m.
  rewrite validate_duration_eq.
  destruct (validate_duration (ch_cfg c) d) as [d'|er]; red_m; [|reflexivity].
  rewrite check_duration_eq.
  destruct (check_duration e (s_tf l + d') true) as [[]|er]; red_m; [|reflexivity].
  repeat (progress (rewrite ?Hf; red_m)).
  destruct (ch_eoms c) as [|b bs] eqn:He.
  - rewrite !andb_false_r. reflexivity.
  - destruct (in_eom c && f_ne (eb_doff b) zero);
      repeat (progress (rewrite ?Hf, ?He; red_m)); reflexivity.
Qed.

Lemma wait_for_fall_eq (e : env) (n : Z) (s : sched) :
  gen_wait_for_fall e n s = wait_for_fall e n s.
Proof.
  unfold gen_wait_for_fall, wait_for_fall. red_m.
  destruct (find_chan n s) as [c|] eqn:Hf; red_m; [|reflexivity].
  repeat (progress (rewrite ?Hf; red_m)).
  rewrite !get_duration_eq.
  destruct (ch_duration c true - ch_duration c false >? 0);
    repeat (progress (rewrite ?Hf; red_m)); [|reflexivity].
  rewrite adjust_duration_eq.
  destruct (adjust_duration (ch_cfg c) _) as [d'|er]; red_m; [|reflexivity].
  rewrite add_delay_eq.
  destruct (add_delay e d' n s) as [s' [[]|er]]; reflexivity.
Qed.

Lemma add_pulse_eq (e : env) (p : pulse) (n : Z) (barriers : list Z) (proto : Z)
      (dp : option drift) (s : sched) :
  gen_add_pulse e p n barriers proto dp s = add_pulse e p n barriers proto dp s.
Proof.
  unfold gen_add_pulse, add_pulse.
  cbv beta iota zeta delta [bind ret].
  destruct (last_slot n s) as [s0 [last|er]]; [|reflexivity].
  destruct (make_next_pulse_slot e p n barriers proto dp true s0) as [s1 [sl|er]]; [|reflexivity].
  destruct (s_ti sl - s_tf last >? 0); cbv beta iota zeta delta [bind ret].
  - rewrite add_delay_eq. destruct (add_delay e _ n s1) as [s2 [[]|er]]; [|reflexivity].
    unfold append_slot. reflexivity.
  - unfold append_slot. reflexivity.
Qed.

(** scheduler operations never change a channel's configuration *)
Lemma sigs_find_cfg n :
  forall (s s' : sched) (c c' : chan),
    sigs s' = sigs s -> find_chan n s = Some c -> find_chan n s' = Some c' ->
    ch_cfg c' = ch_cfg c.
Proof.
  induction s as [|a s IH]; intros [|a' s'] c c' H; cbn [find_chan]; try discriminate.
  cbn [sigs map] in H. inversion H as [[Hn Hi Hc Hr]].
  rewrite Hn. destruct (ch_name a =? n).
  - intros X Y. inversion X; inversion Y; subst. exact Hc.
  - apply IH. exact Hr.
Qed.

Lemma add_target_eq (e : env) (qs : list Z) (n : Z) (s : sched) :
  gen_add_target e qs n s = add_target e qs n s.
Proof.
  unfold gen_add_target, add_target. red_m.
  destruct (find_chan n s) as [c|] eqn:Hf; red_m; [|reflexivity].
  repeat (progress (rewrite ?Hf; red_m)).
  destruct (ch_slots c) as [|l0 r0] eqn:Hs; red_m.
  - rewrite check_duration_eq.
    destruct (check_duration e 0 true) as [[]|er]; red_m; reflexivity.
  - rewrite wait_for_fall_eq.
    destruct (wait_for_fall e n s) as [s1 [[]|er]] eqn:Hw; red_m; [|reflexivity].
    destruct (find_chan n s1) as [c1|] eqn:Hf1; red_m; [|reflexivity].
    assert (Hcfg : ch_cfg c1 = ch_cfg c).
    { eapply sigs_find_cfg; [eapply sig_keep_wait; exact Hw|exact Hf|exact Hf1]. }
    destruct (ch_slots c1) as [|l1 r1] eqn:Hs1; red_m; [reflexivity|].
    repeat (progress (rewrite ?Hf1; red_m)).
    destruct (list_Z_eqb (s_tg l1) qs); red_m; [reflexivity|].
    repeat (progress (rewrite ?Hf1; red_m)).
    rewrite ?last_target_eq, ?Hcfg, ?Hs1.
    destruct (negb (c_fixret (ch_cfg c) =? 0)); red_m;
      match goal with |- context [negb (?d =? 0)] => destruct (negb (d =? 0)) end; red_m;
      repeat (progress (rewrite ?Hf1, ?Hcfg; red_m));
      rewrite ?adjust_duration_eq;
      try match goal with |- context [adjust_duration ?a ?b] =>
            destruct (adjust_duration a b) as [d'|er]; red_m; [|reflexivity] end;
      rewrite ?check_duration_eq;
      match goal with |- context [check_duration ?a ?b ?c] =>
        destruct (check_duration a b c) as [[]|er]; red_m; reflexivity end.
Qed.

Lemma disable_eom_eq (e : env) (n : Z) (skip : bool) (s : sched) :
  gen_disable_eom e n skip s = disable_eom e n skip s.
Proof.
  unfold gen_disable_eom, disable_eom.
  cbv beta iota zeta delta [bind ret].
  destruct (last_slot n s) as [s0 [last|er]]; [|reflexivity].
  cbv beta iota zeta delta [bind ret the_chan].
  destruct (find_chan n (upd_chan n (fun c => close_eom c (s_tf last)) s0)) as [c|] eqn:Hf;
    cbv beta iota zeta delta [bind ret the_chan]; [|reflexivity].
  destruct skip; cbn [negb]; [reflexivity|].
  destruct (c_eom (ch_cfg c)) as [ec|]; [destruct (e_custom ec)|];
    cbv beta iota zeta delta [bind ret the_chan lift]; rewrite ?Hf;
    cbv beta iota zeta delta [bind ret the_chan lift].
  - rewrite adjust_duration_eq.
    destruct (adjust_duration (ch_cfg c) _) as [d'|er]; cbv beta iota; [|reflexivity].
    rewrite add_delay_eq. destruct (add_delay e d' n _) as [s2 [[]|er]]; reflexivity.
  - rewrite wait_for_fall_eq. destruct (wait_for_fall e n _) as [s2 [[]|er]]; reflexivity.
  - rewrite wait_for_fall_eq. destruct (wait_for_fall e n _) as [s2 [[]|er]]; reflexivity.
Qed.

Lemma sigs_find_ex n :
  forall (s s' : sched) (c : chan),
    sigs s' = sigs s -> find_chan n s = Some c ->
    exists c', find_chan n s' = Some c' /\ ch_cfg c' = ch_cfg c.
Proof.
  induction s as [|a s IH]; intros [|a' s'] c H; cbn [find_chan]; try discriminate.
  cbn [sigs map] in H. inversion H as [[Hn Hi Hc Hr]].
  rewrite Hn. destruct (ch_name a =? n).
  - intros X. inversion X; subst. eauto.
  - apply IH. exact Hr.
Qed.

Ltac fin :=
  repeat (red_m; match goal with
    | |- context [match find_chan ?n ?s with _ => _ end] => destruct (find_chan n s)
    | |- context [match ch_slots ?c with _ => _ end] => destruct (ch_slots c)
    end); red_m; try reflexivity.

Lemma enable_eom_eq (e : env) (n : Z) (amp_on det_on det_off : float) (skip_wait : bool)
      (s : sched) :
  gen_enable_eom e n amp_on det_on det_off skip_wait s =
  enable_eom e n amp_on det_on det_off skip_wait s.
Proof.
  unfold gen_enable_eom, enable_eom. red_m.
  destruct (find_chan n s) as [c|] eqn:Hf; red_m; [|reflexivity].
  repeat (progress (rewrite ?Hf; red_m)).
  rewrite get_duration_eq. cbn [negb andb].
  destruct (negb (ch_duration c false =? 0)); red_m; [|solve [fin]].
  destruct skip_wait; cbn [negb]; red_m.
  - (* no wait *)
    repeat (progress (rewrite ?Hf; red_m)).
    rewrite adjust_duration_eq.
    destruct (adjust_duration (ch_cfg c) (eom_buffer_time (ch_cfg c))) as [buf|er]; red_m; [|reflexivity].
    destruct (f_ne det_off zero); red_m.
    + repeat (progress (rewrite ?Hf; red_m)).
      destruct (ch_slots c) as [|l0 r0]; red_m; [reflexivity|].
      rewrite add_pulse_eq. unfold mk_buffer_pulse.
      destruct (add_pulse e _ n [0] 1 None s) as [s2 [[]|er]]; red_m; [|reflexivity].
      fin.
    + rewrite add_delay_eq.
      destruct (add_delay e buf n s) as [s2 [[]|er]]; red_m; [|reflexivity].
      fin.
  - (* wait for the fall first *)
    rewrite wait_for_fall_eq.
    destruct (wait_for_fall e n s) as [s1 [[]|er]] eqn:Hw; red_m; [|reflexivity].
    destruct (sigs_find_ex n s s1 c (sig_keep_wait e n _ _ _ Hw) Hf) as (c1 & Hf1 & Hcfg).
    repeat (progress (rewrite ?Hf1, ?Hcfg; red_m)).
    rewrite adjust_duration_eq.
    destruct (adjust_duration (ch_cfg c) (eom_buffer_time (ch_cfg c))) as [buf|er]; red_m; [|reflexivity].
    destruct (f_ne det_off zero); red_m.
    + repeat (progress (rewrite ?Hf1; red_m)).
      destruct (ch_slots c1) as [|l0 r0]; red_m; [reflexivity|].
      rewrite add_pulse_eq. unfold mk_buffer_pulse.
      destruct (add_pulse e _ n [0] 1 None s1) as [s2 [[]|er]]; red_m; [|reflexivity].
      fin.
    + rewrite add_delay_eq.
      destruct (add_delay e buf n s1) as [s2 [[]|er]]; red_m; [|reflexivity].
      fin.
Qed.
