(** C16 - the algebraic clauses, proved for the exact-rational instance [QN]
    of Model/Wave.v: np.sum's pairwise summation is a sum; Blackman / Kaiser
    waveforms integrate to the requested area; ramps take the documented
    values; scaling / negation / division scale the samples; the phase of a
    pulse lies in [0, P); ArbitraryPhase reproduces the phase waveform;
    from_max_val never exceeds max_val. *)
From Coq Require Import ZArith QArith Qcanon Qround List Bool Lia Lqa.
From PV Require Import Model.Base Model.Wave Model.WaveQ Proofs.Wave.
Import ListNotations.
Open Scope Qc_scope.

(** * Bridge Qc -> Q for order reasoning with [lra]/[nra] *)
Lemma this_add (x y : Qc) : (this (x + y) == this x + this y)%Q.
Proof. unfold Qcplus, Q2Qc. cbn [this]. apply Qred_correct. Qed.
Lemma this_mul (x y : Qc) : (this (x * y) == this x * this y)%Q.
Proof. unfold Qcmult, Q2Qc; cbn [this]. apply Qred_correct. Qed.
Lemma this_opp (x : Qc) : (this (- x) == - this x)%Q.
Proof. unfold Qcopp, Q2Qc; cbn [this]. apply Qred_correct. Qed.
Lemma this_sub (x y : Qc) : (this (x - y) == this x - this y)%Q.
Proof. unfold Qcminus. rewrite this_add, this_opp. reflexivity. Qed.
Lemma this_inv (x : Qc) : (this (/ x) == / this x)%Q.
Proof. unfold Qcinv, Q2Qc; cbn [this]. apply Qred_correct. Qed.
Lemma this_ofZ (z : Z) : (this (qc_ofZ z) == inject_Z z)%Q.
Proof. unfold qc_ofZ, Q2Qc; cbn [this]. apply Qred_correct. Qed.
Lemma this_0 : (this 0 == 0)%Q. Proof. reflexivity. Qed.
Lemma this_1 : (this 1 == 1)%Q. Proof. reflexivity. Qed.

Ltac qc2q :=
  unfold Qcle, Qclt, Qcdiv in *;
  repeat (rewrite ?this_add, ?this_mul, ?this_sub, ?this_opp in * );
  cbn [this Q2Qc] in *; rewrite ?Qred_correct in *.

Lemma Qc_eq_this (x y : Qc) : (this x == this y)%Q -> x = y.
Proof. apply Qc_is_canon. Qed.

Lemma qclt_irrefl (x : Qc) : ~ x < x.
Proof. unfold Qclt. apply Qlt_irrefl. Qed.

(** boolean comparisons of [QN] *)
Lemma qc_lt_true a b : qc_lt a b = true <-> a < b.
Proof.
  unfold qc_lt. rewrite Qclt_alt. destruct (a ?= b); split; congruence.
Qed.
Lemma qc_lt_false a b : qc_lt a b = false <-> b <= a.
Proof.
  split; intro H.
  - apply Qcnot_lt_le. intro L. apply qc_lt_true in L. congruence.
  - destruct (qc_lt a b) eqn:X; [|reflexivity]. apply qc_lt_true in X.
    exfalso. eapply Qcle_not_lt; eauto.
Qed.
Lemma qc_le_true a b : qc_le a b = true <-> a <= b.
Proof.
  unfold qc_le. rewrite Qcle_alt. destruct (a ?= b); split; congruence.
Qed.

Ltac qn := cbn [n0 n1 nadd nsub nmul ndiv nopp nabs nofZ nlt nle neqb nmodP
                k1e3 k1em3 k042 k100 QN] in *.

(** * np.sum (pairwise summation) computes the sum *)
Lemma qsum_app l1 l2 : qsum (l1 ++ l2) = qsum l1 + qsum l2.
Proof. induction l1; simpl; [ring | rewrite IHl1; ring]. Qed.

Lemma sum_seq_q : forall l acc, sum_seq QN acc l = acc + qsum l.
Proof.
  induction l; intros; unfold sum_seq in *; simpl; qn; [ring | rewrite IHl; simpl; ring].
Qed.

Lemma blk8_q : forall n l r0 r1 r2 r3 r4 r5 r6 r7,
    (length l <= n)%nat ->
    blk8 QN r0 r1 r2 r3 r4 r5 r6 r7 l = r0 + r1 + r2 + r3 + r4 + r5 + r6 + r7 + qsum l.
Proof.
  induction n; intros l r0 r1 r2 r3 r4 r5 r6 r7 H;
    destruct l as [|a0 [|a1 [|a2 [|a3 [|a4 [|a5 [|a6 [|a7 t]]]]]]]];
    cbn [blk8]; try (rewrite sum_seq_q; qn; simpl; ring); simpl in H; try lia.
  rewrite IHn by lia. qn. simpl. ring.
Qed.

Lemma sum_block_q : forall l, sum_block QN l = qsum l.
Proof.
  intros l. destruct l as [|a0 [|a1 [|a2 [|a3 [|a4 [|a5 [|a6 [|a7 t]]]]]]]];
    cbn [sum_block]; try (rewrite sum_seq_q; qn; simpl; ring).
  rewrite (blk8_q (length t)) by lia. simpl. ring.
Qed.

Theorem pw_q : forall fuel l, pw QN fuel l = qsum l.
Proof.
  induction fuel; intros l; cbn [pw].
  - destruct (_ <=? _)%Z; apply sum_block_q.
  - destruct (_ <=? _)%Z; [apply sum_block_q|].
    rewrite !IHfuel. qn. rewrite <- qsum_app. now rewrite firstn_skipn.
Qed.

Corollary pwsum_q : forall l, pwsum QN l = qsum l.
Proof. intros; apply pw_q. Qed.

Lemma qsum_scale : forall l c, qsum (map (fun x => x * c) l) = qsum l * c.
Proof. induction l; intros; simpl; [ring | rewrite IHl; ring]. Qed.

(** * T6: Blackman and Kaiser waveforms integrate to the requested area *)
Lemma k1e3_k1em3 : k1e3 QN * k1em3 QN = 1.
Proof. apply Qc_is_canon. reflexivity. Qed.

Theorem area_contract : forall E k d area beta win,
    win_lookup QN (e_win E) k d beta = Some win ->
    qsum (map (clip0 QN) win) <> 0 ->
    integral QN E (WWin k d area beta) = Ok area.
Proof.
  intros E k d area beta win L S. unfold integral. simpl. rewrite L. simpl.
  f_equal. unfold win_samples, win_scaling. rewrite !pwsum_q.
  set (s := qsum (map (clip0 QN) win)) in *. rewrite qsum_scale. fold s. qn.
  transitivity (area * (s * / s) * (k1e3 QN * k1em3 QN)); [unfold Qcdiv; qn; ring|].
  rewrite k1e3_k1em3, Qcmult_inv_r by assumption. ring.
Qed.

(** the hypothesis is satisfiable exactly when some clipped window value is
    positive: the clipped values are >= 0 *)
Lemma clip0_nonneg : forall x, 0 <= clip0 QN x.
Proof.
  intros x. unfold clip0. qn. destruct (qc_lt x 0) eqn:L.
  - apply Qcle_refl.
  - now apply qc_lt_false.
Qed.

Lemma qsum_nonneg : forall l, Forall (fun x => 0 <= x) l -> 0 <= qsum l.
Proof.
  induction 1; simpl; [apply Qcle_refl|]. qc2q. lra.
Qed.

Lemma qsum_pos : forall l x, Forall (fun y => 0 <= y) l -> In x l -> 0 < x -> 0 < qsum l.
Proof.
  induction 1 as [|y l Hy Hl IH]; intros Hin Hx; simpl in *; [contradiction|].
  pose proof (qsum_nonneg l Hl) as Hn.
  destruct Hin as [->|Hin].
  - qc2q. lra.
  - specialize (IH Hin Hx). qc2q. lra.
Qed.

Theorem area_contract_pos : forall E k d area beta win x,
    win_lookup QN (e_win E) k d beta = Some win ->
    In x win -> 0 < x ->
    integral QN E (WWin k d area beta) = Ok area.
Proof.
  intros E k d area beta win x L Hin Hx. eapply area_contract; eauto.
  assert (0 < qsum (map (clip0 QN) win)).
  { apply (qsum_pos _ (clip0 QN x)).
    - apply Forall_forall. intros y Hy. apply in_map_iff in Hy as (z & <- & _). apply clip0_nonneg.
    - now apply in_map.
    - unfold clip0. qn. destruct (qc_lt x 0) eqn:L0; [|assumption].
      apply qc_lt_true in L0. exfalso. eapply Qclt_not_le; [exact Hx|]. now apply Qclt_le_weak. }
  intro Z. rewrite Z in H. exact (qclt_irrefl _ H).
Qed.

(** * T2: ramps take the documented values *)
Lemma ofZ_pos : forall z, (0 < z)%Z -> 0 < qc_ofZ z.
Proof.
  intros z Hz. unfold Qclt. rewrite this_ofZ. cbn [this Q2Qc]. rewrite Qred_correct.
  change 0%Q with (inject_Z 0). rewrite <- Zlt_Qlt. assumption.
Qed.
Lemma ofZ_le : forall a b, (a <= b)%Z -> qc_ofZ a <= qc_ofZ b.
Proof.
  intros a b H. unfold Qcle. rewrite !this_ofZ. now rewrite <- Zle_Qle.
Qed.
Lemma ofZ_0 : qc_ofZ 0 = 0.
Proof. apply Qc_is_canon. reflexivity. Qed.

Lemma clip_id : forall lo hi x, lo <= x -> x <= hi -> clip QN lo hi x = x.
Proof.
  intros lo hi x H1 H2. unfold clip. qn.
  replace (qc_lt x lo) with false by (symmetry; now apply qc_lt_false).
  replace (qc_lt hi x) with false by (symmetry; now apply qc_lt_false). reflexivity.
Qed.

Lemma ramp_lo_hi : forall a b,
    (ramp_lo QN a b = a /\ ramp_hi QN a b = b /\ a <= b) \/
    (ramp_lo QN a b = b /\ ramp_hi QN a b = a /\ b < a).
Proof.
  intros a b. unfold ramp_lo, ramp_hi. qn. destruct (qc_lt b a) eqn:L.
  - right. apply qc_lt_true in L. auto.
  - left. apply qc_lt_false in L. auto.
Qed.

(** affine interpolation, no clipping needed: for 0 <= i <= d-1, d >= 2 *)
Theorem ramp_values : forall d a b i,
    (2 <= d)%Z -> (0 <= i <= d - 1)%Z ->
    ramp_sample QN d a b i = a + (b - a) * (qc_ofZ i / qc_ofZ (d - 1)).
Proof.
  intros d a b i Hd Hi. unfold ramp_sample, ramp_slope. qn.
  set (n := qc_ofZ (d - 1)). set (q := qc_ofZ i).
  assert (Hn : 0 < n) by (apply ofZ_pos; lia).
  assert (Hq0 : 0 <= q) by (unfold q; rewrite <- ofZ_0; apply ofZ_le; lia).
  assert (Hqn : q <= n) by (apply ofZ_le; lia).
  assert (Hne : n <> 0) by (intro Z; rewrite Z in Hn; exact (qclt_irrefl _ Hn)).
  set (t := q / n).
  assert (Ht : t * n = q) by (unfold t; field; assumption).
  assert (Ht0 : 0 <= t /\ t <= 1).
  { clearbody t n q. clear -Hn Hq0 Hqn Ht. subst q. qc2q. nra. }
  assert (Hx : (b - a) / n * q + a = a + (b - a) * t) by (unfold t; field; assumption).
  rewrite Hx. destruct Ht0 as [T0 T1].
  destruct (ramp_lo_hi a b) as [(-> & -> & Hab) | (-> & -> & Hab)];
    apply clip_id; clearbody t; clear -T0 T1 Hab; qc2q; nra.
Qed.

Corollary ramp_first : forall d a b, (2 <= d)%Z -> ramp_sample QN d a b 0 = a.
Proof.
  intros. rewrite ramp_values by lia. rewrite ofZ_0. unfold Qcdiv. ring.
Qed.

Corollary ramp_last : forall d a b, (2 <= d)%Z -> ramp_sample QN d a b (d - 1) = b.
Proof.
  intros. rewrite ramp_values by lia.
  assert (qc_ofZ (d - 1) <> 0).
  { intro Z. pose proof (ofZ_pos (d - 1) ltac:(lia)) as P. rewrite Z in P. exact (qclt_irrefl _ P). }
  field. assumption.
Qed.

Corollary ramp_endpoints : forall d a b,
    (2 <= d)%Z -> ramp_sample QN d a b 0 = a /\ ramp_sample QN d a b (d - 1) = b.
Proof. intros d a b H. exact (conj (ramp_first d a b H) (ramp_last d a b H)). Qed.

Theorem ramp_samples_nth : forall E d a b i,
    (2 <= d)%Z -> (0 <= i < d)%Z ->
    exists l, samples QN E (WRamp d a b) = Ok l /\
              nth_error l (Z.to_nat i) = Some (a + (b - a) * (qc_ofZ i / qc_ofZ (d - 1))).
Proof.
  intros E d a b i Hd Hi. simpl. eexists; split; [reflexivity|].
  rewrite nth_error_map, seqZ_nth by lia. simpl. f_equal.
  rewrite Z2Nat.id by lia. apply ramp_values; lia.
Qed.

(** samples of a ramp never leave [min(start,stop), max(start,stop)] *)
Theorem clip_in_range : forall lo hi x, lo <= hi -> lo <= clip QN lo hi x /\ clip QN lo hi x <= hi.
Proof.
  intros lo hi x H. unfold clip. qn.
  destruct (qc_lt x lo) eqn:L1.
  - replace (qc_lt hi lo) with false by (symmetry; now apply qc_lt_false).
    split; [apply Qcle_refl | assumption].
  - apply qc_lt_false in L1. destruct (qc_lt hi x) eqn:L2.
    + split; [assumption | apply Qcle_refl].
    + apply qc_lt_false in L2. auto.
Qed.

(** * T5: scaling, negation and division scale the samples *)
Lemma clip_scale : forall a b x k,
    clip QN (ramp_lo QN (a * k) (b * k)) (ramp_hi QN (a * k) (b * k)) (x * k) =
    clip QN (ramp_lo QN a b) (ramp_hi QN a b) x * k.
Proof.
  intros a b x k.
  destruct (Qc_eq_dec k 0) as [->|Hk].
  { replace (a * 0) with 0 by ring. replace (b * 0) with 0 by ring.
    replace (x * 0) with 0 by ring. unfold ramp_lo, ramp_hi, clip. qn.
    repeat match goal with |- context [if ?c then _ else _] => destruct c end; ring. }
  assert (Hs : 0 < k \/ k < 0).
  { destruct (Qclt_le_dec 0 k); [auto|]. right. apply Qcle_lt_or_eq in q as [|]; [assumption | congruence]. }
  unfold ramp_lo, ramp_hi, clip. qn.
  repeat match goal with
         | |- context [qc_lt ?u ?v] =>
             lazymatch u with context [if _ then _ else _] => fail | _ => idtac end;
             lazymatch v with context [if _ then _ else _] => fail | _ => idtac end;
             let L := fresh "L" in
             destruct (qc_lt u v) eqn:L;
             [apply qc_lt_true in L | apply qc_lt_false in L]
         end;
    (first [reflexivity | apply Qc_eq_this; destruct Hs as [Hs|Hs]; clear Hk; qc2q; nra]).
Qed.

Lemma ramp_sample_scale : forall d a b k i,
    ramp_sample QN d (a * k) (b * k) i = ramp_sample QN d a b i * k.
Proof.
  intros. unfold ramp_sample, ramp_slope. qn. rewrite <- clip_scale. f_equal.
  unfold Qcdiv. ring.
Qed.

Fixpoint interp_free (w : wf Qc) : bool :=
  match w with
  | WComp ws => (fix go (l : list (wf Qc)) : bool :=
                   match l with [] => true | x :: t => interp_free x && go t end) ws
  | WInterp _ _ _ => false
  | _ => true
  end.

Lemma map_repeat {A B} (f : A -> B) x n : map f (repeat x n) = repeat (f x) n.
Proof. induction n; simpl; congruence. Qed.

Theorem scale_law : forall E k w l,
    interp_free w = true ->
    samples QN E w = Ok l ->
    samples QN E (wmul QN k w) = Ok (map (fun x => x * k) l).
Proof.
  intros E k. induction w using wf_ind2; intros sl F S.
  - simpl in *. inversion S; subst. f_equal. rewrite map_repeat. f_equal. qn. ring.
  - simpl in *. inversion S; subst. f_equal. rewrite map_map. apply map_ext.
    intros i. qn. apply ramp_sample_scale.
  - simpl in *. inversion S; subst. reflexivity.
  - change (wmul QN k (WComp ws)) with (WComp (map (wmul QN k) ws)).
    rewrite samples_comp in *.
    assert (Ff : forallb interp_free ws = true).
    { clear -F. simpl in F. induction ws; simpl in *; [reflexivity|].
      apply andb_true_iff in F as [F1 F2]. rewrite F1. simpl. auto. }
    clear F. revert sl S. induction H as [|x t Hx Ht IH]; intros sl S; simpl in *.
    + inversion S; subst. reflexivity.
    + apply andb_true_iff in Ff as [F1 F2].
      apply rbind_ok in S as (lx & Sx & S). apply rbind_ok in S as (lt & St & S).
      inversion S; subst. rewrite (Hx _ F1 Sx). simpl. rewrite (IH F2 _ St). simpl.
      now rewrite map_app.
  - simpl in *. destruct (win_lookup QN (e_win E) k0 d beta) as [win|]; [|discriminate].
    inversion S; subst. f_equal. unfold win_samples, win_scaling.
    set (nm := map (clip0 QN) win). rewrite map_map.
    apply map_ext. intros x. qn. unfold Qcdiv. ring.
  - discriminate.
Qed.

Corollary neg_law : forall E w l,
    interp_free w = true -> samples QN E w = Ok l ->
    samples QN E (wneg QN w) = Ok (map Qcopp l).
Proof.
  intros E w l F S. unfold wneg. rewrite (scale_law E _ w l F S). f_equal.
  apply map_ext. intros. qn. ring.
Qed.

Corollary div_law : forall E k w l,
    interp_free w = true -> samples QN E w = Ok l -> k <> 0 ->
    exists w', wdiv QN k w = Ok w' /\ samples QN E w' = Ok (map (fun x => x / k) l).
Proof.
  intros E k w l F S Hk. unfold wdiv. qn.
  replace (qc_eqb k 0) with false.
  - eexists; split; [reflexivity|]. rewrite (scale_law E _ w l F S). f_equal.
    apply map_ext. intros. field. assumption.
  - symmetry. unfold qc_eqb. destruct (k ?= 0) eqn:C; try reflexivity.
    apply Qceq_alt in C. contradiction.
Qed.

Theorem div_by_zero : forall w, wdiv QN 0 w = Err EZeroDiv.
Proof. reflexivity. Qed.

(** * T9: the phase of a pulse lies in [0, P) and differs from the given one
    by a whole number of periods *)
Lemma qc_P_pos : 0 < qc_P.
Proof. reflexivity. Qed.

Theorem modP_range : forall x, 0 <= qc_modP x /\ qc_modP x < qc_P.
Proof.
  intros x. unfold qc_modP.
  set (y := x / qc_P). set (f := qc_floor y).
  assert (HP : qc_P <> 0) by (intro Z; pose proof qc_P_pos as P; rewrite Z in P; exact (qclt_irrefl _ P)).
  assert (Hy : x = y * qc_P) by (unfold y; field; assumption).
  assert (F1 : qc_ofZ f <= y).
  { unfold Qcle. rewrite this_ofZ. apply Qfloor_le. }
  assert (F2 : y < qc_ofZ f + 1).
  { unfold Qclt. rewrite this_add, this_ofZ. cbn [this Q2Qc]. rewrite Qred_correct.
    unfold f, qc_floor.
    pose proof (Qlt_floor (this y)) as L. rewrite inject_Z_plus in L. exact L. }
  pose proof qc_P_pos as PP. rewrite Hy. clearbody y f. clear Hy HP.
  set (g := qc_ofZ f) in *. clearbody g.
  split; qc2q; nra.
Qed.

Theorem modP_congruent : forall x, exists n : Z, x = qc_modP x + qc_P * qc_ofZ n.
Proof. intros x. exists (qc_floor (x / qc_P)). unfold qc_modP. ring. Qed.

Theorem pulse_contract : forall E amp det phase post p,
    pulse_new QN E amp det phase post = Ok p ->
    dur det = dur amp /\
    (exists sa, samples QN E amp = Ok sa /\ Forall (fun x => 0 <= x) sa) /\
    0 <= p_phase p /\ p_phase p < qc_P /\
    (exists n : Z, phase = p_phase p + qc_P * qc_ofZ n).
Proof.
  intros E amp det phase post p H.
  apply pulse_new_spec in H as (Hd & (sa & S & Hsa) & _ & _ & Hph & _).
  split; [assumption|]. split.
  - exists sa; split; [assumption|]. eapply Forall_impl; [|exact Hsa].
    intros a Ha. qn. now apply qc_lt_false.
  - rewrite Hph. qn. pose proof (modP_range phase) as [R1 R2].
    repeat split; auto. apply modP_congruent.
Qed.

(** * T10: a pulse built from an arbitrary phase waveform reproduces it *)
Lemma cumsum_diff : forall pc l prev acc,
    pc - acc * k1em3 QN = prev ->
    map (fun c => pc - c * k1em3 QN)
        (cumsum_from QN acc (map (fun x => - x * k1e3 QN) (ndiff QN (prev :: l)))) = l.
Proof.
  intros pc. induction l as [|b r IH]; intros prev acc H; [reflexivity|].
  change (ndiff QN (prev :: b :: r)) with (nsub QN b prev :: ndiff QN (b :: r)).
  cbn [map cumsum_from]. qn. f_equal.
  - pose proof k1e3_k1em3 as K. qn. rewrite <- H.
    transitivity (pc - acc * Q2Qc (1 # 1000) + (b - (pc - acc * Q2Qc (1 # 1000))) * (qc_ofZ 1000 * Q2Qc (1 # 1000)));
      [ring | rewrite K; ring].
  - apply IH. pose proof k1e3_k1em3 as K. qn. rewrite <- H.
    transitivity (pc - acc * Q2Qc (1 # 1000) + (b - (pc - acc * Q2Qc (1 # 1000))) * (qc_ofZ 1000 * Q2Qc (1 # 1000)));
      [ring | rewrite K; ring].
Qed.

Lemma ofZ_add a b : qc_ofZ (a + b) = qc_ofZ a + qc_ofZ b.
Proof. apply Qc_eq_this. rewrite this_add, !this_ofZ. rewrite inject_Z_plus. reflexivity. Qed.
Lemma ofZ_1 : qc_ofZ 1 = 1.
Proof. apply Qc_is_canon. reflexivity. Qed.

Lemma cumsum_repeat : forall n pc acc c,
    map (fun s => pc - s * k1em3 QN) (cumsum_from QN acc (repeat c n)) =
    map (fun j => pc - (acc + qc_ofZ (Z.of_nat j + 1) * c) * k1em3 QN) (seq 0 n).
Proof.
  induction n; intros pc acc c; [reflexivity|].
  cbn [repeat cumsum_from map seq]. f_equal.
  - qn. replace (qc_ofZ (Z.of_nat 0 + 1)) with 1 by (apply Qc_is_canon; reflexivity). ring.
  - rewrite IHn. rewrite <- seq_shift, map_map. apply map_ext. intros j. qn.
    replace (Z.of_nat (S j) + 1)%Z with ((Z.of_nat j + 1) + 1)%Z by lia.
    rewrite (ofZ_add (Z.of_nat j + 1) 1), ofZ_1. ring.
Qed.

Lemma ndiff_length : forall l a, length (ndiff QN (a :: l)) = length l.
Proof.
  induction l as [|b l IH]; intros a; [reflexivity|].
  change (ndiff QN (a :: b :: l)) with (nsub QN b a :: ndiff QN (b :: l)).
  cbn [length]. now rewrite IH.
Qed.

Theorem arbitrary_phase_generic : forall E ph ps det pc ds,
    (forall d v, ph <> WConst d v) -> (forall d a b, ph <> WRamp d a b) ->
    samples QN E ph = Ok ps -> dur ph = Z.of_nat (length ps) ->
    arb_detuning QN E ph = Ok det ->
    arb_phase_c QN E ph det = Ok pc ->
    samples QN E det = Ok ds ->
    (2 <= length ps)%nat /\ length ds = length ps /\ reproduced_phase QN pc ds = ps.
Proof.
  intros E ph ps det pc ds NC NR S Hdur D PC DS.
  assert (D' : match map (fun x => nmul QN (nopp QN x) (k1e3 QN)) (ndiff QN ps) with
               | [] => Err EValue
               | d0 :: r => Ok (WCustom (d0 :: d0 :: r))
               end = Ok det).
  { destruct ph; try (exfalso; eapply NC; reflexivity); try (exfalso; eapply NR; reflexivity);
      unfold arb_detuning in D; rewrite S in D; exact D. }
  clear D. destruct ps as [|p0 [|p1 r]]; try discriminate.
  change (ndiff QN (p0 :: p1 :: r)) with (nsub QN p1 p0 :: ndiff QN (p1 :: r)) in D'.
  cbn [map] in D'. inversion D'; subst det; clear D'.
  simpl in DS. inversion DS; subst ds; clear DS.
  unfold arb_phase_c, get_index in PC. rewrite S in PC.
  assert (C0 : forall n, (0 < n)%Z -> check_index n 0 = Ok 0%Z).
  { intros n Hn. unfold check_index.
    destruct (Z.ltb_spec 0 (- n)), (Z.leb_spec n 0); simpl; try lia. reflexivity. }
  rewrite (C0 (dur ph)) in PC by (rewrite Hdur; cbn [length]; lia).
  rewrite (C0 (dur (WCustom _))) in PC by (cbn [dur length]; lia).
  simpl in PC. inversion PC; subst pc; clear PC.
  change (match r with [] => [] | b :: _ => b - p1 :: ndiff QN r end) with (ndiff QN (p1 :: r)).
  split; [simpl; lia|]. split; [cbn [length]; now rewrite map_length, ndiff_length|].
  unfold reproduced_phase. cbn [cumsum_from map]. qn.
  pose proof k1e3_k1em3 as K. qn.
  f_equal.
  - transitivity (p0 + (- (p1 - p0)) * (qc_ofZ 1000 * Q2Qc (1 # 1000)) - (- (p1 - p0)) * (qc_ofZ 1000 * Q2Qc (1 # 1000))); [ring|].
    rewrite K. ring.
  - set (pc := p0 + - (p1 - p0) * qc_ofZ 1000 * Q2Qc (1 # 1000)).
    set (acc := 0 + - (p1 - p0) * qc_ofZ 1000).
    pose proof (cumsum_diff pc (p1 :: r) p0 acc) as L.
    change (ndiff QN (p0 :: p1 :: r)) with (nsub QN p1 p0 :: ndiff QN (p1 :: r)) in L.
    cbn [map cumsum_from] in L. qn. apply L.
    unfold pc, acc.
    transitivity (p0 + (- (p1 - p0)) * (qc_ofZ 1000 * Q2Qc (1 # 1000)) - (- (p1 - p0)) * (qc_ofZ 1000 * Q2Qc (1 # 1000))); [ring|].
    rewrite K. ring.
Qed.

(** the two special cases of Pulse.ArbitraryPhase: constant and ramp phase *)
Lemma k1em3_inv : k1em3 QN = / k1e3 QN.
Proof. apply Qc_is_canon. reflexivity. Qed.
Lemma k1e3_nz : k1e3 QN <> 0.
Proof. intro H. discriminate H. Qed.

Lemma map_const_seq {A} (c : A) n s : map (fun _ => c) (seq s n) = repeat c n.
Proof. revert s; induction n; intros; simpl; [reflexivity | now rewrite IHn]. Qed.

Lemma check_index_0 : forall n, (0 < n)%Z -> check_index n 0 = Ok 0%Z.
Proof.
  intros n Hn. unfold check_index.
  destruct (Z.ltb_spec 0 (- n)), (Z.leb_spec n 0); simpl; try lia. reflexivity.
Qed.

Lemma get_index_const_0 : forall E d v, (0 < d)%Z -> get_index QN E (WConst d v) 0 = Ok (v * 1).
Proof.
  intros E d v Hd. unfold get_index. cbn [dur]. rewrite check_index_0 by assumption.
  cbn [rbind samples]. destruct (Z.to_nat d) eqn:X; [lia|]. reflexivity.
Qed.

Lemma get_index_ramp_0 : forall E d a b, (0 < d)%Z ->
    get_index QN E (WRamp d a b) 0 = Ok (ramp_sample QN d a b 0).
Proof.
  intros E d a b Hd. unfold get_index. cbn [dur]. rewrite check_index_0 by assumption.
  cbn [rbind samples]. unfold seqZ. destruct (Z.to_nat d) eqn:X; [lia|]. reflexivity.
Qed.

Theorem arbitrary_phase_const : forall E d v det pc ps ds,
    (0 < d)%Z ->
    arb_detuning QN E (WConst d v) = Ok det ->
    arb_phase_c QN E (WConst d v) det = Ok pc ->
    samples QN E (WConst d v) = Ok ps -> samples QN E det = Ok ds ->
    reproduced_phase QN pc ds = ps.
Proof.
  intros E d v det pc ps ds Hd D PC S DS.
  cbn [arb_detuning] in D. inversion D; subst det; clear D.
  unfold arb_phase_c in PC. rewrite !get_index_const_0 in PC by assumption.
  cbn [rbind] in PC. inversion PC; subst pc; clear PC.
  cbn [samples] in *. inversion S; subst ps. inversion DS; subst ds.
  unfold reproduced_phase. rewrite cumsum_repeat.
  rewrite <- (map_const_seq _ (Z.to_nat d) 0%nat). apply map_ext. intros j. qn. ring.
Qed.

Theorem arbitrary_phase_ramp : forall E d a b det pc ps ds,
    (2 <= d)%Z ->
    arb_detuning QN E (WRamp d a b) = Ok det ->
    arb_phase_c QN E (WRamp d a b) det = Ok pc ->
    samples QN E (WRamp d a b) = Ok ps -> samples QN E det = Ok ds ->
    reproduced_phase QN pc ds = ps.
Proof.
  intros E d a b det pc ps ds Hd D PC S DS.
  cbn [arb_detuning] in D. inversion D; subst det; clear D.
  unfold arb_phase_c in PC.
  rewrite get_index_ramp_0, get_index_const_0 in PC by lia.
  cbn [rbind] in PC. inversion PC; subst pc; clear PC.
  cbn [samples] in *. inversion S; subst ps. inversion DS; subst ds.
  unfold reproduced_phase. rewrite cumsum_repeat.
  unfold seqZ. rewrite map_map. apply map_ext_in. intros j Hj.
  apply in_seq in Hj. rewrite ramp_first by assumption.
  rewrite ramp_values by lia.
  assert (Hn : qc_ofZ (d - 1) <> 0).
  { intro Z. pose proof (ofZ_pos (d - 1) ltac:(lia)) as P. rewrite Z in P. exact (qclt_irrefl _ P). }
  unfold ramp_slope. rewrite (ofZ_add (Z.of_nat j) 1), ofZ_1.
  pose proof k1em3_inv as KI. pose proof k1e3_nz as K. qn. rewrite !KI. field. split; assumption.
Qed.

(** * T8 (exact part): BlackmanWaveform.from_max_val never exceeds max_val.
    With window values in [0, 1] and a positive area, every sample is at
    most the scaling factor, which the loop left at or below max_val. *)
Theorem window_samples_le_scaling : forall area win,
    Forall (fun x => x <= 1) win ->
    0 <= win_scaling QN area (map (clip0 QN) win) ->
    Forall (fun s => 0 <= s /\ s <= win_scaling QN area (map (clip0 QN) win))
           (win_samples QN area win).
Proof.
  intros area win H1 Hs. unfold win_samples.
  set (sc := win_scaling QN area (map (clip0 QN) win)) in *. clearbody sc.
  apply Forall_forall. intros s Hin. apply in_map_iff in Hin as (c & <- & Hc).
  apply in_map_iff in Hc as (x & <- & Hx).
  rewrite Forall_forall in H1. specialize (H1 x Hx).
  pose proof (clip0_nonneg x) as C0.
  assert (C1 : clip0 QN x <= 1).
  { unfold clip0. qn. destruct (qc_lt x 0); [|assumption]. unfold Qcle. simpl. lra. }
  qn. set (c := clip0 QN x) in *. clearbody c. clear -C0 C1 Hs. split; qc2q; nra.
Qed.

Lemma fold_max_ge : forall r m,
    m <= fold_left (fun m y => if qc_lt m y then y else m) r m /\
    forall y, In y r -> y <= fold_left (fun m y => if qc_lt m y then y else m) r m.
Proof.
  induction r as [|a r IH]; intros m; simpl.
  - split; [apply Qcle_refl | intros ? []].
  - destruct (IH (if qc_lt m a then a else m)) as [I1 I2].
    assert (M : m <= (if qc_lt m a then a else m) /\ a <= (if qc_lt m a then a else m)).
    { destruct (qc_lt m a) eqn:L.
      - apply qc_lt_true in L. split; [now apply Qclt_le_weak | apply Qcle_refl].
      - apply qc_lt_false in L. split; [apply Qcle_refl | assumption]. }
    destruct M as [M1 M2]. split; [eapply Qcle_trans; eauto|].
    intros y [<-|Hy]; [eapply Qcle_trans; eauto | auto].
Qed.

Lemma nmax_list_ge : forall l x, In x l -> x <= nmax_list QN l.
Proof.
  intros [|a r] x Hin; [contradiction|]. unfold nmax_list. qn.
  destruct (fold_max_ge r a) as [F1 F2]. destruct Hin as [<-|Hin]; auto.
Qed.

Lemma scaling_nonneg : forall area win,
    0 < area -> 0 <= win_scaling QN area (map (clip0 QN) win).
Proof.
  intros area win Ha. unfold win_scaling. rewrite pwsum_q. qn.
  assert (S0 : 0 <= qsum (map (clip0 QN) win)).
  { apply qsum_nonneg. apply Forall_forall. intros y Hy.
    apply in_map_iff in Hy as (z & <- & _). apply clip0_nonneg. }
  set (s := qsum (map (clip0 QN) win)) in *. clearbody s.
  assert (I0 : 0 <= / s).
  { unfold Qcle in *. rewrite this_inv. apply Qinv_le_0_compat. exact S0. }
  unfold Qcdiv. set (i := / s) in *. clearbody i.
  assert (K : 0 < qc_ofZ 1000) by reflexivity.
  set (c := qc_ofZ 1000) in *. clearbody c. clear -Ha I0 K.
  unfold Qcle, Qclt in *. rewrite !this_mul. change (this 0) with 0%Q in *.
  apply Qmult_le_0_compat; [apply Qmult_le_0_compat|]; auto using Qlt_le_weak.
Qed.

Theorem bm_never_exceeds : forall E fuel maxv area w sm,
    0 < area -> 0 < maxv ->
    (forall d win, win_lookup QN (e_win E) KBlackman d 0 = Some win ->
                   Forall (fun x => x <= 1) win) ->
    bm_from_max_val QN E fuel maxv area = Ok w ->
    samples QN E w = Ok sm ->
    Forall (fun s => 0 <= s /\ s <= maxv) sm.
Proof.
  intros E fuel maxv area w sm Ha Hm Hwin H S.
  apply bm_from_max_val_post in H. cbv zeta in H.
  assert (Sg : nsign QN area = 1%Z).
  { unfold nsign. qn. replace (qc_lt 0 area) with true; [reflexivity|].
    symmetry. now apply qc_lt_true. }
  rewrite Sg in H. qn. rewrite ofZ_1 in H.
  replace (area * 1) with area in H by ring. replace (maxv * 1) with maxv in H by ring.
  destruct H as (_ & d0 & d & df & _ & _ & (s & Hs & Hle) & _ & Hdf & ->).
  cbn [Z.eqb] in S. cbn [samples] in S. qn.
  destruct (win_lookup QN (e_win E) KBlackman df 0) as [win|] eqn:L; [|discriminate].
  inversion S; subst sm; clear S.
  pose proof (window_samples_le_scaling area win (Hwin _ _ L) (scaling_nonneg area win Ha)) as W.
  destruct Hdf as [->|(-> & _ & _ & m & mp & _ & MP & _ & Hmp)].
  - unfold bm_scaling in Hs. apply rbind_ok in Hs as (u & _ & Hs).
    unfold win_norm in Hs. qn. rewrite L in Hs. cbn [rbind] in Hs. inversion Hs; subst s.
    apply qc_lt_false in Hle.
    eapply Forall_impl; [|exact W]. intros x [X0 X1]. split; [assumption|].
    eapply Qcle_trans; eassumption.
  - unfold bm_peak in MP. cbn [samples] in MP. qn. rewrite L in MP. cbn [rbind] in MP.
    inversion MP; subst mp. apply qc_le_true in Hmp.
    apply Forall_forall. intros x Hx. split.
    + rewrite Forall_forall in W. now apply W.
    + eapply Qcle_trans; [apply nmax_list_ge; exact Hx | exact Hmp].
Qed.

(** * The hypotheses used above are satisfiable / instantiate *)
Lemma qc_lt_trans : forall a b c, qc_lt a b = true -> qc_lt b c = true -> qc_lt a c = true.
Proof.
  intros a b c H1 H2. apply qc_lt_true in H1, H2. apply qc_lt_true.
  eapply Qclt_trans; eassumption.
Qed.
Lemma qc_lt_irrefl : forall a, qc_lt a a = false.
Proof. intros a. apply qc_lt_false. apply Qcle_refl. Qed.

Theorem ks_short_post_Q : forall E ds maxv area beta best mvb best',
    ks_short QN E ds maxv area beta best mvb = Ok best' ->
    exists mvb',
      (best' = best /\ mvb' = mvb \/
       In best' ds /\ ks_peak QN E area beta best' = Ok mvb' /\ mvb' <= maxv /\ mvb < mvb') /\
      (forall d m, In d ds -> ks_peak QN E area beta d = Ok m -> m <= maxv -> m <= mvb').
Proof.
  intros E ds maxv area beta best mvb best' H.
  destruct (ks_short_post QN E qc_lt_trans qc_lt_irrefl _ _ _ _ _ _ _ H) as (mvb' & Hsel & Hopt).
  exists mvb'. split.
  - destruct Hsel as [?|(H1 & H2 & H3 & H4)]; [now left|]. right.
    repeat split; auto; [now apply qc_le_true | now apply qc_lt_true].
  - intros d m Hin P Hle. apply qc_lt_false. eapply Hopt; eauto. now apply qc_le_true.
Qed.

Example env_ok_example :
  env_ok QN (mk_env [(KBlackman, 3%Z, 0, [0; 1; 0])] []).
Proof.
  split.
  - intros k d b w H. simpl in H.
    destruct (wkind_eqb k KBlackman && (d =? 3)%Z && qc_eqb b 0) eqn:X; [|discriminate].
    inversion H; subst. apply andb_true_iff in X as [X _]. apply andb_true_iff in X as [_ X].
    apply Z.eqb_eq in X. subst. reflexivity.
  - intros d v t s H. discriminate H.
Qed.

Example area_example : forall area,
    integral QN (mk_env [(KBlackman, 3%Z, 0, [0; 1; 0])] []) (WWin KBlackman 3 area 0) = Ok area.
Proof.
  intros area. eapply (area_contract_pos _ _ _ _ _ [0; 1; 0] 1); [reflexivity | simpl; auto | reflexivity].
Qed.
