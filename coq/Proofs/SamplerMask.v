(** C06: the window during which the SLM mask is on (XY mode) ends with the
    first pulse of the global channel that starts earliest. *)
From Coq Require Import ZArith List Bool Lia.
From PV Require Import Model.Base Model.Sampler.
Import ListNotations.
Open Scope Z_scope.

Section Mask.
Variable T : Type.

Definition eligible (c : chan T) : bool := c_global T c && negb (c_dmm T c).

Definition mask_step (acc : option (Z * Z)) (c : chan T) : option (Z * Z) :=
  if negb (c_global T c) || c_dmm T c then acc
  else match first_real_pulse T c with
       | None => acc
       | Some (ti, tf) =>
           match acc with
           | Some (mi, _) => if ti <? mi then Some (ti, tf) else acc
           | None => Some (ti, tf)
           end
       end.

Lemma find_mask_times_fold : forall chans,
  find_mask_times T chans = fold_left mask_step chans None.
Proof. reflexivity. Qed.

Lemma not_eligible : forall c,
  negb (c_global T c) || c_dmm T c = negb (eligible c).
Proof. intros. unfold eligible. destruct (c_global T c), (c_dmm T c); reflexivity. Qed.

Lemma mask_fold_inv : forall (chans : list (chan T)) acc,
  match fold_left mask_step chans acc with
  | None =>
      acc = None
      /\ forall c, In c chans -> eligible c = true -> first_real_pulse T c = None
  | Some (ti, tf) =>
      (acc = Some (ti, tf)
       \/ exists c, In c chans /\ eligible c = true /\ first_real_pulse T c = Some (ti, tf))
      /\ (forall mi mf, acc = Some (mi, mf) -> ti <= mi)
      /\ (forall c ti' tf', In c chans -> eligible c = true ->
            first_real_pulse T c = Some (ti', tf') -> ti <= ti')
  end.
Proof.
  induction chans as [|c r IH]; intros acc; simpl.
  - destruct acc as [[ti tf]|].
    + split; [now left|split]; intros.
      * inversion H; subst. lia.
      * contradiction.
    + split; auto. intros; contradiction.
  - specialize (IH (mask_step acc c)).
    destruct (fold_left mask_step r (mask_step acc c)) as [[ti tf]|] eqn:E.
    + destruct IH as (A & B & C).
      unfold mask_step in A, B. rewrite not_eligible in A, B.
      destruct (eligible c) eqn:EL; simpl in A, B.
      * destruct (first_real_pulse T c) as [[ci cf]|] eqn:EF.
        -- destruct acc as [[mi mf]|].
           ++ destruct (ci <? mi) eqn:EC.
              ** apply Z.ltb_lt in EC. split; [|split].
                 --- right. destruct A as [A|(c' & I & L & F)].
                     +++ inversion A; subst. exists c. auto.
                     +++ exists c'. auto.
                 --- intros mi' mf' H. inversion H; subst.
                     specialize (B ci cf eq_refl). lia.
                 --- intros c' ti' tf' [<-|I] L F.
                     +++ rewrite EF in F. inversion F; subst. now apply (B ti' tf').
                     +++ now apply (C c' ti' tf').
              ** apply Z.ltb_ge in EC. split; [|split].
                 --- destruct A as [A|(c' & I & L & F)]; [now left|].
                     right. exists c'. auto.
                 --- exact B.
                 --- intros c' ti' tf' [<-|I] L F.
                     +++ rewrite EF in F. inversion F; subst.
                         specialize (B mi mf eq_refl). lia.
                     +++ now apply (C c' ti' tf').
           ++ split; [|split].
              ** right. destruct A as [A|(c' & I & L & F)].
                 --- inversion A; subst. exists c. auto.
                 --- exists c'. auto.
              ** intros; discriminate.
              ** intros c' ti' tf' [<-|I] L F.
                 --- rewrite EF in F. inversion F; subst. now apply (B ti' tf').
                 --- now apply (C c' ti' tf').
        -- split; [|split].
           ++ destruct A as [A|(c' & I & L & F)]; [now left|]. right. exists c'. auto.
           ++ exact B.
           ++ intros c' ti' tf' [<-|I] L F; [congruence|now apply (C c' ti' tf')].
      * split; [|split].
        -- destruct A as [A|(c' & I & L & F)]; [now left|]. right. exists c'. auto.
        -- exact B.
        -- intros c' ti' tf' [<-|I] L F; [congruence|now apply (C c' ti' tf')].
    + destruct IH as (A & C).
      unfold mask_step in A. rewrite not_eligible in A.
      destruct (eligible c) eqn:EL; simpl in A.
      * destruct (first_real_pulse T c) as [[ci cf]|] eqn:EF.
        -- destruct acc as [[mi mf]|]; [destruct (ci <? mi)|]; discriminate.
        -- split; auto. intros c' [<-|I] L; auto.
      * split; auto. intros c' [<-|I] L; [congruence|auto].
Qed.

(** the mask window ends with a first (non-delay) pulse of a global non-DMM
    channel, and no such channel starts its first pulse earlier *)
Theorem mask_window_spec : forall (chans : list (chan T)) ti tf,
  find_mask_times T chans = Some (ti, tf) ->
  (exists c, In c chans /\ c_global T c = true /\ c_dmm T c = false
             /\ first_real_pulse T c = Some (ti, tf))
  /\ forall c ti' tf', In c chans -> c_global T c = true -> c_dmm T c = false ->
       first_real_pulse T c = Some (ti', tf') -> ti <= ti'.
Proof.
  intros chans ti tf H. rewrite find_mask_times_fold in H.
  pose proof (mask_fold_inv chans None) as I. rewrite H in I.
  destruct I as (A & _ & C). split.
  - destruct A as [A|(c & I & L & F)]; [discriminate|].
    exists c. unfold eligible in L. apply andb_true_iff in L. destruct L as [L1 L2].
    apply negb_true_iff in L2. auto.
  - intros c ti' tf' I G D F. apply (C c ti' tf'); auto.
    unfold eligible. now rewrite G, D.
Qed.

(** no window (and hence no mask in the samples) iff no global non-DMM channel
    has a pulse *)
Theorem mask_window_none : forall (chans : list (chan T)),
  find_mask_times T chans = None ->
  forall c, In c chans -> c_global T c = true -> c_dmm T c = false ->
    first_real_pulse T c = None.
Proof.
  intros chans H c I G D. rewrite find_mask_times_fold in H.
  pose proof (mask_fold_inv chans None) as V. rewrite H in V.
  destruct V as (_ & V). apply V; auto. unfold eligible. now rewrite G, D.
Qed.

End Mask.
