(** C20 lemmas, part 2: operators built from their representation are the
    documented tensor-product construction; the number operators used by
    [Occupation] and [CorrelationMatrix] are the diagonal projectors on "qudit
    q is in the one-state"; hence both observables equal the marginal
    probabilities - for every number of qudits, every qudit dimension, kets and
    density matrices. *)
From Coq Require Import List Arith Bool Lia Ring Ring_theory.
From PV Require Import Model.ObsLin Proofs.ObsLinP.
Import ListNotations.

(** ** base-d digits (no ring involved) *)
Lemma index_of_acc : forall d l acc,
  fold_left (fun a x => a * d + x) l acc = acc * d ^ length l + index_of d l.
Proof.
  unfold index_of. induction l as [|x l IH]; intros acc; simpl.
  - lia.
  - rewrite IH. rewrite (IH x). ring.
Qed.

Lemma digs_length : forall d n k, length (digs d n k) = n.
Proof. induction n; intros; simpl; [reflexivity|]. rewrite IHn. reflexivity. Qed.

Lemma digs_index_lt : forall d n k, 0 < d -> k < d ^ n -> index_of d (digs d n k) = k.
Proof.
  intros d n. induction n; intros k Hd Hk.
  - simpl in *. unfold index_of. simpl. lia.
  - simpl digs. unfold index_of. simpl fold_left.
    rewrite index_of_acc. rewrite digs_length.
    assert (Hp : d ^ n <> 0) by (apply Nat.pow_nonzero; lia).
    rewrite IHn; [| assumption | apply Nat.mod_upper_bound; assumption].
    pose proof (Nat.div_mod k (d ^ n) Hp). lia.
Qed.

Lemma digs_inj : forall d n i k, 0 < d -> i < d ^ n -> k < d ^ n ->
  digs d n i = digs d n k -> i = k.
Proof.
  intros d n i k Hd Hi Hk E.
  rewrite <- (digs_index_lt d n i), <- (digs_index_lt d n k) by assumption.
  rewrite E. reflexivity.
Qed.

Lemma digs_lt : forall d n k, 0 < d -> k < d ^ n -> Forall (fun x => x < d) (digs d n k).
Proof.
  intros d n. induction n; intros k Hd Hk; simpl.
  - constructor.
  - assert (Hp : d ^ n <> 0) by (apply Nat.pow_nonzero; lia).
    constructor.
    + apply Nat.div_lt_upper_bound; [assumption|]. simpl in Hk. lia.
    + apply IHn; [assumption|]. apply Nat.mod_upper_bound. assumption.
Qed.

Fixpoint leqb (a b : list nat) : bool :=
  match a, b with
  | [], [] => true
  | x :: a', y :: b' => Nat.eqb x y && leqb a' b'
  | _, _ => false
  end.

Lemma leqb_eq : forall a b, leqb a b = true <-> a = b.
Proof.
  induction a as [|x a IH]; destruct b as [|y b]; simpl; split; intro H;
    try reflexivity; try discriminate.
  - apply andb_true_iff in H. destruct H as [H1 H2].
    apply Nat.eqb_eq in H1. apply IH in H2. subst. reflexivity.
  - inversion H; subst. rewrite Nat.eqb_refl. simpl. apply IH. reflexivity.
Qed.

(** which digit lists are selected by "every qudit of S is in state [one]" *)
Fixpoint okdigs (S : list nat) (one s : nat) (a : list nat) : bool :=
  match a with
  | [] => true
  | x :: a' =>
      (if existsb (Nat.eqb s) S then Nat.eqb x one else true) && okdigs S one (s + 1) a'
  end.

Lemma okdigs_nil : forall one a s, okdigs [] one s a = true.
Proof. induction a; intros; simpl; auto. Qed.

Lemma okdigs_cons : forall q S one a s,
  okdigs (q :: S) one s a = okdigs [q] one s a && okdigs S one s a.
Proof.
  induction a as [|x a IH]; intros s; simpl; [reflexivity|].
  rewrite IH.
  destruct (Nat.eqb s q), (existsb (Nat.eqb s) S), (Nat.eqb x one),
    (okdigs [q] one (s + 1) a), (okdigs S one (s + 1) a); reflexivity.
Qed.

Lemma okdigs_single : forall q one a s,
  okdigs [q] one s a =
  if (s <=? q) && (q <? s + length a) then Nat.eqb (nth (q - s) a 0) one else true.
Proof.
  induction a as [|x a IH]; intros s.
  - simpl. destruct (s <=? q) eqn:E1; simpl; [|reflexivity].
    destruct (q <? s + 0) eqn:E2; [|reflexivity].
    apply Nat.leb_le in E1. apply Nat.ltb_lt in E2. lia.
  - cbn [okdigs existsb length]. rewrite IH. rewrite orb_false_r.
    destruct (Nat.eqb s q) eqn:Esq.
    + apply Nat.eqb_eq in Esq. subst q.
      replace (s + 1 <=? s) with false by (symmetry; apply Nat.leb_gt; lia).
      rewrite Nat.leb_refl.
      replace (s <? s + S (length a)) with true by (symmetry; apply Nat.ltb_lt; lia).
      rewrite Nat.sub_diag. simpl. rewrite andb_true_r. reflexivity.
    + apply Nat.eqb_neq in Esq.
      destruct (s <=? q) eqn:E1.
      * apply Nat.leb_le in E1.
        replace (s + 1 <=? q) with true by (symmetry; apply Nat.leb_le; lia).
        replace (q <? s + S (length a)) with (q <? s + 1 + length a)
          by (f_equal; lia).
        simpl.
        destruct (q <? s + 1 + length a); [|reflexivity].
        replace (q - s) with (S (q - (s + 1))) by lia. reflexivity.
      * apply Nat.leb_gt in E1.
        replace (s + 1 <=? q) with false by (symmetry; apply Nat.leb_gt; lia).
        reflexivity.
Qed.

(** the membership test the definitions use *)
Definition sel (S : list nat) (one : nat) (a : list nat) : bool :=
  forallb (fun q => if q <? length a then Nat.eqb (nth q a 0) one else true) S.

Lemma okdigs_sel : forall S one a, okdigs S one 0 a = sel S one a.
Proof.
  induction S as [|q S IH]; intros; unfold sel in *; simpl.
  - apply okdigs_nil.
  - rewrite okdigs_cons, IH, okdigs_single. simpl. rewrite Nat.sub_0_r. reflexivity.
Qed.

(** [set_nth] on a tabulated list *)
Lemma set_nth_map_seq : forall {A} (f : nat -> A) x m s i,
  set_nth (map f (seq s m)) i x = map (fun q => if Nat.eqb q (s + i) then x else f q) (seq s m).
Proof.
  intros A f x. induction m; intros s i; [reflexivity|].
  simpl. destruct i.
  - simpl. rewrite Nat.add_0_r, Nat.eqb_refl. f_equal.
    apply map_ext_in. intros q Hq. apply in_seq in Hq.
    destruct (Nat.eqb q s) eqn:E; [apply Nat.eqb_eq in E; lia|reflexivity].
  - simpl. destruct (Nat.eqb s (s + S i)) eqn:E; [apply Nat.eqb_eq in E; lia|].
    f_equal. rewrite IHm. apply map_ext. intros q.
    replace (S s + i) with (s + S i) by lia. reflexivity.
Qed.

Lemma repeat_map_seq : forall {A} (x : A) n s, repeat x n = map (fun _ => x) (seq s n).
Proof. induction n; intros; simpl; [reflexivity|]. f_equal. apply IHn. Qed.

Section ObsTensorP.
Variable R : Type.
Variables r0 r1 : R.
Variables radd rmul rsub : R -> R -> R.
Variable ropp : R -> R.
Variable rconj : R -> R.
Hypothesis Rth : ring_theory r0 r1 radd rmul rsub ropp (@eq R).
Hypothesis conj_add : forall a b, rconj (radd a b) = radd (rconj a) (rconj b).
Hypothesis conj_mul : forall a b, rconj (rmul a b) = rmul (rconj a) (rconj b).
Hypothesis conj_inv : forall a, rconj (rconj a) = a.

Add Ring Rring2 : Rth.

Local Notation "0" := r0.
Local Notation "1" := r1.
Local Infix "+" := radd.
Local Infix "*" := rmul.
Local Notation mat := (mat R).
Local Notation sumn := (sumn R r0 radd).
Local Notation delta := (delta R r0 r1).
Local Notation kronl := (kronl R r1 rmul).
Local Notation prod_factors := (prod_factors R r1 rmul).
Local Notation build_qudit_op := (build_qudit_op R r0 radd).
Local Notation tensor_factors := (tensor_factors R r0 r1 radd).
Local Notation from_repr := (from_repr R r0 r1 radd rmul).
Local Notation numop := (numop R r0 r1 radd rmul).
Local Notation expect := (expect R r0 radd rmul rconj).
Local Notation rho_of := (rho_of R rmul rconj).
Local Notation obs_occupation := (obs_occupation R r0 r1 radd rmul rconj).
Local Notation obs_correlation := (obs_correlation R r0 r1 radd rmul rconj).
Local Notation def_occupation := (def_occupation R r0 radd).
Local Notation def_correlation := (def_correlation R r0 radd).
Local Notation madd := (madd R radd).
Local Notation mscale := (mscale R rmul).
Local Notation mzero := (mzero R r0).
Local Notation ident_op := (ident_op R r0 r1 radd rmul).
Local Notation obs_m2 := (obs_m2 R r0 r1 radd rmul rconj).
Local Notation obs_variance := (obs_variance R r0 r1 radd rmul rconj rsub).
Local Notation def_m2 := (def_m2 R r0 radd rmul).
Local Notation def_expect := (def_expect R r0 radd rmul).
Local Notation def_variance := (def_variance R r0 radd rmul rsub).
Local Notation hermitian := (hermitian R rconj).
Local Notation apply_to := (apply_to R r0 radd rmul rconj).

(** ** [qutip.tensor] is the entry-wise product over the qudits *)
Theorem kronl_digs : forall d (fs : list mat) i j,
  kronl d fs i j = prod_factors fs (digs d (length fs) i) (digs d (length fs) j).
Proof.
  induction fs as [|M fs IH]; intros i j; simpl; [reflexivity|].
  rewrite IH. reflexivity.
Qed.

(** ** [from_operator_repr] is the weighted sum of those products *)
Fixpoint term_sum (d n : nat) (ops : fullop R) (i j : nat) : R :=
  match ops with
  | [] => 0
  | (c, t) :: rest =>
      c * prod_factors (tensor_factors n t) (digs d n i) (digs d n j) + term_sum d n rest i j
  end.

Lemma tensor_factors_length : forall n (t : tensorop R), length (tensor_factors n t) = n.
Proof.
  intros n t. unfold ObsLin.tensor_factors.
  assert (G : forall (t : tensorop R) (l : list mat),
             length (fold_left
               (fun fs e => match e with
                  | (q, inds) => fold_left (fun fs' i => set_nth fs' i (build_qudit_op q)) inds fs
                  end) t l) = length l).
  { intros tt. induction tt as [|[q inds] t0 IH]; intros l; simpl; [reflexivity|].
    rewrite IH. clear IH. revert l. induction inds as [|i inds IH2]; intros l; simpl; [reflexivity|].
    rewrite IH2. clear. revert i. induction l; destruct i; simpl; auto. }
  rewrite G. apply repeat_length.
Qed.

Theorem from_repr_entry : forall d n ops i j,
  from_repr d n ops i j = term_sum d n ops i j.
Proof.
  intros d n ops i j. unfold ObsLin.from_repr.
  assert (G : forall (ops : fullop R) (acc : mat),
            fold_left (fun acc e => match e with
                         | (c, t) => madd acc (mscale c (kronl d (tensor_factors n t))) end)
              ops acc i j = acc i j + term_sum d n ops i j).
  { intros oo. induction oo as [|[c t] ops0 IH]; intros acc; simpl; [ring|].
    rewrite IH. unfold ObsLin.madd, ObsLin.mscale. rewrite kronl_digs, tensor_factors_length. ring. }
  rewrite G. unfold ObsLin.mzero. ring.
Qed.

(** ** the number operator *)
Definition Pone (one : nat) : mat := build_qudit_op [(one, one, 1)].

Lemma Pone_entry : forall one a b,
  Pone one a b = if Nat.eqb a b && Nat.eqb a one then 1 else 0.
Proof.
  intros. unfold Pone, ObsLin.build_qudit_op. simpl.
  destruct (Nat.eqb a one) eqn:E1, (Nat.eqb b one) eqn:E2, (Nat.eqb a b) eqn:E3; simpl; try ring;
    repeat match goal with
           | H : Nat.eqb _ _ = true |- _ => apply Nat.eqb_eq in H
           | H : Nat.eqb _ _ = false |- _ => apply Nat.eqb_neq in H
           end; subst; congruence.
Qed.

Lemma delta_entry : forall a b, delta a b = if Nat.eqb a b && true then 1 else 0.
Proof. intros. unfold ObsLin.delta. rewrite andb_true_r. reflexivity. Qed.

Definition gfac (S : list nat) (one : nat) (q : nat) : mat :=
  if existsb (Nat.eqb q) S then Pone one else delta.

Lemma numop_factors : forall n one S,
  tensor_factors n [([(one, one, 1)], S)] = map (gfac S one) (seq 0 n).
Proof.
  intros n one S. unfold ObsLin.tensor_factors. simpl.
  assert (G : forall SS S0,
    fold_left (fun fs' i => set_nth fs' i (build_qudit_op [(one, one, 1)])) SS
      (map (gfac S0 one) (seq 0 n)) = map (gfac (S0 ++ SS) one) (seq 0 n)).
  { intros SS. induction SS as [|i S1 IH]; intros S0; simpl.
    - rewrite app_nil_r. reflexivity.
    - rewrite set_nth_map_seq.
      replace (S0 ++ i :: S1) with ((S0 ++ [i]) ++ S1) by (rewrite <- app_assoc; reflexivity).
      rewrite <- IH. f_equal. apply map_ext. intros q. unfold gfac.
      rewrite existsb_app. simpl. rewrite orb_false_r.
      destruct (Nat.eqb q i) eqn:E; [rewrite orb_true_r; reflexivity|].
      rewrite orb_false_r. reflexivity. }
  rewrite (repeat_map_seq delta n 0).
  specialize (G S []). simpl in G. rewrite <- G. reflexivity.
Qed.

Lemma prod_gfac : forall S one m s a b, length a = m -> length b = m ->
  prod_factors (map (gfac S one) (seq s m)) a b =
  if leqb a b && okdigs S one s a then 1 else 0.
Proof.
  intros S one. induction m; intros s a b Ha Hb.
  - destruct a, b; try discriminate. reflexivity.
  - destruct a as [|x a], b as [|y b]; try discriminate.
    simpl. rewrite IHm by (simpl in *; lia).
    replace (Datatypes.S s) with (Nat.add s 1) by lia.
    unfold gfac at 1.
    destruct (existsb (Nat.eqb s) S).
    + rewrite Pone_entry.
      destruct (Nat.eqb x y), (Nat.eqb x one), (leqb a b), (okdigs S one (Nat.add s 1) a); simpl; ring.
    + rewrite delta_entry.
      destruct (Nat.eqb x y), (leqb a b), (okdigs S one (Nat.add s 1) a); simpl; ring.
Qed.

(** entries of the number operator on the qudit set [S]: the diagonal
    projector on "every qudit of S is in the one-state" *)
Theorem numop_entry : forall d n one S a k, 0 < d -> a < d ^ n -> k < d ^ n ->
  numop d n one S a k = if Nat.eqb a k && sel S one (digs d n a) then 1 else 0.
Proof.
  intros d n one S a k Hd Ha Hk. unfold ObsLin.numop.
  rewrite from_repr_entry. simpl. rewrite numop_factors.
  rewrite prod_gfac by apply digs_length. rewrite okdigs_sel.
  destruct (leqb (digs d n a) (digs d n k)) eqn:E.
  - apply leqb_eq in E. apply digs_inj in E; try assumption. subst.
    rewrite Nat.eqb_refl. simpl. destruct (sel S one (digs d n k)); ring.
  - destruct (Nat.eqb a k) eqn:E2.
    + apply Nat.eqb_eq in E2. subst.
      assert (leqb (digs d n k) (digs d n k) = true) by (apply leqb_eq; reflexivity). congruence.
    + simpl. ring.
Qed.

(** expectation of a diagonal projector = the selected diagonal weight *)
Lemma sumn_ext' : forall n f g, (forall k, k < n -> f k = g k) -> sumn n f = sumn n g.
Proof. apply (sumn_ext R r0 radd). Qed.

Lemma expect_diag_projector : forall D (N : mat) (c : nat -> bool) s,
  (forall a k, a < D -> k < D -> N a k = if Nat.eqb a k && c a then 1 else 0) ->
  expect D N s = sumn D (fun a => if c a then rho_of s a a else 0).
Proof.
  intros D N c s HN. destruct s as [v|M]; simpl.
  - unfold ObsLin.inner, ObsLin.mvec, ObsLin.outer. apply sumn_ext'. intros a Ha.
    rewrite (sumn_ext' D _ (fun k => if Nat.eqb k a then (if c a then v k else 0) else 0)).
    + rewrite (sumn_delta R r0 r1 radd rmul rsub ropp Rth) by assumption.
      destruct (c a); ring.
    + intros k Hk. rewrite HN by assumption. rewrite (Nat.eqb_sym a k).
      destruct (Nat.eqb k a), (c a); simpl; ring.
  - unfold ObsLin.trace, ObsLin.mmul. apply sumn_ext'. intros a Ha.
    rewrite (sumn_ext' D _ (fun k => if Nat.eqb k a then (if c a then M k a else 0) else 0)).
    + rewrite (sumn_delta R r0 r1 radd rmul rsub ropp Rth) by assumption. reflexivity.
    + intros k Hk. rewrite HN by assumption. rewrite (Nat.eqb_sym a k).
      destruct (Nat.eqb k a), (c a); simpl; ring.
Qed.

(** ** Occupation and CorrelationMatrix *)
Theorem occupation_correct : forall d n one s i, 0 < d -> i < n ->
  obs_occupation d n one s i = def_occupation d n one (rho_of s) i.
Proof.
  intros d n one s i Hd Hi. unfold ObsLin.obs_occupation, ObsLin.def_occupation.
  rewrite (expect_diag_projector (d ^ n) _ (fun a => sel [i] one (digs d n a))).
  - apply sumn_ext'. intros a Ha. unfold sel, ObsLin.digit. simpl.
    rewrite digs_length. replace (i <? n) with true by (symmetry; apply Nat.ltb_lt; assumption).
    rewrite andb_true_r. reflexivity.
  - intros. apply numop_entry; assumption.
Qed.

Theorem correlation_correct : forall d n one s i j, 0 < d -> i < n -> j < n ->
  obs_correlation d n one s i j = def_correlation d n one (rho_of s) i j.
Proof.
  intros d n one s i j Hd Hi Hj. unfold ObsLin.obs_correlation, ObsLin.def_correlation.
  rewrite (expect_diag_projector (d ^ n) _ (fun a => sel (pair_set i j) one (digs d n a))).
  - apply sumn_ext'. intros a Ha. unfold sel, ObsLin.digit, pair_set.
    destruct (Nat.eqb i j) eqn:E; simpl; rewrite !digs_length.
    + apply Nat.eqb_eq in E. subst j.
      replace (i <? n) with true by (symmetry; apply Nat.ltb_lt; assumption).
      destruct (Nat.eqb (nth i (digs d n a) O) one); reflexivity.
    + replace (i <? n) with true by (symmetry; apply Nat.ltb_lt; assumption).
      replace (j <? n) with true by (symmetry; apply Nat.ltb_lt; assumption).
      rewrite andb_true_r. reflexivity.
  - intros. apply numop_entry; assumption.
Qed.

(** the diagonal of the correlation matrix is the occupation *)
Theorem correlation_diag : forall d n one s i,
  obs_correlation d n one s i i = obs_occupation d n one s i.
Proof.
  intros. unfold ObsLin.obs_correlation, ObsLin.obs_occupation, pair_set.
  rewrite Nat.eqb_refl. reflexivity.
Qed.

(** ** EnergySecondMoment and EnergyVariance, kets and density matrices *)

(** the identity built by [from_operator_repr(operations=[(1.0, [])])] *)
Lemma ident_entry : forall d n a k, 0 < d -> a < d ^ n -> k < d ^ n ->
  ident_op d n a k = delta a k.
Proof.
  intros d n a k Hd Ha Hk. unfold ObsLin.ident_op.
  rewrite from_repr_entry. simpl.
  assert (E : tensor_factors n [] = map (gfac [] O) (seq 0 n)).
  { unfold ObsLin.tensor_factors. simpl. rewrite (repeat_map_seq delta n 0).
    apply map_ext. intros q. reflexivity. }
  rewrite E. rewrite prod_gfac by apply digs_length. rewrite okdigs_nil, andb_true_r.
  unfold ObsLin.delta.
  destruct (leqb (digs d n a) (digs d n k)) eqn:El.
  - apply leqb_eq in El. apply digs_inj in El; try assumption. subst.
    rewrite Nat.eqb_refl. ring.
  - destruct (Nat.eqb a k) eqn:E2.
    + apply Nat.eqb_eq in E2. subst.
      assert (leqb (digs d n k) (digs d n k) = true) by (apply leqb_eq; reflexivity). congruence.
    + ring.
Qed.

Theorem second_moment_correct : forall d n H s, 0 < d -> hermitian (d ^ n) H ->
  obs_m2 d n H s = def_m2 (d ^ n) H (rho_of s).
Proof.
  intros d n H s Hd HH. unfold ObsLin.obs_m2.
  transitivity (expect (d ^ n) delta (apply_to (d ^ n) H s)).
  - eapply expect_ext; eauto. intros i j Hi Hj. apply ident_entry; assumption.
  - eapply fixed_second_moment_correct; eauto.
Qed.

Theorem variance_correct : forall d n H s, 0 < d -> hermitian (d ^ n) H ->
  obs_variance d n H s = def_variance (d ^ n) H (rho_of s).
Proof.
  intros d n H s Hd HH. unfold ObsLin.obs_variance, ObsLin.def_variance.
  rewrite second_moment_correct by assumption.
  f_equal. f_equal; eapply expect_correct; eauto.
Qed.

End ObsTensorP.
