(** C19 - lemmas about the generic model of Model/TrapMap.v.

    All results are for an arbitrary scalar type satisfying [scalar_ok]
    (strict total order, [==] decides equality, rounding is idempotent) and
    arbitrary weights / closeness test.  [zgrid_scalar_ok] shows that exact
    coordinates on any decimal sub-grid of 1e-6 um satisfy it.  The IEEE
    instance that runs against the implementation violates [scalar_ok] only
    through [-0.0 == 0.0] and NaN; the [..._refuted] results at the end show,
    on the IEEE instance, what the implementation does where the hypotheses of
    the positive theorems fail. *)
From Coq Require Import ZArith List Bool Lia Permutation Sorted.
From Coq Require Import PrimFloat.
From PV Require Import Model.Base Model.TrapMap Proofs.TrapMapSort.
Import ListNotations.
Open Scope Z_scope.

Record scalar_ok (N : Type) (nlt neq : N -> N -> bool) (nrnd : N -> N) : Prop := {
  so_irrefl : forall a, nlt a a = false;
  so_trans : forall a b c, nlt a b = true -> nlt b c = true -> nlt a c = true;
  so_tri : forall a b, nlt a b = false -> nlt b a = false -> a = b;
  so_eq : forall a b, neq a b = true <-> a = b;
  so_idem : forall a, nrnd (nrnd a) = nrnd a
}.

(** * List helpers *)
Lemma zlen_nonneg : forall A (l : list A), 0 <= zlen l.
Proof. intros. unfold zlen. lia. Qed.

Lemma znth_nth_error : forall A (l : list A) i,
  znth l i = if i <? 0 then None else nth_error l (Z.to_nat i).
Proof.
  induction l as [|a r IH]; intros i; simpl.
  - destruct (i <? 0); auto. destruct (Z.to_nat i); auto.
  - destruct (i =? 0) eqn:E0.
    + apply Z.eqb_eq in E0. subst. simpl. auto.
    + apply Z.eqb_neq in E0. destruct (i <? 0) eqn:En; auto.
      apply Z.ltb_ge in En. rewrite IH.
      assert (i - 1 <? 0 = false) by (apply Z.ltb_ge; lia). rewrite H.
      replace (Z.to_nat i) with (S (Z.to_nat (i - 1))) by lia. auto.
Qed.

Lemma znth_some_range : forall A (l : list A) i a, znth l i = Some a -> 0 <= i < zlen l.
Proof.
  intros A l i a H. rewrite znth_nth_error in H.
  destruct (i <? 0) eqn:E; try discriminate. apply Z.ltb_ge in E.
  assert (Z.to_nat i < length l)%nat by (apply nth_error_Some; congruence).
  unfold zlen. lia.
Qed.

Lemma znth_in_range : forall A (l : list A) i, 0 <= i < zlen l -> exists a, znth l i = Some a.
Proof.
  intros A l i H. rewrite znth_nth_error.
  assert (i <? 0 = false) by (apply Z.ltb_ge; lia). rewrite H0.
  destruct (nth_error l (Z.to_nat i)) eqn:E; eauto.
  apply nth_error_None in E. unfold zlen in H. lia.
Qed.

Lemma znth_In : forall A (l : list A) i a, znth l i = Some a -> In a l.
Proof.
  intros A l i a H. rewrite znth_nth_error in H.
  destruct (i <? 0); try discriminate. eapply nth_error_In; eauto.
Qed.

Lemma zmem_spec : forall z l, zmem z l = true <-> In z l.
Proof.
  induction l as [|a r IH]; simpl; split; intros H; try discriminate; try contradiction.
  - apply orb_true_iff in H. destruct H as [H|H]; [left; apply Z.eqb_eq; auto | right; apply IH; auto].
  - apply orb_true_iff. destruct H as [H|H]; [left; apply Z.eqb_eq; auto | right; apply IH; auto].
Qed.

Lemma zmem_false : forall z l, zmem z l = false <-> ~ In z l.
Proof.
  intros. rewrite <- zmem_spec. destruct (zmem z l); split; intros; try congruence;
    try (exfalso; apply H; auto).
Qed.

Lemma zhas_dup_false : forall l, zhas_dup l = false <-> NoDup l.
Proof.
  induction l as [|a r IH]; simpl.
  - split; intros; auto. constructor.
  - split; intros H.
    + apply orb_false_iff in H. destruct H as [H1 H2].
      constructor; [apply zmem_false; auto | apply IH; auto].
    + inversion H; subst. apply orb_false_iff. split; [apply zmem_false; auto | apply IH; auto].
Qed.

Lemma zsubset_spec : forall a b, zsubset a b = true <-> incl a b.
Proof.
  intros a b. unfold zsubset, incl. rewrite forallb_forall.
  split; intros H x Hx; [apply zmem_spec | apply zmem_spec]; auto.
Qed.

Lemma all_some_map : forall A (r : list A), all_some (map Some r) = Some r.
Proof. induction r; simpl; auto. rewrite IHr. auto. Qed.

Lemma all_some_inv : forall A (l : list (option A)) r, all_some l = Some r -> l = map Some r.
Proof.
  induction l as [|o l IH]; intros r H; simpl in H.
  - inversion H; auto.
  - destruct o; try discriminate. destruct (all_some l) eqn:E; try discriminate.
    inversion H; subst. simpl. f_equal. apply IH; auto.
Qed.

Lemma all_some_spec : forall A (l : list (option A)) r,
  all_some l = Some r <-> l = map Some r.
Proof. intros. split; [apply all_some_inv | intros ->; apply all_some_map]. Qed.

Lemma zrange_from_length : forall n i, length (zrange_from i n) = n.
Proof. induction n; simpl; auto. Qed.

Section Spec.
  Variable N : Type.
  Variable nlt neq : N -> N -> bool.
  Variable nrnd : N -> N.
  Variable nclose : N -> N -> bool.
  Variable W : Type.
  Variable w0 : W.
  Variable wadd : W -> W -> W.
  Variable wok : W -> bool.
  Hypothesis OK : scalar_ok N nlt neq nrnd.

  Notation coord := (list N).
  Notation clt := (clt N nlt).
  Notation ceq := (ceq N neq).
  Notation crnd := (crnd N nrnd).
  Notation sorted_coords := (sorted_coords N nlt nrnd).
  Notation traps_new := (traps_new N nlt neq nrnd).
  Notation lookup := (lookup N neq nrnd).
  Notation define_register := (define_register N neq).
  Notation build_register := (build_register N neq).
  Notation wmap_new := (wmap_new N nlt neq nrnd W wok).
  Notation qubit_weight := (qubit_weight N nclose W w0 wadd).

  Let irr := so_irrefl _ _ _ _ OK.
  Let tra := so_trans _ _ _ _ OK.
  Let tri := so_tri _ _ _ _ OK.

  Lemma ceq_spec : forall a b, ceq a b = true <-> a = b.
  Proof.
    induction a as [|x a IH]; intros [|y b]; simpl; split; intros H; auto; try discriminate.
    - apply andb_true_iff in H. destruct H as [H1 H2].
      apply (so_eq _ _ _ _ OK) in H1. apply IH in H2. congruence.
    - inversion H; subst. apply andb_true_iff. split; [apply (so_eq _ _ _ _ OK) | apply IH]; auto.
  Qed.

  Lemma ceq_refl : forall a, ceq a a = true.
  Proof. intros. apply ceq_spec. auto. Qed.

  Lemma ceq_false : forall a b, ceq a b = false <-> a <> b.
  Proof.
    intros. rewrite <- ceq_spec. destruct (ceq a b); split; intros; try congruence;
      try (exfalso; apply H; auto).
  Qed.

  Lemma cmem_spec : forall c l, cmem N neq c l = true <-> In c l.
  Proof.
    induction l as [|a r IH]; simpl; split; intros H; try discriminate; try contradiction.
    - apply orb_true_iff in H. destruct H as [H|H]; [left; apply ceq_spec; auto | right; apply IH; auto].
    - apply orb_true_iff. destruct H as [H|H]; [left; apply ceq_spec; auto | right; apply IH; auto].
  Qed.

  Lemma chas_dup_false : forall l, chas_dup N neq l = false <-> NoDup l.
  Proof.
    induction l as [|a r IH]; simpl.
    - split; intros; auto. constructor.
    - split; intros H.
      + apply orb_false_iff in H. destruct H as [H1 H2]. constructor; [|apply IH; auto].
        intro K. apply cmem_spec in K. congruence.
      + inversion H; subst. apply orb_false_iff. split; [|apply IH; auto].
        destruct (cmem N neq a r) eqn:E; auto. apply cmem_spec in E. contradiction.
  Qed.

  Lemma chas_dup_perm : forall l l', Permutation l l' -> chas_dup N neq l = chas_dup N neq l'.
  Proof.
    intros l l' P.
    destruct (chas_dup N neq l) eqn:E1, (chas_dup N neq l') eqn:E2; auto.
    - apply chas_dup_false in E2. assert (NoDup l) by (eapply Permutation_NoDup; [apply Permutation_sym|]; eauto).
      apply chas_dup_false in H. congruence.
    - apply chas_dup_false in E1. assert (NoDup l') by (eapply Permutation_NoDup; eauto).
      apply chas_dup_false in H. congruence.
  Qed.

  (** ** shape *)
  Lemma shape_dim_some : forall l d, shape_dim N l = Some d ->
    l <> [] /\ Forall (fun c => zlen c = d) l /\ (d = 2 \/ d = 3).
  Proof.
    intros [|c r] d H; simpl in H; try discriminate.
    destruct (forallb (fun c' => zlen c' =? zlen c) r && ((zlen c =? 2) || (zlen c =? 3))) eqn:E; try discriminate.
    inversion H; subst. apply andb_true_iff in E. destruct E as [E1 E2].
    split; [discriminate|]. split.
    - constructor; auto. rewrite forallb_forall in E1. apply Forall_forall. intros x Hx.
      apply Z.eqb_eq. auto.
    - apply orb_true_iff in E2. destruct E2 as [E2|E2]; apply Z.eqb_eq in E2; auto.
  Qed.

  Lemma shape_dim_intro : forall l d, l <> [] -> Forall (fun c => zlen c = d) l -> (d = 2 \/ d = 3) ->
    shape_dim N l = Some d.
  Proof.
    intros [|c r] d Hn F Hd; [congruence|]. simpl. inversion F; subst.
    assert (E1 : forallb (fun c' => zlen c' =? zlen c) r = true).
    { apply forallb_forall. intros x Hx. apply Z.eqb_eq. rewrite Forall_forall in H2. auto. }
    assert (E2 : (zlen c =? 2) || (zlen c =? 3) = true).
    { apply orb_true_iff. destruct Hd as [Hd|Hd]; rewrite Hd; auto. }
    rewrite E1, E2. auto.
  Qed.

  Lemma shape_dim_perm : forall l l', Permutation l l' -> shape_dim N l = shape_dim N l'.
  Proof.
    assert (K : forall l l' d, Permutation l l' -> shape_dim N l = Some d -> shape_dim N l' = Some d).
    { intros l l' d P H. apply shape_dim_some in H. destruct H as (Hn & F & Hd).
      apply shape_dim_intro; auto.
      - intro; subst. apply Permutation_sym, Permutation_nil in P. auto.
      - eapply Permutation_Forall; eauto. }
    intros l l' P.
    destruct (shape_dim N l) eqn:E1.
    - symmetry. eapply K; eauto.
    - destruct (shape_dim N l') eqn:E2; auto.
      rewrite (K l' l z (Permutation_sym P) E2) in E1. discriminate.
  Qed.

  Lemma crnd_length : forall c, length (crnd c) = length c.
  Proof. intros. unfold TrapMap.crnd. apply map_length. Qed.

  Lemma crnd_idem : forall c, crnd (crnd c) = crnd c.
  Proof.
    intros. unfold TrapMap.crnd. rewrite map_map. apply map_ext. intros. apply (so_idem _ _ _ _ OK).
  Qed.

  Lemma zlen_nat : forall (c : coord) d, zlen c = d -> length c = Z.to_nat d.
  Proof. intros. unfold zlen in H. lia. Qed.

  Lemma Forall_dim_rnd : forall l d, Forall (fun c : coord => zlen c = d) l ->
    Forall (fun c : coord => length c = Z.to_nat d) (map crnd l).
  Proof.
    intros l d F. rewrite Forall_map. eapply Forall_impl; [|exact F].
    intros c H. simpl. rewrite crnd_length. apply zlen_nat. auto.
  Qed.

  (** ** Trap ids are the canonical numbering, independent of the input order *)

  Lemma sorted_coords_perm : forall l, Permutation (sorted_coords l) (map crnd l).
  Proof. intros. apply sort_c_perm. Qed.

  Lemma sorted_coords_ascending : forall l d, shape_dim N l = Some d ->
    StronglySorted (lec N nlt) (sorted_coords l).
  Proof.
    intros l d H. apply shape_dim_some in H. destruct H as (_ & F & _).
    eapply sort_c_sorted; auto. apply Forall_dim_rnd. eauto.
  Qed.

  Lemma sorted_coords_strict : forall l d, shape_dim N l = Some d -> NoDup (map crnd l) ->
    StronglySorted (fun a b => clt a b = true) (sorted_coords l).
  Proof.
    intros l d H ND. pose proof (sorted_coords_ascending _ _ H) as S.
    apply shape_dim_some in H. destruct H as (_ & F & _).
    eapply sorted_nodup_strict; eauto.
    - eapply Permutation_Forall; [apply Permutation_sym, sorted_coords_perm|].
      apply Forall_dim_rnd. eauto.
    - eapply Permutation_NoDup; [apply Permutation_sym, sorted_coords_perm | auto].
  Qed.

  Lemma sorted_coords_perm_invariant : forall l l' d,
    shape_dim N l = Some d -> Permutation l l' -> sorted_coords l = sorted_coords l'.
  Proof.
    intros l l' d H P. apply shape_dim_some in H. destruct H as (_ & F & _).
    eapply sort_c_perm_invariant; auto.
    - apply Permutation_map. auto.
    - apply Forall_dim_rnd. eauto.
  Qed.

  Theorem traps_new_perm_invariant : forall l l', Permutation l l' -> traps_new l = traps_new l'.
  Proof.
    intros l l' P. unfold TrapMap.traps_new.
    rewrite <- (shape_dim_perm _ _ P). destruct (shape_dim N l) eqn:E; auto.
    rewrite <- (chas_dup_perm _ _ P). destruct (chas_dup N neq l); auto.
    f_equal. f_equal. eapply sorted_coords_perm_invariant; eauto.
  Qed.

  Theorem layout_hash_perm_invariant : forall l l' L L',
    Permutation l l' -> traps_new l = Ok L -> traps_new l' = Ok L' ->
    L = L' /\ layout_hash_input N L = layout_hash_input N L'.
  Proof.
    intros l l' L L' P H H'. rewrite (traps_new_perm_invariant _ _ P) in H.
    assert (L = L') by congruence. subst. auto.
  Qed.

  (** the layout built from [l]: numbering facts *)
  Lemma traps_new_ok : forall l L, traps_new l = Ok L ->
    exists d, shape_dim N l = Some d /\ NoDup l /\ ldim L = d /\ lsorted L = sorted_coords l.
  Proof.
    intros l L H. unfold TrapMap.traps_new in H.
    destruct (shape_dim N l) eqn:E; try discriminate.
    destruct (chas_dup N neq l) eqn:E2; try discriminate.
    inversion H; subst. simpl. exists z. repeat split; auto. apply chas_dup_false; auto.
  Qed.

  Theorem trap_ids_canonical : forall l L, traps_new l = Ok L ->
    Permutation (lsorted L) (map crnd l) /\
    StronglySorted (lec N nlt) (lsorted L) /\
    (NoDup (map crnd l) -> StronglySorted (fun a b => clt a b = true) (lsorted L)) /\
    n_traps N L = zlen l.
  Proof.
    intros l L H. apply traps_new_ok in H. destruct H as (d & Hs & ND & Hd & HL). rewrite HL.
    split; [apply sorted_coords_perm|]. split; [eapply sorted_coords_ascending; eauto|].
    split; [intros; eapply sorted_coords_strict; eauto|].
    unfold n_traps, zlen. rewrite HL.
    rewrite (Permutation_length (sorted_coords_perm l)). rewrite map_length. auto.
  Qed.

  (** ** define_register: what an accepted call returns *)

  Ltac hyp_if H E :=
    match type of H with
    | context [if ?c then _ else _] => destruct c eqn:E; try discriminate
    end.

  Definition names_of (ids qids : list Z) : list Z :=
    match qids with [] => zrange_from 0 (length ids) | _ => qids end.

  Lemma define_register_ok : forall L ids qids R,
    define_register L ids qids = Ok R ->
    NoDup ids /\ Forall (fun i => 0 <= i < n_traps N L) ids /\ ids <> [] /\
    (qids = [] \/ (NoDup qids /\ length qids = length ids)) /\
    exists cs, map (znth (lsorted L)) ids = map Some cs /\
      rqubits R = combine (names_of ids qids) cs /\ rtraps R = ids /\ rdim R = ldim L.
  Proof.
    intros L ids qids R H. unfold TrapMap.define_register in H.
    hyp_if H E1. hyp_if H E2. hyp_if H E3. hyp_if H E4.
    destruct (all_some (map (znth (lsorted L)) ids)) as [cs|] eqn:E5; try discriminate.
    apply all_some_inv in E5.
    apply negb_false_iff in E2, E3, E4.
    assert (Hlen : length cs = length ids).
    { apply (f_equal (@length _)) in E5. rewrite !map_length in E5. auto. }
    assert (Hq : qids = [] \/ (NoDup qids /\ length qids = length ids)).
    { destruct qids as [|q qs]; auto. right. split.
      - apply zhas_dup_false. apply negb_true_iff in E3. auto.
      - apply Z.eqb_eq in E4. unfold zlen in E4. lia. }
    assert (Hn : length (names_of ids qids) = length ids).
    { unfold names_of. destruct qids as [|q qs]; [apply zrange_from_length|].
      destruct Hq as [Hq|[_ Hq]]; [discriminate | auto]. }
    fold (names_of ids qids) in H.
    destruct (combine (names_of ids qids) cs) as [|p ps] eqn:E6; try discriminate.
    hyp_if H E7. hyp_if H E8. hyp_if H E9.
    inversion H; subst; simpl.
    split; [apply zhas_dup_false; auto|].
    split.
    { apply Forall_forall. intros i Hi. rewrite forallb_forall in E2. specialize (E2 i Hi).
      unfold in_range in E2. apply andb_true_iff in E2. destruct E2 as [A B].
      apply Z.leb_le in A. apply Z.ltb_lt in B. lia. }
    split.
    { intro; subst. simpl in *. destruct cs; try discriminate;
        try (unfold names_of in E6; destruct qids; simpl in E6; discriminate). }
    split; auto.
    exists cs. repeat split; auto.
  Qed.

  Lemma find_last_notin : forall key l i acc,
    ~ In key l -> find_last_from N neq i key l acc = acc.
  Proof.
    induction l as [|a r IH]; intros i acc H; simpl; auto.
    assert (E : ceq a key = false) by (apply ceq_false; intro; subst; apply H; left; auto).
    rewrite E. apply IH. intro; apply H; right; auto.
  Qed.

  Lemma find_last_nodup : forall l key i j acc,
    NoDup l -> znth l j = Some key -> find_last_from N neq i key l acc = Some (i + j).
  Proof.
    induction l as [|a r IH]; intros key i j acc ND H; simpl in *; try discriminate.
    inversion ND as [|? ? Ha NDr]; subst.
    destruct (j =? 0) eqn:E0.
    - inversion H; subst. rewrite ceq_refl. rewrite find_last_notin; auto.
      apply Z.eqb_eq in E0. subst. f_equal. lia.
    - destruct (j <? 0); try discriminate.
      assert (E : ceq a key = false).
      { apply ceq_false. intro; subst. apply Ha. eapply znth_In; eauto. }
      rewrite E. rewrite (IH key (i + 1) (j - 1) acc NDr H). f_equal. lia.
  Qed.

  Lemma map_snd_combine : forall A B (a : list A) (b : list B),
    length a = length b -> map snd (combine a b) = b.
  Proof.
    induction a as [|x a IH]; intros [|y b] H; simpl in *; try discriminate; auto.
    f_equal. apply IH. lia.
  Qed.

  Lemma map_fst_combine : forall A B (a : list A) (b : list B),
    length a = length b -> map fst (combine a b) = a.
  Proof.
    induction a as [|x a IH]; intros [|y b] H; simpl in *; try discriminate; auto.
    f_equal. apply IH. lia.
  Qed.

  (** every qubit of the register sits exactly on its trap *)
  Theorem define_register_places : forall L ids qids R,
    define_register L ids qids = Ok R ->
    rtraps R = ids /\
    map fst (rqubits R) = names_of ids qids /\
    map (znth (lsorted L)) ids = map Some (map snd (rqubits R)).
  Proof.
    intros L ids qids R H. apply define_register_ok in H.
    destruct H as (ND & Fr & Hne & Hq & cs & Hcs & Hqs & Ht & Hd).
    assert (Hlen : length cs = length ids).
    { apply (f_equal (@length _)) in Hcs. rewrite !map_length in Hcs. auto. }
    assert (Hn : length (names_of ids qids) = length ids).
    { unfold names_of. destruct qids as [|q qs]; [apply zrange_from_length|].
      destruct Hq as [Hq|[_ Hq]]; [discriminate | auto]. }
    rewrite Hqs. rewrite map_fst_combine, map_snd_combine by congruence. auto.
  Qed.

  Lemma sorted_elem_rounded : forall l c, In c (sorted_coords l) -> crnd c = c /\ exists c0, In c0 l /\ c = crnd c0.
  Proof.
    intros l c H. apply (Permutation_in _ (sorted_coords_perm l)) in H.
    apply in_map_iff in H. destruct H as (c0 & Hc & Hin). subst. split; [apply crnd_idem | eauto].
  Qed.

  Lemma lookup_points : forall S ids cs,
    NoDup S -> (forall c, In c S -> crnd c = c) ->
    map (znth S) ids = map Some cs ->
    map (fun c => find_last_from N neq 0 (crnd c) S None) cs = map Some ids.
  Proof.
    intros S. induction ids as [|i ids IH]; intros [|c cs] ND Hr H; simpl in *; try discriminate; auto.
    inversion H as [[H1 H2]]. f_equal.
    - rewrite Hr by (eapply znth_In; eauto). rewrite (find_last_nodup S c 0 i None ND H1). f_equal.
    - apply IH; auto.
  Qed.

  (** looking the coordinates of a defined register up returns the trap ids *)
  Theorem lookup_define_inverse : forall l L ids qids R,
    traps_new l = Ok L -> NoDup (map crnd l) ->
    define_register L ids qids = Ok R ->
    lookup L (map snd (rqubits R)) = Ok ids.
  Proof.
    intros l L ids qids R HL ND HR.
    apply traps_new_ok in HL. destruct HL as (d & Hs & _ & Hd & HS).
    apply define_register_places in HR. destruct HR as (_ & _ & Hcs).
    set (cs := map snd (rqubits R)) in *.
    assert (NDS : NoDup (lsorted L)).
    { rewrite HS. eapply Permutation_NoDup; [apply Permutation_sym, sorted_coords_perm | auto]. }
    assert (Hin : forall c, In c cs -> In c (lsorted L)).
    { intros c Hc. apply (in_map Some) in Hc. rewrite <- Hcs in Hc.
      apply in_map_iff in Hc. destruct Hc as (i & Hi & _). eapply znth_In; eauto. }
    assert (Hlen : forall c, In c cs -> zlen c = d).
    { intros c Hc. apply Hin in Hc. rewrite HS in Hc.
      apply sorted_elem_rounded in Hc. destruct Hc as (_ & c0 & Hc0 & ->).
      apply shape_dim_some in Hs. destruct Hs as (_ & F & _). rewrite Forall_forall in F.
      unfold zlen. rewrite crnd_length. apply F; auto. }
    unfold TrapMap.lookup.
    assert (SL : same_len N cs = true).
    { unfold same_len. destruct cs as [|c0 r] eqn:Ecs; auto. apply forallb_forall. intros x Hx.
      apply Z.eqb_eq. rewrite (Hlen x), (Hlen c0); auto; [left; auto | right; auto]. }
    rewrite SL. simpl. unfold trap_of_key.
    rewrite (lookup_points (lsorted L) ids cs); auto.
    - rewrite all_some_map. auto.
    - intros c Hc. rewrite HS in Hc. apply sorted_elem_rounded in Hc. tauto.
  Qed.

  (** ** define_register accepts exactly the well-formed selections *)
  Ltac step H E :=
    match type of H with
    | context [if ?c then _ else _] => destruct c eqn:E
    end.

  Lemma znth_all_in_range : forall A (S : list A) ids,
    Forall (fun i => 0 <= i < zlen S) ids -> exists cs, map (znth S) ids = map Some cs.
  Proof.
    induction ids as [|i ids IH]; intros F.
    - exists []. auto.
    - inversion F; subst. destruct (IH H2) as [cs Hcs].
      destruct (znth_in_range _ S i H1) as [c Hc]. exists (c :: cs). simpl. congruence.
  Qed.

  Lemma validate_coords_pass : forall S ids (names : list Z) cs,
    map (znth S) ids = map Some cs ->
    existsb (fun qi : (Z * TrapMap.coord N) * Z =>
               match znth S (snd qi) with
               | Some t => cne_any N neq (snd (fst qi)) t
               | None => true end) (combine (combine names cs) ids) = false.
  Proof.
    induction ids as [|i ids IH]; intros names cs H.
    - destruct (combine names cs); auto.
    - destruct cs as [|c cs]; simpl in H; try discriminate. inversion H as [[H1 H2]].
      destruct names as [|q names]; simpl; auto.
      rewrite H1. unfold cne_any. rewrite ceq_refl. simpl. apply IH; auto.
  Qed.

  Theorem define_register_accepts : forall l L ids qids,
    traps_new l = Ok L ->
    NoDup ids -> Forall (fun i => 0 <= i < n_traps N L) ids -> ids <> [] ->
    (qids = [] \/ (NoDup qids /\ length qids = length ids)) ->
    exists R, define_register L ids qids = Ok R.
  Proof.
    intros l L ids qids HL ND Fr Hne Hq.
    destruct (define_register L ids qids) as [R|e] eqn:H; [eauto | exfalso].
    unfold TrapMap.define_register in H.
    assert (D0 : zhas_dup ids = false) by (apply zhas_dup_false; auto).
    rewrite D0 in H. cbn [negb] in H.
    assert (D1 : forallb (in_range N L) ids = true).
    { apply forallb_forall. intros i Hi. rewrite Forall_forall in Fr. specialize (Fr i Hi).
      unfold in_range. apply andb_true_iff. split; [apply Z.leb_le | apply Z.ltb_lt]; lia. }
    rewrite D1 in H. cbn [negb] in H.
    assert (Hn : length (names_of ids qids) = length ids).
    { unfold names_of. destruct qids as [|q qs]; [apply zrange_from_length|].
      destruct Hq as [Hq|[_ Hq]]; [discriminate | auto]. }
    fold (names_of ids qids) in H.
    assert (D2 : (match qids with [] => true | _ :: _ => negb (zhas_dup qids) end) = true).
    { destruct qids as [|q qs]; auto. destruct Hq as [Hq|[Hq _]]; [discriminate|].
      apply negb_true_iff. apply zhas_dup_false. auto. }
    rewrite D2 in H. cbn [negb] in H.
    assert (D3 : (match qids with [] => true | _ :: _ => zlen qids =? zlen ids end) = true).
    { destruct qids as [|q qs]; auto. destruct Hq as [Hq|[_ Hq]]; [discriminate|].
      apply Z.eqb_eq. unfold zlen. rewrite Hq. auto. }
    rewrite D3 in H. cbn [negb] in H.
    destruct (znth_all_in_range _ (lsorted L) ids Fr) as [cs Hcs].
    rewrite Hcs, all_some_map in H.
    assert (Hlen : length cs = length ids).
    { apply (f_equal (@length _)) in Hcs. rewrite !map_length in Hcs. auto. }
    destruct (combine (names_of ids qids) cs) as [|p ps] eqn:E6.
    { apply (f_equal (@length _)) in E6. rewrite combine_length in E6. simpl in E6.
      destruct ids; [congruence | simpl in *; lia]. }
    rewrite <- E6 in H.
    assert (D4 : zlen ids =? zlen (combine (names_of ids qids) cs) = true).
    { apply Z.eqb_eq. unfold zlen. rewrite combine_length. lia. }
    rewrite D4 in H. cbn [negb] in H.
    rewrite (validate_coords_pass (lsorted L) ids (names_of ids qids) cs Hcs) in H.
    assert (D5 : forallb (fun q : Z * coord => zlen (snd q) =? ldim L) (combine (names_of ids qids) cs) = true).
    { apply forallb_forall. intros [q c] Hqc. simpl. apply Z.eqb_eq.
      apply in_combine_r in Hqc. apply (in_map Some) in Hqc. rewrite <- Hcs in Hqc.
      apply in_map_iff in Hqc. destruct Hqc as (i & Hi & _). apply znth_In in Hi.
      apply traps_new_ok in HL. destruct HL as (d & Hs & _ & Hd & HS). rewrite HS in Hi.
      apply sorted_elem_rounded in Hi. destruct Hi as (_ & c0 & Hc0 & ->).
      apply shape_dim_some in Hs. destruct Hs as (_ & F & _). rewrite Forall_forall in F.
      unfold zlen. rewrite crnd_length. rewrite Hd. apply F; auto. }
    rewrite D5 in H. discriminate.
  Qed.

  Theorem define_register_accepts_iff : forall l L ids qids,
    traps_new l = Ok L ->
    ((exists R, define_register L ids qids = Ok R) <->
     (NoDup ids /\ Forall (fun i => 0 <= i < n_traps N L) ids /\ ids <> [] /\
      (qids = [] \/ (NoDup qids /\ length qids = length ids)))).
  Proof.
    intros l L ids qids HL. split.
    - intros [R H]. apply define_register_ok in H. tauto.
    - intros (A & B & C & D). eapply define_register_accepts; eauto.
  Qed.

  (** ** A register handed a layout and trap ids keeps them only if every
      qubit is exactly on its trap *)
  Lemma validate_pairs_ok : forall S l, validate_pairs N neq S l = None ->
    Forall (fun p : coord * Z => pyindex S (snd p) = Some (fst p)) l.
  Proof.
    induction l as [|[c i] r IH]; intros H; simpl in *; auto.
    destruct (pyindex S i) as [t|] eqn:E; try discriminate.
    destruct (cne_any N neq c t) eqn:E2; try discriminate.
    unfold cne_any in E2. apply negb_false_iff in E2. apply ceq_spec in E2. subst.
    constructor; auto.
  Qed.

  Theorem register_on_layout_spec : forall L qubits ids R,
    register_on_layout N neq L qubits ids = Ok R ->
    rqubits R = qubits /\ rtraps R = ids /\ NoDup ids /\ length ids = length qubits /\
    Forall (fun p : coord * Z => pyindex (lsorted L) (snd p) = Some (fst p))
           (combine (map snd qubits) ids).
  Proof.
    intros L qubits ids R H. unfold TrapMap.register_on_layout in H.
    destruct qubits as [|q0 qs]; try discriminate.
    step H E1; try discriminate. step H E2; try discriminate.
    step H E3; try discriminate. step H E4; try discriminate.
    destruct (validate_pairs N neq (lsorted L) (combine (map snd (q0 :: qs)) ids)) eqn:E5; try discriminate.
    inversion H; subst; simpl.
    apply negb_false_iff in E4. apply Z.eqb_eq in E4. unfold zlen in E4.
    repeat split; auto.
    - apply zhas_dup_false; auto.
    - simpl in E4. lia.
    - apply validate_pairs_ok in E5. exact E5.
  Qed.

  (** ** MappableRegister.build_register *)
  Lemma zdedup_from_nodup : forall l seen, NoDup l -> (forall x, In x l -> ~ In x seen) ->
    zdedup_from seen l = l.
  Proof.
    induction l as [|a r IH]; intros seen ND H; simpl; auto.
    inversion ND; subst.
    assert (E : zmem a seen = false) by (apply zmem_false; apply H; left; auto).
    rewrite E. f_equal. apply IH; auto.
    intros x Hx [K|K]; [subst; contradiction | apply (H x); [right; auto | auto]].
  Qed.

  Lemma filter_all : forall A (f : A -> bool) l, (forall x, In x l -> f x = true) -> filter f l = l.
  Proof.
    induction l as [|a r IH]; intros H; simpl; auto.
    rewrite H by (left; auto). f_equal. apply IH. intros; apply H; right; auto.
  Qed.

  Lemma filter_none : forall A (f : A -> bool) l, (forall x, In x l -> f x = false) -> filter f l = [].
  Proof.
    induction l as [|a r IH]; intros H; simpl; auto.
    rewrite H by (left; auto). apply IH. intros; apply H; right; auto.
  Qed.

  Lemma nodup_app_disjoint : forall A (a b : list A) x, NoDup (a ++ b) -> In x a -> In x b -> False.
  Proof.
    induction a as [|y a IH]; intros b x ND Ha Hb; simpl in *; [contradiction|].
    inversion ND; subst. destruct Ha as [Ha|Ha].
    - subst. apply H1. apply in_or_app. right; auto.
    - eapply IH; eauto.
  Qed.

  Lemma filter_first : forall (decl keys : list Z) m,
    NoDup decl -> incl keys (firstn m decl) -> incl (firstn m decl) keys ->
    filter (fun q => zmem q keys) decl = firstn m decl.
  Proof.
    intros decl keys m ND H1 H2.
    rewrite <- (firstn_skipn m decl) at 1. rewrite filter_app.
    rewrite filter_all, filter_none.
    - apply app_nil_r.
    - intros x Hx. apply zmem_false. intro K. apply H1 in K.
      rewrite <- (firstn_skipn m decl) in ND. eapply nodup_app_disjoint; eauto.
    - intros x Hx. apply zmem_spec. apply H2. auto.
  Qed.

  Lemma placed_chain : forall (f : Z -> option Z) (g : Z -> option coord) ordered traps cs,
    map f ordered = map Some traps -> map g traps = map Some cs ->
    Forall (fun qc : Z * coord => exists t, f (fst qc) = Some t /\ g t = Some (snd qc)) (combine ordered cs).
  Proof.
    induction ordered as [|q ordered IH]; intros traps cs H1 H2; simpl; auto.
    destruct traps as [|t traps]; simpl in H1; try discriminate.
    destruct cs as [|c cs]; simpl in H2; try discriminate.
    inversion H1. inversion H2. constructor; eauto.
  Qed.

  (** the chosen qubits are placed on the mapped traps, in declared order *)
  Theorem build_register_spec : forall L decl chosen R,
    NoDup decl ->
    build_register L decl chosen = Ok R ->
    map fst (rqubits R) = firstn (length chosen) decl /\
    Forall (fun qc => exists t, zassoc (fst qc) chosen = Some t /\
                                znth (lsorted L) t = Some (snd qc)) (rqubits R).
  Proof.
    intros L decl chosen R ND H. unfold TrapMap.build_register in H.
    step H E1; try discriminate. step H E2; try discriminate.
    apply negb_false_iff in E1, E2. apply andb_true_iff in E2. destruct E2 as [E2 E3].
    apply zsubset_spec in E2, E3.
    unfold zdedup in H. rewrite zdedup_from_nodup in H by (auto; intros x _ []).
    rewrite (filter_first decl (map fst chosen) (length (map fst chosen)) ND E2 E3) in H.
    rewrite map_length in H. set (ordered := firstn (length chosen) decl) in *.
    destruct (all_some (map (fun q => zassoc q chosen) ordered)) as [traps|] eqn:E4; try discriminate.
    apply all_some_inv in E4.
    pose proof (define_register_ok _ _ _ _ H) as K.
    destruct K as (_ & _ & Hne & Hq & cs & Hcs & Hqs & _ & _).
    assert (Hlen : length ordered = length traps).
    { apply (f_equal (@length _)) in E4. rewrite !map_length in E4. auto. }
    assert (Hnames : names_of traps ordered = ordered).
    { unfold names_of. destruct ordered; auto. destruct traps; simpl in *; congruence. }
    rewrite Hnames in Hqs. rewrite Hqs.
    assert (Hlen2 : length cs = length traps).
    { apply (f_equal (@length _)) in Hcs. rewrite !map_length in Hcs. auto. }
    split.
    - apply map_fst_combine. congruence.
    - apply (placed_chain (fun q => zassoc q chosen) (znth (lsorted L)) ordered traps cs); auto.
  Qed.

  (** ** Weight maps *)
  Lemma forallb_perm : forall A (f : A -> bool) l l', Permutation l l' -> forallb f l = forallb f l'.
  Proof.
    intros A f l l' P. induction P; simpl; auto.
    - rewrite IHP. auto.
    - destruct (f x), (f y); auto.
    - congruence.
  Qed.

  Lemma filter_perm : forall A (f : A -> bool) l l', Permutation l l' -> Permutation (filter f l) (filter f l').
  Proof.
    intros A f l l' P. induction P; simpl; auto.
    - destruct (f x); auto.
    - destruct (f x), (f y); auto. apply perm_swap.
    - eapply perm_trans; eauto.
  Qed.

  Lemma combine_rnd : forall (cs : list coord) (ws : list W),
    combine (map crnd cs) ws = map (fun p => (crnd (fst p), snd p)) (combine cs ws).
  Proof.
    induction cs as [|c cs IH]; intros [|w ws]; simpl; auto. rewrite IH. auto.
  Qed.

  Lemma nodup_fst_inj : forall A B (l : list (A * B)) x y,
    NoDup (map fst l) -> In x l -> In y l -> fst x = fst y -> x = y.
  Proof.
    induction l as [|a r IH]; intros x y ND Hx Hy E; simpl in *; [contradiction|].
    inversion ND; subst.
    destruct Hx as [Hx|Hx], Hy as [Hy|Hy]; subst; auto.
    - exfalso. apply H1. rewrite E. apply in_map. auto.
    - exfalso. apply H1. rewrite <- E. apply in_map. auto.
  Qed.

  (** the same (trap, weight) pairs in another order give the same map:
      same sorted coordinates, same sorted weights, same hash input *)
  Theorem wmap_new_perm_invariant : forall cs ws cs' ws',
    length cs = length ws -> length cs' = length ws' ->
    Permutation (combine cs ws) (combine cs' ws') ->
    NoDup (map crnd cs) ->
    wmap_new cs ws = wmap_new cs' ws'.
  Proof.
    intros cs ws cs' ws' L1 L2 P ND.
    assert (Pc : Permutation cs cs').
    { rewrite <- (map_fst_combine _ _ cs ws L1), <- (map_fst_combine _ _ cs' ws' L2).
      apply Permutation_map. auto. }
    assert (Pw : Permutation ws ws').
    { rewrite <- (map_snd_combine _ _ cs ws L1), <- (map_snd_combine _ _ cs' ws' L2).
      apply Permutation_map. auto. }
    unfold TrapMap.wmap_new.
    rewrite <- (shape_dim_perm _ _ Pc). destruct (shape_dim N cs) as [d|] eqn:Es; auto.
    rewrite <- (chas_dup_perm _ _ Pc). destruct (chas_dup N neq cs); auto.
    assert (El : (zlen cs =? zlen ws) = (zlen cs' =? zlen ws')).
    { unfold zlen. rewrite L1, L2, !Z.eqb_refl. auto. }
    rewrite <- El. destruct (zlen cs =? zlen ws); auto. simpl.
    rewrite <- (forallb_perm _ wok _ _ Pw). destruct (forallb wok ws); auto. simpl.
    f_equal. f_equal.
    apply shape_dim_some in Es. destruct Es as (_ & F & _).
    apply sort_p_perm_invariant with (d := Z.to_nat d); auto.
    - rewrite !combine_rnd. apply Permutation_map. auto.
    - apply Forall_forall. intros [c w] Hin. unfold dimok. simpl.
      apply in_combine_l in Hin. apply in_map_iff in Hin. destruct Hin as (c0 & <- & Hc0).
      rewrite crnd_length. apply zlen_nat. rewrite Forall_forall in F. auto.
    - intros x y Hx Hy. apply nodup_fst_inj with (l := combine (map crnd cs) ws); auto.
      rewrite map_fst_combine; auto. rewrite map_length. auto.
  Qed.

  Notation matches pos := (filter (fun tw : coord * W => cclose N nclose (fst tw) pos)).

  (** whatever the order in which the traps were given, the weights summed
      for a qubit are those the user attached to the traps close to it *)
  Theorem qubit_weight_matches : forall cs ws m pos,
    wmap_new cs ws = Ok m ->
    Permutation (matches pos (wsorted m)) (matches pos (combine (map crnd cs) ws)) /\
    qubit_weight m pos = wsum W w0 wadd (map snd (matches pos (wsorted m))).
  Proof.
    intros cs ws m pos H. unfold TrapMap.wmap_new in H.
    destruct (shape_dim N cs); try discriminate.
    destruct (chas_dup N neq cs); try discriminate.
    destruct (negb (zlen cs =? zlen ws)); try discriminate.
    destruct (negb (forallb wok ws)); try discriminate.
    inversion H; subst; simpl. split; auto.
    apply filter_perm. apply sort_p_perm.
  Qed.

  Theorem qubit_weight_none : forall cs ws m pos,
    wmap_new cs ws = Ok m ->
    matches pos (combine (map crnd cs) ws) = [] ->
    qubit_weight m pos = w0.
  Proof.
    intros cs ws m pos H E. destruct (qubit_weight_matches _ _ _ pos H) as [P Q].
    rewrite E in P. apply Permutation_sym, Permutation_nil in P. rewrite Q, P. auto.
  Qed.

  Theorem qubit_weight_single : forall cs ws m pos c w,
    wmap_new cs ws = Ok m ->
    matches pos (combine (map crnd cs) ws) = [(c, w)] ->
    qubit_weight m pos = wadd w0 w.
  Proof.
    intros cs ws m pos c w H E. destruct (qubit_weight_matches _ _ _ pos H) as [P Q].
    rewrite E in P. apply Permutation_sym, Permutation_length_1_inv in P. rewrite Q, P. auto.
  Qed.
  (** ** Registers, maps and layouts agree: a qubit sitting on trap [i] of a
      layout gets, from the detuning map defined on that layout, the weight
      given to trap [i] (and nothing if none was given), provided the traps
      of the layout are separated by more than the matching tolerance *)
  Lemma znth_nodup_inj : forall (S : list coord) i k c,
    NoDup S -> znth S i = Some c -> znth S k = Some c -> i = k.
  Proof.
    intros S i k c ND H1 H2.
    pose proof (find_last_nodup S c 0 i None ND H1) as A.
    pose proof (find_last_nodup S c 0 k None ND H2) as B.
    rewrite A in B. inversion B. lia.
  Qed.

  Lemma zassoc_none : forall A i (kws : list (Z * A)), ~ In i (map fst kws) -> zassoc i kws = None.
  Proof.
    induction kws as [|[k w] r IH]; intros H; simpl in *; auto.
    destruct (k =? i) eqn:E; [apply Z.eqb_eq in E; subst; exfalso; apply H; left; auto|].
    apply IH. intro; apply H; right; auto.
  Qed.

  Lemma map_id_on : forall A (f : A -> A) l, (forall x, In x l -> f x = x) -> map f l = l.
  Proof.
    induction l as [|a r IH]; intros H; simpl; auto.
    rewrite H by (left; auto). f_equal. apply IH. intros; apply H; right; auto.
  Qed.

  Lemma matches_on_layout : forall (S : list coord) c i,
    NoDup S -> znth S i = Some c ->
    (forall a b, In a S -> In b S -> cclose N nclose a b = true -> a = b) ->
    cclose N nclose c c = true ->
    forall (kws : list (Z * W)) cs',
      map (znth S) (map fst kws) = map Some cs' ->
      NoDup (map fst kws) ->
      filter (fun tw : coord * W => cclose N nclose (fst tw) c) (combine cs' (map snd kws)) =
      match zassoc i kws with Some w => [(c, w)] | None => [] end.
  Proof.
    intros S c i ND Hi Sep Refl. induction kws as [|[k w] kws IH]; intros cs' H NDk; simpl in *.
    - destruct cs'; auto.
    - destruct cs' as [|c' cs']; try discriminate. inversion H as [[H1 H2]].
      inversion NDk as [|? ? Hk NDr]; subst. simpl.
      destruct (k =? i) eqn:E.
      + apply Z.eqb_eq in E. subst k. assert (c' = c) by congruence. subst c'. rewrite Refl.
        f_equal. rewrite (IH cs' H2 NDr). rewrite zassoc_none; auto.
      + destruct (cclose N nclose c' c) eqn:Ec.
        * exfalso. apply Sep in Ec; [| eapply znth_In; eauto | eapply znth_In; eauto]. subst c'.
          assert (i = k) by (eapply znth_nodup_inj; eauto). subst. rewrite Z.eqb_refl in E. discriminate.
        * apply IH; auto.
  Qed.

  Theorem layout_map_register_agree : forall l L kws m i c,
    traps_new l = Ok L -> NoDup (map crnd l) ->
    (forall a b, In a (lsorted L) -> In b (lsorted L) -> cclose N nclose a b = true -> a = b) ->
    (forall a, In a (lsorted L) -> cclose N nclose a a = true) ->
    layout_detuning_map N nlt neq nrnd W wok L kws = Ok m ->
    NoDup (map fst kws) ->
    znth (lsorted L) i = Some c ->
    qubit_weight m c = wsum W w0 wadd (match zassoc i kws with Some w => [w] | None => [] end).
  Proof.
    intros l L kws m i c HL ND Sep Refl HM NDk Hi.
    apply traps_new_ok in HL. destruct HL as (d & Hs & _ & Hd & HS).
    assert (NDS : NoDup (lsorted L)).
    { rewrite HS. eapply Permutation_NoDup; [apply Permutation_sym, sorted_coords_perm | auto]. }
    unfold TrapMap.layout_detuning_map in HM.
    step HM E1; try discriminate.
    destruct (all_some (map (znth (lsorted L)) (map fst kws))) as [cs'|] eqn:E2.
    2: { destruct (map fst kws) as [|k1 [|k2 ks]]; discriminate. }
    assert (HW : wmap_new cs' (map snd kws) = Ok m).
    { destruct (map fst kws) as [|k1 [|k2 ks]]; try discriminate; auto. }
    apply all_some_inv in E2.
    destruct (qubit_weight_matches _ _ _ c HW) as [P Q]. rewrite Q.
    assert (Hid : map crnd cs' = cs').
    { apply map_id_on. intros x Hx. apply (in_map Some) in Hx. rewrite <- E2 in Hx.
      apply in_map_iff in Hx. destruct Hx as (k & Hk & _). apply znth_In in Hk.
      rewrite HS in Hk. apply sorted_elem_rounded in Hk. tauto. }
    rewrite Hid in P.
    pose proof (matches_on_layout (lsorted L) c i NDS Hi Sep (Refl c (znth_In _ _ _ _ Hi)) kws cs' E2 NDk) as M.
    match type of P with
    | Permutation _ ?r =>
        assert (EQ : r = match zassoc i kws with Some w => [(c, w)] | None => [] end) by exact M;
        rewrite EQ in P
    end.
    destruct (zassoc i kws) as [w|].
    - apply Permutation_sym, Permutation_length_1_inv in P. rewrite P. auto.
    - apply Permutation_sym, Permutation_nil in P. rewrite P. auto.
  Qed.
End Spec.

(** * The hypotheses are satisfiable: exact coordinates on a decimal sub-grid *)
Lemma zgrid_rnd_fix : forall sub k, 0 < sub -> zgrid_rnd sub (sub * k) = sub * k.
Proof.
  intros sub k Hs. unfold zgrid_rnd.
  rewrite (Z.mul_comm sub k), Z_mod_mult, Z_div_mult by lia.
  change (2 * 0) with 0. destruct (0 <? sub) eqn:E; [lia|]. apply Z.ltb_ge in E. lia.
Qed.

Theorem zgrid_scalar_ok : forall sub, 0 < sub -> scalar_ok Z Z.ltb Z.eqb (zgrid_rnd sub).
Proof.
  intros sub Hs. constructor.
  - intros. apply Z.ltb_irrefl.
  - intros a b c H1 H2. apply Z.ltb_lt in H1, H2. apply Z.ltb_lt. lia.
  - intros a b H1 H2. apply Z.ltb_ge in H1, H2. lia.
  - intros. apply Z.eqb_eq.
  - intros a. assert (K : exists k, zgrid_rnd sub a = sub * k) by (unfold zgrid_rnd; eexists; reflexivity).
    destruct K as [k Hk]. rewrite Hk. apply zgrid_rnd_fix; auto.
Qed.

(** rounding on the grid moves a coordinate by at most half a micro-unit *)
Lemma zgrid_rnd_nearest : forall sub z, 0 < sub -> 2 * Z.abs (zgrid_rnd sub z - z) <= sub.
Proof.
  intros sub z Hs. unfold zgrid_rnd.
  pose proof (Z_div_mod_eq_full z sub) as E. pose proof (Z.mod_pos_bound z sub Hs) as B.
  destruct (2 * (z mod sub) <? sub) eqn:E1; [apply Z.ltb_lt in E1; nia|].
  apply Z.ltb_ge in E1.
  destruct (sub <? 2 * (z mod sub)) eqn:E2; [apply Z.ltb_lt in E2; nia|].
  apply Z.ltb_ge in E2.
  destruct (Z.even (z / sub)); nia.
Qed.

(** closed instances of the main results on the grid (any sub-grid, any
    dimension 2 or 3, any number of traps) *)
Theorem zgrid_trap_ids_order_independent : forall sub l l',
  0 < sub -> Permutation l l' ->
  traps_new Z Z.ltb Z.eqb (zgrid_rnd sub) l = traps_new Z Z.ltb Z.eqb (zgrid_rnd sub) l'.
Proof. intros. apply traps_new_perm_invariant; auto. apply zgrid_scalar_ok; auto. Qed.

Example zgrid_example :
  traps_new Z Z.ltb Z.eqb (zgrid_rnd 10) [[50; 0]; [0; 14]; [0; -26]; [-4; 7]]
  = Ok (mkLayout 2 [[0; -30]; [0; 10]; [0; 10]; [50; 0]]).
Proof. vm_compute. reflexivity. Qed.

(** layout, register and detuning map evaluated together on the grid
    (weights in thousandths): qubits on traps 2 and 0 get the weights given to
    traps 2 and 0 *)
Example zgrid_agree_example :
  match traps_new Z Z.ltb Z.eqb (zgrid_rnd 10) [[500; 0]; [0; 140]; [0; -260]] with
  | Ok L =>
      match define_register Z Z.eqb L [2; 0] [],
            layout_detuning_map Z Z.ltb Z.eqb (zgrid_rnd 10) Z
              (fun w => (0 <=? w) && (w <=? 1000)) L [(0, 250); (2, 1000)] with
      | Ok R, Ok m =>
          map (fun q => qubit_weight Z (zgrid_close 10) Z 0 Z.add m (snd q)) (rqubits R) = [1000; 250]
          /\ lookup Z Z.eqb (zgrid_rnd 10) L (map snd (rqubits R)) = Ok [2; 0]
      | _, _ => False
      end
  | Err _ => False
  end.
Proof. vm_compute. split; reflexivity. Qed.

(** * What the implementation (IEEE instance) does outside the hypotheses *)

(** traps that are distinct as given but coincide after rounding are accepted;
    the register defined from traps 0,1,2 is then looked up as 1,1,2 *)
Theorem lookup_inverse_without_rounded_nodup_refuted :
  exists l ids got,
    chas_dup float f_eq l = false /\ F_roundtrip l ids = Some got /\ got <> ids.
Proof.
  exists w_near_tie, [0; 1; 2], [1; 1; 2].
  split; [vm_compute; reflexivity|]. split; [vm_compute; reflexivity | discriminate].
Qed.

(** with such traps, the same (trap, weight) pairs in another order give a
    map that compares unequal (the sorted weights depend on the input order) *)
Theorem wmap_eq_order_dependent_on_rounded_duplicates_refuted :
  exists cs ws cs' ws',
    Permutation (combine cs ws) (combine cs' ws') /\
    F_wmaps_equal cs ws cs' ws' = Some false.
Proof.
  exists [[zero; zero]; [zero; 0x1.ad7f29abcaf48p-22]]%float, [0x1p-1; 0x1.6666666666666p-1]%float,
         [[zero; 0x1.ad7f29abcaf48p-22]; [zero; zero]]%float, [0x1.6666666666666p-1; 0x1p-1]%float.
  split; [simpl; apply perm_swap | vm_compute; reflexivity].
Qed.

(** two layouts whose rounded coordinates are pairwise [==] but differ in the
    sign of a zero hash differently and compare unequal *)
Theorem equal_rounded_coordinates_unequal_layouts_refuted :
  exists l l', F_same_coordinates l l' = true /\ F_layouts_equal l l' = Some false.
Proof.
  exists w_negzero_a, w_negzero_b. split; vm_compute; reflexivity.
Qed.

(** np.isclose keeps its default relative tolerance: a qubit exactly on the
    trap of weight 0.5 also collects the 0.7 of a trap 0.3 nm away *)
Theorem qubit_weight_relative_tolerance_refuted :
  exists cs ws pos,
    nth_error cs 0 = Some pos /\ nth_error ws 0 = Some 0x1p-1%float /\
    F_weight_at cs ws pos = Some 0x1.3333333333333p+0%float.
Proof.
  exists w_rtol_traps, w_rtol_weights, [0x1.9p+5; zero]%float.
  split; [reflexivity|]. split; [reflexivity | vm_compute; reflexivity].
Qed.
