(** C20 lemmas, part 1: the observables' code formulas equal their
    definitions, for every dimension, every state and every operator, over any
    commutative ring with involution. *)
From Coq Require Import List Arith Bool Lia Ring Ring_theory.
From PV Require Import Model.ObsLin.
Import ListNotations.

Section ObsLinP.
Variable R : Type.
Variables r0 r1 : R.
Variables radd rmul rsub : R -> R -> R.
Variable ropp : R -> R.
Variable rconj : R -> R.
Hypothesis Rth : ring_theory r0 r1 radd rmul rsub ropp (@eq R).
Hypothesis conj_add : forall a b, rconj (radd a b) = radd (rconj a) (rconj b).
Hypothesis conj_mul : forall a b, rconj (rmul a b) = rmul (rconj a) (rconj b).
Hypothesis conj_inv : forall a, rconj (rconj a) = a.

Add Ring Rring : Rth.

Local Notation "0" := r0.
Local Notation "1" := r1.
Local Infix "+" := radd.
Local Infix "*" := rmul.
Local Notation sumn := (sumn R r0 radd).
Local Notation mmul := (mmul R r0 radd rmul).
Local Notation mvec := (mvec R r0 radd rmul).
Local Notation madd := (madd R radd).
Local Notation mscale := (mscale R rmul).
Local Notation dag := (dag R rconj).
Local Notation inner := (inner R r0 radd rmul rconj).
Local Notation trace := (trace R r0 radd).
Local Notation outer := (outer R rmul rconj).
Local Notation nrm2 := (nrm2 R rmul rconj).
Local Notation delta := (delta R r0 r1).
Local Notation state := (state R).
Local Notation Ket := (Ket R).
Local Notation Dm := (Dm R).
Local Notation rho_of := (rho_of R rmul rconj).
Local Notation apply_to := (apply_to R r0 radd rmul rconj).
Local Notation expect := (expect R r0 radd rmul rconj).
Local Notation overlap := (overlap R r0 radd rmul rconj).
Local Notation hermitian := (hermitian R rconj).
Local Notation def_expect := (def_expect R r0 radd rmul).
Local Notation def_m2 := (def_m2 R r0 radd rmul).
Local Notation def_fidelity := (def_fidelity R r0 radd rmul rconj).
Local Notation obs_fidelity := (obs_fidelity R r0 radd rmul rconj).

(** ** the involution on constants *)
Lemma conj_0 : rconj 0 = 0.
Proof.
  assert (H : rconj 0 + rconj 0 = rconj 0) by (rewrite <- conj_add; f_equal; ring).
  assert (H2 : rconj 0 = rsub (rconj 0 + rconj 0) (rconj 0)) by ring.
  rewrite H in H2. rewrite H2. ring.
Qed.

Lemma conj_1 : rconj 1 = 1.
Proof.
  assert (H : rconj 1 = rconj (1 * rconj 1)).
  { rewrite conj_mul, conj_inv. ring. }
  rewrite H. replace (1 * rconj 1) with (rconj 1) by ring. apply conj_inv.
Qed.

(** ** finite sums *)
Lemma sumn_ext : forall n f g, (forall k, k < n -> f k = g k) -> sumn n f = sumn n g.
Proof.
  induction n; intros f g H; simpl; [reflexivity|].
  rewrite (IHn f g), (H n); auto.
Qed.

Lemma sumn_zero : forall n, sumn n (fun _ => 0) = 0.
Proof. induction n; simpl; [reflexivity|]. rewrite IHn. ring. Qed.

Lemma sumn_add : forall n f g, sumn n (fun k => f k + g k) = sumn n f + sumn n g.
Proof. induction n; intros; simpl; [ring|]. rewrite IHn. ring. Qed.

Lemma sumn_scale_l : forall n c f, sumn n (fun k => c * f k) = c * sumn n f.
Proof. induction n; intros; simpl; [ring|]. rewrite IHn. ring. Qed.

Lemma sumn_scale_r : forall n c f, sumn n (fun k => f k * c) = sumn n f * c.
Proof. induction n; intros; simpl; [ring|]. rewrite IHn. ring. Qed.

Lemma sumn_conj : forall n f, rconj (sumn n f) = sumn n (fun k => rconj (f k)).
Proof. induction n; intros; simpl; [apply conj_0|]. rewrite conj_add, IHn. reflexivity. Qed.

(** Fubini *)
Lemma sumn_swap : forall n m (f : nat -> nat -> R),
  sumn n (fun i => sumn m (fun j => f i j)) = sumn m (fun j => sumn n (fun i => f i j)).
Proof.
  induction n; intros; simpl.
  - symmetry. apply sumn_zero.
  - rewrite IHn. rewrite <- sumn_add. reflexivity.
Qed.

Lemma sumn_delta : forall n k0 (f : nat -> R), k0 < n ->
  sumn n (fun k => if Nat.eqb k k0 then f k else 0) = f k0.
Proof.
  induction n; intros k0 f H; [lia|]. simpl.
  destruct (Nat.eqb n k0) eqn:E.
  - apply Nat.eqb_eq in E. subst.
    rewrite (sumn_ext k0 _ (fun _ => 0)).
    + rewrite sumn_zero. ring.
    + intros k Hk. destruct (Nat.eqb k k0) eqn:E2; [apply Nat.eqb_eq in E2; lia|reflexivity].
  - apply Nat.eqb_neq in E. rewrite IHn by lia. ring.
Qed.

(** ** pointwise congruences (no functional extensionality is used) *)
Lemma mvec_ext : forall D A B u v i,
  (forall k, k < D -> A i k = B i k) -> (forall k, k < D -> u k = v k) ->
  mvec D A u i = mvec D B v i.
Proof. intros. unfold ObsLin.mvec. apply sumn_ext. intros k Hk. rewrite H, H0; auto. Qed.

Lemma inner_ext : forall D u u' v v',
  (forall k, k < D -> u k = u' k) -> (forall k, k < D -> v k = v' k) ->
  inner D u v = inner D u' v'.
Proof. intros. unfold ObsLin.inner. apply sumn_ext. intros k Hk. rewrite H, H0; auto. Qed.

Lemma trace_ext : forall D A B, (forall k, k < D -> A k k = B k k) -> trace D A = trace D B.
Proof. intros. unfold ObsLin.trace. apply sumn_ext. auto. Qed.

Lemma mmul_ext : forall D A A' B B' i j,
  (forall k, k < D -> A i k = A' i k) -> (forall k, k < D -> B k j = B' k j) ->
  mmul D A B i j = mmul D A' B' i j.
Proof. intros. unfold ObsLin.mmul. apply sumn_ext. intros k Hk. rewrite H, H0; auto. Qed.

(** ** matrices act as matrices *)
Lemma mmul_assoc : forall D A B C i j,
  mmul D (mmul D A B) C i j = mmul D A (mmul D B C) i j.
Proof.
  intros. unfold ObsLin.mmul.
  rewrite (sumn_ext D _ (fun k => sumn D (fun l => A i l * B l k * C k j))).
  2:{ intros k _. rewrite <- sumn_scale_r. reflexivity. }
  rewrite sumn_swap. apply sumn_ext. intros l _.
  rewrite <- sumn_scale_l. apply sumn_ext. intros k _. ring.
Qed.

Lemma mvec_mmul : forall D A B v i,
  mvec D (mmul D A B) v i = mvec D A (mvec D B v) i.
Proof.
  intros. unfold ObsLin.mvec, ObsLin.mmul.
  rewrite (sumn_ext D _ (fun k => sumn D (fun l => A i l * B l k * v k))).
  2:{ intros k _. rewrite <- sumn_scale_r. reflexivity. }
  rewrite sumn_swap. apply sumn_ext. intros l _.
  rewrite <- sumn_scale_l. apply sumn_ext. intros k _. ring.
Qed.

Lemma mvec_madd : forall D A B v i, mvec D (madd A B) v i = mvec D A v i + mvec D B v i.
Proof.
  intros. unfold ObsLin.mvec, ObsLin.madd. rewrite <- sumn_add.
  apply sumn_ext. intros. ring.
Qed.

Lemma mvec_mscale : forall D c A v i, mvec D (mscale c A) v i = c * mvec D A v i.
Proof.
  intros. unfold ObsLin.mvec, ObsLin.mscale. rewrite <- sumn_scale_l.
  apply sumn_ext. intros. ring.
Qed.

Lemma dag_mmul : forall D A B i j, dag (mmul D A B) i j = mmul D (dag B) (dag A) i j.
Proof.
  intros. unfold ObsLin.dag, ObsLin.mmul. rewrite sumn_conj.
  apply sumn_ext. intros. rewrite conj_mul. ring.
Qed.

Lemma dag_dag : forall A i j, dag (dag A) i j = A i j.
Proof. intros. unfold ObsLin.dag. apply conj_inv. Qed.

Lemma trace_cyclic : forall D A B, trace D (mmul D A B) = trace D (mmul D B A).
Proof.
  intros. unfold ObsLin.trace, ObsLin.mmul. rewrite sumn_swap.
  apply sumn_ext. intros. apply sumn_ext. intros. ring.
Qed.

Lemma trace_madd : forall D A B, trace D (madd A B) = trace D A + trace D B.
Proof. intros. unfold ObsLin.trace, ObsLin.madd. apply sumn_add. Qed.

(** the adjoint moves across the inner product *)
Lemma inner_adjoint : forall D A u w,
  inner D (mvec D A u) w = inner D u (mvec D (dag A) w).
Proof.
  intros. unfold ObsLin.inner, ObsLin.mvec, ObsLin.dag.
  rewrite (sumn_ext D _ (fun i => sumn D (fun k => rconj (A i k) * rconj (u k) * w i))).
  2:{ intros i _. rewrite sumn_conj, <- sumn_scale_r. apply sumn_ext. intros. rewrite conj_mul. ring. }
  rewrite sumn_swap. apply sumn_ext. intros k _.
  rewrite <- sumn_scale_l. apply sumn_ext. intros. ring.
Qed.

(** ** Energy / Expectation: the code's [expect] is [Tr (rho A)] *)
Lemma expect_ket_trace : forall D A v,
  inner D v (mvec D A v) = trace D (mmul D (outer v) A).
Proof.
  intros. unfold ObsLin.inner, ObsLin.mvec, ObsLin.trace, ObsLin.mmul, ObsLin.outer.
  rewrite (sumn_swap D D (fun i k => v i * rconj (v k) * A k i)).
  apply sumn_ext. intros i _. rewrite <- sumn_scale_l.
  apply sumn_ext. intros. ring.
Qed.

Theorem expect_correct : forall D A s, expect D A s = def_expect D A (rho_of s).
Proof.
  intros. destruct s as [v|M]; simpl; unfold ObsLin.def_expect.
  - apply expect_ket_trace.
  - apply trace_cyclic.
Qed.

(** a Hermitian operator has a self-conjugate ("real") expectation on kets *)
Lemma expect_ket_real : forall D A v, hermitian D A ->
  rconj (inner D v (mvec D A v)) = inner D v (mvec D A v).
Proof.
  intros D A v HA. unfold ObsLin.inner, ObsLin.mvec.
  rewrite sumn_conj.
  rewrite (sumn_ext D _ (fun i => sumn D (fun k => rconj (v k) * (A k i * v i)))).
  2:{ intros i Hi. rewrite conj_mul, conj_inv, sumn_conj, <- sumn_scale_l.
      apply sumn_ext. intros k Hk. rewrite conj_mul, (HA k i) by assumption. ring. }
  rewrite sumn_swap. apply sumn_ext. intros k _.
  rewrite <- sumn_scale_l. reflexivity.
Qed.

(** ** EnergySecondMoment / EnergyVariance on pure states *)
Lemma hermitian_dag : forall D H, hermitian D H ->
  forall i j, i < D -> j < D -> dag H i j = H i j.
Proof. intros D H HH i j Hi Hj. unfold ObsLin.dag. apply HH; assumption. Qed.

Lemma inner_HH : forall D H v, hermitian D H ->
  inner D (mvec D H v) (mvec D H v) = inner D v (mvec D (mmul D H H) v).
Proof.
  intros D H v HH. rewrite inner_adjoint.
  apply inner_ext; [reflexivity|]. intros i Hi.
  rewrite mvec_mmul. apply mvec_ext; [|reflexivity].
  intros k Hk. apply hermitian_dag with (D := D); assumption.
Qed.

(** and that energy is self-conjugate, so the squared modulus is the square *)
Theorem energy_pure_real : forall D H v, hermitian D H ->
  rconj (def_expect D H (rho_of (Ket v))) = def_expect D H (rho_of (Ket v)).
Proof.
  intros D H v HH. unfold ObsLin.def_expect. simpl.
  rewrite <- expect_ket_trace. apply expect_ket_real. assumption.
Qed.

Lemma mmul_hermitian_sq : forall D H, hermitian D H -> hermitian D (mmul D H H).
Proof.
  intros D H HH i j Hi Hj. unfold ObsLin.mmul. rewrite sumn_conj.
  apply sumn_ext. intros k Hk. rewrite conj_mul, (HH k j), (HH i k) by assumption. ring.
Qed.

Theorem second_moment_pure_real : forall D H v, hermitian D H ->
  rconj (def_m2 D H (rho_of (Ket v))) = def_m2 D H (rho_of (Ket v)).
Proof.
  intros D H v HH. unfold ObsLin.def_m2. simpl.
  rewrite <- expect_ket_trace. apply expect_ket_real. apply mmul_hermitian_sq. assumption.
Qed.

(** ** EnergySecondMoment for BOTH kinds of state: the expectation of the
    identity on [H rho H^dag] is [Tr (rho H^2)] *)
Lemma mvec_delta : forall D v i, i < D -> mvec D delta v i = v i.
Proof.
  intros. unfold ObsLin.mvec, ObsLin.delta.
  rewrite (sumn_ext D _ (fun k => if Nat.eqb k i then v k else 0)).
  - apply sumn_delta. assumption.
  - intros k _. rewrite Nat.eqb_sym. destruct (Nat.eqb k i); ring.
Qed.

Lemma mmul_delta_l : forall D A i j, i < D -> mmul D delta A i j = A i j.
Proof. intros. apply (mvec_delta D (fun k => A k j) i). assumption. Qed.

Theorem fixed_second_moment_correct : forall D H s, hermitian D H ->
  expect D delta (apply_to D H s) = def_m2 D H (rho_of s).
Proof.
  intros D H s HH. destruct s as [v|M]; simpl.
  - rewrite (inner_ext D _ (mvec D H v) _ (mvec D H v)); try reflexivity.
    2:{ intros k Hk. apply mvec_delta. assumption. }
    rewrite inner_HH by assumption. unfold ObsLin.def_m2. apply expect_ket_trace.
  - unfold ObsLin.def_m2.
    rewrite (trace_ext D _ (mmul D (mmul D H M) (dag H))).
    2:{ intros k Hk. apply mmul_delta_l. assumption. }
    rewrite trace_cyclic.
    rewrite (trace_ext D _ (mmul D (mmul D H H) M)).
    2:{ intros k Hk. rewrite mmul_assoc. apply mmul_ext; [|reflexivity].
        intros l Hl. apply hermitian_dag with (D := D); assumption. }
    apply trace_cyclic.
Qed.

(** [expect] only looks at the entries inside the dimension *)
Lemma expect_ext : forall D A B s, (forall i j, i < D -> j < D -> A i j = B i j) ->
  expect D A s = expect D B s.
Proof.
  intros D A B s HAB. destruct s as [v|M]; simpl.
  - apply inner_ext; [reflexivity|]. intros k Hk. apply mvec_ext; [|reflexivity].
    intros l Hl. apply HAB; assumption.
  - apply trace_ext. intros k Hk. apply mmul_ext; [|reflexivity].
    intros l Hl. apply HAB; assumption.
Qed.

(** [Tr(rho A)] is self-conjugate for Hermitian [rho] and [A]: taking the real
    part, as the code does, loses nothing *)
Theorem def_expect_real : forall D A rho, hermitian D A -> hermitian D rho ->
  rconj (def_expect D A rho) = def_expect D A rho.
Proof.
  intros D A rho HA Hr. unfold ObsLin.def_expect, ObsLin.trace, ObsLin.mmul.
  rewrite sumn_conj.
  rewrite (sumn_ext D _ (fun i => sumn D (fun k => rho k i * A i k))).
  2:{ intros i Hi. rewrite sumn_conj. apply sumn_ext. intros k Hk.
      rewrite conj_mul, (Hr k i), (HA i k) by assumption. reflexivity. }
  rewrite sumn_swap. reflexivity.
Qed.

(** ** Fidelity with a pure target *)
Lemma outer_dag : forall u i j, dag (outer u) i j = outer u i j.
Proof. intros. unfold ObsLin.dag, ObsLin.outer. rewrite conj_mul, conj_inv. ring. Qed.

Lemma overlap_ket_dm : forall D u M, overlap D (Ket u) (Dm M) = def_fidelity D u M.
Proof.
  intros. simpl. unfold ObsLin.def_fidelity, ObsLin.trace, ObsLin.mmul, ObsLin.outer,
    ObsLin.inner, ObsLin.mvec.
  rewrite (sumn_swap D D (fun i k => u i * rconj (u k) * M k i)).
  apply sumn_ext. intros k _. rewrite <- sumn_scale_l. apply sumn_ext. intros. ring.
Qed.

Lemma overlap_ket_ket : forall D u v, overlap D (Ket u) (Ket v) = def_fidelity D u (outer v).
Proof.
  intros. simpl. unfold ObsLin.nrm2, ObsLin.def_fidelity, ObsLin.inner, ObsLin.mvec, ObsLin.outer.
  rewrite sumn_conj. rewrite <- sumn_scale_r.
  apply sumn_ext. intros k _.
  rewrite <- !sumn_scale_l. apply sumn_ext. intros i _.
  rewrite conj_mul, conj_inv. ring.
Qed.

Theorem fidelity_correct : forall D psi s,
  obs_fidelity D (Ket psi) s = def_fidelity D psi (rho_of s) /\
  obs_fidelity D (Dm (outer psi)) s = def_fidelity D psi (rho_of s).
Proof.
  intros. unfold ObsLin.obs_fidelity. destruct s as [v|M].
  - split; [apply overlap_ket_ket|].
    simpl. rewrite (trace_ext D _ (mmul D (outer psi) (outer v))).
    + apply (overlap_ket_dm D psi (outer v)).
    + intros k Hk. apply mmul_ext; try reflexivity. intros. apply outer_dag.
  - split; [apply overlap_ket_dm|].
    simpl. rewrite (trace_ext D _ (mmul D (outer psi) M)).
    + apply (overlap_ket_dm D psi M).
    + intros k Hk. apply mmul_ext; try reflexivity. intros. apply outer_dag.
Qed.

(** ** operator algebra: [+], scalar [*], [@], [apply_to], [expect] *)
Definition state_eq (D : nat) (s t : state) : Prop :=
  match s, t with
  | ObsLin.Ket _ u, ObsLin.Ket _ v => forall i, i < D -> u i = v i
  | ObsLin.Dm _ A, ObsLin.Dm _ B => forall i j, i < D -> j < D -> A i j = B i j
  | _, _ => False
  end.

Theorem apply_matmul : forall D A B s,
  state_eq D (apply_to D (mmul D A B) s) (apply_to D A (apply_to D B s)).
Proof.
  intros. destruct s as [v|M]; simpl.
  - intros i _. apply mvec_mmul.
  - intros i j _ _.
    (* ((A B) M) (A B)^dag = (A ((B M) B^dag)) A^dag *)
    rewrite (mmul_ext D _ (mmul D (mmul D A B) M) _ (mmul D (dag B) (dag A)) i j);
      [| reflexivity | intros; apply dag_mmul].
    rewrite <- mmul_assoc.
    apply mmul_ext; [|reflexivity]. intros k _.
    rewrite (mmul_ext D _ (mmul D A (mmul D B M)) _ (dag B) i k);
      [| intros; apply mmul_assoc | reflexivity].
    apply mmul_assoc.
Qed.

Theorem apply_add_ket : forall D A B v i,
  mvec D (madd A B) v i = mvec D A v i + mvec D B v i.
Proof. intros. apply mvec_madd. Qed.

Theorem apply_scale_ket : forall D c A v i,
  mvec D (mscale c A) v i = c * mvec D A v i.
Proof. intros. apply mvec_mscale. Qed.

Theorem expect_add : forall D A B s, expect D (madd A B) s = expect D A s + expect D B s.
Proof.
  intros. rewrite !expect_correct. unfold ObsLin.def_expect, ObsLin.trace, ObsLin.mmul, ObsLin.madd.
  rewrite <- sumn_add. apply sumn_ext. intros i _. rewrite <- sumn_add.
  apply sumn_ext. intros. ring.
Qed.

Theorem expect_scale : forall D c A s, expect D (mscale c A) s = c * expect D A s.
Proof.
  intros. rewrite !expect_correct. unfold ObsLin.def_expect, ObsLin.trace, ObsLin.mmul, ObsLin.mscale.
  rewrite <- sumn_scale_l. apply sumn_ext. intros i _. rewrite <- sumn_scale_l.
  apply sumn_ext. intros. ring.
Qed.

End ObsLinP.
