(** The hand-written definitions of the scheduler's small pure functions (the
    ones every theorem about the sequence model is stated over) are equal to the
    functions REGENERATED from the current source by translate/tr_pure.py
    (Gen/Pure.v).  An edit of the source's arithmetic, comparisons or order of
    checks changes Gen/Pure.v and breaks one of these proofs. *)
From Coq Require Import ZArith Bool Lia.
From Coq Require Import PrimFloat.
From PV Require Import Model.Base Model.Sched Model.Chan Gen.Pure.
Open Scope Z_scope.

Lemma py_int_eq x : gen_py_int x = py_int x.
Proof. reflexivity. Qed.

Lemma validate_duration_eq (c : ccfg) (d : Z) :
  gen_validate_duration (c_min c) (c_max c) (c_clock c) d = validate_duration c d.
Proof.
  unfold gen_validate_duration, validate_duration.
  destruct (d <? c_min c); [reflexivity|].
  destruct (c_max c) as [m|]; [destruct (d >? m); [reflexivity|]|];
    destruct (d mod c_clock c =? 0); reflexivity.
Qed.

Lemma adjust_duration_eq (c : ccfg) (d : Z) :
  gen_adjust_duration (c_min c) (c_max c) (c_clock c) d = adjust_duration c d.
Proof. unfold gen_adjust_duration, adjust_duration. apply validate_duration_eq. Qed.

Lemma rise_time_eq (bw : option float) : gen_rise_time bw = rise_time bw.
Proof. destruct bw as [b|]; reflexivity. Qed.

Lemma eom_rise_time_eq (b : float) :
  f_ne b zero = true -> gen_eom_rise_time b = rise_time (Some b).
Proof. intros H. unfold gen_eom_rise_time, rise_time. rewrite H. reflexivity. Qed.

Lemma phase_jump_time_eq (rise : Z) (custom : option Z) :
  gen_phase_jump_time rise custom = phase_jump_time rise custom.
Proof. destruct custom; reflexivity. Qed.

Lemma eom_buffer_time_eq (rise : Z) (custom : option Z) :
  gen_eom_buffer_time rise custom = eom_buffer_time_of rise custom.
Proof. destruct custom; reflexivity. Qed.

Lemma check_duration_eq (e : env) (t : Z) (block : bool) :
  gen_check_duration (en_max e) t block = check_duration e t block.
Proof.
  unfold gen_check_duration, check_duration.
  destruct (en_max e) as [m|]; [|reflexivity].
  destruct (t >? m), block; reflexivity.
Qed.

Lemma calc_phase_drift_eq (d : drift) (tf : Z) :
  gen_calc_phase_drift (dr_rate d) (dr_ti d) tf = calc_phase_drift d tf.
Proof. reflexivity. Qed.

(** the derived configuration [mk_ccfg] uses exactly these *)
Lemma mk_ccfg_times (r : craw) :
  c_rise (mk_ccfg r) = gen_rise_time (r_bw r) /\
  c_pj (mk_ccfg r) = gen_phase_jump_time (gen_rise_time (r_bw r)) (r_cpj r).
Proof. rewrite phase_jump_time_eq, rise_time_eq. split; reflexivity. Qed.

(** phase references (_basis_ref.py) *)
From PV Require Import Model.Seq.

Lemma update_last_used_eq (r : qref) (t : Z) :
  r_used (update_last_used r t) = gen_update_last_used (r_used r) t.
Proof. reflexivity. Qed.

Lemma two_pi_literal : (f_of_Z 2 * 0x1.921fb54442d18p+1)%float = f2pi.
Proof. vm_compute. reflexivity. Qed.

Lemma phase_format_eq (phi : float) : gen_phase_format phi = f_mod2pi phi.
Proof. unfold gen_phase_format, f_mod2pi. rewrite two_pi_literal. reflexivity. Qed.
