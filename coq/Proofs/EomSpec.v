(** C15: the off-detuning choice, what EOM pulses and idle times look like
    in the schedule, and the algebra of phase-drift correction. *)
From Coq Require Import ZArith List Bool Lia ZifyBool.
From Coq Require Import Uint63 FloatOps SpecFloat PrimFloat.
From PV Require Import Model.Base Model.Sched Model.Seq Model.Eom.
From PV Require Import Proofs.SchedInv Proofs.SchedOps Proofs.SeqInv Proofs.Atomic Proofs.PhaseSpec.
Import ListNotations.
Open Scope Z_scope.

Ltac inv H := inversion H; subst; clear H.
Tactic Notation "mbindok" hyp(H) ident(s1) ident(a) ident(H1) :=
  apply bind_inv in H;
  let er := fresh "er" in
  let Hr := fresh "Hr" in
  destruct H as [(s1 & a & H1 & H) | (er & H1 & Hr)]; [|discriminate Hr].

(** * The chosen off-detuning is the closest allowed one (first on ties) *)
Section ClosestZ.
Variable opt : Z.
Notation d := (fun x => Z.abs (x - opt)).

Lemma argmin_from_spec l : forall best,
  let r := argmin_from Z Z d Z.ltb best l in
  (r = best \/ In r l) /\ d r <= d best /\ (forall x, In x l -> d r <= d x).
Proof.
  induction l as [|x l IH]; intros best; cbn [argmin_from].
  - split; [left; auto|]. split; [lia|intros x []].
  - destruct (Z.ltb_spec (d x) (d best)) as [Hlt|Hge].
    + destruct (IH x) as (H1 & H2 & H3). cbn zeta in *.
      split; [destruct H1 as [->|H1]; right; [left|right]; auto|].
      split; [lia|]. intros y [<-|Hy]; [lia|auto].
    + destruct (IH best) as (H1 & H2 & H3). cbn zeta in *.
      split; [destruct H1 as [->|H1]; [left|right; right]; auto|].
      split; [lia|]. intros y [<-|Hy]; [lia|auto].
Qed.

Theorem closest_member_minimal opts r :
  closest_z opts opt = Some r ->
  In r opts /\ forall x, In x opts -> Z.abs (r - opt) <= Z.abs (x - opt).
Proof.
  unfold closest_z, closest. destruct opts as [|x l]; [discriminate|].
  intros H. inv H. destruct (argmin_from_spec l x) as (H1 & H2 & H3). cbn zeta in *.
  split; [destruct H1 as [->|H1]; [left|right]; auto|].
  intros y [<-|Hy]; auto.
Qed.

Theorem closest_nonempty opts : opts <> [] -> exists r, closest_z opts opt = Some r.
Proof. destruct opts; [congruence|]. intros _. cbn. eauto. Qed.
End ClosestZ.

(** replaying with the chosen value as the requested optimum chooses it again
    (what makes the logged enable_eom_mode call reproduce the block) *)
Theorem closest_idempotent opts opt r :
  closest_z opts opt = Some r -> closest_z opts r = Some r.
Proof.
  intros H. apply closest_member_minimal in H. destruct H as [Hin _].
  destruct (closest_nonempty r opts) as (r' & Hr'); [destruct opts; [destruct Hin|discriminate]|].
  pose proof (closest_member_minimal r opts r' Hr') as [_ Hmin].
  specialize (Hmin r Hin). rewrite Hr'. f_equal. lia.
Qed.

(** * What is scheduled while a channel is in EOM mode *)
Section Sched.
Variable e : env.

(** the scheduler never alters the payload of the pulse it is given *)
Lemma mnps_payload p n bs proto dp block s s' sl :
  make_next_pulse_slot e p n bs proto dp block s = (s', Ok sl) ->
  exists p', s_kind sl = KPulse p' /\ p_sum p' = p_sum p /\ p_dd p' = p_dd p /\ p_dur p' = p_dur p.
Proof.
  intros H. unfold make_next_pulse_slot in H.
  mbindok H s1 lst H1. mbindok H s2 c H2. mbindok H s3 s0 H3.
  match type of H with
  | (let '(cur, pjb) := ?X in _) _ = _ => destruct X as [cur pjb]
  end.
  mbindok H s4 dd H4. mbindok H s5 u H5.
  apply ret_inv in H. destruct H as [_ H]. inv H. cbn.
  eexists. split; [reflexivity|]. destruct dp; cbn; auto.
Qed.

(** idle time inside an EOM block with a non-zero off-detuning is covered by
    a zero-amplitude pulse at exactly that off-detuning; elsewhere by a delay *)
Theorem add_delay_kind d n s s' c b rest :
  add_delay e d n s = (s', Ok tt) ->
  find_chan n s = Some c -> ch_eoms c = b :: rest ->
  exists c' sl r, find_chan n s' = Some c' /\ ch_slots c' = sl :: r /\ r = ch_slots c /\
    if in_eom c && f_ne (eb_doff b) zero
    then exists p, s_kind sl = KPulse p /\ p_dd p = true /\
                   p_sum p = [zero; zero; eb_doff b; eb_doff b] /\ p_dur p = s_tf sl - s_ti sl
    else s_kind sl = KDelay.
Proof.
  intros H Hc Hb. unfold add_delay in H.
  mbindok H s1 lst H1; apply last_slot_inv in H1; destruct H1 as [-> H1].
  destruct H1 as (c0 & rest0 & Hc0 & Hs0). rewrite Hc in Hc0. inv Hc0.
  mbindok H s2 c' H2; apply the_chan_inv in H2; destruct H2 as [-> H2].
  rewrite Hc in H2. inv H2.
  mbindok H s3 d' H3; apply lift_inv in H3; destruct H3 as [-> H3].
  mbindok H s4 u H4; apply lift_inv in H4; destruct H4 as [-> H4].
  rewrite Hb in H. cbn iota in H.
  destruct (in_eom c' && f_ne (eb_doff b) zero); unfold append_slot in H; inv H;
    eexists _, _, _; (split; [erewrite find_upd_same; [reflexivity|exact Hc|reflexivity]|]);
    cbn; (split; [reflexivity|]); (split; [reflexivity|]).
  - eexists. split; [reflexivity|]. cbn. split; [reflexivity|]. split; [reflexivity|]. lia.
  - reflexivity.
Qed.

End Sched.

(** an EOM pulse is square with exactly the block's amplitude and detuning *)
Theorem eom_pulse_payload d rabi don phase post :
  let u := const_upulse d rabi don phase post in
  u_sum u = [rabi; rabi; don; don] /\ u_dur u = d /\ u_ext u = true /\
  u_dd u = f_eq rabi zero.
Proof. cbn. auto. Qed.

(** * Phase-drift correction cancels the idle rotations (any monoid carrying a
      z-rotation homomorphism under which pulses are covariant) *)
Section Drift.
Variable M : Type.
Variables (one : M) (mul : M -> M -> M).
Infix "*" := mul.
Hypothesis mul_assoc : forall a b c, a * (b * c) = (a * b) * c.
Hypothesis mul_1_l : forall a, one * a = a.
Hypothesis mul_1_r : forall a, a * one = a.
Variable Zr : Z -> M.          (* rotation about z by an angle (integer units) *)
Variable U : Z -> M.           (* pulse propagator as a function of its phase *)
Hypothesis Zr_0 : Zr 0 = one.
Hypothesis Zr_add : forall a b, Zr (a + b)%Z = Zr a * Zr b.
Hypothesis covariant : forall w u, Zr w * U u = U (u + w)%Z * Zr w.

(** pulses (idle rotation before it, programmed phase), in time order; the
    corrected schedule programs phase - accumulated drift *)
Fixpoint corrected (acc : Z) (l : list (Z * Z)) : M :=
  match l with
  | [] => one
  | (delta, phi) :: r => Zr delta * U (phi - (acc + delta))%Z * corrected (acc + delta)%Z r
  end.
Fixpoint ideal (l : list (Z * Z)) : M :=
  match l with
  | [] => one
  | (_, phi) :: r => U phi * ideal r
  end.
Definition total (l : list (Z * Z)) : Z := fold_right (fun x a => (fst x + a)%Z) 0%Z l.

Theorem drift_correction_cancels l : forall acc,
  Zr acc * corrected acc l = ideal l * Zr (acc + total l)%Z.
Proof.
  induction l as [|[delta phi] r IH]; intros acc; cbn [corrected ideal total fold_right fst].
  - rewrite mul_1_r, mul_1_l, Z.add_0_r. reflexivity.
  - rewrite !mul_assoc. rewrite <- Zr_add.
    rewrite (covariant (acc + delta) (phi - (acc + delta))).
    replace (phi - (acc + delta) + (acc + delta))%Z with phi by lia.
    rewrite <- !mul_assoc. rewrite IH. rewrite !mul_assoc.
    f_equal. f_equal. unfold total. lia.
Qed.

Corollary drift_correction_cancels_from_rest l :
  corrected 0 l = ideal l * Zr (total l).
Proof.
  pose proof (drift_correction_cancels l 0) as H. rewrite Zr_0, mul_1_l in H.
  rewrite H. reflexivity.
Qed.
End Drift.
