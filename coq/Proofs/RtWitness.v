(** C17 - refutation witnesses (the faithful model violates the round-trip
    statement on these inputs; each is replayed on the implementation from
    corpus/C17) and positive examples showing that the hypotheses of the
    round-trip theorems are satisfiable.  All by evaluation in the kernel. *)
From Coq Require Import ZArith List Bool String.
From Coq Require Import PrimFloat.
From PV Require Import Model.Base Model.RtJson Gen.RtTables Model.RtNoise Model.RtDev
     Model.RtBackend Proofs.RtJsonP.
Import ListNotations.
Open Scope string_scope.
Open Scope list_scope.
Open Scope Z_scope.

Definition wit_dev_inst := (PDict [("__class__", (PStr "VirtualDevice")); ("name", (PStr "NoDMM")); ("dimensions", (PInt (2))); ("rydberg_level", (PInt (60))); ("min_atom_distance", (PInt (0))); ("max_atom_num", PNone); ("max_radial_distance", PNone); ("interaction_coeff_xy", PNone); ("supports_slm_mask", (PBool false)); ("max_layout_filling", (PFlt (0x1.0000000000000p-1%float))); ("optimal_layout_filling", PNone); ("min_layout_traps", (PInt (1))); ("max_layout_traps", PNone); ("max_sequence_duration", PNone); ("max_runs", PNone); ("requires_layout", (PBool false)); ("reusable_channels", (PBool true)); ("channel_ids", (PList [(PStr "rydberg_global")])); ("channel_objects", (PList [(PDict [("__class__", (PStr "Rydberg")); ("addressing", (PStr "Global")); ("max_abs_detuning", PNone); ("max_amp", PNone); ("min_retarget_interval", PNone); ("fixed_retarget_t", PNone); ("max_targets", PNone); ("clock_period", (PInt (1))); ("min_duration", (PInt (1))); ("max_duration", (PInt (100000000))); ("min_avg_amp", (PInt (0))); ("mod_bandwidth", PNone); ("custom_phase_jump_time", PNone); ("eom_config", PNone); ("propagation_dir", PNone)])])); ("dmm_objects", (PList [])); ("default_noise_model", PNone); ("short_description", (PStr ""))]).
Definition wit_dev_dec := (PDict [("__class__", (PStr "VirtualDevice")); ("name", (PStr "NoDMM")); ("dimensions", (PInt (2))); ("rydberg_level", (PInt (60))); ("min_atom_distance", (PInt (0))); ("max_atom_num", PNone); ("max_radial_distance", PNone); ("interaction_coeff_xy", PNone); ("supports_slm_mask", (PBool false)); ("max_layout_filling", (PFlt (0x1.0000000000000p-1%float))); ("optimal_layout_filling", PNone); ("min_layout_traps", (PInt (1))); ("max_layout_traps", PNone); ("max_sequence_duration", PNone); ("max_runs", PNone); ("requires_layout", (PBool false)); ("reusable_channels", (PBool true)); ("channel_ids", (PList [(PStr "rydberg_global")])); ("channel_objects", (PList [(PDict [("__class__", (PStr "Rydberg")); ("addressing", (PStr "Global")); ("max_abs_detuning", PNone); ("max_amp", PNone); ("min_retarget_interval", PNone); ("fixed_retarget_t", PNone); ("max_targets", PNone); ("clock_period", (PInt (1))); ("min_duration", (PInt (1))); ("max_duration", (PInt (100000000))); ("min_avg_amp", (PInt (0))); ("mod_bandwidth", PNone); ("custom_phase_jump_time", PNone); ("eom_config", PNone); ("propagation_dir", PNone)])])); ("dmm_objects", (PList [])); ("default_noise_model", PNone); ("short_description", (PStr ""))]).
Definition wit_noise_args := [("runs", (PInt (10))); ("samples_per_run", (PInt (3))); ("dephasing_rate", (PFlt (0x1.999999999999ap-4%float)))].
Definition wit_temp_args := [("temperature", (PFlt (0x1.ec00000000000p+6%float))); ("runs", (PInt (1))); ("samples_per_run", (PInt (1)))].
Definition wit_sc_args := [("noise", (PList [(PStr "dephasing")])); ("dephasing_rate", (PFlt (zero))); ("hyperfine_dephasing_rate", (PFlt (zero)))].
Definition wit_results := (PDict [("__class__", (PStr "Results")); ("atom_order", (PList [(PStr "q0")])); ("total_duration", (PInt (100))); ("tagmap", (PDict [("expectation", (PStr "0ac18d4a-9353-456c-a803-105b315c145b"))])); ("results", (PDict [("0ac18d4a-9353-456c-a803-105b315c145b", (PList [(PCx (0x1.8000000000000p+0%float) (0x1.0000000000000p+1%float))]))])); ("times", (PDict [("0ac18d4a-9353-456c-a803-105b315c145b", (PList [(PFlt (0x1.0000000000000p+0%float))]))]))]).
Definition wit_rich := (PDict [("__class__", (PStr "Device")); ("name", (PStr "Rich")); ("dimensions", (PInt (2))); ("rydberg_level", (PInt (61))); ("min_atom_distance", (PInt (4))); ("max_atom_num", (PInt (20))); ("max_radial_distance", (PInt (60))); ("interaction_coeff_xy", (PFlt (0x1.ce80000000000p+11%float))); ("supports_slm_mask", (PBool true)); ("max_layout_filling", (PFlt (0x1.999999999999ap-2%float))); ("optimal_layout_filling", (PFlt (0x1.999999999999ap-3%float))); ("min_layout_traps", (PInt (1))); ("max_layout_traps", PNone); ("max_sequence_duration", (PInt (6000))); ("max_runs", (PInt (500))); ("requires_layout", (PBool false)); ("reusable_channels", (PBool false)); ("channel_ids", (PList [(PStr "ryd"); (PStr "ram"); (PStr "mw")])); ("channel_objects", (PList [(PDict [("__class__", (PStr "Rydberg")); ("addressing", (PStr "Global")); ("max_abs_detuning", (PFlt (0x1.f6a3d70a3d70ap+6%float))); ("max_amp", (PFlt (0x1.9000000000000p+3%float))); ("min_retarget_interval", PNone); ("fixed_retarget_t", PNone); ("max_targets", PNone); ("clock_period", (PInt (4))); ("min_duration", (PInt (16))); ("max_duration", (PInt (67108864))); ("min_avg_amp", (PInt (0))); ("mod_bandwidth", (PFlt (0x1.0000000000000p+3%float))); ("custom_phase_jump_time", PNone); ("eom_config", (PDict [("__class__", (PStr "RydbergEOM")); ("limiting_beam", (PStr "RED")); ("max_limiting_amp", (PFlt (0x1.7900000000000p+7%float))); ("intermediate_detuning", (PFlt (0x1.616cccccccccdp+11%float))); ("controlled_beams", (PList [(PStr "BLUE"); (PStr "RED")])); ("mod_bandwidth", (PFlt (0x1.4000000000000p+5%float))); ("custom_buffer_time", (PInt (240))); ("multiple_beam_control", (PBool true)); ("blue_shift_coeff", (PFlt (0x1.0000000000000p+1%float))); ("red_shift_coeff", (PFlt (0x1.8000000000000p-1%float)))])); ("propagation_dir", (PList [(PFlt (zero)); (PFlt (0x1.0000000000000p+0%float)); (PFlt (zero))]))]); (PDict [("__class__", (PStr "Raman")); ("addressing", (PStr "Local")); ("max_abs_detuning", (PFlt (0x1.f666666666666p+5%float))); ("max_amp", (PInt (10))); ("min_retarget_interval", (PInt (220))); ("fixed_retarget_t", (PInt (0))); ("max_targets", (PInt (1))); ("clock_period", (PInt (1))); ("min_duration", (PInt (1))); ("max_duration", (PInt (100000000))); ("min_avg_amp", (PInt (0))); ("mod_bandwidth", PNone); ("custom_phase_jump_time", (PInt (0))); ("eom_config", PNone); ("propagation_dir", PNone)]); (PDict [("__class__", (PStr "Microwave")); ("addressing", (PStr "Global")); ("max_abs_detuning", (PFlt (0x1.4000000000000p+4%float))); ("max_amp", (PFlt (0x1.4000000000000p+2%float))); ("min_retarget_interval", PNone); ("fixed_retarget_t", PNone); ("max_targets", PNone); ("clock_period", (PInt (1))); ("min_duration", (PInt (1))); ("max_duration", (PInt (100000000))); ("min_avg_amp", (PFlt (0x1.0000000000000p-1%float))); ("mod_bandwidth", PNone); ("custom_phase_jump_time", PNone); ("eom_config", PNone); ("propagation_dir", PNone)])])); ("dmm_objects", (PList [(PDict [("__class__", (PStr "DMM")); ("addressing", (PStr "Global")); ("max_abs_detuning", PNone); ("max_amp", (PInt (0))); ("min_retarget_interval", PNone); ("fixed_retarget_t", PNone); ("max_targets", PNone); ("clock_period", (PInt (4))); ("min_duration", (PInt (16))); ("max_duration", (PInt (67108864))); ("min_avg_amp", (PInt (0))); ("mod_bandwidth", PNone); ("custom_phase_jump_time", PNone); ("eom_config", PNone); ("propagation_dir", PNone); ("bottom_detuning", (PFlt ((-0x1.f6a3d70a3d70ap+6)%float))); ("total_bottom_detuning", (PFlt ((-0x1.88b0000000000p+13)%float)))])])); ("default_noise_model", (PDict [("__class__", (PStr "NoiseModel")); ("noise_types", (PList [(PStr "SPAM"); (PStr "doppler"); (PStr "eff_noise"); (PStr "relaxation")])); ("runs", (PInt (15))); ("samples_per_run", (PInt (1))); ("state_prep_error", (PFlt (zero))); ("p_false_pos", (PFlt (0x1.47ae147ae147bp-7%float))); ("p_false_neg", (PFlt (zero))); ("temperature", (PFlt (0x1.9000000000000p+5%float))); ("laser_waist", PNone); ("amp_sigma", (PFlt (zero))); ("relaxation_rate", (PFlt (0x1.47ae147ae147bp-7%float))); ("dephasing_rate", (PFlt (zero))); ("hyperfine_dephasing_rate", (PFlt (zero))); ("depolarizing_rate", (PFlt (zero))); ("eff_noise_rates", (PList [(PFlt (0x1.0000000000000p-1%float))])); ("eff_noise_opers", (PList [(PList [(PList [(PInt (0)); (PCx (zero) (0x1.0000000000000p+0%float))]); (PList [(PCx (zero) ((-0x1.0000000000000p+0)%float)); (PFlt (0x1.0000000000000p-1%float))])])])); ("with_leakage", (PBool false))])); ("short_description", (PStr "")); ("pre_calibrated_layouts", (PList [(PDict [("__class__", (PStr "RegisterLayout")); ("coordinates", (PList [(PList [(PFlt (zero)); (PFlt (zero))]); (PList [(PFlt (zero)); (PFlt (0x1.4000000000000p+2%float))]); (PList [(PFlt (0x1.4000000000000p+2%float)); (PFlt (zero))]); (PList [(PFlt (0x1.4000000000000p+2%float)); (PFlt (0x1.4000000000000p+2%float))]); (PList [(PFlt (0x1.4000000000000p+3%float)); (PFlt (zero))])])); ("slug", (PStr "five"))])])); ("accepts_new_layouts", (PBool false))]).

Definition same (a b : option pv) : bool := sv_eqb (sv_of_opt a) (sv_of_opt b).

Definition roundtrip_dev (d : pv) : option pv :=
  match enc_dev d with Some j => dec_dev j | None => None end.
Definition roundtrip_noise (n : pv) : option pv :=
  match enc_noise n with Some j => dec_noise j | None => None end.

(** regression for commit 877338bd: a VirtualDevice without DMM (the input
    on which the round trip used to return the class default [(DMM(),)])
    now round-trips exactly, in the model and in the implementation *)
Theorem device_empty_dmm_roundtrip :
  exists d,
    class_of d = "VirtualDevice"
    /\ attr "dmm_objects" d = PList []
    /\ same (default_of tbl_VirtualDevice "dmm_objects") (Some (PList [])) = false
    /\ same (roundtrip_dev d) (Some d) = true.
Proof.
  exists wit_dev_inst.
  split; [reflexivity|]. split; [reflexivity|].
  split; vm_compute; reflexivity.
Qed.

Example device_empty_dmm_matches_impl :
  same (roundtrip_dev wit_dev_inst) (Some wit_dev_dec) = true.
Proof. vm_compute. reflexivity. Qed.

(** a physical device with EOM, Local/Global channels, DMM, calibrated layout
    and default noise model round-trips exactly (hypotheses are satisfiable) *)
Example device_roundtrip_example :
  same (roundtrip_dev wit_rich)
       (Some (PDict (map (fun kv : string * pv =>
                            if String.eqb (fst kv) "short_description" then (fst kv, PStr "") else kv)
                         match wit_rich with PDict l => l | _ => [] end))) = true
  /\ class_of wit_rich = "Device".
Proof. split; vm_compute; reflexivity. Qed.

(** [runs] / [samples_per_run] given although no active noise type uses them
    are encoded and then dropped by the decoder *)
Theorem noise_roundtrip_refuted :
  exists args n n',
    noise_init args = Some n
    /\ roundtrip_noise n = Some n'
    /\ attr "runs" n = PInt 10 /\ attr "runs" n' = PNone.
Proof.
  exists wit_noise_args. eexists. eexists.
  split; [vm_compute; reflexivity|].
  split; [vm_compute; reflexivity|].
  split; vm_compute; reflexivity.
Qed.

(** NoiseModel -> SimConfig -> NoiseModel: [T / 1e6 * 1e6] is not [T] for T = 123.0 *)
Theorem simconfig_temperature_refuted :
  exists args n sc n',
    noise_init args = Some n /\ sc_from_noise n = Some sc /\ sc_to_noise sc = Some n'
    /\ strs_of (attr "noise_types" n') = strs_of (attr "noise_types" n)
    /\ pyeq (attr "temperature" n) (attr "temperature" n') = false.
Proof.
  exists wit_temp_args. eexists. eexists. eexists.
  split; [vm_compute; reflexivity|].
  split; [vm_compute; reflexivity|].
  split; [vm_compute; reflexivity|].
  split; vm_compute; reflexivity.
Qed.

(** SimConfig -> NoiseModel: an active type whose parameters are all zero is lost *)
Theorem simconfig_type_lost_refuted :
  exists args sc n,
    sc_construct args = Some sc /\ sc_to_noise sc = Some n
    /\ strs_of (attr "noise" sc) = ["dephasing"]
    /\ strs_of (attr "noise_types" n) = [].
Proof.
  exists wit_sc_args. eexists. eexists.
  split; [vm_compute; reflexivity|].
  split; [vm_compute; reflexivity|].
  split; vm_compute; reflexivity.
Qed.

(** Results: a complex value comes back as a [{"real","imag"}] dictionary *)
Theorem results_complex_refuted :
  exists r r',
    dec_results (enc_results r) = Some r'
    /\ pyeq (attr "results" r) (attr "results" r') = false
    /\ (* with [_convert_complex] applied the value would be restored *)
       pyeq (attr "results" r) (convert_complex (attr "results" r')) = true.
Proof.
  exists wit_results. eexists.
  split; [vm_compute; reflexivity|].
  split; vm_compute; reflexivity.
Qed.

(** complex restoration is exact, bit for bit, on ordinary values (the one
    exception is a real part -0.0 with a positive imaginary part, which comes
    back as +0.0: equal under [==]) *)
Example cx_restore_examples :
  forallb (fun p : float * float =>
             let '(a, b) := cx_restore (fst p) (snd p) in
             f_biteq a (fst p) && f_biteq b (snd p))
          [(0x1.8p+0, 0x1p+1); (neg_zero, (-0x1p-1)); (zero, (-0x1p+0)); (0x1.999999999999ap-4, 0x1.5555555555555p-2);
           ((-0x1.4p+0), 0x1p-1074); (0x1.fffffffffffffp+1023, (-0x1p-1022))]%float = true.
Proof. vm_compute. reflexivity. Qed.

(** boundary of the encoder's rule "imaginary part [== 0] -> a real number":
    every non-zero imaginary part, however small (the smallest denormal
    included), keeps the [{"real","imag"}] form and is restored bit for bit;
    only [+0.0] and [-0.0] give a bare real *)
Definition tiny_imags : list float :=
  [0x1.1a62633145c07p-53; (-0x1.1a62633145c07p-53); 0x1.9c5c8e6d3a2a1p-29; (-0x1.19799812dea11p-40);
   0x0.0000000000001p-1022; (-0x0.0000000000001p-1022); 0x1p-1022; 0x1p-52; 0x1.542d0ac7e8d2fp-27]%float.

Example enc_cx_boundary :
  forallb (fun b : float =>
             forallb (fun a : float =>
                        match enc_json (PCx a b) with
                        | PDict [("real", PFlt r); ("imag", PFlt i)] =>
                            f_biteq r a && f_biteq i b
                            && match convert_complex (enc_json (PCx a b)) with
                               | PCx a' b' => f_biteq a' a && f_biteq b' b
                               | _ => false
                               end
                        | _ => false
                        end) [(-0x1p+0); 0x1p-1; 0x1.8p+0; 0x1p-1074; (-0x1p-1)]%float) tiny_imags
  && forallb (fun b : float => match enc_json (PCx (-0x1p+0) b) with PFlt r => f_biteq r (-0x1p+0) | _ => false end)
             [zero; neg_zero]%float = true.
Proof. vm_compute. reflexivity. Qed.
