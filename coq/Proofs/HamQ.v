(** C05 - the exact instance of the number type: Gaussian rationals over
    [Qc].  It satisfies every hypothesis the theorems of Proofs/HamForm.v
    take (so they are not vacuous), and it is where the refutation witnesses
    are evaluated. *)
From Coq Require Import List Arith Bool ZArith QArith Qcanon Ring Lia.
From PV Require Import Model.Ham Proofs.HamLin Proofs.HamForm.
Import ListNotations.

Definition gq := (Qc * Qc)%type.
Definition gq_add (a b : gq) : gq := (fst a + fst b, snd a + snd b)%Qc.
Definition gq_sub (a b : gq) : gq := (fst a - fst b, snd a - snd b)%Qc.
Definition gq_mul (a b : gq) : gq :=
  (fst a * fst b - snd a * snd b, fst a * snd b + snd a * fst b)%Qc.
Definition gq_opp (a : gq) : gq := (- fst a, - snd a)%Qc.
Definition gq_conj (a : gq) : gq := (fst a, - snd a)%Qc.
Definition qhalf : Qc := Q2Qc (1 # 2).
Definition gq_of (x : Qc) : gq := (x, 0%Qc).
Definition gq_i : gq := (0%Qc, 1%Qc).

Definition qops : cops :=
  {| car := gq; c0 := (0%Qc, 0%Qc); c1 := (1%Qc, 0%Qc);
     cadd := gq_add; cmul := gq_mul; csub := gq_sub; copp := gq_opp;
     cconj := gq_conj; chalf := (qhalf, 0%Qc) |}.

Lemma qops_ring :
  ring_theory (c0 qops) (c1 qops) (cadd qops) (cmul qops) (csub qops)
              (copp qops) (@eq qops).
Proof.
  constructor; simpl; intros;
    repeat match goal with x : gq |- _ => destruct x end;
    unfold gq_add, gq_mul, gq_sub, gq_opp; simpl; f_equal; ring.
Qed.

Lemma qops_conj_add : forall x y : qops,
    cconj qops (cadd qops x y) = cadd qops (cconj qops x) (cconj qops y).
Proof.
  simpl; intros [a b] [c d]; unfold gq_conj, gq_add; simpl; f_equal; ring.
Qed.

Lemma qops_conj_mul : forall x y : qops,
    cconj qops (cmul qops x y) = cmul qops (cconj qops x) (cconj qops y).
Proof.
  simpl; intros [a b] [c d]; unfold gq_conj, gq_mul; simpl; f_equal; ring.
Qed.

Lemma qops_conj_invol : forall x : qops, cconj qops (cconj qops x) = x.
Proof. simpl; intros [a b]; unfold gq_conj; simpl; f_equal; ring. Qed.

Lemma qops_conj_1 : cconj qops (c1 qops) = c1 qops.
Proof. simpl; unfold gq_conj; simpl; f_equal; ring. Qed.

Lemma qops_conj_half : cconj qops (chalf qops) = chalf qops.
Proof. simpl; unfold gq_conj; simpl; f_equal; ring. Qed.

Lemma qhalf_half : (qhalf + qhalf = 1)%Qc.
Proof. apply Qc_is_canon. reflexivity. Qed.

Lemma qops_half_half : cadd qops (chalf qops) (chalf qops) = c1 qops.
Proof.
  simpl; unfold gq_add; simpl. rewrite qhalf_half. f_equal; ring.
Qed.

(** * Witnesses *)
Local Open Scope nat_scope.
(** one atom, ground-rydberg basis (r, g), two Global Rydberg channels:
    channel A plays amplitude 1 with phase 0; channel B plays nothing at this
    time but its phase samples hold exp(-i phi) = i (its own later or earlier
    pulse).  The implementation adds the phases. *)
Definition wA : chan qops :=
  Build_chan qops true false 0
    (Build_qty qops (gq_of 1%Qc) (gq_of 0%Qc) (gq_of 1%Qc))
    [(0%Z, 10%Z, [0])] (fun _ => gq_of 1%Qc).
Definition wB : chan qops :=
  Build_chan qops true false 0
    (Build_qty qops (gq_of 0%Qc) (gq_of 0%Qc) gq_i)
    [(10%Z, 20%Z, [0])] (fun _ => gq_of 1%Qc).
Definition wU : nat -> nat -> qops := fun _ _ => gq_of 0%Qc.

(** entry <g| H |r> : model (implementation) vs documented formula *)
Definition w_model : gq :=
  ham_model qops 2 1 [2; 3] false false false true [] 0%Z 5%Z wU [wA; wB]
            (flat 2 [1]) (flat 2 [0]).
Definition w_formula : gq :=
  ham_formula_of qops 1 [2; 3] false false false true [] wU
                 (all_contribs qops 1 [] 0%Z 5%Z [wA; wB]) [1] [0].

Definition gq_code (x : gq) : (Z * positive) * (Z * positive) :=
  ((Qnum (this (fst x)), Qden (this (fst x))),
   (Qnum (this (snd x)), Qden (this (snd x)))).

Lemma w_model_value : gq_code w_model = ((0%Z, 1%positive), (1%Z, 2%positive)).
Proof. vm_compute. reflexivity. Qed.

Lemma w_formula_value : gq_code w_formula = ((1%Z, 2%positive), (0%Z, 1%positive)).
Proof. vm_compute. reflexivity. Qed.

Lemma shared_basis_refuted : w_model <> w_formula.
Proof.
  intro H. apply (f_equal gq_code) in H.
  rewrite w_model_value, w_formula_value in H. discriminate.
Qed.
