(** C14 - buffers, fall time and the lengths of modulated channel samples. *)
From Coq Require Import ZArith List Bool Arith Lia.
From Coq Require Import Uint63 FloatOps SpecFloat PrimFloat.
From PV Require Import Model.Base Model.Sched Model.Chan Model.Modul.
Import ListNotations.

(** * [np.argwhere(...)[0]] / [[-1]] *)
Lemma first_true_spec : forall l i,
  first_true l = Some i ->
  nth i l false = true /\ (i < length l)%nat
  /\ forall k, (k < i)%nat -> nth k l false = false.
Proof.
  induction l as [|b r IH]; intros i H; simpl in H; [discriminate|].
  destruct b.
  - inversion H; subst. simpl. repeat split; [lia | intros; lia].
  - destruct (first_true r) as [k|] eqn:E; [|discriminate].
    inversion H; subst. destruct (IH k eq_refl) as [A [B C]].
    simpl. repeat split; [exact A | lia |].
    intros j Hj. destruct j; [reflexivity | apply C; lia].
Qed.

Lemma first_true_none : forall l,
  first_true l = None -> forall k, nth k l false = false.
Proof.
  induction l as [|b r IH]; intros H k; simpl in *.
  - destruct k; reflexivity.
  - destruct b; [discriminate|].
    destruct (first_true r); [discriminate|].
    destruct k; [reflexivity | apply IH; reflexivity].
Qed.

Lemma last_true_lt : forall l i, last_true l = Some i -> (i < length l)%nat.
Proof.
  induction l as [|b r IH]; intros i H; simpl in H; [discriminate|].
  destruct (last_true r) as [k|] eqn:E.
  - inversion H; subst. simpl. specialize (IH k eq_refl). lia.
  - destruct b; inversion H; subst. simpl; lia.
Qed.

Lemma diffs_ok_length : forall thr s m d,
  diffs_ok thr s m = Ok d -> length d = length s /\ length s = length m.
Proof.
  intros thr. induction s as [|a s IH]; intros [|b m] d H; simpl in H;
    try discriminate.
  - inversion H; subst. split; reflexivity.
  - destruct (diffs_ok thr s m) as [r|] eqn:E; [|discriminate].
    inversion H; subst. destruct (IH m r E). simpl. split; lia.
Qed.

Lemma py_from_len_le : forall A (l : list A) k,
  (length (py_from l (- Z.of_nat k)) <= Nat.max k (if (k =? 0)%nat then length l else 0))%nat.
Proof.
  intros A l k. unfold py_from. rewrite skipn_length. unfold py_norm.
  destruct (k =? 0)%nat eqn:K.
  - apply Nat.eqb_eq in K. subst. simpl. lia.
  - apply Nat.eqb_neq in K.
    replace (- Z.of_nat k <? 0)%Z with true by (symmetry; apply Z.ltb_lt; lia).
    lia.
Qed.

(** the buffers never exceed the rise time the code selected *)
Theorem calc_buffers_bounds : forall tr thr input modl s e,
  (0 < tr)%nat ->
  calc_buffers tr thr input modl = Ok (s, e) -> (s <= tr /\ e <= tr)%nat.
Proof.
  intros tr thr input modl s e Htr H. unfold calc_buffers in H.
  destruct (diffs_ok thr (pad0 float zero tr input) modl) as [d|] eqn:E; [|discriminate].
  inversion H; subst; clear H. split.
  - destruct (last_true (py_slice d 0 (Z.of_nat tr))); lia.
  - destruct (first_true (py_from d (- Z.of_nat tr))) as [i|] eqn:F; [|lia].
    apply first_true_spec in F. destruct F as [_ [F _]].
    pose proof (py_from_len_le _ d tr) as L.
    replace (tr =? 0)%nat with false in L by (symmetry; apply Nat.eqb_neq; lia).
    lia.
Qed.

(** the end buffer is the FIRST sample of the trailing window within the
    allowed difference: that sample is, none before it is *)
Theorem end_buffer_is_first_within : forall tr thr input modl s e d,
  diffs_ok thr (pad0 float zero tr input) modl = Ok d ->
  calc_buffers tr thr input modl = Ok (s, e) ->
  let tail := py_from d (- Z.of_nat tr) in
  (forall k, (k < e)%nat -> nth k tail false = false)
  /\ ((e < length tail)%nat -> first_true tail <> None -> nth e tail false = true).
Proof.
  intros tr thr input modl s e d E H tail. unfold calc_buffers in H.
  rewrite E in H. inversion H; subst; clear H. fold tail.
  destruct (first_true tail) as [i|] eqn:F.
  - apply first_true_spec in F. destruct F as [A [B C]].
    split; [exact C | intros; exact A].
  - split; [intros; apply first_true_none; exact F | intros _ X; congruence].
Qed.

(** [Pulse.fall_time] is between one and two rise times (the hypothesis the
    scheduler properties make about their fall-time oracle) *)
Theorem fall_time_bounds : forall (tr : nat) (etr : option nat) (in_eom : bool) (ea ed f : nat),
  (ea <= match (if in_eom then etr else Some tr) with Some p => p | None => 0 end)%nat ->
  (ed <= match (if in_eom then etr else Some tr) with Some p => p | None => 0 end)%nat ->
  fall_time tr etr in_eom ea ed = Ok f ->
  let r := match (if in_eom then etr else Some tr) with Some p => p | None => 0%nat end in
  (r <= f /\ f <= 2 * r)%nat.
Proof.
  intros tr etr in_eom ea ed f Ha Hd H. unfold fall_time in H.
  destruct in_eom.
  - destruct etr as [p|]; [|discriminate]. inversion H; subst. simpl. lia.
  - inversion H; subst. simpl. lia.
Qed.

(** "first sample within the threshold" does not mean "stays within it":
    a model-level witness (3-sample window; the output crosses zero) *)
Theorem end_buffer_not_stays_below_refuted :
  exists (tr : nat) (input modl : list float) (s e : nat) (k : nat),
    calc_buffers tr f_thr_default input modl = Ok (s, e)
    /\ (e < k)%nat /\ (k < tr)%nat
    /\ f_le (abs (nth (length input + tr + k) modl zero)) f_thr_default = false.
Proof.
  exists 3%nat, [1%float],
    [0; 0; 0; 1; 0x1p-1; 0; -0x1p-1]%float, 0%nat, 1%nat, 2%nat.
  vm_compute. repeat split; reflexivity.
Qed.

(** * the scheduler model: duration including fall time *)
Lemma gd_scan_bounds : forall rise2 ineom R l temp,
  (0 <= R)%Z ->
  Forall (fun s => (s_tf s <= temp)%Z /\
                   match s_kind s with
                   | KPulse p => (0 <= pfall ineom p <= 2 * R)%Z
                   | _ => True
                   end) l ->
  (temp <= gd_scan rise2 ineom temp l <= temp + 2 * R)%Z.
Proof.
  intros rise2 ineom R l temp HR H. induction H as [|s l Hs Hl IH]; cbn [gd_scan].
  - lia.
  - destruct Hs as [Htf Hk]. destruct (s_kind s) as [| |p].
    + destruct (temp - s_tf s >=? rise2)%Z; [lia | exact IH].
    + destruct (temp - s_tf s >=? rise2)%Z; [lia | exact IH].
    + lia.
Qed.

Theorem duration_with_fall_bounds : forall (c : chan) R,
  (0 <= R)%Z ->
  Forall (fun s => (s_tf s <= ch_duration c false)%Z /\
                   match s_kind s with
                   | KPulse p => (0 <= pfall (in_eom c) p <= 2 * R)%Z
                   | _ => True
                   end) (ch_slots c) ->
  (ch_duration c false <= ch_duration c true <= ch_duration c false + 2 * R)%Z.
Proof.
  intros c R HR H. unfold ch_duration in *.
  destruct (ch_slots c) as [|op r] eqn:E; [lia|].
  apply gd_scan_bounds; assumption.
Qed.

(** * lengths of the modulated samples of a channel *)
Definition ms_tr (m : msched) : Z := rise_time (ms_bw m).
Definition ms_etr (m : msched) : Z :=
  match ms_eom m with Some (ebw, _) => rise_time (Some ebw) | None => 0 end.

(** a channel that holds at least one instruction: the three arrays end at
    the channel duration including fall time *)
Theorem modulated_len : forall m,
  (0 < ms_d m)%Z -> (ms_d m <= ms_D m)%Z ->
  (ms_has_bw m = true -> 0 < ms_tr m)%Z ->
  (ms_has_bw m = false -> ms_D m = ms_d m) ->
  (ms_blocks m <= 0 -> ms_D m <= ms_d m + 2 * ms_tr m)%Z ->
  (0 < ms_blocks m ->
     (ms_D m <= ms_d m + 2 * Z.max (ms_tr m) (ms_etr m))%Z
     /\ exists ebw bt, ms_eom m = Some (ebw, bt)
                       /\ bw_constructible (eom_buffer_bw bt) = true)%Z ->
  samples_modulate_len m = Ok (ms_D m, ms_D m, ms_D m).
Proof.
  intros m Hd HD Htr Hnobw Hstd Heom. unfold samples_modulate_len.
  destruct (0 <? ms_blocks m)%Z eqn:B.
  - apply Z.ltb_lt in B. destruct (Heom B) as [HD2 [ebw [bt [E C]]]].
    rewrite E, C. simpl negb. cbv iota.
    replace (ms_d m =? 0)%Z with false by (symmetry; apply Z.eqb_neq; lia).
    unfold ms_tr, ms_etr in *. rewrite E in HD2.
    f_equal. repeat f_equal; lia.
  - apply Z.ltb_ge in B. specialize (Hstd B).
    unfold chan_modulate_len. unfold ms_tr in *.
    destruct (ms_has_bw m) eqn:W; simpl negb; cbv iota.
    + specialize (Htr eq_refl).
      replace (ms_d m =? 0)%Z with false by (symmetry; apply Z.eqb_neq; lia).
      simpl andb. cbv iota.
      unfold py_norm.
      replace (- rise_time (ms_bw m) <? 0)%Z with true by (symmetry; apply Z.ltb_lt; lia).
      replace (rise_time (ms_bw m) <? 0)%Z with false by (symmetry; apply Z.ltb_ge; lia).
      f_equal. repeat f_equal; lia.
    + specialize (Hnobw eq_refl).
      replace (ms_d m =? 0)%Z with false by (symmetry; apply Z.eqb_neq; lia).
      simpl andb. cbv iota.
      f_equal. repeat f_equal; lia.
Qed.

(** a channel left empty: without a bandwidth the arrays are empty, with a
    bandwidth the modulation raises (numpy cannot edge-pad an empty array) *)
Theorem modulated_len_empty : forall m,
  ms_d m = 0%Z -> ms_D m = 0%Z -> (ms_blocks m <= 0)%Z ->
  (ms_has_bw m = true -> 0 < ms_tr m)%Z ->
  samples_modulate_len m
  = if ms_has_bw m then Err EValue else Ok (0, 0, 0)%Z.
Proof.
  intros m Hd HD B Htr. unfold samples_modulate_len.
  replace (0 <? ms_blocks m)%Z with false by (symmetry; apply Z.ltb_ge; lia).
  unfold chan_modulate_len, ms_tr in *. rewrite Hd, HD.
  destruct (ms_has_bw m); simpl negb; cbv iota.
  - specialize (Htr eq_refl). simpl (0 =? 0)%Z. cbv iota.
    replace (rise_time (ms_bw m) + rise_time (ms_bw m) =? 0)%Z with false
      by (symmetry; apply Z.eqb_neq; lia).
    reflexivity.
  - reflexivity.
Qed.

(** "modulated sampling succeeds whenever plain sampling does" is false of
    the faithful model: a declared channel with a bandwidth and no
    instruction (plain sampling returns empty arrays for it) *)
Theorem modulated_sampling_total_refuted :
  exists m, ms_d m = 0%Z /\ ms_D m = 0%Z /\ ms_blocks m = 0%Z
            /\ samples_modulate_len m = Err EValue.
Proof.
  exists {| ms_d := 0; ms_D := 0; ms_bw := Some 0x1p+2%float;
            ms_eom := None; ms_blocks := 0 |}.
  vm_compute. repeat split; reflexivity.
Qed.

(** and of a channel that used EOM mode when the EOM buffer time is 1 ns:
    the auxiliary buffer channel (bandwidth 0.48 / (buffer_time/2*1e-3) MHz =
    960 MHz) is rejected by the Channel constructor *)
Theorem modulated_sampling_eom_buffer_refuted :
  exists m, (0 < ms_d m)%Z /\ (ms_d m <= ms_D m)%Z /\ (0 < ms_blocks m)%Z
            /\ samples_modulate_len m = Err ENotImpl.
Proof.
  exists {| ms_d := 100; ms_D := 124; ms_bw := Some 0x1p+3%float;
            ms_eom := Some (0x1.4p+5%float, 1%Z); ms_blocks := 1 |}.
  split; [simpl; lia|]. split; [simpl; lia|]. split; [simpl; lia|].
  vm_compute. reflexivity.
Qed.

(** the rise time at the largest bandwidth the constructor accepts, and at
    the bandwidths of the shipped devices (bit-exact float evaluation) *)
Example rise_time_480 : rise_time (Some 0x1.ep+8%float) = 1%Z.
Proof. vm_compute. reflexivity. Qed.
Example rise_time_8_4_40 :
  (rise_time (Some 0x1p+3%float), rise_time (Some 0x1p+2%float),
   rise_time (Some 0x1.4p+5%float)) = (60, 120, 12)%Z.
Proof. vm_compute. reflexivity. Qed.
