(** C03, align clause: refutation witness on the faithful model. *)
From Coq Require Import ZArith List Bool.
From Coq Require Import PrimFloat.
From PV Require Import Model.Base Model.Sched Model.Seq.
Import ListNotations.
Open Scope Z_scope.

Definition wcfg (clock mn : Z) : ccfg :=
  {| c_local := false; c_basis := 0; c_dmm := false; c_clock := clock; c_min := mn;
     c_max := None; c_rise := 0; c_pj := 0; c_minret := 0; c_fixret := 0;
     c_maxtg := None; c_maxamp := None; c_maxdet := None; c_minavg := zero;
     c_bottom := None; c_totbottom := None; c_eom := None |}.

Definition wenv : senv :=
  {| v_dev := {| d_chans := [(0, wcfg 1 1); (1, wcfg 4 16)]; d_dmms := [];
                 d_maxseq := None; d_reusable := false; d_slm := false |};
     v_qids := [0]; v_maps := []; v_oracle := [] |}.

Definition wops : list op :=
  [ODeclare 0 0 None; ODeclare 1 1 None; ODelay 10 0 false; OAlign [0; 1] false].

Definition ends (s : seq) : list Z := map (fun c => ch_duration c false) (q_sched s).

Lemma align_ends_differ : ends (run wenv wops) = [10; 16].
Proof. vm_compute. reflexivity. Qed.

Theorem align_ends_together_refuted :
  exists v ops a b, ends (run v ops) = [a; b] /\ a <> b /\
                    exists chs ar pre, ops = pre ++ [OAlign chs ar] /\
                                       snd (step v (run v pre) (OAlign chs ar)) = Ok unit_sv.
Proof.
  exists wenv, wops, 10, 16. split; [exact align_ends_differ|]. split; [discriminate|].
  exists [0; 1], false, [ODeclare 0 0 None; ODeclare 1 1 None; ODelay 10 0 false].
  split; [reflexivity|]. vm_compute. reflexivity.
Qed.

(** the hypotheses of the reachable-state theorems are satisfiable and the
    reachable state is not trivial *)
From PV Require Import Proofs.SchedInv Proofs.SeqInv.
Example reachable_state_example :
  senv_ok wenv /\ ends (run wenv wops) = [10; 16] /\
  map (fun c => length (ch_slots c)) (q_sched (run wenv wops)) = [2%nat; 2%nat].
Proof.
  split; [|split; vm_compute; reflexivity].
  unfold senv_ok, env_ok, le_opt; cbn. split; [exact I|].
  split; [|constructor].
  repeat constructor; cbn; unfold cfg_ok; cbn; auto with zarith.
Qed.
