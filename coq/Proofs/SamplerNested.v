(** C06, sequence level: [to_nested_dict] attributes to each atom exactly the
    contributions of the slots that target it.  No law of the number type is
    used in the characterisation theorems. *)
From Coq Require Import ZArith List Bool Lia.
From PV Require Import Model.Base Model.Sampler Model.SamplerSpec
     Proofs.SamplerArr Proofs.SamplerChan.
Import ListNotations.
Open Scope Z_scope.

Section Nested.
Variable T : Type.
Variable zero one : T.
Variable add mul : T -> T -> T.

Notation nthz := (nthz T zero).
Notation lenz := (lenz T).
Notation chan := (chan T).
Notation csamples := (csamples T).
Notation qty := (qty T).
Notation ndict := (ndict T).
Notation lookd := (lookd T zero).
Notation upd := (upd T zero).
Notation q_get := (q_get T).
Notation cs_get := (cs_get T).

(** * Keys *)
Lemma key_eqb_eq : forall a b, key_eqb a b = true <-> a = b.
Proof.
  intros [x|x q] [y|y r]; simpl; split; intros H; try discriminate.
  - apply Z.eqb_eq in H. now subst.
  - inversion H. apply Z.eqb_refl.
  - apply andb_true_iff in H. destruct H as [Ha Hb].
    apply Z.eqb_eq in Ha, Hb. now subst.
  - inversion H. now rewrite !Z.eqb_refl.
Qed.

Lemma key_eqb_refl : forall a, key_eqb a a = true.
Proof. intros. now apply key_eqb_eq. Qed.

Lemma key_eqb_neq : forall a b, key_eqb a b = false <-> a <> b.
Proof.
  intros a b. split.
  - intros H E. apply key_eqb_eq in E. congruence.
  - intros H. destruct (key_eqb a b) eqn:E; auto. apply key_eqb_eq in E. contradiction.
Qed.

(** * The defaultdict *)
Lemma lookd_upd : forall N (d : ndict) k f k',
  lookd N (upd N d k f) k' =
  if key_eqb k' k then f (lookd N d k) else lookd N d k'.
Proof.
  intros N d k f k'. induction d as [|[k0 q0] r IH].
  - unfold Sampler.lookd. simpl. destruct (key_eqb k' k); reflexivity.
  - simpl. destruct (key_eqb k k0) eqn:E.
    + apply key_eqb_eq in E. subst k0.
      unfold Sampler.lookd. simpl. rewrite key_eqb_refl.
      destruct (key_eqb k' k); reflexivity.
    + unfold Sampler.lookd in *. simpl. rewrite E.
      destruct (key_eqb k' k0) eqn:E0.
      * apply key_eqb_eq in E0. subst k0.
        replace (key_eqb k' k) with false; auto.
        symmetry. apply key_eqb_neq. intros ->. rewrite key_eqb_refl in E. discriminate.
      * exact IH.
Qed.

Definition qlen (N : Z) (q : qty) : Prop :=
  length (q_amp T q) = Z.to_nat N /\ length (q_det T q) = Z.to_nat N
  /\ length (q_phase T q) = Z.to_nat N.
Definition cslen (N : Z) (cs : csamples) : Prop :=
  length (cs_amp T cs) = Z.to_nat N /\ length (cs_det T cs) = Z.to_nat N
  /\ length (cs_phase T cs) = Z.to_nat N.
Definition dwf (N : Z) (d : ndict) : Prop := forall k, qlen N (lookd N d k).

Lemma qlen_zq : forall N, qlen N (zq T zero N).
Proof. intros. unfold qlen, zq, zeros. simpl. now rewrite !repeat_length. Qed.

Lemma qlen_get : forall N q s, qlen N q -> length (q_get s q) = Z.to_nat N.
Proof. intros N q s (A & B & C). destruct s; auto. Qed.
Lemma cslen_get : forall N cs s, cslen N cs -> length (cs_get s cs) = Z.to_nat N.
Proof. intros N cs s (A & B & C). destruct s; auto. Qed.

Lemma dwf_upd : forall N d k f,
  dwf N d -> (forall q, qlen N q -> qlen N (f q)) -> dwf N (upd N d k f).
Proof.
  intros N d k f Hd Hf k'. rewrite lookd_upd.
  destruct (key_eqb k' k); auto.
Qed.

Lemma qacc_plain_len : forall N lo n cs q,
  qlen N q -> qlen N (qacc_plain T add lo n cs q).
Proof.
  intros N lo n cs q (A & B & C). unfold qlen, qacc_plain. simpl.
  now rewrite !accr_length.
Qed.
Lemma qacc_w_len : forall N lo n w cs q,
  qlen N q -> qlen N (qacc_w T add mul lo n w cs q).
Proof.
  intros N lo n w cs q (A & B & C). unfold qlen, qacc_w. simpl.
  now rewrite !accr_length.
Qed.

(** pointwise effect of one slice accumulation *)
Definition wfun (s : sel) (w : T) : T -> T -> T :=
  match s with Det => fun d x => add d (mul x w) | _ => add end.

Lemma q_get_plain : forall s lo n cs q,
  q_get s (qacc_plain T add lo n cs q) = accr T add (q_get s q) (cs_get s cs) lo n.
Proof. intros. destruct s; reflexivity. Qed.
Lemma q_get_w : forall s lo n w cs q,
  q_get s (qacc_w T add mul lo n w cs q) = accr T (wfun s w) (q_get s q) (cs_get s cs) lo n.
Proof. intros. destruct s; reflexivity. Qed.

Lemma accr_eff : forall N f (dst src : list T) lo n t,
  length dst = Z.to_nat N -> length src = Z.to_nat N -> 0 <= t < N ->
  nthz (accr T f dst src (Z.to_nat lo) (Z.to_nat n)) t =
  if in_slice lo n t then f (nthz dst t) (nthz src t) else nthz dst t.
Proof.
  intros N f dst src lo n t Hd Hs Ht. rewrite accr_nthz by lia.
  unfold in_slice, Sampler.lenz. rewrite Hd.
  replace (t <? Z.of_nat (Z.to_nat N)) with true by (symmetry; apply Z.ltb_lt; lia).
  now rewrite andb_true_r.
Qed.

Lemma qacc_plain_eff : forall N lo n cs q s t,
  qlen N q -> cslen N cs -> 0 <= t < N ->
  nthz (q_get s (qacc_plain T add (Z.to_nat lo) (Z.to_nat n) cs q)) t =
  if in_slice lo n t then add (nthz (q_get s q) t) (nthz (cs_get s cs) t)
  else nthz (q_get s q) t.
Proof.
  intros N lo n cs q s t Hq Hc Ht. rewrite q_get_plain.
  apply (accr_eff N); auto. now apply qlen_get. now apply cslen_get.
Qed.

Lemma qacc_w_eff : forall N lo n w cs q s t,
  qlen N q -> cslen N cs -> 0 <= t < N ->
  nthz (q_get s (qacc_w T add mul (Z.to_nat lo) (Z.to_nat n) w cs q)) t =
  if in_slice lo n t
  then add (nthz (q_get s q) t)
           (match s with
            | Det => mul (nthz (cs_det T cs) t) w
            | _ => nthz (cs_get s cs) t
            end)
  else nthz (q_get s q) t.
Proof.
  intros N lo n w cs q s t Hq Hc Ht. rewrite q_get_w.
  rewrite (accr_eff N); auto; [|now apply qlen_get|now apply cslen_get].
  destruct s; reflexivity.
Qed.

(** * A loop over targets updating local entries of one basis *)
Definition val (N : Z) (d : ndict) (k : key) (s : sel) (t : Z) : T :=
  nthz (q_get s (lookd N d k)) t.

(** keys that a loop over the local entries of basis [b] cannot touch *)
Definition other (b : Z) (k : key) : bool :=
  match k with KG _ => true | KL b' _ => negb (b' =? b) end.

Lemma other_neq : forall b k t', other b k = true -> key_eqb k (KL b t') = false.
Proof.
  intros b [x|x q] t' H; simpl in *; auto.
  apply negb_true_iff in H. now rewrite H.
Qed.

Section TargetLoop.
Variables (N b q : Z) (s : sel) (t : Z).
Variable g : Z -> qty -> qty.
Variable cond : Z -> bool.
Variable v : Z -> T.
Hypothesis g_len : forall t' q0, qlen N q0 -> qlen N (g t' q0).
Hypothesis g_eff : forall t' q0, qlen N q0 ->
  nthz (q_get s (g t' q0)) t =
  if cond t' then add (nthz (q_get s q0) t) (v t') else nthz (q_get s q0) t.

Lemma target_loop : forall (tg : list Z) (d : ndict),
  dwf N d ->
  let d' := fold_left (fun d t' => upd N d (KL b t') (g t')) tg d in
  dwf N d'
  /\ val N d' (KL b q) s t =
     fold_left add
       (flat_map (fun t' => if (t' =? q) && cond t' then [v t'] else []) tg)
       (val N d (KL b q) s t)
  /\ (forall k, other b k = true -> lookd N d' k = lookd N d k).
Proof.
  induction tg as [|t' r IH]; intros d Hd; cbv zeta; simpl.
  - split; [exact Hd|split; [reflexivity|intros; reflexivity]].
  - assert (Hd1 : dwf N (upd N d (KL b t') (g t'))) by (apply dwf_upd; auto).
    destruct (IH _ Hd1) as (W & V & O). split; [exact W|split].
    + rewrite V. rewrite fold_left_app. f_equal.
      unfold val. rewrite lookd_upd. simpl. rewrite Z.eqb_refl. simpl.
      rewrite (Z.eqb_sym q t').
      destruct (t' =? q) eqn:E; simpl.
      * apply Z.eqb_eq in E. subst t'. rewrite g_eff by apply Hd.
        destruct (cond q); reflexivity.
      * reflexivity.
    + intros k Hk. rewrite O by auto. rewrite lookd_upd.
      now rewrite (other_neq b k t' Hk).
Qed.
End TargetLoop.

(** a loop over slots of loops over their targets *)
Section SlotLoop.
Variables (N b q : Z) (s : sel) (t : Z).
Variable G : xslot -> Z -> qty -> qty.
Variable cond : xslot -> Z -> bool.
Variable v : xslot -> Z -> T.
Hypothesis G_len : forall sl t' q0, qlen N q0 -> qlen N (G sl t' q0).
Hypothesis G_eff : forall sl t' q0, qlen N q0 ->
  nthz (q_get s (G sl t' q0)) t =
  if cond sl t' then add (nthz (q_get s q0) t) (v sl t') else nthz (q_get s q0) t.

Lemma slot_loop : forall (sls : list xslot) (d : ndict),
  dwf N d ->
  let d' := fold_left
              (fun d sl => fold_left (fun d t' => upd N d (KL b t') (G sl t')) (xs_tg sl) d)
              sls d in
  dwf N d'
  /\ val N d' (KL b q) s t =
     fold_left add
       (flat_map (fun sl =>
          flat_map (fun t' => if (t' =? q) && cond sl t' then [v sl t'] else [])
                   (xs_tg sl)) sls)
       (val N d (KL b q) s t)
  /\ (forall k, other b k = true -> lookd N d' k = lookd N d k).
Proof.
  induction sls as [|sl r IH]; intros d Hd; cbv zeta; simpl.
  - split; [exact Hd|split; [reflexivity|intros; reflexivity]].
  - destruct (target_loop N b q s t (G sl) (cond sl) (v sl) (G_len sl) (G_eff sl)
                          (xs_tg sl) d Hd) as (W & V & O).
    destruct (IH _ W) as (W' & V' & O'). split; [exact W'|split].
    + rewrite V', V. now rewrite fold_left_app.
    + intros k Hk. rewrite O' by auto. now apply O.
Qed.
End SlotLoop.

Lemma touch_loop : forall N b (tg : list Z) (d : ndict),
  dwf N d ->
  let d' := fold_left (fun d t' => upd N d (KL b t') (fun q => q)) tg d in
  dwf N d' /\ forall k, lookd N d' k = lookd N d k.
Proof.
  intros N b. induction tg as [|t' r IH]; intros d Hd; cbv zeta; simpl.
  - split; auto.
  - assert (Hd1 : dwf N (upd N d (KL b t') (fun q => q))) by (apply dwf_upd; auto).
    destruct (IH _ Hd1) as (W & E). split; auto.
    intros k. rewrite E, lookd_upd.
    destruct (key_eqb k (KL b t')) eqn:K; auto.
    apply key_eqb_eq in K. now subst.
Qed.

(** * One channel *)
Notation contrib_local := (contrib_local T zero one mul).
Notation contrib_global := (contrib_global T zero).
Notation chan_step := (chan_step T zero one add mul).

Lemma fold_left_add_nil : forall (A : Type) (f : A -> list T) (l : list A) acc,
  (forall x, In x l -> f x = []) ->
  fold_left add (flat_map f l) acc = acc.
Proof.
  intros A f l acc H. induction l as [|x r IH]; simpl; auto.
  rewrite (H x) by now left. simpl. apply IH. intros; apply H; now right.
Qed.

Lemma flat_map_ext_in : forall (A B : Type) (f g : A -> list B) (l : list A),
  (forall x, In x l -> f x = g x) -> flat_map f l = flat_map g l.
Proof.
  intros A B f g l H. induction l as [|x r IH]; simpl; auto.
  rewrite (H x) by now left. f_equal. apply IH. intros; apply H; now right.
Qed.

(** the local loop of the not-global branch, as a function *)
Definition local_loop (N : Z) (mt : list Z) (mend : Z) (c : chan) (cs : csamples)
           (d0 : ndict) : ndict :=
  fold_left
    (fun d s =>
       fold_left
         (fun d t =>
            let ti := slot_start T c mt mend s t in
            upd N d (KL (c_basis T c) t)
                (qacc_w T add mul (Z.to_nat ti) (Z.to_nat (xs_tf s - ti))
                        (weight T zero one c t) cs))
         (xs_tg s) d)
    (cs_slots T cs) d0.

Lemma local_loop_spec : forall N mt mend c cs d0 q s t,
  dwf N d0 -> cslen N cs -> 0 <= t < N ->
  let d' := local_loop N mt mend c cs d0 in
  dwf N d'
  /\ val N d' (KL (c_basis T c) q) s t =
     fold_left add
       (flat_map
          (fun sl =>
             flat_map
               (fun t' =>
                  let ti := slot_start T c mt mend sl t' in
                  if (t' =? q) && in_slice ti (xs_tf sl - ti) t
                  then [cval T zero one mul s c cs q t] else [])
               (xs_tg sl))
          (cs_slots T cs))
       (val N d0 (KL (c_basis T c) q) s t)
  /\ (forall k, other (c_basis T c) k = true -> lookd N d' k = lookd N d0 k).
Proof.
  intros N mt mend c cs d0 q s t Hd Hc Ht. cbv zeta. unfold local_loop.
  pose (G := fun (sl : xslot) (t' : Z) =>
               qacc_w T add mul (Z.to_nat (slot_start T c mt mend sl t'))
                      (Z.to_nat (xs_tf sl - slot_start T c mt mend sl t'))
                      (weight T zero one c t') cs).
  pose (cond := fun (sl : xslot) (t' : Z) =>
                  in_slice (slot_start T c mt mend sl t')
                           (xs_tf sl - slot_start T c mt mend sl t') t).
  pose (v := fun (sl : xslot) (t' : Z) =>
               match s with
               | Det => mul (nthz (cs_det T cs) t) (weight T zero one c t')
               | _ => nthz (cs_get s cs) t
               end).
  assert (GL : forall sl t' q0, qlen N q0 -> qlen N (G sl t' q0))
    by (intros; unfold G; now apply qacc_w_len).
  assert (GE : forall sl t' q0, qlen N q0 ->
            nthz (q_get s (G sl t' q0)) t =
            if cond sl t' then add (nthz (q_get s q0) t) (v sl t')
            else nthz (q_get s q0) t).
  { intros sl t' q0 Hq. unfold G, cond, v. now apply (qacc_w_eff N). }
  destruct (slot_loop N (c_basis T c) q s t G cond v GL GE (cs_slots T cs) d0 Hd)
    as (W & V & O).
  split; [exact W|split; [|exact O]].
  etransitivity; [exact V|]. f_equal.
  apply flat_map_ext_in. intros sl _. apply flat_map_ext_in. intros t' _.
  unfold cond, v. cbv zeta.
  destruct (t' =? q) eqn:E; simpl; auto.
  apply Z.eqb_eq in E. subst t'.
  destruct (in_slice _ _ t); auto.
Qed.

Lemma local_loop_dwf : forall N mt mend c cs d0,
  dwf N d0 -> dwf N (local_loop N mt mend c cs d0).
Proof.
  intros N mt mend c cs. unfold local_loop.
  induction (cs_slots T cs) as [|sl r IH]; intros d0 Hd; simpl; auto.
  apply IH. clear IH. revert d0 Hd.
  induction (xs_tg sl) as [|t' r' IH']; intros d0 Hd; simpl; auto.
  apply IH'. apply dwf_upd; auto. intros; now apply qacc_w_len.
Qed.

Lemma chan_step_inv : forall all_local N mt mend (d : ndict) c cs d',
  chan_step all_local N mt mend d (c, cs) = Some d' ->
  dwf N d -> cslen N cs ->
  dwf N d'
  /\ forall s t, 0 <= t < N ->
     (forall b q,
        val N d' (KL b q) s t =
        fold_left add (contrib_local all_local mt mend b q s t (c, cs))
                  (val N d (KL b q) s t))
     /\ (forall b,
        val N d' (KG b) s t =
        fold_left add (contrib_global all_local mend b s t N (c, cs))
                  (val N d (KG b) s t)).
Proof.
  intros all_local N mt mend d c cs d' H Hd Hc.
  unfold Sampler.chan_step in H.
  destruct (is_global_branch T all_local c) eqn:EG.
  - (* the global branch *)
    set (bc := c_basis T c) in *.
    set (start := if bc =? 2 then mend else 0) in *.
    set (d1 := upd N d (KG bc) (qacc_plain T add (Z.to_nat start) (Z.to_nat N) cs)) in *.
    assert (Hd1 : dwf N d1) by (apply dwf_upd; auto; intros; now apply qacc_plain_len).
    assert (G1 : forall s t b, 0 <= t < N ->
              val N d1 (KG b) s t =
              fold_left add (contrib_global all_local mend b s t N (c, cs))
                        (val N d (KG b) s t)).
    { intros s t b Ht. unfold val, d1. rewrite lookd_upd. simpl.
      unfold SamplerSpec.contrib_global. rewrite EG. fold bc.
      rewrite (Z.eqb_sym b). destruct (bc =? b) eqn:EB; simpl; auto.
      apply Z.eqb_eq in EB. subst b. fold start.
      rewrite (qacc_plain_eff N) by (auto; apply Hd).
      destruct (in_slice start N t); reflexivity. }
    assert (L1 : forall b q, lookd N d1 (KL b q) = lookd N d (KL b q)).
    { intros. unfold d1. now rewrite lookd_upd. }
    destruct (start =? 0) eqn:ES.
    + inversion H; subst d'. split; auto. intros s t Ht. split.
      * intros b q. unfold SamplerSpec.contrib_local. rewrite EG. fold bc.
        unfold val. rewrite L1.
        destruct (bc =? b) eqn:EB; simpl; auto.
        apply Z.eqb_eq in EB. subst b. fold start. now rewrite ES.
      * intros b. now apply G1.
    + destruct (cs_slots T cs) as [|s0 sl] eqn:ESl.
      { (* a global channel without slots: nothing to distribute *)
        inversion H; subst d'. split; auto. intros s t Ht. split.
        - intros b q. unfold SamplerSpec.contrib_local. rewrite EG. fold bc.
          unfold val. rewrite L1.
          destruct (bc =? b) eqn:EB; simpl; auto.
          apply Z.eqb_eq in EB. subst b. fold start. rewrite ES, ESl. reflexivity.
        - intros b. now apply G1. }
      inversion H; subst d'; clear H.
      split.
      * pose proof (touch_loop N bc) as TL. clear TL.
        assert (W : forall tg d0, dwf N d0 ->
                  dwf N (fold_left (fun d t => upd N d (KL bc t)
                           (qacc_plain T add 0 (Z.to_nat start) cs)) tg d0)).
        { induction tg as [|x r IH]; intros d0 H0; simpl; auto.
          apply IH. apply dwf_upd; auto. intros; now apply qacc_plain_len. }
        now apply W.
      * intros s t Ht.
        pose (g := fun (_ : Z) => qacc_plain T add 0 (Z.to_nat start) cs).
        pose (cond := fun (_ : Z) => in_slice 0 start t).
        pose (v := fun (_ : Z) => nthz (cs_get s cs) t).
        assert (GL : forall t' q0, qlen N q0 -> qlen N (g t' q0))
          by (intros; unfold g; now apply qacc_plain_len).
        assert (GE : forall t' q0, qlen N q0 ->
                  nthz (q_get s (g t' q0)) t =
                  if cond t' then add (nthz (q_get s q0) t) (v t')
                  else nthz (q_get s q0) t).
        { intros t' q0 Hq. unfold g, cond, v.
          change 0%nat with (Z.to_nat 0). now apply (qacc_plain_eff N). }
        split.
        -- intros b q.
           unfold SamplerSpec.contrib_local. rewrite EG. fold bc. rewrite ESl.
           destruct (bc =? b) eqn:EB; simpl.
           ++ apply Z.eqb_eq in EB. subst b. fold start. rewrite ES.
              destruct (target_loop N bc q s t g cond v GL GE
                                    (set_minus (xs_tg s0) mt) d1 Hd1) as (_ & V & _).
              unfold g in V. etransitivity; [exact V|].
              unfold val. rewrite L1. reflexivity.
           ++ destruct (target_loop N bc q s t g cond v GL GE
                                    (set_minus (xs_tg s0) mt) d1 Hd1) as (_ & _ & O).
              unfold val. unfold g in O. rewrite O.
              ** now rewrite L1.
              ** simpl. rewrite Z.eqb_sym. now rewrite EB.
        -- intros b.
           destruct (target_loop N bc 0 s t g cond v GL GE
                                 (set_minus (xs_tg s0) mt) d1 Hd1) as (_ & _ & O).
           unfold val at 1. unfold g in O. rewrite O by reflexivity.
           now apply G1.
  - (* the local branch *)
    set (bc := c_basis T c) in *.
    set (d0 := match cs_slots T cs with
               | [] => fold_left (fun d t => upd N d (KL bc t) (fun q => q))
                                 (cs_init_tg T cs) d
               | _ :: _ => d
               end) in *.
    assert (H0 : dwf N d0 /\ forall k, lookd N d0 k = lookd N d k).
    { unfold d0. destruct (cs_slots T cs); [|split; auto].
      now apply touch_loop. }
    destruct H0 as (Hd0 & E0).
    change (Some (local_loop N mt mend c cs d0) = Some d') in H.
    inversion H; subst d'; clear H.
    split.
    + now apply local_loop_dwf.
    + intros s t Ht.
      destruct (local_loop_spec N mt mend c cs d0 0 s t Hd0 Hc Ht) as (_ & _ & O).
      split.
      * intros b q. unfold SamplerSpec.contrib_local. rewrite EG. fold bc.
        destruct (bc =? b) eqn:EB; simpl.
        -- apply Z.eqb_eq in EB. subst b.
           destruct (local_loop_spec N mt mend c cs d0 q s t Hd0 Hc Ht) as (_ & V & _).
           fold bc in V. etransitivity; [exact V|].
           unfold val. now rewrite E0.
        -- unfold val. rewrite O.
           ++ now rewrite E0.
           ++ simpl. fold bc. rewrite Z.eqb_sym. now rewrite EB.
      * intros b. unfold SamplerSpec.contrib_global. rewrite EG.
        destruct (negb (c_basis T c =? b)); simpl; unfold val; rewrite O by reflexivity;
          now rewrite E0.
Qed.

(** * The whole sequence *)
Notation nested := (nested T zero one add mul).
Notation seq_N := (seq_N T zero add).
Notation seq_ext := (seq_ext T zero add).

Lemma fold_opt_inv : forall all_local N mt mend (l : list (chan * csamples)) (d d' : ndict),
  fold_opt (chan_step all_local N mt mend) l d = Some d' ->
  dwf N d -> (forall ccs, In ccs l -> cslen N (snd ccs)) ->
  dwf N d'
  /\ forall s t, 0 <= t < N ->
     (forall b q,
        val N d' (KL b q) s t =
        fold_left add (flat_map (contrib_local all_local mt mend b q s t) l)
                  (val N d (KL b q) s t))
     /\ (forall b,
        val N d' (KG b) s t =
        fold_left add (flat_map (contrib_global all_local mend b s t N) l)
                  (val N d (KG b) s t)).
Proof.
  intros all_local N mt mend. induction l as [|[c cs] r IH]; intros d d' H Hd Hl.
  - simpl in H. inversion H; subst. split; auto.
  - change (match chan_step all_local N mt mend d (c, cs) with
            | Some a' => fold_opt (chan_step all_local N mt mend) r a'
            | None => None
            end = Some d') in H.
    destruct (chan_step all_local N mt mend d (c, cs)) as [d1|] eqn:E; [|discriminate].
    destruct (chan_step_inv _ _ _ _ _ _ _ _ E Hd (Hl (c, cs) (or_introl eq_refl)))
      as (W1 & V1).
    destruct (IH d1 d' H W1 (fun ccs Hin => Hl ccs (or_intror Hin))) as (W & V).
    split; auto. intros s t Ht.
    destruct (V s t Ht) as (VL & VG). destruct (V1 s t Ht) as (VL1 & VG1).
    split.
    + intros b q. simpl. rewrite fold_left_app. rewrite VL. now rewrite VL1.
    + intros b. simpl. rewrite fold_left_app. rewrite VG. now rewrite VG1.
Qed.

Lemma max_duration_acc : forall (css : list csamples) a,
  a <= fold_left (fun m cs => Z.max m (lenz (cs_amp T cs))) css a
  /\ forall cs, In cs css ->
       lenz (cs_amp T cs) <= fold_left (fun m cs => Z.max m (lenz (cs_amp T cs))) css a.
Proof.
  induction css as [|x r IH]; intros a; simpl.
  - split; [lia|intros; contradiction].
  - destruct (IH (Z.max a (lenz (cs_amp T x)))) as (A & B). split; [lia|].
    intros cs [->|Hin]; [lia|auto].
Qed.

Lemma in_combine_map : forall (A B : Type) (f : A -> B) (l : list A) a b,
  In (a, b) (combine l (map f l)) -> In a l /\ b = f a.
Proof.
  induction l as [|x r IH]; intros a b H; simpl in H; [contradiction|].
  destruct H as [H|H].
  - inversion H; subst. split; auto. now left.
  - destruct (IH _ _ H). split; auto. now right.
Qed.

Lemma cslen_ext_to : forall N (cs : csamples),
  lenz (cs_det T cs) = lenz (cs_amp T cs) ->
  lenz (cs_phase T cs) = lenz (cs_amp T cs) ->
  lenz (cs_amp T cs) <= N ->
  cslen N (ext_to T zero N cs) /\ cs_slots T (ext_to T zero N cs) = cs_slots T cs.
Proof.
  intros N cs Hd Hp Hle. unfold ext_to.
  destruct (lenz (cs_amp T cs) =? N) eqn:E.
  - apply Z.eqb_eq in E. split; auto. unfold cslen. unfold Sampler.lenz in *. lia.
  - destruct (extend T zero cs N) as [cs'|] eqn:EX.
    + destruct (extend_pads T zero cs cs' N Hd Hp EX) as (A & B & C & S & _).
      split; auto. unfold cslen. unfold Sampler.lenz in *. lia.
    + apply extend_fails_iff in EX. lia.
Qed.

Lemma seq_ext_facts : forall (chans : list chan) c cs,
  In (c, cs) (seq_ext chans) ->
  In c chans /\ cslen (seq_N chans) cs
  /\ cs_slots T cs = ext_slots T c (pslots_of T (c_slots T c)).
Proof.
  intros chans c cs H. unfold SamplerSpec.seq_ext, SamplerSpec.seq_css in H.
  rewrite map_map in H. apply in_combine_map in H. destruct H as (Hin & Heq). subst cs.
  destruct (samples_lengths T zero add c) as (LA & LD & LP).
  assert (H1 : lenz (cs_det T (get_samples T zero add c))
               = lenz (cs_amp T (get_samples T zero add c))) by (simpl; lia).
  assert (H2 : lenz (cs_phase T (get_samples T zero add c))
               = lenz (cs_amp T (get_samples T zero add c))) by (simpl; lia).
  assert (H3 : lenz (cs_amp T (get_samples T zero add c)) <= seq_N chans).
  { unfold SamplerSpec.seq_N, max_duration.
    apply (max_duration_acc (SamplerSpec.seq_css T zero add chans) 0).
    unfold SamplerSpec.seq_css. now apply in_map. }
  destruct (cslen_ext_to (seq_N chans) (get_samples T zero add c) H1 H2 H3) as (A & B).
  repeat split; auto; apply A.
Qed.

Lemma dwf_prepared : forall (chans : list chan) N, dwf N (prepared T zero chans N).
Proof.
  intros chans N k. unfold prepared. destruct (in_xy T chans).
  - unfold Sampler.lookd. simpl. destruct (key_eqb k (KG 2)); apply qlen_zq.
  - unfold Sampler.lookd. simpl. apply qlen_zq.
Qed.

Lemma val_prepared : forall (chans : list chan) N k s t,
  val N (prepared T zero chans N) k s t = zero.
Proof.
  intros. unfold val.
  assert (E : lookd N (prepared T zero chans N) k = zq T zero N).
  { unfold prepared. destruct (in_xy T chans); unfold Sampler.lookd; simpl; auto.
    destruct (key_eqb k (KG 2)); auto. }
  rewrite E. destruct s; simpl; apply zeros_nthz.
Qed.

(** ** The per-atom view, nanosecond by nanosecond: the entry of atom [q] on
    basis [b] holds exactly the contributions of the (channel, slot, target)
    triples that name [q], in schedule order; the global entry of [b] holds
    the global channels of that basis.  No law of the number type is used. *)
Theorem nested_spec : forall all_local (chans : list chan) mask (d : ndict),
  nested all_local chans mask = Some d ->
  let N := seq_N chans in
  let mt := fst (slm_mask T chans mask) in
  let mend := snd (slm_mask T chans mask) in
  forall s t, 0 <= t < N ->
  (forall b q,
     nthz (q_get s (lookd N d (KL b q))) t =
     fold_left add (flat_map (contrib_local all_local mt mend b q s t) (seq_ext chans)) zero)
  /\ (forall b,
     nthz (q_get s (lookd N d (KG b))) t =
     fold_left add (flat_map (contrib_global all_local mend b s t N) (seq_ext chans)) zero).
Proof.
  intros all_local chans mask d H N mt mend s t Ht.
  unfold Sampler.nested in H.
  change (max_duration T (map (get_samples T zero add) chans)) with N in H.
  change (combine chans (map (ext_to T zero N) (map (get_samples T zero add) chans)))
    with (seq_ext chans) in H.
  destruct (slm_mask T chans mask) as [mt' mend'] eqn:EM. simpl in mt, mend.
  destruct (fold_opt_inv _ _ _ _ _ _ _ H (dwf_prepared chans N)) as (_ & V).
  - intros [c cs] Hin. now destruct (seq_ext_facts _ _ _ Hin) as (_ & L & _).
  - destruct (V s t Ht) as (VL & VG). split.
    + intros b q. specialize (VL b q). unfold val in VL at 1. rewrite VL.
      now rewrite val_prepared.
    + intros b. specialize (VG b). unfold val in VG at 1. rewrite VG.
      now rewrite val_prepared.
Qed.

(** [to_nested_dict] never raises: every sequence has a per-atom view *)
Lemma chan_step_total : forall all_local N mt mend (d : ndict) ccs,
  chan_step all_local N mt mend d ccs <> None.
Proof.
  intros all_local N mt mend d [c cs]. unfold Sampler.chan_step.
  destruct (is_global_branch T all_local c); [|discriminate].
  destruct ((if c_basis T c =? 2 then mend else 0) =? 0); [discriminate|].
  destruct (cs_slots T cs); discriminate.
Qed.

Lemma fold_opt_total : forall all_local N mt mend (l : list (chan * csamples)) (d : ndict),
  fold_opt (chan_step all_local N mt mend) l d <> None.
Proof.
  intros all_local N mt mend. induction l as [|ccs r IH]; intros d; simpl; [discriminate|].
  destruct (chan_step all_local N mt mend d ccs) eqn:E; [apply IH|].
  exfalso. now apply (chan_step_total all_local N mt mend d ccs).
Qed.

Theorem nested_total : forall all_local (chans : list chan) mask,
  exists d, nested all_local chans mask = Some d.
Proof.
  intros all_local chans mask.
  destruct (nested all_local chans mask) as [d|] eqn:E; [now exists d|].
  exfalso. unfold Sampler.nested in E.
  destruct (slm_mask T chans mask) as [mt mend].
  now apply fold_opt_total in E.
Qed.

(** * Consequences: who receives what *)
Lemma flat_map_nil : forall (A B : Type) (f : A -> list B) (l : list A),
  (forall x, In x l -> f x = []) -> flat_map f l = [].
Proof.
  intros A B f l H. induction l as [|x r IH]; simpl; auto.
  rewrite (H x) by now left. simpl. apply IH. intros; apply H; now right.
Qed.

Lemma ext_slots_tg : forall (c : chan) (l : list (pslot T)) x,
  In x (ext_slots T c l) -> exists s, In s l /\ xs_tg x = ps_tg T s.
Proof.
  intros c. induction l as [|s r IH]; intros x H; simpl in H; [contradiction|].
  destruct H as [<-|H].
  - exists s. split; auto. now left.
  - destruct (IH _ H) as (s' & A & B). exists s'. split; auto. now right.
Qed.

Lemma memz_in : forall x l, memz x l = true <-> In x l.
Proof.
  intros x l. unfold memz. rewrite existsb_exists. split.
  - intros (y & Hy & E). apply Z.eqb_eq in E. now subst.
  - intros H. exists x. split; auto. apply Z.eqb_refl.
Qed.

(** an atom that no pulse slot of a basis names receives nothing on that basis *)
Theorem untargeted_atom_receives_nothing :
  forall all_local (chans : list chan) mask (d : ndict) b q,
  nested all_local chans mask = Some d ->
  (forall c, In c chans -> c_basis T c = b ->
     is_global_branch T all_local c = false
     /\ forall sl, In sl (pslots_of T (c_slots T c)) -> ~ In q (ps_tg T sl)) ->
  forall s t, 0 <= t < seq_N chans ->
  nthz (q_get s (lookd (seq_N chans) d (KL b q))) t = zero.
Proof.
  intros all_local chans mask d b q H Hc s t Ht.
  destruct (nested_spec _ _ _ _ H s t Ht) as (VL & _). rewrite VL.
  apply fold_left_add_nil. intros [c cs] Hin.
  destruct (seq_ext_facts _ _ _ Hin) as (Hin' & _ & Hs).
  unfold SamplerSpec.contrib_local.
  destruct (c_basis T c =? b) eqn:EB; simpl; auto.
  apply Z.eqb_eq in EB. destruct (Hc c Hin' EB) as (HG & HT). rewrite HG.
  apply flat_map_nil. intros sl Hsl. apply flat_map_nil. intros t' Ht'.
  rewrite Hs in Hsl. destruct (ext_slots_tg _ _ _ Hsl) as (ps & Hps & Etg).
  destruct (t' =? q) eqn:E; simpl; auto.
  apply Z.eqb_eq in E. subst t'. exfalso. apply (HT ps Hps). now rewrite <- Etg.
Qed.

(** while the SLM mask is on, a masked atom receives nothing from XY channels,
    and the global XY entry is empty *)
Theorem xy_masked_atom_withheld :
  forall all_local (chans : list chan) mask (d : ndict) q,
  nested all_local chans mask = Some d ->
  In q (fst (slm_mask T chans mask)) ->
  forall s t, 0 <= t < snd (slm_mask T chans mask) -> t < seq_N chans ->
  nthz (q_get s (lookd (seq_N chans) d (KL 2 q))) t = zero
  /\ nthz (q_get s (lookd (seq_N chans) d (KG 2))) t = zero.
Proof.
  intros all_local chans mask d q H Hq s t Ht HN.
  destruct (nested_spec _ _ _ _ H s t (conj (proj1 Ht) HN)) as (VL & VG).
  set (mt := fst (slm_mask T chans mask)) in *.
  set (mend := snd (slm_mask T chans mask)) in *.
  split.
  - rewrite VL. apply fold_left_add_nil. intros [c cs] _.
    unfold SamplerSpec.contrib_local.
    destruct (c_basis T c =? 2) eqn:EB; simpl; auto.
    destruct (is_global_branch T all_local c).
    + destruct (mend =? 0); auto. destruct (cs_slots T cs) as [|s0 r]; auto.
      apply flat_map_nil. intros t' Ht'. unfold set_minus in Ht'.
      apply filter_In in Ht'. destruct Ht' as (_ & Hm).
      destruct (t' =? q) eqn:E; simpl; auto.
      apply Z.eqb_eq in E. subst t'. apply negb_true_iff in Hm.
      apply memz_in in Hq. congruence.
    + apply flat_map_nil. intros sl _. apply flat_map_nil. intros t' _.
      destruct (t' =? q) eqn:E; simpl; auto.
      apply Z.eqb_eq in E. subst t'.
      unfold slot_start. rewrite EB. apply memz_in in Hq. rewrite Hq. simpl.
      unfold in_slice.
      replace (Z.max 0 (Z.max (xs_ti sl) mend) <=? t) with false; auto.
      symmetry. apply Z.leb_gt. lia.
  - rewrite VG. apply fold_left_add_nil. intros [c cs] _.
    unfold SamplerSpec.contrib_global.
    destruct (negb (c_basis T c =? 2)); auto.
    destruct (is_global_branch T all_local c); auto. simpl.
    unfold in_slice. replace (Z.max 0 mend <=? t) with false; auto.
    symmetry. apply Z.leb_gt. lia.
Qed.

End Nested.

(** * Refutations (witnesses over the integers, replayed on /repo) *)
Definition dd_pulse_chan : chan Z :=
  mkChan Z [mkSlot Z (KTarget Z) (-1) 0 [0];
            mkSlot Z (KPulse Z (mkPulse Z [0; 0] [1; 1] 5 true 0 0)) 0 2 [0]]
         [] 0 true 0 false [].

(** [Pulse.ConstantPulse(2, 0, 1, phase=5)] added by the user is classified as
    a detuned delay; its phase is not rendered *)
Lemma zero_amplitude_pulse_phase_refuted :
  exists (c : chan Z) (s : pslot Z) (t : Z),
    wf_chan Z c = true /\ In s (pslots_of Z (c_slots Z c))
    /\ ps_ti Z s <= t < ps_tf Z s
    /\ nthz Z 0 (phase_of Z 0 c) t <> p_phase Z (ps_p Z s).
Proof.
  exists dd_pulse_chan, (mkPS Z (mkPulse Z [0; 0] [1; 1] 5 true 0 0) 0 2 [0]), 0.
  repeat split; try (vm_compute; congruence); try lia.
  - vm_compute. now left.
Qed.

Definition xy_pulse_chan : chan Z :=
  mkChan Z [mkSlot Z (KTarget Z) (-1) 0 [0; 1];
            mkSlot Z (KPulse Z (mkPulse Z [3; 3] [0; 0] 0 false 0 0)) 0 2 [0; 1]]
         [] 0 true 2 false [].
Definition xy_empty_chan : chan Z :=
  mkChan Z [mkSlot Z (KTarget Z) (-1) 0 [0; 1]] [] 0 true 2 false [].

(** regression of the input that raised IndexError before /repo commit
    568e94cf (XY mode, SLM mask on atom 0, two global microwave channels of
    which one has no pulse): the per-atom view now exists, the masked atom 0
    receives nothing while the mask is on, atom 1 receives the pulse *)
Example nested_dict_former_crash :
  exists d,
    nested Z 0 1 Z.add Z.mul false [xy_pulse_chan; xy_empty_chan] [0] = Some d
    /\ look Z d (KL 2 0) = None
    /\ look Z d (KL 2 1) = Some (mkQ Z [3; 3] [0; 0] [0; 0])
    /\ look Z d (KG 2) = Some (mkQ Z [0; 0] [0; 0] [0; 0]).
Proof. eexists. vm_compute. repeat split. Qed.

(** the hypotheses of the theorems are satisfiable, and on such a channel the
    rendering is the expected one *)
Example wf_example :
  let c := mkChan Z [mkSlot Z (KTarget Z) (-1) 0 [0];
                     mkSlot Z (KPulse Z (mkPulse Z [3; 4] [1; 1] 7 false 1 1)) 0 2 [0];
                     mkSlot Z (KDelay Z) 2 4 [0];
                     mkSlot Z (KPulse Z (mkPulse Z [5] [2] 9 false 1 1)) 4 5 [0]]
                    [] 1 false 0 false [] in
  wf_chan Z c = true
  /\ amp_of Z 0 Z.add c = [3; 4; 0; 0; 5]
  /\ det_of Z 0 Z.add c = [1; 1; 0; 0; 2]
  /\ phase_of Z 0 c = [7; 7; 7; 9; 9].
Proof. vm_compute. repeat split. Qed.
