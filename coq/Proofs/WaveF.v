(** C16 - facts about the IEEE-double instance [FN] (the one tied to the
    code), established by evaluation in the kernel: the places where the
    faithful model VIOLATES the property (witnesses replayed on /repo by the
    harness, see corpus/C16), and small worked examples. *)
From Coq Require Import ZArith List Bool.
From Coq Require Import PrimFloat.
From PV Require Import Model.Base Model.Wave.
Import ListNotations.
Open Scope Z_scope.

(** np.blackman(2) = [-2^-56, -2^-56]; np.blackman(3) = [-2^-56, 1 - 2^-53, -2^-56] *)
Definition E_bm : env float :=
  mk_env [(KBlackman, 2, zero, [(-0x1p-56)%float; (-0x1p-56)%float]);
          (KBlackman, 3, zero, [(-0x1p-56)%float; 0x1.fffffffffffffp-1%float; (-0x1p-56)%float])] [].

Definition nonfinite (l : list float) : bool := existsb (fun x => negb (f_finite x)) l.
Definition all_finite (l : list float) : bool := forallb f_finite l.

(** R1: RampWaveform(1, a, b) is accepted and its single sample is NaN
    (slope = (b - a) / 0), whether or not a = b. *)
Theorem ramp_d1_refuted :
  exists a b l,
    f_finite a = true /\ f_finite b = true /\
    validate FN E_bm (WRamp 1 a b) = Ok tt /\
    samples FN E_bm (WRamp 1 a b) = Ok l /\ length l = 1%nat /\ nonfinite l = true.
Proof.
  exists one, 0x1p+1%float.
  exists (match samples FN E_bm (WRamp 1 one 0x1p+1%float) with Ok l => l | Err _ => [] end).
  vm_compute. repeat split.
Qed.

Theorem ramp_d1_flat_refuted :
  exists a l,
    f_finite a = true /\
    samples FN E_bm (WRamp 1 a a) = Ok l /\ nonfinite l = true.
Proof.
  exists one. exists (match samples FN E_bm (WRamp 1 one one) with Ok l => l | Err _ => [] end).
  vm_compute. repeat split.
Qed.

(** R2: BlackmanWaveform(2, area): the clipped window is [0, 0], its sum is 0,
    the scaling factor is area/0*1e3 = inf and every sample 0*inf = NaN. *)
Theorem blackman_d2_refuted :
  exists area l,
    f_finite area = true /\
    validate FN E_bm (WWin KBlackman 2 area zero) = Ok tt /\
    samples FN E_bm (WWin KBlackman 2 area zero) = Ok l /\ length l = 2%nat /\
    nonfinite l = true.
Proof.
  exists one.
  exists (match samples FN E_bm (WWin KBlackman 2 one zero) with Ok l => l | Err _ => [] end).
  vm_compute. repeat split.
Qed.

(** ... while durations 1 and 3 of the same family are fine *)
Example blackman_d3_fine :
  exists l, samples FN E_bm (WWin KBlackman 3 one zero) = Ok l /\ all_finite l = true /\
            length l = 3%nat /\ nth 0 l one = zero /\ nth 2 l one = zero.
Proof.
  exists (match samples FN E_bm (WWin KBlackman 3 one zero) with Ok l => l | Err _ => [] end).
  vm_compute. repeat split.
Qed.

(** R3: a tiny negative phase is mapped by [x % (2*pi)] onto 2*pi itself
    (the rounded sum fmod(x, 2pi) + 2pi), which is outside [0, 2pi). *)
Definition f_m1em20 : float := (-0x1.79ca10c924223p-67)%float.

Theorem pulse_phase_2pi_refuted :
  exists phase p,
    f_finite phase = true /\
    pulse_new FN E_bm (WConst 4 one) (WConst 4 zero) phase zero = Ok p /\
    PrimFloat.ltb (p_phase p) f2pi = false /\ PrimFloat.eqb (p_phase p) f2pi = true.
Proof.
  exists f_m1em20.
  exists (mk_pulse (WConst 4 one) (WConst 4 zero) (f_mod2pi f_m1em20) zero).
  vm_compute. repeat split.
Qed.

(** R4: an accepted pulse can carry a NaN amplitude (NaN < 0 is false) *)
Theorem pulse_nan_amplitude_refuted :
  exists amp p sa,
    validate FN E_bm amp = Ok tt /\
    pulse_new FN E_bm amp (WConst 1 zero) zero zero = Ok p /\
    samples FN E_bm (p_amp p) = Ok sa /\
    existsb (fun x => negb (PrimFloat.leb zero x)) sa = true.
Proof.
  exists (WRamp 1 one 0x1p+1%float).
  exists (mk_pulse (WRamp 1 one 0x1p+1%float) (WConst 1 zero) zero zero).
  exists (match samples FN E_bm (WRamp 1 one 0x1p+1%float) with Ok l => l | Err _ => [] end).
  vm_compute. repeat split.
Qed.

(** Faithful-model behaviour worth recording (not a violation: no pulse is
    built): ArbitraryPhase on a one-sample phase waveform that is neither
    constant nor a ramp raises (np.pad(mode="edge") of an empty array). *)
Example arbitrary_phase_d1_raises :
  pulse_arbitrary_phase FN E_bm (WConst 1 one) (WCustom [one]) zero = Err EValue.
Proof. vm_compute. reflexivity. Qed.

(** worked examples: a ramp, its scaling, a slice, a pulse from a phase ramp *)
Example ramp_example :
  samples FN E_bm (WRamp 5 zero one) =
  Ok [zero; 0x1p-2%float; 0x1p-1%float; 0x1.8p-1%float; one].
Proof. vm_compute. reflexivity. Qed.

Example slice_example :
  get_slice FN E_bm (WRamp 5 zero one) (Some (-2)) None None = Ok [0x1.8p-1%float; one] /\
  get_index FN E_bm (WRamp 5 zero one) (-5) = Ok zero /\
  get_index FN E_bm (WRamp 5 zero one) 5 = Err EIndex.
Proof. vm_compute. repeat split. Qed.
