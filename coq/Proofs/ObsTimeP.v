(** C20 lemmas, part 4: evaluation-time matching, decided in the kernel on the
    bit-exact float model (finite sweeps, bounds in the statements). *)
From Coq Require Import ZArith List Bool Lia.
From Coq Require Import Uint63 FloatOps SpecFloat PrimFloat.
From PV Require Import Model.Base Model.ObsRes Model.ObsTime.
Import ListNotations.
Open Scope Z_scope.

Fixpoint zall (n : nat) (z : Z) (p : Z -> bool) : bool :=
  match n with O => true | S m => p z && zall m (z + 1) p end.

Lemma zall_spec : forall n z p, zall n z p = true ->
  forall x, z <= x < z + Z.of_nat n -> p x = true.
Proof.
  induction n; intros z p H x Hx.
  - simpl in Hx. lia.
  - simpl in H. apply andb_true_iff in H. destruct H as [H1 H2].
    destruct (Z.eq_dec x z) as [->|Hne]; [assumption|].
    apply (IHn (z + 1) p H2). lia.
Qed.

(** With the default evaluation times [(1.0,)] the final solver time
    [T/1000 us] comes back as a relative time in [0,1] within the tolerance of
    1.0 - so the final value is stored - for every duration. *)
Definition final_ok (T : Z) : bool :=
  in_times (rel_time T (f_of_dur T / f_1e3)%float) [f_one] (time_tol T).

Lemma final_sweep : zall (Z.to_nat 200000) 1 final_ok = true.
Proof. vm_compute. reflexivity. Qed.

Theorem final_time_is_stored : forall T : Z, 1 <= T <= 200000 -> final_ok T = true.
Proof.
  intros T HT. apply (zall_spec _ _ _ final_sweep). rewrite Z2Nat.id; lia.
Qed.

(** A requested relative time [k/T] survives the round trip through
    microseconds: unless [set_evaluation_times] rejects it, the solver time
    derived from it is matched (tolerance [0.5/T]) and lies in [0,1]. *)
Definition roundtrip_ok (T k : Z) : bool :=
  let r := (f_of_dur k / f_of_dur T)%float in
  let us := ((r * f_of_dur T) * f_1em3)%float in
  if f_gt us (f_of_dur T / f_1e3)%float then true
  else in_times (rel_time T us) [r] (time_tol T).

Lemma roundtrip_sweep :
  zall (Z.to_nat 1000) 1 (fun T => zall (Z.to_nat (T + 1)) 0 (roundtrip_ok T)) = true.
Proof. vm_compute. reflexivity. Qed.

Theorem requested_time_is_matched : forall T k : Z, 1 <= T <= 1000 -> 0 <= k <= T ->
  roundtrip_ok T k = true.
Proof.
  intros T k HT Hk.
  assert (H : zall (Z.to_nat (T + 1)) 0 (roundtrip_ok T) = true).
  { apply (zall_spec _ _ _ roundtrip_sweep). rewrite Z2Nat.id; lia. }
  apply (zall_spec _ _ _ H). rewrite Z2Nat.id; lia.
Qed.

(** but two different requested times closer than the tolerance are both
    matched by either of them: one request, two stored values *)
Theorem close_times_refuted : exists (T : Z) (a b : float),
  f_lt a b = true /\
  run_store (Some [f_one]) T [a; b; f_one] [(0, Some [a]); (1, Some [b])]
  = SL [SZ 0; SL [SL [SF a; SF b; SF f_one]; SL [SF a; SF b; SF f_one]]].
Proof.
  exists 100, 0x1p-1%float, 0x1.0189374bc6a7fp-1%float.
  split; vm_compute; reflexivity.
Qed.

(** ** "Full": the observables' own times are merged into the solver's times *)
Lemma insert_sorted_keeps : forall x l y, In y l -> In y (insert_sorted x l).
Proof.
  induction l as [|z l IH]; intros y Hy; simpl; [contradiction|].
  destruct (f_lt x z); [right; assumption|].
  destruct (f_eq x z); [assumption|].
  destruct Hy as [->|Hy]; [left; reflexivity|right; apply IH; assumption].
Qed.

Lemma insert_sorted_has : forall x l,
  exists y, In y (insert_sorted x l) /\ (y = x \/ f_eq x y = true).
Proof.
  induction l as [|z l IH]; simpl.
  - exists x. split; [left; reflexivity|left; reflexivity].
  - destruct (f_lt x z) eqn:E1.
    + exists x. split; [left; reflexivity|left; reflexivity].
    + destruct (f_eq x z) eqn:E2.
      * exists z. split; [left; reflexivity|right; assumption].
      * destruct IH as [y [Hy Hc]]. exists y. split; [right; assumption|assumption].
Qed.

Lemma union1d_covers : forall a b x, In x (a ++ b) ->
  exists y, In y (union1d a b) /\ (y = x \/ f_eq x y = true).
Proof.
  intros a b. unfold union1d. induction (a ++ b) as [|z l IH]; intros x Hx; [contradiction|].
  simpl. destruct Hx as [->|Hx].
  - apply insert_sorted_has.
  - destruct (IH x Hx) as [y [Hy Hc]]. exists y. split; [apply insert_sorted_keeps; assumption|assumption].
Qed.

(** every own evaluation time [e] of every observable reaches the solver: up to
    IEEE equality ([np.unique]) there is a grid-or-own relative time [r] equal
    to [e] whose microsecond value (again up to IEEE equality) is one of the
    solver's times *)
Theorem full_merges_own_times : forall rate extras T ts e,
  extras <> [] -> full_rel_times rate extras T = Some ts -> In e extras ->
  exists r u, (r = e \/ f_eq e r = true) /\
              (u = ((r * f_of_dur T) * f_1em3)%float \/ f_eq ((r * f_of_dur T) * f_1em3)%float u = true) /\
              In (rel_time T u) ts.
Proof.
  intros rate extras T ts e Hne H He. unfold full_rel_times in H.
  destruct extras as [|e0 ex]; [contradiction|].
  remember (e0 :: ex) as extras.
  set (grid := map (fun i => (f_of_dur i / f_of_dur T)%float)
                 (linspace_int (T - 1) (trunc0 (rate * f_of_dur T)%float))) in H.
  destruct (union1d_covers grid extras e) as [r [Hr Hre]].
  { apply in_or_app. right. assumption. }
  unfold set_eval_times in H.
  set (value := map (fun r0 => ((r0 * f_of_dur T) * f_1em3)%float) (union1d grid extras)) in H.
  destruct (f_gt (f_maxl value zero) (f_of_dur T / f_1e3)); [discriminate|].
  destruct (f_lt (f_minl value zero) zero); [discriminate|].
  inversion H; subst ts; clear H.
  destruct (union1d_covers value [zero; (f_of_dur T / f_1e3)%float] ((r * f_of_dur T) * f_1em3)%float)
    as [u [Hu Hue]].
  { apply in_or_app. left. unfold value. apply (in_map (fun r0 => ((r0 * f_of_dur T) * f_1em3)%float)). assumption. }
  exists r, u. split; [assumption|]. split; [assumption|].
  apply in_map. assumption.
Qed.
