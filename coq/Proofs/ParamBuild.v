(** C08 - Sequence.build equals issuing the stored calls directly with the
    evaluated arguments, for every concrete sequence builder [cstep]. *)
From Coq Require Import ZArith List Bool Lia.
From Coq Require Import PrimFloat.
From PV Require Import Model.Base Model.Param Proofs.ParamCache.
Import ListNotations.
Open Scope Z_scope.

Arguments t_building {S}. Arguments t_live {S}. Arguments t_calls {S}.
Arguments t_tobuild {S}. Arguments t_decl {S}.

Section Build.
  Variable ofun : Z -> float -> float.
  Variable opow : float -> float -> float.
  Variable S : Type.
  Variable cstep : S -> ccall -> res S.
  Variable pcheck : list pcall -> list pcall -> pcall -> res unit.
  Variable cset_reg : S -> list (Z * Z) -> res S.

  Local Notation pbuild := (pbuild ofun opow).
  Local Notation eval := (eval ofun opow).
  Local Notation run_tobuild := (run_tobuild ofun opow S cstep).
  Local Notation direct_run := (direct_run ofun opow S cstep).
  Local Notation build := (build ofun opow S cstep cset_reg).
  Local Notation build_spec := (build_spec ofun opow S cstep cset_reg).
  Local Notation replay := (replay S cstep).
  Local Notation tmpl := (tmpl S).
  Local Notation Valid := (Valid ofun opow).

  (** ** replaying the stored calls *)

  Lemma direct_run_shape : forall deep vs h h' calls s,
      shape h = shape h' -> direct_run deep vs h s calls = direct_run deep vs h' s calls.
  Proof.
    induction calls as [|c calls IH]; simpl; intros s H; auto.
    rewrite (eval_args_ext_all (eval vs h) (eval vs h')).
    2:{ intros; now apply eval_shape. }
    destruct (eval_args _ _ _); auto.
    destruct (cstep _ _); auto.
  Qed.

  Definition calls_in_heap (h : heap) (calls : list pcall) : Prop :=
    forall c, In c calls -> forall j, In (ARef j) (pc_args c) -> (j < length h)%nat.

  Lemma run_tobuild_sound : forall calls vs h s h' r,
      wf h -> Valid vs h -> calls_in_heap h calls ->
      run_tobuild vs h s calls = (h', r) ->
      r = direct_run false vs h s calls /\ shape h' = shape h /\ evolves vs h h'.
  Proof.
    induction calls as [|c calls IH]; simpl; intros vs h s h' r W V CI B.
    - inversion B; subst. repeat split; auto. apply evolves_refl.
    - destruct (build_args (pbuild (length h) vs) h (pc_args c)) as [h1 ra] eqn:B1.
      assert (Hr : forall j, In (ARef j) (pc_args c) -> (j < length h)%nat)
        by (intros; eapply CI; eauto; now left).
      destruct (call_args_sound ofun opow vs h (pc_args c) h1 ra W V Hr B1) as [R1 [S1 V1]].
      assert (E1 : evolves vs h h1).
      { eapply build_args_evolves; [|exact B1]. intros; eapply pbuild_evolves; eauto. }
      rewrite <- R1.
      destruct ra as [vals|e]; [|inversion B; subst; auto].
      destruct (cstep s (pc_name c, vals)) as [s'|e]; [|inversion B; subst; auto].
      assert (W1 : wf h1) by (eapply wf_shape; [symmetry; exact S1|exact W]).
      assert (CI1 : calls_in_heap h1 calls).
      { intros c' I j J. rewrite (shape_length h1 h S1). eapply CI; eauto. now right. }
      destruct (IH vs h1 s' h' r W1 (V1 vals eq_refl) CI1 B) as [R2 [S2 E2]].
      repeat split.
      + rewrite R2. apply direct_run_shape. exact S1.
      + congruence.
      + eapply evolves_trans; eauto.
  Qed.

  (** ** assignments only move the counts up *)

  Lemma zmem_In : forall x l, zmem x l = true <-> In x l.
  Proof.
    unfold zmem. intros. rewrite existsb_exists. split.
    - intros [y [I E]]. apply Z.eqb_eq in E. now subst.
    - intros I. exists x. split; auto. apply Z.eqb_refl.
  Qed.

  Lemma vlookup_vupdate : forall (f : var -> var) vs n m,
      (forall v, v_name (f v) = v_name v) ->
      vlookup (vupdate vs n f) m =
      if m =? n then option_map f (vlookup vs n) else vlookup vs m.
  Proof.
    intros f vs n m Hf. induction vs as [|v vs IH]; simpl.
    - now destruct (m =? n).
    - destruct (v_name v =? n) eqn:E; simpl.
      + rewrite Hf. apply Z.eqb_eq in E. destruct (m =? n) eqn:E2.
        * apply Z.eqb_eq in E2. subst. rewrite Z.eqb_refl. reflexivity.
        * rewrite E. replace (n =? m) with false; auto.
          symmetry. rewrite Z.eqb_sym. exact E2.
      + rewrite IH. destruct (m =? n) eqn:E2.
        * apply Z.eqb_eq in E2. subst. now rewrite E.
        * reflexivity.
  Qed.

  Lemma v_assign_counts : forall vs n l vs' r,
      v_assign vs n l = (vs', r) ->
      (forall m, vcount vs m <= vcount vs' m) /\
      (r = Ok tt -> vcount vs n < vcount vs' n).
  Proof.
    unfold v_assign. intros vs n l vs' r H.
    destruct (vlookup vs n) as [v|] eqn:L.
    2:{ inversion H; subst. split; [intros; lia|discriminate]. }
    destruct (mapM _ l) as [l'|e].
    2:{ inversion H; subst. split; [intros; lia|discriminate]. }
    destruct (negb _).
    { inversion H; subst. split; [intros; lia|discriminate]. }
    inversion H; subst. clear H.
    assert (Q : forall m, vcount
                (vupdate vs n (fun v0 => mkVar (v_name v0) (v_int v0) (v_size v0) (v_count v0 + 1) (Some l'))) m
              = if m =? n then v_count v + 1 else vcount vs m).
    { intros m. unfold vcount. rewrite vlookup_vupdate by reflexivity.
      destruct (m =? n); auto. rewrite L. reflexivity. }
    split.
    - intros m. rewrite Q. destruct (m =? n) eqn:E; [|lia].
      apply Z.eqb_eq in E. subst. unfold vcount. rewrite L. lia.
    - intros _. rewrite Q, Z.eqb_refl. unfold vcount. rewrite L. lia.
  Qed.

  Lemma assign_all_counts : forall env vs vs' r,
      assign_all vs env = (vs', r) ->
      (forall m, vcount vs m <= vcount vs' m) /\
      (r = Ok tt -> forall m, In m (map fst env) -> vcount vs m < vcount vs' m).
  Proof.
    induction env as [|[n l] env IH]; simpl; intros vs vs' r H.
    - inversion H; subst. split; [intros; lia|intros _ m []].
    - destruct (v_assign vs n l) as [vs1 r1] eqn:A.
      destruct (v_assign_counts _ _ _ _ _ A) as [M1 S1].
      destruct r1 as [[]|e].
      + destruct (IH _ _ _ H) as [M2 S2]. split.
        * intros m. specialize (M1 m). specialize (M2 m). lia.
        * intros R m [I|I].
          -- subst. specialize (S1 eq_refl). specialize (M2 m). lia.
          -- specialize (S2 R m I). specialize (M1 m). lia.
      + inversion H; subst. split; [auto|discriminate].
  Qed.

  Lemma Bounded_mono : forall vs vs' h,
      (forall m, vcount vs m <= vcount vs' m) -> Bounded vs h -> Bounded vs' h.
  Proof.
    intros vs vs' h M B i o E. destruct (B i o E) as [NE SO]. split; auto.
    destruct SO as [SO|[SO1 SO2]]; [now left|right]. split; auto.
    intros n c I. specialize (SO2 n c I). specialize (M n). lia.
  Qed.

  (** ** the invariant of a template's store *)

  Definition heap_declared (t : tmpl) (h : heap) : Prop :=
    forall i o n, nth_error h i = Some (HObj o) -> In n (po_vars o) -> In n (t_decl t).

  Record Inv (t : tmpl) (ps : pstate) : Prop := {
    inv_wf : wf (ps_heap ps);
    inv_bounded : Bounded (ps_vars ps) (ps_heap ps);
    inv_decl : heap_declared t (ps_heap ps);
    inv_calls : calls_in_heap (ps_heap ps) (t_tobuild t) }.

  Lemma heap_declared_evolves : forall t vs h h',
      evolves vs h h' -> heap_declared t h -> heap_declared t h'.
  Proof.
    intros t vs h h' Ev D i o' n E' I.
    destruct (Ev i o' E') as [o [E [P _]]]. eapply D; eauto. now rewrite <- P.
  Qed.

  Lemma env_known_covers : forall (t : tmpl) env n,
      cross_check S t env = true -> In n (t_decl t) -> In n (map fst (env_known S t env)).
  Proof.
    unfold cross_check, env_known, env_names. intros t env n C I.
    rewrite forallb_forall in C. specialize (C n I). apply zmem_In in C.
    apply in_map_iff in C as [[a b] [E J]]. simpl in E. subst.
    apply in_map_iff. exists (n, b). split; auto.
    apply filter_In. split; auto. simpl. now apply zmem_In.
  Qed.

  (** *** T4. [Sequence.build] computes exactly what the cache-free reference
      computes (value or exception), from any store state a template can be
      in - in particular after earlier builds that raised half way - and it
      leaves the store in a state from which this holds again. *)
  Theorem build_cache_transparent : forall t s0 mp ps q env ps' r,
      Inv t ps ->
      build t s0 mp ps q env = (ps', r) ->
      r = build_spec t s0 mp (ps_vars ps) (ps_heap ps) q env /\
      Inv t ps' /\ shape (ps_heap ps') = shape (ps_heap ps).
  Proof.
    intros t s0 mp ps q env ps' r I B.
    destruct I as [W Bd D CI].
    unfold Param.build in B. unfold Param.build_spec.
    destruct mp as [[declared ntraps]|], q as [qs|];
      try (inversion B; subst; split; [reflexivity|split; [constructor; assumption|reflexivity]]).
    - (* mappable with qubits *)
      destruct (negb (cross_check S t env)) eqn:CC;
        [inversion B; subst; split; [reflexivity|split; [constructor; assumption|reflexivity]]|].
      destruct (replay s0 (t_calls t)) as [s1|e];
        [|inversion B; subst; split; [reflexivity|split; [constructor; simpl; assumption|reflexivity]]].
      rewrite andb_false_r in *.
      destruct (assign_all (ps_vars ps) (env_known S t env)) as [vs1 ra] eqn:A.
      destruct (assign_all_counts _ _ _ _ A) as [M1 S1].
      assert (Bd1 : Bounded vs1 (ps_heap ps)) by (eapply Bounded_mono; eauto).
      destruct ra as [[]|e];
        [|inversion B; subst; split; [reflexivity|split; [constructor; simpl; assumption|reflexivity]]].
      assert (V1 : Valid vs1 (ps_heap ps)).
      { eapply reassigned_valid; [exact Bd|].
        intros i o n E In1. apply S1; auto.
        apply env_known_covers; [now apply negb_false_iff in CC|]. eapply D; eauto. }
      match type of B with
      | (let '(_, _) := match ?X with _ => _ end in _) = _ => destruct X as [s2|e] eqn:SR
      | match ?X with _ => _ end = _ => destruct X as [s2|e] eqn:SR
      end; [|inversion B; subst; split; [reflexivity|split; [constructor; simpl; assumption|reflexivity]]].
      destruct (Param.run_tobuild ofun opow S cstep vs1 (ps_heap ps) s2 (t_tobuild t)) as [h' r'] eqn:RT.
      inversion B; subst. clear B.
      destruct (run_tobuild_sound _ _ _ _ _ _ W V1 CI RT) as [R2 [S2 E2]].
      split; [exact R2|]. split; [|exact S2].
      constructor; simpl.
      + eapply wf_shape; [symmetry; exact S2|exact W].
      + eapply evolves_Bounded; eauto.
      + eapply heap_declared_evolves; eauto.
      + intros c Ic j J. rewrite (shape_length _ _ S2). eapply CI; eauto.
    - (* concrete register *)
      destruct (negb (cross_check S t env)) eqn:CC;
        [inversion B; subst; split; [reflexivity|split; [constructor; assumption|reflexivity]]|].
      destruct (replay s0 (t_calls t)) as [s1|e];
        [|inversion B; subst; split; [reflexivity|split; [constructor; simpl; assumption|reflexivity]]].
      rewrite andb_true_r in *.
      destruct (t_building t);
        [inversion B; subst; split; [reflexivity|split; [constructor; assumption|reflexivity]]|].
      destruct (assign_all (ps_vars ps) (env_known S t env)) as [vs1 ra] eqn:A.
      destruct (assign_all_counts _ _ _ _ A) as [M1 S1].
      assert (Bd1 : Bounded vs1 (ps_heap ps)) by (eapply Bounded_mono; eauto).
      destruct ra as [[]|e];
        [|inversion B; subst; split; [reflexivity|split; [constructor; simpl; assumption|reflexivity]]].
      assert (V1 : Valid vs1 (ps_heap ps)).
      { eapply reassigned_valid; [exact Bd|].
        intros i o n E In1. apply S1; auto.
        apply env_known_covers; [now apply negb_false_iff in CC|]. eapply D; eauto. }
      destruct (Param.run_tobuild ofun opow S cstep vs1 (ps_heap ps) s1 (t_tobuild t)) as [h' r'] eqn:RT.
      inversion B; subst. clear B.
      destruct (run_tobuild_sound _ _ _ _ _ _ W V1 CI RT) as [R2 [S2 E2]].
      split; [exact R2|]. split; [|exact S2].
      constructor; simpl.
      + eapply wf_shape; [symmetry; exact S2|exact W].
      + eapply evolves_Bounded; eauto.
      + eapply heap_declared_evolves; eauto.
      + intros c Ic j J. rewrite (shape_length _ _ S2). eapply CI; eauto.
  Qed.

  (** *** T5. The result of a build does not depend on what earlier builds
      left in the caches. *)
  Lemma build_spec_shape : forall t s0 mp vs h h' q env,
      shape h = shape h' -> build_spec t s0 mp vs h q env = build_spec t s0 mp vs h' q env.
  Proof.
    intros. unfold Param.build_spec.
    destruct mp as [[declared ntraps]|], q as [qs|]; auto;
      destruct (negb _); auto; destruct (Param.replay _ _ _ _); auto;
      destruct (_ && _); auto; destruct (assign_all _ _) as [vs1 [[]|e]]; auto.
    - destruct qs; [now apply direct_run_shape|].
      destruct (build_register _ _ _); auto. destruct (cset_reg _ _); auto.
      now apply direct_run_shape.
    - now apply direct_run_shape.
  Qed.

  Theorem build_ignores_caches : forall t s0 mp vs h1 h2 q env,
      Inv t (mkPs vs h1) -> Inv t (mkPs vs h2) -> shape h1 = shape h2 ->
      snd (build t s0 mp (mkPs vs h1) q env) = snd (build t s0 mp (mkPs vs h2) q env).
  Proof.
    intros t s0 mp vs h1 h2 q env I1 I2 Sh.
    destruct (build t s0 mp (mkPs vs h1) q env) as [p1 r1] eqn:B1.
    destruct (build t s0 mp (mkPs vs h2) q env) as [p2 r2] eqn:B2.
    destruct (build_cache_transparent _ _ _ _ _ _ _ _ I1 B1) as [R1 _].
    destruct (build_cache_transparent _ _ _ _ _ _ _ _ I2 B2) as [R2 _].
    simpl in *. rewrite R1, R2. now apply build_spec_shape.
  Qed.

  (** ** The logs are the issued calls, in order *)

  Definition plain (ic : icall) : Prop :=
    match ic with
    | IStore c l => l = c
    | IDeclare _ _ _ it => exists v, it = ALit v
    end.

  Definition is_declare (ic : icall) : bool :=
    match ic with IDeclare _ _ _ _ => true | _ => false end.
  Definition ic_param (ic : icall) : bool :=
    match ic with IStore c _ => has_param c | IDeclare _ _ _ _ => false end.

  (** no channel is declared after the first call that carries a variable *)
  Fixpoint no_late_declare (building : bool) (hist : list icall) : Prop :=
    match hist with
    | [] => True
    | ic :: r =>
        (building = false -> is_declare ic = false) /\
        no_late_declare (building && negb (ic_param ic)) r
    end.

  Local Notation trun := (trun S cstep pcheck).
  Local Notation tstep := (tstep S cstep pcheck).

  Lemma verify_building : forall (t : tmpl) h c t1 r,
      verify S t h c = (t1, r) ->
      t_calls t1 = t_calls t /\ t_tobuild t1 = t_tobuild t /\ t_live t1 = t_live t /\
      t_decl t1 = t_decl t /\
      t_building t1 = t_building t && negb (has_param c).
  Proof.
    unfold verify. intros t h c t1 r H.
    destruct (has_param c).
    - destruct (forallb _ _); inversion H; subst; simpl; repeat split; auto;
        now rewrite andb_false_r.
    - inversion H; subst. repeat split; auto. now rewrite andb_true_r.
  Qed.

  Definition all_lits (calls : list pcall) : Prop :=
    forall c, In c calls -> exists vals, lits (pc_args c) = Some vals.

  Lemma all_lits_snoc : forall calls c vals,
      all_lits calls -> lits (pc_args c) = Some vals -> all_lits (calls ++ [c]).
  Proof.
    intros calls c vals A L c' I. apply in_app_or in I as [I|[I|[]]]; auto.
    subst. eauto.
  Qed.

  Lemma logs_issue_order : forall hist (t t' : tmpl) h,
      (t_building t = true -> t_tobuild t = []) ->
      all_lits (t_calls t) ->
      Forall plain hist ->
      no_late_declare (t_building t) hist ->
      trun t h hist = (t', true) ->
      t_calls t' ++ t_tobuild t' = t_calls t ++ t_tobuild t ++ map issued hist /\
      (t_building t' = true -> t_tobuild t' = []) /\
      all_lits (t_calls t').
  Proof.
    induction hist as [|ic hist IH]; simpl; intros t t' h Hb AL Pl NL R.
    - inversion R; subst. rewrite app_nil_r. auto.
    - inversion Pl as [|? ? P1 P2]; subst. destruct NL as [NL1 NL2].
      destruct (tstep t h ic) as [t1 r1] eqn:T1.
      destruct r1 as [[]|e].
      2:{ destruct (trun t1 h hist). discriminate. }
      assert (Step : t_calls t1 ++ t_tobuild t1 = t_calls t ++ t_tobuild t ++ [issued ic] /\
                     (t_building t1 = true -> t_tobuild t1 = []) /\
                     t_building t1 = t_building t && negb (ic_param ic) /\
                     all_lits (t_calls t1)).
      { destruct ic as [c l|g nm cid it]; simpl in *.
        - subst l. unfold tstep_store in T1.
          destruct (verify S t h c) as [tv rv] eqn:Vf.
          destruct (verify_building _ _ _ _ _ Vf) as [Vc [Vt [Vl [Vd Vb]]]].
          destruct rv as [[]|e]; [|inversion T1].
          destruct (t_building tv) eqn:Bv.
          + symmetry in Vb. apply andb_true_iff in Vb as [Vb1 Vb2].
            destruct (lits (pc_args c)) as [vals|] eqn:L; [|inversion T1].
            destruct (cstep _ _); inversion T1; subst; simpl.
            rewrite Vc, Vt, (Hb Vb1). simpl. rewrite Bv. rewrite app_nil_r.
            split; [reflexivity|]. split; [intros _; reflexivity|].
            split; [rewrite Vb1, Vb2; reflexivity|].
            eapply all_lits_snoc; eauto.
          + destruct (pcheck _ _ c); inversion T1; subst; simpl.
            rewrite Vc, Vt, Bv. rewrite !app_assoc.
            split; [reflexivity|]. split; [discriminate|]. split; [rewrite <- Vb; reflexivity|auto].
        - destruct P1 as [v ->]. unfold tstep_declare in T1. simpl in T1.
          destruct (t_building t) eqn:Bt.
          + destruct (cstep _ _); inversion T1; subst; simpl.
            rewrite (Hb eq_refl). simpl. rewrite app_nil_r.
            split; [reflexivity|]. split; [intros _; reflexivity|].
            split; [try rewrite Bt; reflexivity|].
            eapply all_lits_snoc; eauto. reflexivity.
          + specialize (NL1 eq_refl). discriminate. }
      destruct Step as [St1 [St2 [St3 St4]]].
      rewrite <- St3 in NL2.
      destruct (IH t1 t' h St2 St4 P2 NL2 R) as [R1 R2].
      split; auto. rewrite R1.
      rewrite app_assoc, St1. rewrite <- !app_assoc. reflexivity.
  Qed.

  (** replaying literal calls = running them directly *)
  Definition flat_arg (a : parg) : Prop :=
    match a with AList l => parg_param a = false | _ => True end.
  Definition flat_call (c : pcall) : Prop := Forall flat_arg (pc_args c).

  Lemma eval_args_deep : forall rec args,
      Forall flat_arg args -> eval_args rec true args = eval_args rec false args.
  Proof.
    induction args as [|a args IH]; simpl; intros F; auto.
    inversion F as [|? ? F1 F2]; subst. rewrite (IH F2).
    destruct a as [v|id|l]; auto.
    simpl in F1. unfold parg_param in F1. simpl in F1.
    assert (Q : mapM (fun x => match x with LLit v => Ok v | LRef id => rec id end) l
                = Ok (map larg_raw l)).
    { clear -F1. induction l as [|x l IHl]; simpl in *; auto.
      destruct x as [v|id]; simpl in *; [|discriminate].
      rewrite IHl; auto. }
    now rewrite Q.
  Qed.

  Lemma direct_run_deep : forall vs h calls s,
      Forall flat_call calls -> direct_run true vs h s calls = direct_run false vs h s calls.
  Proof.
    induction calls as [|c calls IH]; simpl; intros s F; auto.
    inversion F as [|? ? F1 F2]; subst.
    rewrite (eval_args_deep _ _ F1).
    destruct (eval_args _ _ _); auto. destruct (cstep _ _); auto.
  Qed.

  Lemma eval_args_lits : forall rec deep args vals,
      lits args = Some vals -> eval_args rec deep args = Ok vals.
  Proof.
    induction args as [|a args IH]; simpl; intros vals L.
    - now inversion L.
    - destruct (lit_of a) as [v|] eqn:La; [|discriminate].
      destruct (lits args) as [vs|] eqn:Lr; [|discriminate].
      inversion L; subst. rewrite (IH vs eq_refl).
      destruct a as [v0|id|l]; simpl in La; try discriminate.
      + now inversion La.
      + destruct (parg_param (AList l)) eqn:PP; [discriminate|]. inversion La; subst.
        destruct deep; auto.
        assert (Q : mapM (fun x => match x with LLit v => Ok v | LRef id => rec id end) l
                    = Ok (map larg_raw l)).
        { unfold parg_param in PP. simpl in PP. clear -PP.
          induction l as [|x l IHl]; simpl in *; auto.
          destruct x as [v|id]; simpl in *; [|discriminate].
          rewrite IHl; auto. }
        now rewrite Q.
  Qed.

  Lemma direct_run_app : forall deep vs h a b s,
      direct_run deep vs h s (a ++ b) =
      match direct_run deep vs h s a with
      | Ok s1 => direct_run deep vs h s1 b
      | Err e => Err e
      end.
  Proof.
    induction a as [|c a IH]; simpl; intros b s; auto.
    destruct (eval_args _ _ _); auto. destruct (cstep _ _); auto.
  Qed.

  Lemma replay_direct : forall deep vs h calls s,
      all_lits calls -> replay s calls = direct_run deep vs h s calls.
  Proof.
    induction calls as [|c calls IH]; simpl; intros s A; auto.
    destruct (A c (or_introl eq_refl)) as [vals L]. rewrite L.
    rewrite (eval_args_lits _ _ _ _ L).
    destruct (cstep _ _); auto. apply IH. intros c' I. apply A. now right.
  Qed.

  (** *** T6. Building a parametrized sequence = issuing the same calls, in
      the order the user typed them, with every argument replaced by its
      value under the assignment.  Hypotheses: no call raised while the
      template was written, channels are declared before the first call that
      carries a variable, and no variable hides inside a literal list. *)
  Theorem build_eq_direct : forall hist h live decl (t : tmpl) s0 ps env vs1 ps' r,
      trun (mkTmpl S true live [] [] decl) h hist = (t, true) ->
      Forall plain hist ->
      no_late_declare true hist ->
      Forall flat_call (map issued hist) ->
      Inv t ps ->
      t_building t = false ->
      cross_check S t env = true ->
      assign_all (ps_vars ps) (env_known S t env) = (vs1, Ok tt) ->
      build t s0 None ps None env = (ps', r) ->
      r = direct_run true vs1 (ps_heap ps) s0 (map issued hist).
  Proof.
    intros hist h live decl t s0 ps env vs1 ps' r TR Pl NL Fl I Bf CC AA B.
    destruct (build_cache_transparent _ _ _ _ _ _ _ _ I B) as [R _].
    destruct (logs_issue_order hist (mkTmpl S true live [] [] decl) t h (fun _ => eq_refl)
                (fun c (F : In c []) => match F with end) Pl NL TR) as [L [_ AL]].
    simpl in L. rewrite <- L in *.
    rewrite R. unfold Param.build_spec. rewrite CC. simpl.
    rewrite Bf. simpl. rewrite AA.
    apply Forall_app in Fl as [Fc Ft].
    rewrite direct_run_app.
    rewrite (replay_direct true vs1 (ps_heap ps) (t_calls t) s0 AL).
    destruct (direct_run true vs1 (ps_heap ps) s0 (t_calls t)); auto.
    symmetry. now apply direct_run_deep.
  Qed.

End Build.
