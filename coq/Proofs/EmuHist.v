(** C11 - a configuration without state-preparation errors never sees a
    badly prepared atom, whatever happened to the emulator before. *)
From Coq Require Import ZArith List Bool Lia.
From Coq Require Import Uint63 FloatOps SpecFloat PrimFloat.
From PV Require Import Model.Base Model.Emu Model.EmuHist.
Import ListNotations.
Open Scope Z_scope.

(** the invariant: bad atoms exist only under a configuration that prepares them *)
Definition hinv (n : nat) (st : hstate) : Prop :=
  prep (s_cfg st) = false -> s_bad st = all_good n.

Lemma step_hinv : forall n st op, hinv n st -> hinv n (step n st op).
Proof.
  intros n st op H. destruct op as [c us | rus]; unfold hinv; cbn [step].
  - cbn [s_cfg s_bad]. intros Hc. rewrite Hc. reflexivity.
  - destruct (prep (s_cfg st)) eqn:P.
    + destruct (last_common _); cbn [s_cfg]; intros Q; congruence.
    + intros _. apply H. exact P.
Qed.

Lemma fold_hinv : forall n ops st, hinv n st -> hinv n (fold_left (step n) ops st).
Proof. intros n ops. induction ops; intros st H; simpl; [exact H | apply IHops, step_hinv, H]. Qed.

(** a reconfiguration to a config with eta = 0 (or without SPAM) resets the map,
    from ANY previous state *)
Theorem set_config_resets : forall n st c us, prep c = false ->
  s_bad (step n st (HSetConfig c us)) = all_good n.
Proof. intros n st c us H. cbn [step s_bad]. rewrite H. reflexivity. Qed.

(** ... and it stays reset through every later run and every history that
    ends in such a configuration: for every history starting with the
    constructor's [set_config], from any initial contents of the object *)
Theorem bad_atoms_follow_config : forall n st0 c0 us0 ops,
  let st := fold_left (step n) ops (step n st0 (HSetConfig c0 us0)) in
  prep (s_cfg st) = false -> s_bad st = all_good n.
Proof.
  intros n st0 c0 us0 ops. cbv zeta. apply fold_hinv.
  unfold hinv. cbn [step s_cfg s_bad]. intros H. rewrite H. reflexivity.
Qed.

(** the configuration loaded by the Monte-Carlo loop is NOT the drawn one
    (numpy 2 string-to-bool cast): a run whose every draw says "all atoms well
    prepared" leaves every atom marked badly prepared *)
Theorem loaded_config_refuted :
  exists n c rus,
    let st := step n {| s_cfg := c; s_bad := all_good n |} (HRun rus) in
    prep c = true
    /\ map (fun us => draw (h_eta c) us) rus = [all_good n; all_good n]
    /\ s_bad st = repeat true n.
Proof.
  exists 2%nat, {| h_spam := true; h_eta := 0x1p-2%float |},
         [[0x1p-1; 0x1p-1]; [0x1.8p-1; 0x1p-1]]%float.
  vm_compute. repeat split; reflexivity.
Qed.

(** the hypotheses are satisfiable and the model computes: prepare with
    eta = 1 (every atom bad), run, reconfigure with SPAM and eta = 0 *)
Example history_example :
  trace_hist 2 hist_init
    [HSetConfig {| h_spam := true; h_eta := one |} [0x1p-1; 0x1p-2]%float;
     HRun [[0x1p-1; 0x1p-2]; [0x1p-3; 0x1p-1]]%float;
     HSetConfig {| h_spam := true; h_eta := zero |} []]
  = [[true; true]; [true; true]; [false; false]].
Proof. vm_compute. reflexivity. Qed.
