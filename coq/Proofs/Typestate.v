(** C13: which operations the sequence model refuses in which mode, and the
    agreement of the model's measured-blocking with the decorators of the
    source (regenerated table). *)
From Coq Require Import ZArith List Bool String Lia.
From Coq Require Import Uint63 FloatOps SpecFloat PrimFloat.
From PV Require Import Model.Base Model.Sched Model.Seq Model.Api Gen.Api.
Import ListNotations.
Open Scope Z_scope.

(** * Tie to the source: every timeline-changing public method is blocked
      after measurement, no read-only one is *)
Definition all_methods : list string :=
  ["declare_channel"; "target"; "target_index"; "delay"; "add"; "align"; "phase_shift";
   "phase_shift_index"; "enable_eom_mode"; "modify_eom_setpoint"; "disable_eom_mode";
   "add_eom_pulse"; "measure"; "config_detuning_map"; "add_dmm_detuning";
   "set_magnetic_field"; "get_duration"; "estimate_added_delay"; "current_phase_ref";
   "is_in_eom_mode"; "available_channels"; "config_slm_mask"]%string.

Definition timeline_methods : list string :=
  ["declare_channel"; "target"; "target_index"; "delay"; "add"; "align";
   "enable_eom_mode"; "modify_eom_setpoint"; "disable_eom_mode"; "add_eom_pulse";
   "measure"; "config_detuning_map"; "add_dmm_detuning"; "config_slm_mask"]%string.

Lemma source_blocks_timeline_methods :
  forallb src_blocked timeline_methods = true.
Proof. vm_compute. reflexivity. Qed.

Lemma source_blocks_exactly :
  filter src_blocked all_methods = timeline_methods.
Proof. vm_compute. reflexivity. Qed.

Lemma model_blocks_as_source o : timeline_op o = src_blocked (op_method o).
Proof. destruct o; vm_compute; reflexivity. Qed.

Lemma source_screened :
  src_screened = ["get_duration"; "current_phase_ref"; "draw"]%string.
Proof. vm_compute. reflexivity. Qed.

(** * After measurement every timeline-changing call is refused, and leaves
      the sequence unchanged *)
Theorem measured_refuses v s o b :
  q_measured s = Some b -> timeline_op o = true ->
  step v s o = (s, Err ERuntime).
Proof.
  intros Hm Ht. unfold step.
  destruct o; try discriminate Ht; cbn [step_m];
    unfold declare_channel, target_, delay_, align, enable_eom_mode, modify_eom_setpoint,
           disable_eom_mode, add_eom_pulse, measure;
    unfold bind at 1; try (unfold bind at 1);
    unfold block_if_measured, bind, get; rewrite Hm; reflexivity.
Qed.

(** * EOM mode *)
Theorem eom_mode_refuses v s o n c :
  q_measured s = None ->
  find_chan n (q_sched s) = Some c -> in_eom c = true ->
  op_channel o = Some n ->
  match o with
  | OAdd _ _ _ | OTarget _ _ | OTargetIndex _ _ | OEnableEom _ _ _ _ _ _ => true
  | _ => false
  end = true ->
  step v s o = (s, Err ERuntime).
Proof.
  intros Hm Hc He Hn Hk. unfold step.
  destruct o; try discriminate Hk; cbn in Hn; inversion Hn; subst; cbn [step_m].
  - unfold target_, validate_channel, declared, guard, block_if_measured, bind, get, ret, fail.
    rewrite Hm, Hc, He. reflexivity.
  - unfold target_, validate_channel, declared, guard, block_if_measured, bind, get, ret, fail.
    rewrite Hm, Hc, He. reflexivity.
  - unfold validate_channel, declared, guard, block_if_measured, bind, get, ret, fail.
    rewrite Hm, Hc, He. reflexivity.
  - unfold enable_eom_mode, declared, guard, block_if_measured, bind, get, ret, fail.
    rewrite Hm, Hc, He. reflexivity.
Qed.

Theorem outside_eom_refuses v s o n c :
  q_measured s = None ->
  find_chan n (q_sched s) = Some c -> in_eom c = false ->
  op_channel o = Some n ->
  match o with
  | OAddEom _ _ _ _ _ _ | ODisableEom _ _ | OModifyEom _ _ _ _ _ _ => true
  | _ => false
  end = true ->
  step v s o = (s, Err ERuntime).
Proof.
  intros Hm Hc He Hn Hk. unfold step.
  destruct o; try discriminate Hk; cbn in Hn; inversion Hn; subst; cbn [step_m].
  - unfold modify_eom_setpoint, declared, guard, block_if_measured, bind, get, ret, fail.
    rewrite Hm, Hc, He. reflexivity.
  - unfold disable_eom_mode, declared, guard, block_if_measured, bind, get, ret, fail.
    rewrite Hm, Hc, He. reflexivity.
  - unfold add_eom_pulse, declared, guard, block_if_measured, bind, get, ret, fail.
    rewrite Hm, Hc, He. reflexivity.
Qed.

(** * A local channel needs a target before its first pulse *)
Lemma bind_ok {S A B} (m : M S A) (f : A -> M S B) s s1 a :
  m s = (s1, Ok a) -> bind m f s = f a s1.
Proof. unfold bind. intros ->. reflexivity. Qed.
Lemma bind_err {S A B} (m : M S A) (f : A -> M S B) s s1 er :
  m s = (s1, Err er) -> bind m f s = (s1, Err er).
Proof. unfold bind. intros ->. reflexivity. Qed.

Lemma bim_ok s : q_measured s = None -> block_if_measured s = (s, Ok tt).
Proof. unfold block_if_measured, bind, get. intros ->. reflexivity. Qed.
Lemma declared_ok n s c : find_chan n (q_sched s) = Some c -> declared n s = (s, Ok c).
Proof. unfold declared, bind, get. intros ->. reflexivity. Qed.
Lemma validate_channel_ok n b s c :
  find_chan n (q_sched s) = Some c -> (b && in_eom c) = false ->
  validate_channel n b s = (s, Ok c).
Proof.
  intros Hc Hb. unfold validate_channel. rewrite (bind_ok _ _ _ _ _ (declared_ok _ _ _ Hc)).
  rewrite Hb. reflexivity.
Qed.

Theorem local_needs_target v s u n proto c :
  q_measured s = None ->
  find_chan n (q_sched s) = Some c -> ch_slots c = [] -> c_dmm (ch_cfg c) = false ->
  in_eom c = false -> valid_proto proto = true ->
  step v s (OAdd u n proto) = (s, Err EValue).
Proof.
  intros Hm Hc Hs Hd He Hp. unfold step. cbn [step_m].
  rewrite (bind_ok _ _ _ _ _ (bim_ok _ Hm)).
  rewrite (bind_ok _ _ _ _ _ (validate_channel_ok n true s c Hc ltac:(rewrite He; reflexivity))).
  rewrite Hd. unfold guard at 1. rewrite (bind_ok _ _ s s tt eq_refl).
  apply bind_err. unfold add_. rewrite Hp. unfold guard at 1. cbn [negb].
  rewrite (bind_ok _ _ s s tt eq_refl).
  apply bind_err. unfold add_prepare.
  rewrite (bind_ok _ _ _ _ _ (declared_ok _ _ _ Hc)).
  apply bind_err. unfold onsched, last_slot, the_chan, bind, fail. rewrite Hc, Hs.
  destruct s; reflexivity.
Qed.

(** * Declaring a channel: what an accepted declaration implies *)
Theorem declare_accepted_implies v s name chid init s' :
  step v s (ODeclare name chid init) = (s', Ok unit_sv) ->
  q_measured s = None /\ name_is_dmm_like name = false /\
  find_chan name (q_sched s) = None /\
  exists cfg, assoc chid (d_chans (v_dev v)) = Some cfg /\ available v s chid cfg = true.
Proof.
  unfold step. cbn [step_m]. unfold declare_channel.
  unfold bind at 1. unfold bind at 1.
  unfold block_if_measured, bind, get.
  destruct (q_measured s) eqn:Hm; [cbn; discriminate|]. cbn [ret].
  unfold guard at 1. destruct (name_is_dmm_like name) eqn:Hn; [cbn; discriminate|]. cbn [ret].
  unfold guard at 1.
  destruct (find_chan name (q_sched s)) eqn:Hf; [cbn; discriminate|]. cbn [ret].
  destruct (assoc chid (d_chans (v_dev v))) as [cfg|] eqn:Ha; [|cbn; discriminate].
  unfold guard at 1. destruct (available v s chid cfg) eqn:Hav; cbn [negb]; [|cbn; discriminate].
  intros _. repeat split; auto. exists cfg. auto.
Qed.

(** what availability means: Microwave channels only in XY mode and nothing
    else there; an occupied id only on a device with reusable channels *)
Theorem available_spec v s id cfg :
  available v s id cfg = true ->
  (q_inxy s = false /\ q_inising s = false) \/
  ((occupied s id = false \/ d_reusable (v_dev v) = true) /\
   (q_inxy s = true -> c_basis cfg = 2 \/ c_dmm cfg = true) /\
   (q_inxy s = false -> c_basis cfg <> 2)).
Proof.
  unfold available. destruct (q_inxy s) eqn:Hx; destruct (q_inising s) eqn:Hi; cbn [negb andb];
    intros H; try (left; auto; fail); right.
  - apply andb_prop in H. destruct H as [H1 H2]. apply orb_prop in H1. apply orb_prop in H2.
    split; [destruct H1 as [H1|H1]; [left; destruct (occupied s id); auto; discriminate|right; auto]|].
    split; [intros _; destruct H2 as [H2|H2]; [left; apply Z.eqb_eq; auto|right; auto]|discriminate].
  - apply andb_prop in H. destruct H as [H1 H2]. apply orb_prop in H1. apply orb_prop in H2.
    split; [destruct H1 as [H1|H1]; [left; destruct (occupied s id); auto; discriminate|right; auto]|].
    split; [intros _; destruct H2 as [H2|H2]; [left; apply Z.eqb_eq; auto|right; auto]|discriminate].
  - apply andb_prop in H. destruct H as [H1 H2]. apply orb_prop in H1.
    split; [destruct H1 as [H1|H1]; [left; destruct (occupied s id); auto; discriminate|right; auto]|].
    split; [discriminate|]. intros _ E. rewrite E in H2. discriminate.
Qed.
