(** C18, strict clause, at the level of the scheduler: the LIMITS of a device
    (maximum durations, amplitude / detuning limits, bottom detunings, maximum
    number of targets, the device's maximum sequence duration) influence the
    scheduler only through acceptance.  Whenever an operation succeeds, the same
    operation on the device with every limit erased succeeds with the same result
    and the same timeline; hence two devices that agree on the timing parameters
    (clock, minimum duration, rise / phase-jump / retarget times, EOM
    configuration) produce identical timelines for every program both accept. *)
From Coq Require Import ZArith List Bool Lia.
From Coq Require Import PrimFloat.
From PV Require Import Model.Base Model.Sched.
Import ListNotations.
Open Scope Z_scope.

Definition erase_cfg (c : ccfg) : ccfg :=
  {| c_local := c_local c; c_basis := c_basis c; c_dmm := c_dmm c; c_clock := c_clock c;
     c_min := c_min c; c_max := None; c_rise := c_rise c; c_pj := c_pj c;
     c_minret := c_minret c; c_fixret := c_fixret c; c_maxtg := None;
     c_maxamp := None; c_maxdet := None; c_minavg := zero; c_bottom := None;
     c_totbottom := None; c_eom := c_eom c |}.

Definition erase_chan (c : chan) : chan :=
  {| ch_name := ch_name c; ch_id := ch_id c; ch_cfg := erase_cfg (ch_cfg c);
     ch_slots := ch_slots c; ch_eoms := ch_eoms c; ch_wait := ch_wait c; ch_map := ch_map c |}.

Definition erase (s : sched) : sched := map erase_chan s.
Definition erase_env (e : env) : env := {| en_max := None; en_oracle := en_oracle e |}.

Lemma find_erase n s : find_chan n (erase s) = option_map erase_chan (find_chan n s).
Proof.
  induction s as [|c r IH]; cbn [erase map find_chan option_map]; [reflexivity|].
  cbn [erase_chan ch_name]. destruct (ch_name c =? n); [reflexivity|exact IH].
Qed.

Lemma upd_erase n (f g : chan -> chan) s :
  (forall c, erase_chan (f c) = g (erase_chan c)) ->
  erase (upd_chan n f s) = upd_chan n g (erase s).
Proof.
  intros H. induction s as [|c r IH]; cbn [erase map upd_chan]; [reflexivity|].
  cbn [erase_chan ch_name]. destruct (ch_name c =? n); cbn [map].
  - rewrite H. reflexivity.
  - unfold erase in IH. rewrite IH. reflexivity.
Qed.

Lemma append_erase n sl s :
  erase (fst (append_slot n sl s)) = fst (append_slot n sl (erase s)).
Proof. unfold append_slot. cbn [fst]. apply upd_erase. intros c. reflexivity. Qed.

Lemma validate_erase c d d' :
  validate_duration c d = Ok d' -> validate_duration (erase_cfg c) d = Ok d'.
Proof.
  unfold validate_duration. cbn [erase_cfg c_min c_max c_clock].
  destruct (d <? c_min c); [discriminate|].
  destruct (c_max c) as [m|]; [destruct (d >? m); [discriminate|]|]; auto.
Qed.

Lemma adjust_erase c d d' :
  adjust_duration c d = Ok d' -> adjust_duration (erase_cfg c) d = Ok d'.
Proof. unfold adjust_duration. cbn [erase_cfg c_min]. apply validate_erase. Qed.

Lemma check_erase e t b : check_duration (erase_env e) t b = Ok tt.
Proof. reflexivity. Qed.

Lemma in_eom_erase c : in_eom (erase_chan c) = in_eom c.
Proof. reflexivity. Qed.
Lemma duration_erase c f : ch_duration (erase_chan c) f = ch_duration c f.
Proof. reflexivity. Qed.
Lemma last_phase_erase c : last_pulse_phase (erase_chan c) = last_pulse_phase c.
Proof. reflexivity. Qed.

Definition erases {A} (m : env -> SM A) : Prop :=
  forall e s s' a, m e s = (s', Ok a) -> m (erase_env e) (erase s) = (erase s', Ok a).

Ltac red_all := cbv beta iota zeta delta [bind ret fail lift last_slot the_chan option_map] in *.

Lemma add_delay_erases d n : erases (fun e => add_delay e d n).
Proof.
  intros e s s' a H. unfold add_delay in *. red_all. rewrite !find_erase.
  destruct (find_chan n s) as [c|] eqn:Hf; red_all; [|discriminate].
  cbn [erase_chan ch_slots ch_cfg ch_eoms] in *.
  destruct (ch_slots c) as [|l r] eqn:Hs; red_all; [discriminate|].
  repeat (progress (rewrite ?find_erase, ?Hf in *; red_all; cbn [erase_chan ch_slots ch_cfg ch_eoms] in * )).
  destruct (validate_duration (ch_cfg c) d) as [d'|er] eqn:Hv; red_all; [|discriminate].
  rewrite (validate_erase _ _ _ Hv). red_all.
  destruct (check_duration e (s_tf l + d') true) as [[]|er]; red_all; [|discriminate].
  repeat (progress (rewrite ?find_erase, ?Hf in *; red_all; cbn [erase_chan ch_slots ch_cfg ch_eoms] in * )).
  rewrite ?in_eom_erase, ?last_phase_erase in *.
  destruct (in_eom c && match ch_eoms c with [] => false | b :: _ => f_ne (eb_doff b) zero end);
    unfold append_slot in *; inversion H; subst; rewrite ?check_erase; f_equal;
    symmetry; apply upd_erase; intros c0; reflexivity.
Qed.

Ltac stepf Hf := repeat (progress (rewrite ?find_erase, ?Hf in *; red_all;
                                   cbn [erase_chan ch_slots ch_cfg ch_eoms erase_cfg c_rise c_pj c_minret c_fixret c_eom c_min c_clock] in * )).

Lemma wait_for_fall_erases n : erases (fun e => wait_for_fall e n).
Proof.
  intros e s s' a H. unfold wait_for_fall in *. red_all. rewrite !find_erase.
  destruct (find_chan n s) as [c|] eqn:Hf; red_all; [|discriminate].
  rewrite !duration_erase.
  destruct (ch_duration c true - ch_duration c false >? 0); red_all.
  - cbn [erase_chan ch_cfg] in *.
    destruct (adjust_duration (ch_cfg c) _) as [d'|er] eqn:Ha; red_all; [|discriminate].
    rewrite (adjust_erase _ _ _ Ha). red_all.
    exact (add_delay_erases d' n e s s' a H).
  - inversion H; subst. reflexivity.
Qed.

Lemma fad_erase n tg wfa : forall s cur,
  find_add_delay n tg wfa cur (erase s) = find_add_delay n tg wfa cur s.
Proof.
  induction s as [|c r IH]; intros cur; cbn [erase map find_add_delay]; [reflexivity|].
  cbn [erase_chan ch_name ch_cfg ch_slots erase_cfg c_rise]. rewrite in_eom_erase.
  destruct (ch_name c =? n); apply IH.
Qed.

Lemma mnps_erases p n barriers proto dp block :
  erases (fun e => make_next_pulse_slot e p n barriers proto dp block).
Proof.
  intros e s s' a H. unfold make_next_pulse_slot in *. red_all. unfold get in *. rewrite !find_erase.
  destruct (find_chan n s) as [c|] eqn:Hf; red_all; [|discriminate].
  cbn [erase_chan ch_slots] in *.
  destruct (ch_slots c) as [|l r] eqn:Hs; red_all; [discriminate|].
  stepf Hf. rewrite ?fad_erase, ?in_eom_erase in *. rewrite ?Hs in *.
  match goal with |- context [let (_, _) := ?X in _] => destruct X as [cur pjb] end.
  red_all.
  destruct (Z.max (cur - s_tf l) pjb >? 0); red_all.
  - destruct (adjust_duration (ch_cfg c) _) as [d'|er] eqn:Ha; red_all; [|discriminate].
    cbn [erase_chan ch_cfg]. rewrite (adjust_erase _ _ _ Ha). red_all.
    destruct (check_duration e _ block) as [[]|er]; red_all; [|discriminate].
    inversion H; subst. reflexivity.
  - destruct (check_duration e _ block) as [[]|er]; red_all; [|discriminate].
    inversion H; subst. reflexivity.
Qed.

Lemma erases_bind {A B} (m : env -> SM A) (f : env -> A -> SM B) :
  erases m -> (forall a, erases (fun e => f e a)) -> erases (fun e => bind (m e) (f e)).
Proof.
  intros Hm Hf e s s' b H. unfold bind in *.
  destruct (m e s) as [s1 [a1|er]] eqn:E; [|discriminate].
  rewrite (Hm e s s1 a1 E). exact (Hf a1 e s1 s' b H).
Qed.

Lemma last_slot_erases n : erases (fun _ => last_slot n).
Proof.
  intros e s s' a H. red_all. rewrite find_erase.
  destruct (find_chan n s) as [c|]; red_all; [|discriminate].
  cbn [erase_chan ch_slots]. destruct (ch_slots c); red_all; [discriminate|].
  inversion H; subst. reflexivity.
Qed.

Lemma append_erases n sl : erases (fun _ => append_slot n sl).
Proof.
  intros e s s' a H. unfold append_slot in *. inversion H; subst. f_equal.
  symmetry. apply upd_erase. intros c. reflexivity.
Qed.

Lemma ret_erases {A} (x : A) : erases (fun _ => ret x).
Proof. intros e s s' a H. inversion H; subst. reflexivity. Qed.

Ltac fin_upd H :=
  unfold append_slot in *; inversion H; subst; rewrite ?check_erase; f_equal;
  first [apply upd_erase | symmetry; apply upd_erase]; intros; reflexivity.

Lemma add_pulse_erases p n barriers proto dp :
  erases (fun e => add_pulse e p n barriers proto dp).
Proof.
  unfold add_pulse.
  apply (erases_bind (fun _ => last_slot n)); [apply last_slot_erases|]. intros last.
  apply (erases_bind (fun e => make_next_pulse_slot e p n barriers proto dp true)); [apply mnps_erases|].
  intros sl. cbv zeta.
  apply (erases_bind (fun e => if s_ti sl - s_tf last >? 0 then add_delay e (s_ti sl - s_tf last) n else ret tt)
                     (fun _ _ => append_slot n sl)).
  - destruct (s_ti sl - s_tf last >? 0); [apply add_delay_erases|apply ret_erases].
  - intros _. apply append_erases.
Qed.

Lemma add_target_erases qs n : erases (fun e => add_target e qs n).
Proof.
  intros e s s' a H. unfold add_target in *. red_all. rewrite !find_erase.
  destruct (find_chan n s) as [c|] eqn:Hf; red_all; [|discriminate].
  cbn [erase_chan ch_slots] in *.
  destruct (ch_slots c) as [|l0 r0] eqn:Hs; red_all.
  - destruct (check_duration e 0 true) as [[]|er]; red_all; [|discriminate].
    fin_upd H.
  - destruct (wait_for_fall e n s) as [s1 [[]|er]] eqn:Hw; red_all; [|discriminate].
    rewrite (wait_for_fall_erases n e s s1 tt Hw). red_all. rewrite !find_erase.
    destruct (find_chan n s1) as [c1|] eqn:Hf1; red_all; [|discriminate].
    cbn [erase_chan ch_slots] in *.
    destruct (ch_slots c1) as [|l1 r1] eqn:Hs1; red_all; [discriminate|].
    stepf Hf1.
    destruct (list_Z_eqb (s_tg l1) qs); red_all; [inversion H; subst; reflexivity|].
    rewrite ?Hs1 in *.
    match goal with |- context [if negb (?d =? 0) then _ else _] => destruct (negb (d =? 0)) end; red_all.
    + destruct (adjust_duration (ch_cfg c1) _) as [d'|er] eqn:Ha; red_all; [|discriminate].
      rewrite (adjust_erase _ _ _ Ha). red_all.
      destruct (check_duration e _ true) as [[]|er]; red_all; [|discriminate].
      fin_upd H.
    + destruct (check_duration e _ true) as [[]|er]; red_all; [|discriminate].
      fin_upd H.
Qed.

Lemma disable_eom_erases n skip : erases (fun e => disable_eom e n skip).
Proof.
  intros e s s' a H. unfold disable_eom in *. red_all. rewrite !find_erase.
  destruct (find_chan n s) as [c|] eqn:Hf; red_all; [|discriminate].
  cbn [erase_chan ch_slots] in *.
  destruct (ch_slots c) as [|l r] eqn:Hs; red_all; [discriminate|].
  set (s1 := upd_chan n (fun c0 => close_eom c0 (s_tf l)) s) in *.
  assert (E1 : upd_chan n (fun c0 => close_eom c0 (s_tf l)) (erase s) = erase s1).
  { symmetry. apply upd_erase. intros c0. unfold close_eom. cbn [erase_chan ch_eoms].
    destruct (ch_eoms c0); reflexivity. }
  rewrite E1. rewrite !find_erase.
  destruct (find_chan n s1) as [c1|] eqn:Hf1; red_all; [|discriminate].
  destruct skip; cbn [negb] in *; [inversion H; subst; reflexivity|].
  cbn [erase_chan ch_cfg erase_cfg c_eom] in *.
  destruct (c_eom (ch_cfg c1)) as [ec|]; [destruct (e_custom ec)|]; red_all.
  - destruct (adjust_duration (ch_cfg c1) _) as [d'|er] eqn:Ha; red_all; [|discriminate].
    unfold eom_buffer_time in *. cbn [erase_cfg c_eom] in *.
    rewrite (adjust_erase _ _ _ Ha). red_all.
    exact (add_delay_erases d' n e s1 s' a H).
  - exact (wait_for_fall_erases n e s1 s' a H).
  - exact (wait_for_fall_erases n e s1 s' a H).
Qed.

Lemma push_eom_erases n (a_on d_on d_off : float) (t : Z) (s : sched) :
  erase (upd_chan n (fun c => set_eoms c
      ({| eb_rabi := a_on; eb_don := d_on; eb_doff := d_off; eb_ti := t; eb_tf := None |} :: ch_eoms c)) s) =
  upd_chan n (fun c => set_eoms c
      ({| eb_rabi := a_on; eb_don := d_on; eb_doff := d_off; eb_ti := t; eb_tf := None |} :: ch_eoms c)) (erase s).
Proof. apply upd_erase. intros c. reflexivity. Qed.

Lemma mk_dd_erase e n ti d ph doff :
  mk_dd_pulse (erase_env e) n ti d ph doff = mk_dd_pulse e n ti d ph doff.
Proof. reflexivity. Qed.

Lemma enable_eom_erases n a_on d_on d_off skip_wait :
  erases (fun e => enable_eom e n a_on d_on d_off skip_wait).
Proof.
  intros e s s' a H. unfold enable_eom in *. red_all. rewrite !find_erase.
  destruct (find_chan n s) as [c|] eqn:Hf; red_all; [|discriminate].
  rewrite duration_erase.
  assert (Tail : forall s1 : sched,
    (let (s'0, r0) :=
       let (s'0, r0) := match find_chan n s1 with Some c0 => (s1, Ok c0) | None => (s1, Err EKey) end in
       match r0 with
       | Ok a0 => match ch_slots a0 with [] => fun s0 => (s0, Err EValue) | x :: _ => fun s0 => (s0, Ok x) end s'0
       | Err er => (s'0, Err er) end in
     match r0 with
     | Ok a0 => (upd_chan n (fun c0 => set_eoms c0
           ({| eb_rabi := a_on; eb_don := d_on; eb_doff := d_off; eb_ti := s_tf a0; eb_tf := None |} :: ch_eoms c0)) s'0, Ok tt)
     | Err er => (s'0, Err er) end) = (s', Ok a) ->
    (let (s'0, r0) :=
       let (s'0, r0) := match find_chan n (erase s1) with Some c0 => (erase s1, Ok c0) | None => (erase s1, Err EKey) end in
       match r0 with
       | Ok a0 => match ch_slots a0 with [] => fun s0 => (s0, Err EValue) | x :: _ => fun s0 => (s0, Ok x) end s'0
       | Err er => (s'0, Err er) end in
     match r0 with
     | Ok a0 => (upd_chan n (fun c0 => set_eoms c0
           ({| eb_rabi := a_on; eb_don := d_on; eb_doff := d_off; eb_ti := s_tf a0; eb_tf := None |} :: ch_eoms c0)) s'0, Ok tt)
     | Err er => (s'0, Err er) end) = (erase s', Ok a)).
  { intros s1 H1. rewrite find_erase.
    destruct (find_chan n s1) as [c1|]; red_all; [|discriminate].
    cbn [erase_chan ch_slots]. destruct (ch_slots c1) as [|x r]; red_all; [discriminate|].
    inversion H1; subst. rewrite push_eom_erases. reflexivity. }
  destruct (negb (ch_duration c false =? 0)); red_all; [|apply Tail; exact H].
  cbn [erase_chan ch_cfg] in *.
  (* the optional wait *)
  destruct skip_wait; cbn [negb] in *; red_all.
  - (* no wait *)
    destruct (adjust_duration (ch_cfg c) (eom_buffer_time (ch_cfg c))) as [buf|er] eqn:Ha; red_all; [|discriminate].
    unfold eom_buffer_time in *. cbn [erase_cfg c_eom] in *. rewrite (adjust_erase _ _ _ Ha). red_all.
    destruct (f_ne d_off zero); red_all.
    + stepf Hf.
      destruct (ch_slots c) as [|l r]; red_all; [discriminate|].
      stepf Hf. rewrite ?last_phase_erase.
      destruct (add_pulse e _ n [0] 1 None s) as [s2 [[]|er]] eqn:Hp; red_all; [|discriminate].
      unfold mk_buffer_pulse in *. rewrite ?mk_dd_erase.
      rewrite (add_pulse_erases _ n [0] 1 None e s s2 tt Hp). red_all.
      apply Tail. exact H.
    + destruct (add_delay e buf n s) as [s2 [[]|er]] eqn:Hd; red_all; [|discriminate].
      rewrite (add_delay_erases buf n e s s2 tt Hd). red_all.
      apply Tail. exact H.
  - destruct (wait_for_fall e n s) as [s1 [[]|er]] eqn:Hw; red_all; [|discriminate].
    rewrite (wait_for_fall_erases n e s s1 tt Hw). red_all.
    destruct (adjust_duration (ch_cfg c) (eom_buffer_time (ch_cfg c))) as [buf|er] eqn:Ha; red_all; [|discriminate].
    unfold eom_buffer_time in *. cbn [erase_cfg c_eom] in *. rewrite (adjust_erase _ _ _ Ha). red_all.
    destruct (f_ne d_off zero); red_all.
    + rewrite !find_erase in *.
      destruct (find_chan n s1) as [c1|] eqn:Hf1; red_all; [|discriminate].
      stepf Hf1.
      destruct (ch_slots c1) as [|l r]; red_all; [discriminate|].
      stepf Hf1. rewrite ?last_phase_erase.
      destruct (add_pulse e _ n [0] 1 None s1) as [s2 [[]|er]] eqn:Hp; red_all; [|discriminate].
      unfold mk_buffer_pulse in *. rewrite ?mk_dd_erase.
      rewrite (add_pulse_erases _ n [0] 1 None e s1 s2 tt Hp). red_all.
      apply Tail. exact H.
    + destruct (add_delay e buf n s1) as [s2 [[]|er]] eqn:Hd; red_all; [|discriminate].
      rewrite (add_delay_erases buf n e s1 s2 tt Hd). red_all.
      apply Tail. exact H.
Qed.

(** * Programs of scheduler operations *)
Inductive sop :=
| SDelay (d n : Z)
| SWait (n : Z)
| SPulse (p : pulse) (n : Z) (barriers : list Z) (proto : Z) (dp : option drift)
| STarget (qs : list Z) (n : Z)
| SEnable (n : Z) (amp_on det_on det_off : float) (skip_wait : bool)
| SDisable (n : Z) (skip_buffer : bool).

Definition srun1 (e : env) (o : sop) : SM unit :=
  match o with
  | SDelay d n => add_delay e d n
  | SWait n => wait_for_fall e n
  | SPulse p n b proto dp => add_pulse e p n b proto dp
  | STarget qs n => add_target e qs n
  | SEnable n a b c w => enable_eom e n a b c w
  | SDisable n k => disable_eom e n k
  end.

Fixpoint srun (e : env) (os : list sop) : SM unit :=
  match os with
  | [] => ret tt
  | o :: r => bind (srun1 e o) (fun _ => srun e r)
  end.

Lemma srun1_erases o : erases (fun e => srun1 e o).
Proof.
  destruct o; cbn [srun1].
  - apply add_delay_erases.
  - apply wait_for_fall_erases.
  - apply add_pulse_erases.
  - apply add_target_erases.
  - apply enable_eom_erases.
  - apply disable_eom_erases.
Qed.

Lemma srun_erases os : erases (fun e => srun e os).
Proof.
  induction os as [|o r IH]; cbn [srun]; [apply ret_erases|].
  apply (erases_bind (fun e => srun1 e o) (fun e _ => srun e r)); [apply srun1_erases|].
  intros _. exact IH.
Qed.

Lemma slots_erase s : map ch_slots (erase s) = map ch_slots s.
Proof. unfold erase. rewrite map_map. reflexivity. Qed.
Lemma eoms_erase s : map ch_eoms (erase s) = map ch_eoms s.
Proof. unfold erase. rewrite map_map. reflexivity. Qed.

(** Two devices whose channels agree on everything but the limits (and that
    report the same fall times for the pulses the scheduler builds itself): every
    program of scheduler operations that BOTH accept leaves identical timelines
    and EOM blocks. *)
Theorem timing_frame :
  forall (e1 e2 : env) (s1 s2 s1' s2' : sched) (os : list sop),
    en_oracle e1 = en_oracle e2 ->
    erase s1 = erase s2 ->
    srun e1 os s1 = (s1', Ok tt) ->
    srun e2 os s2 = (s2', Ok tt) ->
    map ch_slots s1' = map ch_slots s2' /\ map ch_eoms s1' = map ch_eoms s2'.
Proof.
  intros e1 e2 s1 s2 s1' s2' os Ho Hs H1 H2.
  apply srun_erases in H1. apply srun_erases in H2.
  assert (He : erase_env e1 = erase_env e2) by (unfold erase_env; rewrite Ho; reflexivity).
  rewrite He, Hs in H1. rewrite H1 in H2. inversion H2 as [E].
  rewrite <- (slots_erase s1'), <- (slots_erase s2'), <- (eoms_erase s1'), <- (eoms_erase s2'), E.
  split; reflexivity.
Qed.

(** The limits really are free: the erased device accepts whatever the device
    accepts (so the hypothesis "both accept" above is the only place where the
    limits matter). *)
Theorem limits_only_restrict :
  forall (e : env) (s s' : sched) (os : list sop),
    srun e os s = (s', Ok tt) -> srun (erase_env e) os (erase s) = (erase s', Ok tt).
Proof. intros e s s' os H. exact (srun_erases os e s s' tt H). Qed.

(** Non-vacuity: two devices differing in max_duration, max_amp and the device's
    maximum duration; a program both accept; the timelines coincide. *)
Definition tf_cfg (mx : option Z) (ma : option float) : ccfg :=
  {| c_local := false; c_basis := 0; c_dmm := false; c_clock := 4; c_min := 16; c_max := mx;
     c_rise := 0; c_pj := 0; c_minret := 0; c_fixret := 0; c_maxtg := None; c_maxamp := ma;
     c_maxdet := None; c_minavg := zero; c_bottom := None; c_totbottom := None; c_eom := None |}.
Definition tf_chan (c : ccfg) : chan :=
  {| ch_name := 0; ch_id := 0; ch_cfg := c;
     ch_slots := [{| s_kind := KTarget; s_ti := -1; s_tf := 0; s_tg := [0] |}];
     ch_eoms := []; ch_wait := false; ch_map := None |}.
Definition tf_e1 : env := {| en_max := Some 1000; en_oracle := [] |}.
Definition tf_e2 : env := {| en_max := None; en_oracle := [] |}.
Definition tf_prog : list sop := [SDelay 18 0; SDelay 100 0; STarget [0] 0].

Definition tf_s1 : sched := [tf_chan (tf_cfg (Some 400) (Some 2%float))].
Definition tf_s2 : sched := [tf_chan (tf_cfg None None)].

Example timing_frame_example :
  let s1 := tf_s1 in
  let s2 := tf_s2 in
  snd (srun tf_e1 tf_prog s1) = Ok tt /\ snd (srun tf_e2 tf_prog s2) = Ok tt /\
  map ch_slots (fst (srun tf_e1 tf_prog s1)) = map ch_slots (fst (srun tf_e2 tf_prog s2)) /\
  map (fun sl => (s_ti sl, s_tf sl)) (concat (map ch_slots (fst (srun tf_e1 tf_prog s1)))) = [(20, 120); (0, 20); (-1, 0)].
Proof. vm_compute. repeat split; reflexivity. Qed.
