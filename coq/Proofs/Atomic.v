(** C09: which computations of the model are atomic (a failure leaves the
    state untouched), which are read-only, and witnesses for the calls that
    are not atomic in the faithful model. *)
From Coq Require Import ZArith List Bool Lia ZifyBool.
From Coq Require Import Uint63 FloatOps SpecFloat PrimFloat.
From PV Require Import Model.Base Model.Sched Model.Seq Model.Api.
From PV Require Import Proofs.SchedInv Proofs.SeqInv Proofs.RetargetWitness.
Import ListNotations.
Open Scope Z_scope.

Ltac inv H := inversion H; subst; clear H.
Tactic Notation "mbind" hyp(H) ident(s1) ident(a) ident(H1) :=
  apply bind_inv in H;
  let er := fresh "er" in
  destruct H as [(s1 & a & H1 & H) | (er & H1 & ->)].

(** * Schedule level *)
Section Sched.
Variable e : env.

Lemma add_delay_atomic d n s s' er : add_delay e d n s = (s', Err er) -> s' = s.
Proof.
  intros H. unfold add_delay in H.
  apply bind_inv in H. destruct H as [(s1 & lst & H1 & H)|(x & H1 & _)];
    apply pure_last_slot in H1; subst; auto.
  apply bind_inv in H. destruct H as [(s2 & c & H2 & H)|(x & H2 & _)];
    apply pure_the_chan in H2; subst; auto.
  apply bind_inv in H. destruct H as [(s3 & d' & H3 & H)|(x & H3 & _)];
    apply pure_lift in H3; subst; auto.
  apply bind_inv in H. destruct H as [(s4 & u & H4 & H)|(x & H4 & _)];
    apply pure_lift in H4; subst; auto.
  destruct (in_eom c && _); unfold append_slot in H; discriminate.
Qed.

Lemma pure_mnps_e p n bs proto dp block : pure_m (make_next_pulse_slot e p n bs proto dp block).
Proof.
  unfold make_next_pulse_slot.
  apply pure_bind; [auto with msafe|]. intros last.
  apply pure_bind; [auto with msafe|]. intros c.
  apply pure_bind; [auto with msafe|]. intros s.
  match goal with |- pure_m (let '(cur, pjb) := ?X in _) => destruct X as [cur pjb] end.
  apply pure_bind.
  - destruct (_ >? 0); auto with msafe.
  - intros dd'. apply pure_bind; [auto with msafe|]. intros _. auto with msafe.
Qed.

Lemma add_pulse_atomic p n bs proto dp s s' er :
  add_pulse e p n bs proto dp s = (s', Err er) -> s' = s.
Proof.
  intros H. unfold add_pulse in H.
  apply bind_inv in H. destruct H as [(s1 & lst & H1 & H)|(x & H1 & _)];
    apply pure_last_slot in H1; subst; auto.
  apply bind_inv in H. destruct H as [(s2 & sl & H2 & H)|(x & H2 & _)];
    apply pure_mnps_e in H2; subst; auto.
  apply bind_inv in H. destruct H as [(s3 & u & H3 & H)|(x & H3 & _)].
  - unfold append_slot in H. discriminate.
  - destruct (_ >? 0).
    + eapply add_delay_atomic; eauto.
    + apply pure_ret in H3. auto.
Qed.

End Sched.

(** * Sequence level: read-only computations *)
Definition qpure {A} (m : QM A) : Prop := forall s s' r, m s = (s', r) -> s' = s.

Lemma qpure_bind {A B} (m : QM A) (f : A -> QM B) :
  qpure m -> (forall a, qpure (f a)) -> qpure (bind m f).
Proof.
  intros Hm Hf s s' r H. mbind H s1 a H1.
  - apply Hm in H1. subst. eapply Hf; eauto.
  - eapply Hm; eauto.
Qed.
Lemma qpure_ret {A} (a : A) : qpure (ret a : QM A).
Proof. intros s s' r H. apply ret_inv in H. tauto. Qed.
Lemma qpure_fail {A} er : qpure (fail er : QM A).
Proof. intros s s' r H. apply fail_inv in H. tauto. Qed.
Lemma qpure_lift {A} (x : res A) : qpure (lift x : QM A).
Proof. intros s s' r H. apply lift_inv in H. tauto. Qed.
Lemma qpure_get : qpure (get : QM seq).
Proof. intros s s' r H. apply get_inv in H. tauto. Qed.
Lemma qpure_guard b er : qpure (guard b er).
Proof. unfold guard. destruct b; [apply qpure_fail|apply qpure_ret]. Qed.
Lemma qpure_bim : qpure block_if_measured.
Proof.
  unfold block_if_measured. apply qpure_bind; [apply qpure_get|].
  intros s. destruct (q_measured s); [apply qpure_fail|apply qpure_ret].
Qed.
Lemma qpure_declared n : qpure (declared n).
Proof.
  unfold declared. apply qpure_bind; [apply qpure_get|]. intros s.
  destruct (find_chan n (q_sched s)); [apply qpure_ret|apply qpure_fail].
Qed.
Lemma qpure_validate_channel n b : qpure (validate_channel n b).
Proof.
  unfold validate_channel. apply qpure_bind; [apply qpure_declared|]. intros c.
  apply qpure_bind; [apply qpure_guard|]. intros _. apply qpure_ret.
Qed.
Lemma qpure_onsched {A} (m : SM A) : pure_m m -> qpure (onsched m).
Proof.
  intros Hm s s' r H. unfold onsched in H.
  destruct (m (q_sched s)) as [x r0] eqn:E. apply Hm in E. subst x. inv H.
  destruct s; reflexivity.
Qed.

Ltac qp :=
  repeat first
    [ apply qpure_ret | apply qpure_fail | apply qpure_lift | apply qpure_get
    | apply qpure_guard | apply qpure_bim | apply qpure_declared | apply qpure_validate_channel
    | apply qpure_onsched; auto with msafe
    | apply qpure_bind; [|intros]
    | match goal with |- qpure (match ?x with _ => _ end) => destruct x end ].

Lemma qpure_add_prepare v u n : qpure (add_prepare v u n).
Proof. unfold add_prepare. qp. Qed.

Lemma qpure_estimate v u n proto : qpure (estimate_added_delay v u n proto).
Proof.
  unfold estimate_added_delay. qp. apply pure_mnps_e.
Qed.

Definition is_query (o : op) : bool :=
  match o with
  | QDuration _ _ | QEstimate _ _ _ | QPhaseRef _ _ | QInEom _ | QAvailable => true
  | _ => false
  end.

(** read-only operations never change the sequence *)
Theorem queries_pure v s o : is_query o = true -> fst (step v s o) = s.
Proof.
  intros Hq. unfold step. destruct (step_m v o s) as [s' r] eqn:E. cbn [fst].
  destruct o; try discriminate Hq; cbn [step_m] in E; revert E;
    match goal with |- ?m s = _ -> _ => assert (P : qpure m) end;
    try (intros E; eapply P; eauto; fail).
  - qp; try apply pure_mnps_e.
  - qp; try apply pure_mnps_e.
  - qp; try apply pure_mnps_e.
  - qp; try apply pure_mnps_e.
  - qp; try apply pure_mnps_e.
Qed.

(** * Sequence level: calls that fail atomically *)
Lemma qpure_mapM_never {A} (f : A -> QM unit) l s s' er :
  (forall a s s' r, f a s = (s', r) -> r = Ok tt) ->
  mapM_ f l s = (s', Err er) -> False.
Proof.
  intros Hf. revert s. induction l as [|a l IH]; intros s H; cbn [mapM_] in H.
  - apply ret_inv in H. destruct H; discriminate.
  - apply bind_inv in H. destruct H as [(s1 & u & H1 & H)|(x & H1 & _)]; [eapply IH; eauto|].
    apply Hf in H1. discriminate.
Qed.

Lemma phase_shift_atomic v phi qs b s s' er :
  phase_shift_ v phi qs b s = (s', Err er) -> s' = s.
Proof.
  intros H. unfold phase_shift_ in H.
  apply bind_inv in H. destruct H as [(s1 & s0 & H1 & H)|(x & H1 & _)];
    apply qpure_get in H1; subst; auto.
  destruct (assoc b (q_refs s0)); [|apply qpure_fail in H; auto].
  apply bind_inv in H. destruct H as [(s2 & u & H2 & H)|(x & H2 & _)];
    apply qpure_guard in H2; subst; auto.
  exfalso. eapply qpure_mapM_never; [|exact H].
  intros a t t' r G. unfold upd_ref, modify in G. inv G. reflexivity.
Qed.

Theorem phase_shift_call_atomic v s phi qs b er s' :
  step v s (OPhaseShift phi qs b) = (s', Err er) -> s' = s.
Proof.
  unfold step. cbn [step_m]. intros H.
  apply bind_inv in H. destruct H as [(s1 & u & H1 & H)|(x & H1 & _)].
  - apply bind_inv in H. destruct H as [(s2 & u2 & H2 & H)|(y & H2 & _)].
    + apply ret_inv in H. destruct H; discriminate.
    + unfold log_call, modify in H2. discriminate.
  - eapply phase_shift_atomic; eauto.
Qed.

Theorem measure_call_atomic v s b er s' :
  step v s (OMeasure b) = (s', Err er) -> s' = s.
Proof.
  unfold step. cbn [step_m]. intros H.
  apply bind_inv in H. destruct H as [(s1 & u & H1 & H)|(x0 & H1 & _)];
    [apply ret_inv in H; destruct H; discriminate|].
  unfold measure in H1.
  apply bind_inv in H1. destruct H1 as [(t1 & u1 & G1 & H1)|(x & G1 & _)];
    apply qpure_bim in G1; subst; auto.
  apply bind_inv in H1. destruct H1 as [(t2 & s0 & G2 & H1)|(x & G2 & _)];
    apply qpure_get in G2; subst; auto.
  apply bind_inv in H1. destruct H1 as [(t3 & u3 & G3 & H1)|(x & G3 & _)];
    apply qpure_guard in G3; subst; auto.
  apply bind_inv in H1. destruct H1 as [(t4 & u4 & G4 & H1)|(x & G4 & _)].
  - unfold log_call, modify in H1. discriminate.
  - unfold modify in G4. discriminate.
Qed.

(** a plain delay (at_rest = False) fails atomically *)
Theorem plain_delay_call_atomic v s d n er s' :
  step v s (ODelay d n false) = (s', Err er) -> s' = s.
Proof.
  unfold step. cbn [step_m]. intros H.
  apply bind_inv in H. destruct H as [(s1 & u & H1 & H)|(x0 & H1 & _)].
  - apply bind_inv in H. destruct H as [(s2 & u2 & H2 & H)|(y & H2 & _)];
      [apply ret_inv in H; destruct H; discriminate|].
    unfold log_call, modify in H2. discriminate.
  - unfold delay_ in H1.
    apply bind_inv in H1. destruct H1 as [(t1 & u1 & G1 & H1)|(x & G1 & _)];
      apply qpure_bim in G1; subst; auto.
    apply bind_inv in H1. destruct H1 as [(t2 & c & G2 & H1)|(x & G2 & _)];
      apply qpure_validate_channel in G2; subst; auto.
    apply bind_inv in H1. destruct H1 as [(t3 & u3 & G3 & H1)|(x & G3 & _)];
      apply qpure_ret in G3; subst; auto.
    destruct (d =? 0); [apply qpure_ret in H1; auto|].
    unfold onsched in H1.
    destruct (add_delay (env_of v) d n (q_sched s)) as [x r0] eqn:E.
    inv H1. apply add_delay_atomic in E. subst x. destruct s; reflexivity.
Qed.

(** * Witnesses: calls that are NOT atomic in the faithful model *)

(** delay(1, ch, at_rest=True) after a pulse with pending fall time on a
    channel with min_duration 16: raises, the fall-time delay stays *)
Definition dcfg : ccfg :=
  {| c_local := true; c_basis := 1; c_dmm := false; c_clock := 1; c_min := 16;
     c_max := None; c_rise := 120; c_pj := 240; c_minret := 0; c_fixret := 0;
     c_maxtg := None; c_maxamp := None; c_maxdet := None; c_minavg := zero;
     c_bottom := None; c_totbottom := None; c_eom := None |}.
Definition denv : senv :=
  {| v_dev := {| d_chans := [(0, dcfg)]; d_dmms := []; d_maxseq := None;
                 d_reusable := false; d_slm := false |};
     v_qids := [0]; v_maps := []; v_oracle := [(0, 0, (100, 0))] |}.

Theorem failed_call_leaves_state_refuted_delay_at_rest :
  exists v pre o er,
    snd (step v (run v pre) o) = Err er /\
    nslots (fst (step v (run v pre) o)) <> nslots (run v pre).
Proof.
  exists denv, rpre, (ODelay 1 0 true), EValue. split; vm_compute; [reflexivity|discriminate].
Qed.

(** declare_channel with an initial target that is not in the register:
    raises, the channel stays declared *)
Theorem failed_call_leaves_state_refuted_declare :
  exists v pre o er,
    snd (step v (run v pre) o) = Err er /\
    nslots (fst (step v (run v pre) o)) <> nslots (run v pre).
Proof.
  exists denv, [], (ODeclare 0 0 (Some [7])), EValue. split; vm_compute; [reflexivity|discriminate].
Qed.
