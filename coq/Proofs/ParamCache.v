(** C08 - the ParamObj cache is transparent: [ParamObj.build] returns the pure
    meaning of the object under the current assignment whenever the cache
    invariant holds; the invariant survives successful builds and is
    re-established by assigning every variable (what Sequence.build does),
    whatever failed builds did before.  A failed build alone breaks it
    (refutation with witness). *)
From Coq Require Import ZArith List Bool Lia.
From Coq Require Import PrimFloat.
From PV Require Import Model.Base Model.Param.
Import ListNotations.
Open Scope Z_scope.

Section Cache.
  Variable ofun : Z -> float -> float.
  Variable opow : float -> float -> float.

  Local Notation pbuild := (pbuild ofun opow).
  Local Notation peval := (peval ofun opow).
  Local Notation eval := (eval ofun opow).
  Local Notation apply_cls := (apply_cls ofun opow).

  (** ** shapes: what a build never changes *)

  Definition shape_node (n : hnode) : hnode :=
    match n with
    | HObj o => HObj (mkPobj (po_cls o) (po_args o) (po_vars o) None [])
    | x => x
    end.
  Definition shape (h : heap) : heap := map shape_node h.

  Lemma shape_nth : forall h h' id,
      shape h = shape h' ->
      option_map shape_node (nth_error h id) = option_map shape_node (nth_error h' id).
  Proof.
    unfold shape. intros h h' id H.
    rewrite <- !nth_error_map. now rewrite H.
  Qed.

  Lemma shape_length : forall h h', shape h = shape h' -> length h = length h'.
  Proof.
    unfold shape. intros h h' H.
    rewrite <- (map_length shape_node h), H. apply map_length.
  Qed.

  Lemma set_node_length : forall h id n, length (set_node h id n) = length h.
  Proof. induction h; destruct id; simpl; intros; auto. Qed.

  Lemma set_node_nth_same : forall h id n x,
      nth_error h id = Some x -> nth_error (set_node h id n) id = Some n.
  Proof.
    induction h; destruct id; simpl; intros; try discriminate; eauto.
  Qed.

  Lemma set_node_nth_other : forall h id n j,
      j <> id -> nth_error (set_node h id n) j = nth_error h j.
  Proof.
    induction h; destruct id; destruct j; simpl; intros; auto; try congruence.
  Qed.

  Lemma set_node_shape : forall h id n x,
      nth_error h id = Some x -> shape_node n = shape_node x ->
      shape (set_node h id n) = shape h.
  Proof.
    induction h; destruct id; simpl; intros; try discriminate; auto.
    - inversion H; subst. now rewrite H0.
    - f_equal. eapply IHh; eauto.
  Qed.

  Lemma set_state_shape : forall h id st, shape (set_state h id st) = shape h.
  Proof.
    intros. unfold set_state.
    destruct (nth_error h id) as [[| |o]|] eqn:E; auto.
    eapply set_node_shape; eauto.
  Qed.

  Lemma set_inst_shape : forall h id v, shape (set_inst h id v) = shape h.
  Proof.
    intros. unfold set_inst.
    destruct (nth_error h id) as [[| |o]|] eqn:E; auto.
    eapply set_node_shape; eauto.
  Qed.

  Lemma set_state_other : forall h id st j, j <> id -> nth_error (set_state h id st) j = nth_error h j.
  Proof.
    intros. unfold set_state.
    destruct (nth_error h id) as [[| |o]|] eqn:E; auto.
    now apply set_node_nth_other.
  Qed.

  Lemma set_inst_other : forall h id v j, j <> id -> nth_error (set_inst h id v) j = nth_error h j.
  Proof.
    intros. unfold set_inst.
    destruct (nth_error h id) as [[| |o]|] eqn:E; auto.
    now apply set_node_nth_other.
  Qed.

  (** ** congruence of [eval_args] *)

  Lemma eval_args_ext : forall (r1 r2 : nat -> res value) args,
      (forall j, In (ARef j) args -> r1 j = r2 j) ->
      eval_args r1 false args = eval_args r2 false args.
  Proof.
    induction args as [|a args IH]; simpl; intros H; auto.
    rewrite IH by (intros; apply H; now right).
    destruct a; auto.
    rewrite (H id) by now left. reflexivity.
  Qed.

  Lemma mapM_ext : forall A B (f g : A -> res B) l,
      (forall x, In x l -> f x = g x) -> mapM f l = mapM g l.
  Proof.
    induction l; simpl; intros; auto.
    rewrite H by now left. rewrite IHl; auto.
  Qed.

  Lemma eval_args_ext_all : forall (r1 r2 : nat -> res value) deep args,
      (forall j, r1 j = r2 j) ->
      eval_args r1 deep args = eval_args r2 deep args.
  Proof.
    induction args as [|a args IH]; simpl; intros H; auto.
    rewrite IH by auto.
    destruct a; auto.
    - now rewrite H.
    - destruct deep; auto.
      erewrite mapM_ext; [reflexivity|].
      intros [v|id] _; auto.
  Qed.

  (** ** [peval] only reads the shape *)

  Lemma peval_shape : forall f vs h h' id,
      shape h = shape h' -> peval f vs h id = peval f vs h' id.
  Proof.
    induction f; simpl; intros vs h h' id H; auto.
    pose proof (shape_nth h h' id H) as N.
    destruct (nth_error h id) as [n|], (nth_error h' id) as [n'|]; simpl in N; try discriminate; auto.
    inversion N as [N1]. clear N.
    destruct n as [a|a k|o], n' as [a'|a' k'|o']; simpl in N1; try discriminate.
    - now inversion N1.
    - now inversion N1.
    - inversion N1 as [[Hc Ha Hv]]. rewrite Hc, Ha.
      rewrite (eval_args_ext_all (peval f vs h) (peval f vs h')); auto.
  Qed.

  Lemma eval_shape : forall vs h h' id, shape h = shape h' -> eval vs h id = eval vs h' id.
  Proof. intros. unfold eval. now apply peval_shape. Qed.

  (** ** well-formed heaps: arguments are older objects *)

  Definition wf (h : heap) : Prop :=
    forall id o, nth_error h id = Some (HObj o) ->
                 forall j, In (ARef j) (po_args o) -> (j < id)%nat.

  Lemma wf_shape : forall h h', shape h = shape h' -> wf h -> wf h'.
  Proof.
    unfold wf. intros h h' S W id o' N j I.
    pose proof (shape_nth h h' id S) as E. rewrite N in E.
    destruct (nth_error h id) as [[| |o]|] eqn:E0; simpl in E; try discriminate.
    inversion E. eapply W; eauto. now rewrite H1.
  Qed.

  (** fuel beyond [id] is irrelevant *)
  Lemma peval_fuel : forall vs h, wf h ->
      forall n id f, (id < n)%nat -> (id < f)%nat -> peval f vs h id = eval vs h id.
  Proof.
    intros vs h W. unfold eval.
    induction n; intros id f Hn Hf; [lia|].
    destruct f as [|f]; [lia|]. simpl.
    destruct (nth_error h id) as [[a|a k|o]|] eqn:E; auto.
    rewrite (eval_args_ext (Param.peval ofun opow f vs h) (Param.peval ofun opow id vs h)); auto.
    intros j I. pose proof (W id o E j I) as L.
    rewrite (IHn j f) by lia. rewrite (IHn j id) by lia. reflexivity.
  Qed.

  Lemma eval_obj : forall vs h id o, wf h -> nth_error h id = Some (HObj o) ->
      eval vs h id =
      match eval_args (eval vs h) false (po_args o) with
      | Err e => Err e
      | Ok vals => apply_cls (po_cls o) vals
      end.
  Proof.
    intros vs h id o W E. unfold eval at 1. simpl. rewrite E.
    rewrite (eval_args_ext (Param.peval ofun opow id vs h) (eval vs h)); auto.
    intros j I. apply (peval_fuel vs h W (S j)); auto. eapply W; eauto.
  Qed.

  (** ** the cache invariant *)

  Lemma state_eqb_eq : forall a b, state_eqb a b = true <-> a = b.
  Proof.
    induction a as [|[x c] a IH]; destruct b as [|[y d] b]; simpl; split; intros H;
      try discriminate; auto.
    - apply andb_true_iff in H as [H1 H2]. apply andb_true_iff in H1 as [H0 H1].
      apply Z.eqb_eq in H0, H1. apply IH in H2. congruence.
    - inversion H; subst. rewrite !Z.eqb_refl. simpl. now apply IH.
  Qed.

  (** node [i]: a cache entry recorded for the current counts is the meaning *)
  Definition ValidAt (vs : vstore) (h : heap) (i : nat) : Prop :=
    forall o, nth_error h i = Some (HObj o) ->
              po_state o = counts vs (po_vars o) ->
              exists v, po_inst o = Some v /\ eval vs h i = Ok v.

  Definition Valid (vs : vstore) (h : heap) : Prop := forall i, ValidAt vs h i.

  Lemma ValidAt_transfer : forall vs h h' i,
      shape h = shape h' -> nth_error h' i = nth_error h i -> ValidAt vs h i -> ValidAt vs h' i.
  Proof.
    unfold ValidAt. intros vs h h' i S N V o E St.
    rewrite N in E. destruct (V o E St) as [v [I Ev]].
    exists v; split; auto. now rewrite <- (eval_shape vs h h' i S).
  Qed.

  (** what one (possibly nested) build does, by induction on the fuel *)
  Definition build_ok (f : nat) : Prop :=
    forall vs h id h' r,
      wf h -> (id < f)%nat ->
      (forall i, (i <= id)%nat -> ValidAt vs h i) ->
      pbuild f vs h id = (h', r) ->
      shape h' = shape h /\
      (forall i, (id < i)%nat -> nth_error h' i = nth_error h i) /\
      r = eval vs h id /\
      (forall v, r = Ok v -> forall i, (i <= id)%nat -> ValidAt vs h' i).

  Lemma build_args_ok : forall f vs, build_ok f ->
      forall bound args h h' r,
        wf h ->
        (forall j, In (ARef j) args -> (j < bound)%nat /\ (j < f)%nat) ->
        (forall i, (i < bound)%nat -> ValidAt vs h i) ->
        build_args (pbuild f vs) h args = (h', r) ->
        shape h' = shape h /\
        (forall i, (bound <= i)%nat -> nth_error h' i = nth_error h i) /\
        r = eval_args (eval vs h) false args /\
        (forall vals, r = Ok vals -> forall i, (i < bound)%nat -> ValidAt vs h' i).
  Proof.
    intros f vs IHf bound.
    induction args as [|a args IH]; simpl; intros h h' r W Hr V B.
    - inversion B; subst. repeat split; auto.
    - assert (Hr' : forall j, In (ARef j) args -> (j < bound)%nat /\ (j < f)%nat)
        by (intros; apply Hr; now right).
      destruct a as [v|id|l].
      + (* literal *)
        destruct (build_args (pbuild f vs) h args) as [h2 rr] eqn:B2.
        destruct (IH h h2 rr W Hr' V B2) as [S2 [F2 [R2 V2]]].
        rewrite <- R2.
        destruct rr; inversion B; subst; repeat split; auto;
          try (intros vals E; discriminate); try (intros vals E i Hi; eapply V2; eauto).
      + (* a Parametrized object: built now *)
        destruct (Hr id (or_introl eq_refl)) as [Hb Hf].
        destruct (pbuild f vs h id) as [h1 ra] eqn:B1.
        assert (V0 : forall i, (i <= id)%nat -> ValidAt vs h i) by (intros; apply V; lia).
        destruct (IHf vs h id h1 ra W Hf V0 B1) as [S1 [F1 [R1 V1]]].
        rewrite <- R1.
        destruct ra as [v|e].
        * assert (W1 : wf h1) by (eapply wf_shape; [symmetry; exact S1|exact W]).
          assert (VV : forall i, (i < bound)%nat -> ValidAt vs h1 i).
          { intros i Hi. destruct (le_lt_dec i id).
            - eapply V1; eauto.
            - eapply ValidAt_transfer; [symmetry; exact S1| apply F1; lia | apply V; lia]. }
          destruct (build_args (pbuild f vs) h1 args) as [h2 rr] eqn:B2.
          destruct (IH h1 h2 rr W1 Hr' VV B2) as [S2 [F2 [R2 V2]]].
          rewrite (eval_args_ext_all (eval vs h) (eval vs h1)).
          2:{ intros; apply eval_shape; now symmetry. }
          rewrite <- R2.
          assert (S12 : shape h2 = shape h) by congruence.
          assert (F12 : forall i, (bound <= i)%nat -> nth_error h2 i = nth_error h i).
          { intros i Hi. rewrite F2 by lia. apply F1. lia. }
          destruct rr; inversion B; subst; repeat split; auto;
            try (intros vals E; discriminate); try (intros vals E i Hi; eapply V2; eauto).
        * inversion B; subst. repeat split; auto;
            try (intros vals E; discriminate); try (intros i Hi; apply F1; lia).
      + (* a literal list: handed over as is *)
        destruct (build_args (pbuild f vs) h args) as [h2 rr] eqn:B2.
        destruct (IH h h2 rr W Hr' V B2) as [S2 [F2 [R2 V2]]].
        rewrite <- R2.
        destruct rr; inversion B; subst; repeat split; auto;
          try (intros vals E; discriminate); try (intros vals E i Hi; eapply V2; eauto).
  Qed.

  Lemma pbuild_ok : forall f, build_ok f.
  Proof.
    induction f as [|f IHf]; unfold build_ok; intros vs h id h' r W Hf V B; [lia|].
    simpl in B.
    destruct (nth_error h id) as [[a|a k|o]|] eqn:E.
    - inversion B; subst. repeat split; auto.
      + unfold eval. simpl. now rewrite E.
    - inversion B; subst. repeat split; auto.
      + unfold eval. simpl. now rewrite E.
    - destruct (state_eqb (counts vs (po_vars o)) (po_state o)) eqn:Hit.
      + (* cache hit *)
        inversion B; subst. apply state_eqb_eq in Hit.
        destruct (V id (le_n _) o E (eq_sym Hit)) as [v [I Ev]].
        rewrite I. repeat split; auto.
      + (* cache miss: the state is recorded first *)
        set (st := counts vs (po_vars o)) in *.
        set (h1 := set_state h id st) in *.
        assert (S1 : shape h1 = shape h) by apply set_state_shape.
        assert (W1 : wf h1) by (eapply wf_shape; [symmetry; exact S1|exact W]).
        assert (V1 : forall i, (i < id)%nat -> ValidAt vs h1 i).
        { intros i Hi. eapply ValidAt_transfer; [symmetry; exact S1| |apply V; lia].
          apply set_state_other. lia. }
        assert (Hr : forall j, In (ARef j) (po_args o) -> (j < id)%nat /\ (j < f)%nat).
        { intros j I. pose proof (W id o E j I). lia. }
        destruct (build_args (pbuild f vs) h1 (po_args o)) as [h2 rargs] eqn:B2.
        destruct (build_args_ok f vs IHf id (po_args o) h1 h2 rargs W1 Hr V1 B2)
          as [S2 [F2 [R2 V2]]].
        assert (EV : eval vs h id =
                     match rargs with Err e => Err e | Ok vals => apply_cls (po_cls o) vals end).
        { rewrite (eval_obj vs h id o W E). rewrite R2.
          rewrite (eval_args_ext_all (eval vs h) (eval vs h1)); auto.
          intros; apply eval_shape; now symmetry. }
        assert (N1 : nth_error h1 id = Some (HObj (mkPobj (po_cls o) (po_args o) (po_vars o) (po_inst o) st))).
        { unfold h1, set_state. rewrite E. eapply set_node_nth_same; eauto. }
        assert (N2 : nth_error h2 id = Some (HObj (mkPobj (po_cls o) (po_args o) (po_vars o) (po_inst o) st))).
        { rewrite F2 by lia. exact N1. }
        destruct rargs as [vals|e].
        * destruct (apply_cls (po_cls o) vals) as [v|e] eqn:A.
          -- inversion B; subst h' r.
             assert (S3 : shape (set_inst h2 id v) = shape h)
               by (rewrite set_inst_shape; congruence).
             repeat split; auto.
             ++ intros i Hi. rewrite set_inst_other by lia. rewrite F2 by lia.
                unfold h1. apply set_state_other. lia.
             ++ intros v0 Ev0 i Hi. inversion Ev0; subst v0.
                destruct (Nat.eq_dec i id) as [->|Ne].
                ** intros o' E' St'.
                   unfold set_inst in E'. rewrite N2 in E'.
                   erewrite set_node_nth_same in E' by eauto.
                   inversion E'; subst o'. simpl.
                   exists v; split; auto.
                   rewrite (eval_shape vs _ h id S3). now rewrite EV.
                ** eapply ValidAt_transfer with (h := h2).
                   --- rewrite set_inst_shape. reflexivity.
                   --- apply set_inst_other. exact Ne.
                   --- eapply V2; eauto. lia.
          -- inversion B; subst. repeat split; auto; try congruence;
               try (intros v Ev; discriminate);
               try (intros i Hi; rewrite F2 by lia; unfold h1; apply set_state_other; lia).
        * inversion B; subst. repeat split; auto; try congruence;
               try (intros v Ev; discriminate);
               try (intros i Hi; rewrite F2 by lia; unfold h1; apply set_state_other; lia).
    - inversion B; subst. repeat split; auto.
      + unfold eval. simpl. now rewrite E.
  Qed.

  (** *** T1. A build under the cache invariant returns the meaning of the
      object (value or exception alike), never changes the structure of any
      object, and a successful build keeps the invariant. *)
  Theorem cache_sound : forall vs h id h' r,
      wf h -> Valid vs h -> (id < length h)%nat ->
      pbuild (length h) vs h id = (h', r) ->
      r = eval vs h id /\ shape h' = shape h /\ (forall v, r = Ok v -> Valid vs h').
  Proof.
    intros vs h id h' r W V L B.
    destruct (pbuild_ok (length h) vs h id h' r W L (fun i _ => V i) B) as [S1 [F1 [R1 V1]]].
    repeat split; auto.
    intros v Ev i. destruct (le_lt_dec i id).
    - eapply V1; eauto.
    - eapply ValidAt_transfer; [symmetry; exact S1|apply F1; lia|apply V].
  Qed.

  (** the same for the arguments of a stored call *)
  Theorem call_args_sound : forall vs h args h' r,
      wf h -> Valid vs h ->
      (forall j, In (ARef j) args -> (j < length h)%nat) ->
      build_args (pbuild (length h) vs) h args = (h', r) ->
      r = eval_args (eval vs h) false args /\ shape h' = shape h /\
      (forall vals, r = Ok vals -> Valid vs h').
  Proof.
    intros vs h args h' r W V Hr B.
    destruct (build_args_ok (length h) vs (pbuild_ok _) (length h) args h h' r W
                (fun j I => conj (Hr j I) (Hr j I)) (fun i _ => V i) B) as [S1 [F1 [R1 V1]]].
    repeat split; auto.
    intros vals E i. destruct (le_lt_dec (length h) i).
    - eapply ValidAt_transfer; [symmetry; exact S1|apply F1; lia|apply V].
    - eapply V1; eauto.
  Qed.

  (** ** what survives failed builds: recorded counts never exceed the
      current ones *)

  Definition vcount (vs : vstore) (n : Z) : Z :=
    match vlookup vs n with Some v => v_count v | None => -1 end.

  Definition state_ok (vs : vstore) (o : pobj) : Prop :=
    po_state o = [] \/
    (map fst (po_state o) = po_vars o /\
     forall n c, In (n, c) (po_state o) -> c <= vcount vs n).

  Definition Bounded (vs : vstore) (h : heap) : Prop :=
    forall i o, nth_error h i = Some (HObj o) -> po_vars o <> [] /\ state_ok vs o.

  Lemma counts_state_ok : forall vs o st,
      st = counts vs (po_vars o) ->
      map fst st = po_vars o /\ forall n c, In (n, c) st -> c <= vcount vs n.
  Proof.
    intros vs o st ->. unfold counts. split.
    - rewrite map_map. simpl. apply map_id.
    - intros n c I. apply in_map_iff in I as [x [E _]]. inversion E; subst.
      unfold vcount. lia.
  Qed.

  (** every node of the result is the old node with possibly a new cache
      entry recorded for the current counts *)
  Definition evolves (vs : vstore) (h h' : heap) : Prop :=
    forall i o', nth_error h' i = Some (HObj o') ->
      exists o, nth_error h i = Some (HObj o) /\ po_vars o' = po_vars o /\
                (po_state o' = po_state o \/ po_state o' = counts vs (po_vars o)).

  Lemma evolves_refl : forall vs h, evolves vs h h.
  Proof. intros vs h i o E. exists o; auto. Qed.

  Lemma evolves_trans : forall vs h1 h2 h3, evolves vs h1 h2 -> evolves vs h2 h3 -> evolves vs h1 h3.
  Proof.
    intros vs h1 h2 h3 A B i o3 E3.
    destruct (B i o3 E3) as [o2 [E2 [P2 S2]]].
    destruct (A i o2 E2) as [o1 [E1 [P1 S1]]].
    exists o1; split; auto. split; [congruence|].
    destruct S2 as [S2|S2]; [destruct S1 as [S1|S1]|].
    - left; congruence.
    - right; congruence.
    - right. rewrite S2. now rewrite P1.
  Qed.

  Lemma evolves_set_state : forall vs h id o,
      nth_error h id = Some (HObj o) -> evolves vs h (set_state h id (counts vs (po_vars o))).
  Proof.
    intros vs h id o E i o' E'.
    destruct (Nat.eq_dec i id) as [->|Ne].
    - unfold set_state in E'. rewrite E in E'. erewrite set_node_nth_same in E' by eauto.
      inversion E'; subst. exists o; simpl; auto.
    - rewrite set_state_other in E' by auto. exists o'; auto.
  Qed.

  Lemma evolves_set_inst : forall vs h id v, evolves vs h (set_inst h id v).
  Proof.
    intros vs h id v i o' E'.
    destruct (Nat.eq_dec i id) as [->|Ne].
    - unfold set_inst in E'.
      destruct (nth_error h id) as [[| |o]|] eqn:E; try discriminate;
        try (rewrite E in E'; discriminate).
      erewrite set_node_nth_same in E' by eauto.
      inversion E'; subst. exists o; simpl; auto.
    - rewrite set_inst_other in E' by auto. exists o'; auto.
  Qed.

  Lemma build_args_evolves : forall vs (rec : heap -> nat -> heap * res value),
      (forall h id h' r, rec h id = (h', r) -> evolves vs h h') ->
      forall args h h' r, build_args rec h args = (h', r) -> evolves vs h h'.
  Proof.
    intros vs rec Hrec. induction args as [|a args IH]; simpl; intros h h' r B.
    - inversion B; subst. apply evolves_refl.
    - destruct a as [v|id|l].
      + destruct (build_args rec h args) as [h2 rr] eqn:B2.
        destruct rr; inversion B; subst; eapply IH; eauto.
      + destruct (rec h id) as [h1 ra] eqn:B1.
        destruct ra.
        * destruct (build_args rec h1 args) as [h2 rr] eqn:B2.
          eapply evolves_trans; [eapply Hrec; eauto|].
          destruct rr; inversion B; subst; eapply IH; eauto.
        * inversion B; subst. eapply Hrec; eauto.
      + destruct (build_args rec h args) as [h2 rr] eqn:B2.
        destruct rr; inversion B; subst; eapply IH; eauto.
  Qed.

  Lemma pbuild_evolves : forall f vs h id h' r, pbuild f vs h id = (h', r) -> evolves vs h h'.
  Proof.
    induction f; simpl; intros vs h id h' r B.
    - inversion B; subst; apply evolves_refl.
    - destruct (nth_error h id) as [[a|a k|o]|] eqn:E; try (inversion B; subst; apply evolves_refl).
      destruct (state_eqb _ _); [inversion B; subst; apply evolves_refl|].
      destruct (build_args _ _ _) as [h2 rargs] eqn:B2.
      assert (E2 : evolves vs h h2).
      { eapply evolves_trans; [eapply evolves_set_state; eauto|].
        eapply build_args_evolves; [|exact B2]. intros; eapply IHf; eauto. }
      destruct rargs as [vals|e]; [|inversion B; subst; auto].
      destruct (apply_cls _ _); inversion B; subst; auto.
      eapply evolves_trans; [exact E2|apply evolves_set_inst].
  Qed.

  Lemma evolves_Bounded : forall vs h h', evolves vs h h' -> Bounded vs h -> Bounded vs h'.
  Proof.
    intros vs h h' Ev B i o' E'.
    destruct (Ev i o' E') as [o [E [P S]]].
    destruct (B i o E) as [NE SO]. split; [congruence|].
    destruct S as [S|S].
    - destruct SO as [SO|[SO1 SO2]]; [left; congruence|right].
      rewrite S, P. auto.
    - right. apply (counts_state_ok vs o'). rewrite P. exact S.
  Qed.

  (** *** T2. Whatever a build does (succeed or raise), the recorded counts
      stay bounded by the current counts. *)
  Theorem build_keeps_bounded : forall f vs h id h' r,
      Bounded vs h -> pbuild f vs h id = (h', r) -> Bounded vs h'.
  Proof. intros. eapply evolves_Bounded; eauto. eapply pbuild_evolves; eauto. Qed.

  (** *** T3. Assigning every variable an object depends on makes every cache
      entry stale, hence the invariant holds again - even after failed builds. *)
  Theorem reassigned_valid : forall vs vs' h,
      Bounded vs h ->
      (forall i o n, nth_error h i = Some (HObj o) -> In n (po_vars o) -> vcount vs n < vcount vs' n) ->
      Valid vs' h.
  Proof.
    intros vs vs' h B Inc i o E St. exfalso.
    destruct (B i o E) as [NE SO].
    destruct (po_vars o) as [|n ns] eqn:PV; [congruence|].
    destruct SO as [SO|[SO1 SO2]].
    - rewrite SO in St. simpl in St. discriminate.
    - rewrite St in SO2. simpl in SO2.
      specialize (SO2 n (vcount vs' n)).
      assert (L : vcount vs' n <= vcount vs n).
      { apply SO2. left. unfold vcount. reflexivity. }
      specialize (Inc i o n E). rewrite PV in Inc. specialize (Inc (or_introl eq_refl)). lia.
  Qed.

End Cache.

(** *** R. The invariant is really needed (paramobj.py records [_vars_state]
    before the arguments are built and the class is called).  Witness:
    w = ConstantWaveform(x, 1.0);  x := 5, w.build() is the 5 ns waveform;
    x := 0, w.build() raises (a waveform needs a positive duration) but the
    new counts are already recorded;  w.build() again, same assignment:
    returns the 5 ns waveform although the meaning of w under x = 0 is that
    exception.  [Bounded] still holds, [Valid] does not. *)
Definition w_ofun (_ : Z) (x : float) := x.
Definition w_opow (x _ : float) := x.
Definition w_heap0 : heap :=
  [HVar 7; HItem 7 (KI 0);
   HObj (new_obj [HVar 7; HItem 7 (KI 0)] CLS_CONST [ARef 1%nat; ALit (VN (NF 1%float))])].
Definition w_vs0 : vstore := [mkVar 7 true 1 0 None].
Definition w_vs1 := fst (v_assign w_vs0 7 [NI 5]).
Definition w_h1 := fst (pbuild w_ofun w_opow 3 w_vs1 w_heap0 2%nat).
Definition w_vs2 := fst (v_assign w_vs1 7 [NI 0]).
Definition w_h2 := fst (pbuild w_ofun w_opow 3 w_vs2 w_h1 2%nat).

Lemma cache_stale_after_failed_build_refuted :
  snd (pbuild w_ofun w_opow 3 w_vs1 w_heap0 2%nat) = Ok (VO CLS_CONST [VN (NI 5); VN (NF 1%float)]) /\
  snd (pbuild w_ofun w_opow 3 w_vs2 w_h1 2%nat) = Err EValue /\
  wf w_h2 /\ Bounded w_vs2 w_h2 /\
  snd (pbuild w_ofun w_opow (length w_h2) w_vs2 w_h2 2%nat)
    = Ok (VO CLS_CONST [VN (NI 5); VN (NF 1%float)]) /\
  eval w_ofun w_opow w_vs2 w_h2 2%nat = Err EValue.
Proof.
  split; [vm_compute; reflexivity|].
  split; [vm_compute; reflexivity|].
  split.
  { intros id o E j I.
    destruct id as [|[|[|id]]]; vm_compute in E; try discriminate.
    - inversion E; subst. simpl in I. destruct I as [I|[I|[]]]; inversion I. lia.
    - destruct id; discriminate. }
  split.
  { intros i o E.
    destruct i as [|[|[|i]]]; vm_compute in E; try discriminate.
    - inversion E; subst. split; [vm_compute; discriminate|].
      right. split; [reflexivity|].
      intros n c [I|[]]. inversion I; subst. vm_compute. discriminate.
    - destruct i; discriminate. }
  split; vm_compute; reflexivity.
Qed.
