(** The limit checks of the hand-written model ([validate_pulse],
    [validate_pulse_dmm]) are equal to the functions REGENERATED from the
    current source of Channel.validate_pulse / DMM.validate_pulse
    (Gen/PureLimits.v), for every channel configuration and pulse summary. *)
From Coq Require Import ZArith Bool.
From Coq Require Import PrimFloat.
From PV Require Import Model.Base Model.Sched Model.Seq Gen.PureLimits.
Open Scope Z_scope.

Lemma validate_pulse_eq (c : ccfg) (u : upulse) :
  gen_validate_pulse (c_maxamp c) (c_maxdet c) (c_minavg c) (u_amax u) (u_avg u) (u_dabsmax u)
  = validate_pulse c u.
Proof.
  unfold gen_validate_pulse, validate_pulse. cbn [negb].
  destruct (c_maxamp c) as [m|]; [destruct (f_gt (u_amax u) m); [reflexivity|]|];
    (destruct (c_maxdet c) as [d|]; [destruct (f_gt (f_round6 (u_dabsmax u)) d); [reflexivity|]|]);
    destruct (f_lt zero (u_avg u) && f_lt (u_avg u) (c_minavg c)); reflexivity.
Qed.

Lemma validate_pulse_dmm_eq (c : ccfg) (w : float * float) (u : upulse) :
  gen_validate_pulse_dmm (c_maxamp c) (c_maxdet c) (c_minavg c) (u_amax u) (u_avg u) (u_dabsmax u)
    (c_bottom c) (c_totbottom c) (u_dmax u) (u_dmin u) (fst w) (snd w)
  = validate_pulse_dmm c w u.
Proof.
  unfold gen_validate_pulse_dmm, validate_pulse_dmm. rewrite validate_pulse_eq.
  unfold rbind. destruct (validate_pulse c u) as [[]|er]; [|reflexivity].
  destruct (f_gt (f_round6 (u_dmax u)) zero); [reflexivity|].
  destruct (c_bottom c) as [b|]; [destruct (f_lt (fst w * f_round6 (u_dmin u)) b); [reflexivity|]|];
    (destruct (c_totbottom c) as [t|]; [destruct (f_lt (snd w * f_round6 (u_dmin u)) t); reflexivity|reflexivity]).
Qed.
