(** C16 - index and slice normalisation of Waveform.__getitem__
    ([_check_index], [_check_slice]) against CPython's list semantics. *)
From Coq Require Import ZArith List Bool Lia.
From PV Require Import Model.Base Model.Wave.
Import ListNotations.
Open Scope Z_scope.

Section Idx.
  (** ** T4: index and slice normalisation = Python list semantics *)

  (** CPython list_subscript / list_item *)
  Definition py_index (d i : Z) : option Z :=
    let j := if i <? 0 then i + d else i in
    if (j <? 0) || (d <=? j) then None else Some j.

  Theorem check_index_spec : forall d i,
      0 <= d ->
      check_index d i = match py_index d i with Some j => Ok j | None => Err EIndex end.
  Proof.
    intros d i Hd. unfold check_index, py_index.
    destruct (Z.ltb_spec i (- d)), (Z.leb_spec d i), (Z.ltb_spec i 0), (Z.leb_spec 0 i);
      simpl; try lia;
      repeat match goal with
             | |- context [?a <? ?b] => destruct (Z.ltb_spec a b)
             | |- context [?a <=? ?b] => destruct (Z.leb_spec a b)
             end; simpl; try lia; try reflexivity; f_equal; lia.
  Qed.

  Corollary check_index_range : forall d i j,
      0 <= d -> check_index d i = Ok j -> 0 <= j < d /\ (j = i \/ j = i + d).
  Proof.
    intros d i j Hd H. rewrite check_index_spec in H by auto. unfold py_index in H.
    destruct (Z.ltb_spec i 0);
      repeat match type of H with
             | context [?a <? ?b] => destruct (Z.ltb_spec a b)
             | context [?a <=? ?b] => destruct (Z.leb_spec a b)
             end; simpl in H; inversion H; lia.
  Qed.

  Ltac no_if t := lazymatch t with context [if _ then _ else _] => fail | _ => idtac end.
  Ltac split_ifs :=
    repeat match goal with
           | |- context [?a <? ?b] => no_if a; no_if b; destruct (Z.ltb_spec a b)
           | |- context [?a <=? ?b] => no_if a; no_if b; destruct (Z.leb_spec a b)
           end.

  (** CPython PySlice_AdjustIndices for step = 1 *)
  Definition py_adjust (d : Z) (o : option Z) (dflt : Z) : Z :=
    match o with
    | None => dflt
    | Some s =>
        if s <? 0 then (let s' := s + d in if s' <? 0 then 0 else s')
        else if d <=? s then d else s
    end.
  Definition py_slice {A} (l : list A) (start stop : option Z) : list A :=
    let d := Z.of_nat (length l) in
    let a := py_adjust d start 0 in
    let b := py_adjust d stop d in
    if a <? b then firstn (Z.to_nat (b - a)) (skipn (Z.to_nat a) l) else [].

  Theorem check_slice_spec : forall {A} (l : list A) start stop step,
      step = None \/ step = Some 1 ->
      exists a b,
        check_slice (Z.of_nat (length l)) start stop step = Ok (a, b) /\
        0 <= a <= b /\ b <= Z.of_nat (length l) /\
        sub_list l a b = py_slice l start stop.
  Proof.
    intros A l start stop step Hs.
    set (d := Z.of_nat (length l)). assert (Hd : 0 <= d) by (unfold d; lia).
    unfold check_slice, py_slice, sub_list. fold d.
    replace (match step with Some s => negb (s =? 1) | None => false end) with false
      by (destruct Hs; subst; reflexivity).
    unfold norm_bound, py_adjust.
    destruct start as [s|], stop as [e|]; split_ifs; try lia;
      (eexists; eexists; split; [reflexivity|]);
      (split; [lia|]); (split; [lia|]);
      first [ reflexivity
            | f_equal; [lia | f_equal; lia]
            | f_equal; try lia; f_equal; lia
            | match goal with
              | |- firstn ?n _ = [] => replace n with 0%nat by lia; reflexivity
              end ].
  Qed.

  Theorem check_slice_step : forall d start stop s,
      s <> 1 -> check_slice d start stop (Some s) = Err EIndex.
  Proof.
    intros. unfold check_slice. destruct (Z.eqb_spec s 1); [contradiction | reflexivity].
  Qed.

End Idx.
