(** The remaining schedule-level operations (add_pulse, add_target,
    enable_eom, disable_eom) only extend channel timelines and keep them
    tiled, clock-aligned and within the device's maximum duration. *)
From Coq Require Import ZArith List Bool Lia ZifyBool.
From Coq Require Import Uint63 FloatOps SpecFloat PrimFloat.
From PV Require Import Model.Base Model.Sched Proofs.SchedInv.
Import ListNotations.
Open Scope Z_scope.

Ltac inv H := inversion H; subst; clear H.
Tactic Notation "mbind" hyp(H) ident(s1) ident(a) ident(H1) :=
  apply bind_inv in H;
  let er := fresh "er" in
  destruct H as [(s1 & a & H1 & H) | (er & H1 & ->)].
Tactic Notation "mbindok" hyp(H) ident(s1) ident(a) ident(H1) :=
  apply bind_inv in H;
  let er := fresh "er" in
  let Hr := fresh "Hr" in
  destruct H as [(s1 & a & H1 & H) | (er & H1 & Hr)]; [|discriminate Hr].

Section WithEnv.
Variable e : env.
Notation chan_ok := (chan_ok e).
Notation sx := (sx e).
Notation safe := (safe e).
Notation fits := (fits e).

Lemma upd_chan_sx_any n g s :
  (forall c, chan_ext e c (g c)) -> sx s (upd_chan n g s).
Proof.
  intros Hg. induction s as [|a s IH]; cbn [upd_chan]; [constructor|].
  destruct (ch_name a =? n); constructor; auto; try apply chan_ext_refl; apply sx_refl.
Qed.

Lemma validate_duration_fixed g d :
  cfg_ok g -> c_min g <= d -> (c_clock g | d) ->
  forall d', validate_duration g d = Ok d' -> d' = d.
Proof.
  intros Hg Hm Hd d' H. apply validate_duration_spec in H; auto.
  destruct H as (_ & _ & _ & _ & H & _). auto.
Qed.

Lemma fits_cons c lst rest sl :
  ch_slots c = lst :: rest ->
  s_ti sl = s_tf lst -> s_ti sl <= s_tf sl -> (c_clock (ch_cfg c) | s_tf sl) ->
  len_ok (ch_cfg c) sl -> le_opt (s_tf sl) (en_max e) -> amp_ok (ch_cfg c) sl -> fits c sl.
Proof.
  intros Hs H1 H2 H3 H4 H5 H6. unfold SchedInv.fits. rewrite Hs. tauto.
Qed.

(** add_pulse *)
Lemma add_pulse_sx p n bs proto dp s s' r :
  Forall chan_ok s ->
  (forall c, find_chan n s = Some c -> pulse_fits (ch_cfg c) p) ->
  add_pulse e p n bs proto dp s = (s', r) -> sx s s'.
Proof.
  intros Hok Hp H. unfold add_pulse in H.
  mbind H s1 lst H1; apply last_slot_inv in H1; destruct H1 as [-> H1]; [|apply sx_refl].
  destruct H1 as (c & rest & Hc & Hs).
  mbind H s2 sl H2; apply (mnps_spec e) in H2; auto; destruct H2 as [-> H2]; [|apply sx_refl].
  destruct H2 as (c0 & lst0 & rest0 & dd & p' & Hc0 & Hs0 & Hk & Hd & Hpa & Hti & Htf & Htg & Hdd & Hb).
  rewrite Hc in Hc0. inv Hc0. rewrite Hs in Hs0. inv Hs0.
  specialize (Hb eq_refl).
  pose proof (find_chan_ok e _ _ _ Hok Hc) as (Hg & Ht & Hbd & _).
  destruct (Hp _ Hc) as (Pm & Pc & Pa). pose proof Hg as [Gc Gm].
  assert (Hamp : amp_ok (ch_cfg c0) sl).
  { unfold amp_ok. rewrite Hk. unfold pamp_ok in *. rewrite Hpa. exact Pa. }
  rewrite Hs in Ht. pose proof (tiled_head_tf _ _ _ Ht) as [Hn Hdv].
  assert (Hlen : len_ok (ch_cfg c0) sl).
  { unfold len_ok. rewrite Hk. lia. }
  replace (s_ti sl - s_tf lst0) with dd in H by lia.
  mbind H s3 u H3.
  - (* delay, then the pulse *)
    destruct (dd >? 0) eqn:Edd.
    + destruct u. pose proof H3 as H3'. apply add_delay_sx in H3; auto.
      apply add_delay_ok in H3'.
      destruct H3' as (c1 & lst1 & rest1 & d' & k & Hc1 & Hs1 & Hv & Hc3 & _).
      rewrite Hc in Hc1. inv Hc1. rewrite Hs in Hs1. inv Hs1.
      destruct Hdd as [->|[Hm Hcl]]; [lia|].
      apply validate_duration_fixed in Hv; auto. subst d'.
      eapply sx_trans; [exact H3|].
      replace s' with (fst (append_slot n sl s3)) by (rewrite H; reflexivity).
      eapply append_slot_sx; [exact Hc3|].
      eapply fits_cons; [unfold set_slots; cbn; reflexivity|cbn; lia|lia| |exact Hlen|exact Hb|exact Hamp].
      cbn. rewrite Htf, Hti. repeat apply Z.divide_add_r; auto.
    + apply ret_inv in H3. destruct H3 as [-> _].
      replace s' with (fst (append_slot n sl s)) by (rewrite H; reflexivity).
      eapply append_slot_sx; [exact Hc|].
      assert (dd = 0) by (destruct Hdd as [->|[Hm _]]; lia). subst dd.
      eapply fits_cons; [exact Hs|lia|lia| |exact Hlen|exact Hb|exact Hamp].
      rewrite Htf, Hti, Z.add_0_r. apply Z.divide_add_r; auto.
  - destruct (dd >? 0).
    + apply add_delay_sx in H3; auto.
    + apply ret_inv in H3. destruct H3 as [-> _]. apply sx_refl.
Qed.

(** add_target *)
Lemma safe_add_target qs n : safe (add_target e qs n).
Proof.
  intros s s' r Hok H. unfold add_target in H.
  mbind H s1 c H1; apply the_chan_inv in H1; destruct H1 as [-> Hc]; [|apply sx_refl].
  destruct (ch_slots c) as [|l0 r0] eqn:Hs.
  - mbind H s2 u H2; apply lift_inv in H2; destruct H2 as [-> H2]; [|apply sx_refl].
    replace s' with (fst (append_slot n {| s_kind := KTarget; s_ti := -1; s_tf := 0; s_tg := qs |} s))
      by (rewrite H; reflexivity).
    eapply append_slot_sx; [exact Hc|].
    unfold fits. rewrite Hs. split; [repeat split|]; cbn.
    destruct u. symmetry in H2. apply check_duration_ok in H2. split; [exact H2|exact I].
  - mbind H s2 u H2; [|eapply safe_wait_for_fall; eauto].
    pose proof H2 as Hw. apply safe_wait_for_fall in Hw; auto.
    assert (Hok2 : Forall chan_ok s2) by (eapply sx_ok; eauto).
    eapply sx_trans; [exact Hw|]. clear Hw.
    mbind H s3 lst H3; apply last_slot_inv in H3; destruct H3 as [-> H3]; [|apply sx_refl].
    destruct H3 as (c2 & rest & Hc2 & Hs2).
    mbind H s4 c3 H4; apply the_chan_inv in H4; destruct H4 as [-> H4]; [|apply sx_refl].
    rewrite Hc2 in H4. inv H4.
    destruct (list_Z_eqb (s_tg lst) qs).
    { apply ret_inv in H. destruct H as [-> _]. apply sx_refl. }
    pose proof (find_chan_ok e _ _ _ Hok2 Hc2) as (Hg & Ht & Hbd & _).
    rewrite Hs2 in Ht. pose proof (tiled_head_tf _ _ _ Ht) as [Hn Hdv].
    set (delta0 := Zclip (c_minret (ch_cfg c3) - (s_tf lst - last_target (ch_slots c3))) 0
                         (c_minret (ch_cfg c3))) in H.
    set (delta := if negb (c_fixret (ch_cfg c3) =? 0) then Z.max delta0 (c_fixret (ch_cfg c3))
                  else delta0) in H.
    mbind H s5 delta' H5.
    2:{ destruct (negb (delta =? 0)).
        - apply lift_inv in H5. destruct H5 as [-> _]. apply sx_refl.
        - apply ret_inv in H5. destruct H5 as [-> _]. apply sx_refl. }
    assert (Hd : s5 = s2 /\ (delta' = 0 \/ (c_min (ch_cfg c3) <= delta' /\ (c_clock (ch_cfg c3) | delta')))).
    { destruct (delta =? 0) eqn:E0; cbn [negb] in H5.
      - apply ret_inv in H5. destruct H5 as [-> H5]. inv H5. split; auto. left. lia.
      - apply lift_inv in H5. destruct H5 as [-> H5]. split; auto. right.
        symmetry in H5. apply adjust_duration_spec in H5; auto. tauto. }
    destruct Hd as [-> Hd].
    mbind H s6 u6 H6; apply lift_inv in H6; destruct H6 as [-> H6]; [|apply sx_refl].
    replace s' with (fst (append_slot n {| s_kind := KTarget; s_ti := s_tf lst;
                                           s_tf := s_tf lst + delta'; s_tg := qs |} s2))
      by (rewrite H; reflexivity).
    eapply append_slot_sx; [exact Hc2|].
    destruct u6. symmetry in H6. apply check_duration_ok in H6.
    destruct Hg as [Gc Gm].
    destruct Hd as [->|[Hm Hcl]].
    + eapply fits_cons; [exact Hs2|reflexivity|cbn; lia| | |exact H6|exact I].
      * cbn. rewrite Z.add_0_r; auto.
      * unfold len_ok; cbn. lia.
    + eapply fits_cons; [exact Hs2|reflexivity|cbn; lia| | |exact H6|exact I].
      * cbn. apply Z.divide_add_r; auto.
      * unfold len_ok; cbn. lia.
Qed.

(** enable_eom *)
Lemma set_eoms_sx n f s :
  sx s (upd_chan n (fun c => set_eoms c (f c)) s).
Proof. apply upd_chan_sx_any. intros c. apply eoms_ext. Qed.

Lemma safe_enable_eom n a d o skip : safe (enable_eom e n a d o skip).
Proof.
  intros s s' r Hok H. unfold enable_eom in H.
  mbind H s1 c H1; apply the_chan_inv in H1; destruct H1 as [-> Hc]; [|apply sx_refl].
  assert (Hfirst : forall s1 r1,
    (if negb (ch_duration c false =? 0)
     then (if negb skip then wait_for_fall e n else ret tt);;;
          (buf <- lift (adjust_duration (ch_cfg c) (eom_buffer_time (ch_cfg c)));;
           (if f_ne o zero
            then c1 <- the_chan n;;
                 (last <- last_slot n;;
                  add_pulse e (mk_buffer_pulse e n (s_tf last) buf (last_pulse_phase c1) o) n [0] 1 None)
            else add_delay e buf n))
     else ret tt) s = (s1, r1) -> sx s s1).
  { intros s1 r1 G. destruct (negb (ch_duration c false =? 0)).
    2:{ apply ret_inv in G. destruct G as [-> _]. apply sx_refl. }
    mbind G t1 u1 G1.
    2:{ destruct (negb skip).
        - eapply safe_wait_for_fall; eauto.
        - apply ret_inv in G1. destruct G1 as [-> _]. apply sx_refl. }
    assert (W : sx s t1).
    { destruct (negb skip).
      - eapply safe_wait_for_fall; eauto.
      - apply ret_inv in G1. destruct G1 as [-> _]. apply sx_refl. }
    assert (Hok1 : Forall chan_ok t1) by (eapply sx_ok; eauto).
    eapply sx_trans; [exact W|].
    mbind G t2 buf G2; apply lift_inv in G2; destruct G2 as [-> G2]; [|apply sx_refl].
    destruct (sx_find e _ _ _ _ W Hc) as (c' & Hc' & Hext).
    assert (Hcfg : ch_cfg c' = ch_cfg c) by (destruct Hext as (_ & _ & X & _); auto).
    pose proof (find_chan_ok e _ _ _ Hok1 Hc') as (Hg & _ & _ & Hca & _).
    symmetry in G2. rewrite <- Hcfg in G2. apply adjust_duration_spec in G2; auto.
    destruct G2 as (B1 & B2 & B3 & B4).
    destruct (f_ne o zero).
    - mbind G t3 c1 G3; apply the_chan_inv in G3; destruct G3 as [-> G3]; [|apply sx_refl].
      mbind G t4 lst G4; apply last_slot_inv in G4; destruct G4 as [-> G4]; [|apply sx_refl].
      eapply add_pulse_sx; [exact Hok1| |exact G].
      intros cc Hcc. rewrite Hc' in Hcc. inv Hcc.
      unfold pulse_fits, pamp_ok, mk_buffer_pulse, mk_dd_pulse, with_falls; cbn.
      split; [exact B1|split; [exact B3|exact Hca]].
    - eapply add_delay_sx; eauto. }
  mbind H s1 u1 H1; [|eapply Hfirst; eauto].
  apply Hfirst in H1. eapply sx_trans; [exact H1|].
  mbind H s2 lst H2; apply last_slot_inv in H2; destruct H2 as [-> H2]; [|apply sx_refl].
  inv H. apply set_eoms_sx.
Qed.

Lemma close_eom_ext c tf : chan_ext e c (close_eom c tf).
Proof.
  unfold close_eom. destruct (ch_eoms c); [apply chan_ext_refl|apply eoms_ext].
Qed.

Lemma safe_disable_eom n skip : safe (disable_eom e n skip).
Proof.
  intros s s' r Hok H. unfold disable_eom in H.
  mbind H s1 lst H1; apply last_slot_inv in H1; destruct H1 as [-> H1]; [|apply sx_refl].
  mbind H s2 u H2; [|inv H2].
  inv H2.
  set (s2 := upd_chan n (fun c => close_eom c (s_tf lst)) s) in *.
  assert (W : sx s s2) by (apply upd_chan_sx_any; intros; apply close_eom_ext).
  assert (Hok2 : Forall chan_ok s2) by (eapply sx_ok; eauto).
  eapply sx_trans; [exact W|].
  mbind H s3 c H3; apply the_chan_inv in H3; destruct H3 as [-> H3]; [|apply sx_refl].
  destruct (negb skip).
  2:{ apply ret_inv in H. destruct H as [-> _]. apply sx_refl. }
  destruct (c_eom (ch_cfg c)) as [ec|].
  - destruct (e_custom ec).
    + mbind H s4 buf H4; apply lift_inv in H4; destruct H4 as [-> H4]; [|apply sx_refl].
      eapply add_delay_sx; eauto.
    + eapply safe_wait_for_fall; eauto.
  - eapply safe_wait_for_fall; eauto.
Qed.

End WithEnv.
