(** C19 - the canonical (lexicographic, stable) sort of Model/TrapMap.v:
    it is a permutation of its input, its output is ascending, and the
    ascending arrangement is unique - hence independent of the input order.

    Everything is proved for an arbitrary scalar type whose [<] is a strict
    total order (irreflexive, transitive, and two scalars neither of which is
    below the other are equal).  Integers satisfy this (Proofs/TrapMapProps.v);
    IEEE doubles satisfy it except for [-0.0]/[0.0] and NaN. *)
From Coq Require Import ZArith List Bool Lia Permutation Sorted.
From PV Require Import Model.Base Model.TrapMap.
Import ListNotations.

Ltac case_if E :=
  match goal with |- context [if ?c then _ else _] => destruct c eqn:E end.

Section Sort.
  Variable N : Type.
  Variable nlt : N -> N -> bool.
  Hypothesis nlt_irrefl : forall a, nlt a a = false.
  Hypothesis nlt_trans : forall a b c, nlt a b = true -> nlt b c = true -> nlt a c = true.
  Hypothesis nlt_tri : forall a b, nlt a b = false -> nlt b a = false -> a = b.

  Notation coord := (list N).
  Notation clt := (clt N nlt).

  Lemma nlt_asym : forall a b, nlt a b = true -> nlt b a = false.
  Proof.
    intros a b H. destruct (nlt b a) eqn:E; auto.
    pose proof (nlt_trans a b a H E) as K. rewrite nlt_irrefl in K. discriminate.
  Qed.

  Lemma clt_irrefl : forall a, clt a a = false.
  Proof. induction a; simpl; auto. rewrite nlt_irrefl. auto. Qed.

  Lemma clt_trans : forall a b c, clt a b = true -> clt b c = true -> clt a c = true.
  Proof.
    induction a as [|x a IH]; intros b c Hab Hbc; simpl in *; try discriminate.
    destruct b as [|y b]; try discriminate.
    destruct c as [|z c]; simpl in *; try discriminate.
    destruct (nlt x y) eqn:Exy.
    - destruct (nlt y z) eqn:Eyz.
      + rewrite (nlt_trans _ _ _ Exy Eyz). auto.
      + destruct (nlt z y) eqn:Ezy; try discriminate.
        assert (y = z) by (apply nlt_tri; auto). subst. rewrite Exy. auto.
    - destruct (nlt y x) eqn:Eyx; try discriminate.
      assert (x = y) by (apply nlt_tri; auto). subst.
      destruct (nlt y z) eqn:Eyz; auto.
      destruct (nlt z y) eqn:Ezy; try discriminate.
      eapply IH; eauto.
  Qed.

  Lemma clt_asym : forall a b, clt a b = true -> clt b a = false.
  Proof.
    intros a b H. destruct (clt b a) eqn:E; auto.
    pose proof (clt_trans _ _ _ H E) as K. rewrite clt_irrefl in K. discriminate.
  Qed.

  (** trichotomy, for coordinates of the same dimension *)
  Lemma clt_tri : forall a b, length a = length b -> clt a b = false -> clt b a = false -> a = b.
  Proof.
    induction a as [|x a IH]; intros [|y b] L H1 H2; simpl in *; try discriminate; auto.
    destruct (nlt x y) eqn:Exy; try discriminate.
    destruct (nlt y x) eqn:Eyx; try discriminate.
    assert (x = y) by (apply nlt_tri; auto). subst. f_equal. apply IH; auto.
  Qed.

  (** ** Sorting coordinates with a payload *)
  Section Payload.
    Variable A : Type.
    Variable d : nat.                       (* the common dimension *)
    Notation elt := (coord * A)%type.
    Definition lep (x y : elt) : Prop := clt (fst y) (fst x) = false.
    Definition dimok (x : elt) : Prop := length (fst x) = d.

    Lemma lep_trans : forall x y z, dimok x -> dimok y -> dimok z ->
      lep x y -> lep y z -> lep x z.
    Proof.
      unfold lep, dimok. intros x y z Dx Dy Dz Hxy Hyz.
      destruct (clt (fst z) (fst x)) eqn:E; auto.
      (* z < x ; not y < x ; not z < y *)
      destruct (clt (fst x) (fst y)) eqn:Exy.
      - (* x < y, z < x -> z < y *)
        rewrite (clt_trans _ _ _ E Exy) in Hyz. discriminate.
      - assert (fst x = fst y) by (apply clt_tri; auto; congruence).
        rewrite H in E. congruence.
    Qed.

    Lemma insert_p_perm : forall (x : elt) l, Permutation (insert_p N nlt x l) (x :: l).
    Proof.
      induction l as [|y r IH]; simpl; auto.
      case_if E; auto.
      eapply perm_trans; [apply perm_skip, IH | apply perm_swap].
    Qed.

    Lemma sort_p_perm : forall (l : list elt), Permutation (sort_p N nlt l) l.
    Proof.
      induction l as [|x r IH]; simpl; auto.
      eapply perm_trans; [apply insert_p_perm | apply perm_skip, IH].
    Qed.

    Lemma insert_p_sorted : forall (x : elt) l,
      dimok x -> Forall dimok l -> StronglySorted lep l -> StronglySorted lep (insert_p N nlt x l).
    Proof.
      induction l as [|y r IH]; intros Dx Dl S; simpl.
      - constructor; constructor.
      - inversion Dl as [|? ? Dy Dr]; subst. inversion S as [|? ? Sr Fy]; subst.
        case_if E.
        + constructor; auto.
          eapply Permutation_Forall; [apply Permutation_sym, insert_p_perm|].
          constructor; auto. unfold lep. apply clt_asym. auto.
        + constructor; auto. constructor; auto.
          rewrite Forall_forall in *. intros z Hz.
          eapply lep_trans with (y := y); auto; apply Fy; auto.
    Qed.

    Lemma sort_p_sorted : forall (l : list elt), Forall dimok l -> StronglySorted lep (sort_p N nlt l).
    Proof.
      induction l as [|x r IH]; intros D; simpl.
      - constructor.
      - inversion D; subst. apply insert_p_sorted; auto.
        eapply Permutation_Forall; [apply Permutation_sym, sort_p_perm | auto].
    Qed.

    (** the ascending arrangement of a list is unique when equal keys carry
        equal payloads *)
    Lemma sorted_unique : forall (l l' : list elt),
      (forall x y, In x l -> In y l -> fst x = fst y -> x = y) ->
      Forall dimok l ->
      StronglySorted lep l -> StronglySorted lep l' -> Permutation l l' -> l = l'.
    Proof.
      induction l as [|a l IH]; intros l' Hk D S S' P.
      - apply Permutation_nil in P. auto.
      - destruct l' as [|b l']; [apply Permutation_sym, Permutation_nil in P; discriminate|].
        inversion S as [|? ? Sl Fa]; subst. inversion S' as [|? ? Sl' Fb]; subst.
        inversion D as [|? ? Da Dl]; subst.
        assert (Hab : a = b).
        { assert (Ia : In a (b :: l')) by (eapply Permutation_in; [exact P | left; auto]).
          assert (Ib : In b (a :: l)) by (eapply Permutation_in; [apply Permutation_sym; exact P | left; auto]).
          destruct Ia as [Ia|Ia]; auto. destruct Ib as [Ib|Ib]; auto.
          rewrite Forall_forall in Fa, Fb.
          pose proof (Fa _ Ib) as H1. pose proof (Fb _ Ia) as H2. unfold lep in *.
          assert (Db : dimok b) by (rewrite Forall_forall in Dl; apply Dl; auto).
          apply Hk; [left; auto | right; auto |].
          apply clt_tri; auto. unfold dimok in *. congruence. }
        subst b. f_equal. apply IH; auto.
        + intros; apply Hk; auto; right; auto.
        + eapply Permutation_cons_inv; eauto.
    Qed.

    Theorem sort_p_perm_invariant : forall (l l' : list elt),
      Permutation l l' ->
      Forall dimok l ->
      (forall x y, In x l -> In y l -> fst x = fst y -> x = y) ->
      sort_p N nlt l = sort_p N nlt l'.
    Proof.
      intros l l' P D Hk.
      assert (D' : Forall dimok l') by (eapply Permutation_Forall; eauto).
      apply sorted_unique.
      - intros x y Hx Hy. apply Hk; eapply Permutation_in; try apply sort_p_perm; auto.
      - eapply Permutation_Forall; [apply Permutation_sym, sort_p_perm | auto].
      - apply sort_p_sorted; auto.
      - apply sort_p_sorted; auto.
      - eapply perm_trans; [apply sort_p_perm|].
        eapply perm_trans; [exact P | apply Permutation_sym, sort_p_perm].
    Qed.
  End Payload.

  (** ** Sorting bare coordinates is sorting with a trivial payload *)
  Lemma insert_c_fst : forall A (x : coord * A) l,
    map fst (insert_p N nlt x l) = insert_c N nlt (fst x) (map fst l).
  Proof.
    induction l as [|y r IH]; simpl; auto.
    unfold TrapMap.coord in *.
    case_if E; simpl; auto. rewrite IH. auto.
  Qed.

  Lemma sort_c_fst : forall A (l : list (coord * A)),
    map fst (sort_p N nlt l) = sort_c N nlt (map fst l).
  Proof.
    induction l as [|x r IH]; simpl; auto.
    rewrite insert_c_fst, IH. auto.
  Qed.

  Definition tag (l : list coord) : list (coord * unit) := map (fun c => (c, tt)) l.

  Lemma tag_fst : forall l, map fst (tag l) = l.
  Proof. induction l; simpl; auto. rewrite IHl. auto. Qed.

  Lemma sort_c_tag : forall l, sort_c N nlt l = map fst (sort_p N nlt (tag l)).
  Proof. intros. rewrite sort_c_fst, tag_fst. auto. Qed.

  Lemma sort_c_perm : forall l, Permutation (sort_c N nlt l) l.
  Proof.
    intros. rewrite sort_c_tag. rewrite <- (tag_fst l) at 2.
    apply Permutation_map. apply sort_p_perm.
  Qed.

  Definition lec (a b : coord) : Prop := clt b a = false.

  Lemma sort_c_sorted : forall d l, Forall (fun c => length c = d) l ->
    StronglySorted lec (sort_c N nlt l).
  Proof.
    intros d l D. rewrite sort_c_tag.
    assert (S : StronglySorted (lep unit) (sort_p N nlt (tag l))).
    { apply sort_p_sorted with (d := d). unfold tag. rewrite Forall_map. simpl. exact D. }
    revert S. generalize (sort_p N nlt (tag l)).
    induction l0 as [|x r IH]; intros S; simpl; constructor; inversion S; subst; auto.
    rewrite Forall_map. eapply Forall_impl; [|eauto]. intros a H. exact H.
  Qed.

  Theorem sort_c_perm_invariant : forall d l l',
    Permutation l l' -> Forall (fun c => length c = d) l -> sort_c N nlt l = sort_c N nlt l'.
  Proof.
    intros d l l' P D. rewrite !sort_c_tag. f_equal.
    apply sort_p_perm_invariant with (d := d).
    - unfold tag. apply Permutation_map. auto.
    - unfold tag. rewrite Forall_map. simpl. exact D.
    - intros [a []] [b []] _ _ H. simpl in H. subst. auto.
  Qed.

  (** ascending and duplicate-free = strictly ascending *)
  Lemma sorted_nodup_strict : forall d l,
    Forall (fun c => length c = d) l -> NoDup l -> StronglySorted lec l ->
    StronglySorted (fun a b => clt a b = true) l.
  Proof.
    induction l as [|a r IH]; intros D ND S; constructor.
    - inversion D; inversion ND; inversion S; subst; auto.
    - inversion D as [|? ? Da Dr]; inversion ND as [|? ? Na NDr]; inversion S as [|? ? Sr Fa]; subst.
      rewrite Forall_forall in *. intros b Hb.
      destruct (clt a b) eqn:E; auto.
      assert (a = b).
      { apply clt_tri; auto. symmetry. apply Dr; auto. apply Fa; auto. }
      subst. contradiction.
  Qed.
End Sort.
